"""C04, last sentence: "Pointers handed out by RCU containers (raw_ptr, exempt_ptr) stay valid until released outside
the lock."

run_rawptr(ctx) builds harness/C04/rawptr_main.cpp (hook on, against the repository working tree, VERIF_REPO honoured by
vcheck), generates client programs x schedules from ctx.rng for the real intrusive RCU containers
    0 MichaelList/general_instant   1 MichaelList/general_buffered   2 LazyList/gpb   3 SkipListSet/gpb   4 EllenBinTree/gpb
    5 LazyList/gpi                  6 SkipListSet/gpi                7 EllenBinTree/gpi
runs them under the deterministic scheduler and evaluates the monitor line the harness prints per case (see the head
of the harness for the monitors).  There is no model behind this part: it is a search for a concrete failing schedule.

Standalone:  python3 checks/C04_rawptr.py [--tier quick|thorough] [--seed N] [--kinds 0,1,...] [--per-kind N] [--replay FILE]
"""
import os, sys, json, time, subprocess, hashlib

_HERE = os.path.dirname(os.path.abspath(__file__))
if __name__ == "__main__":
    sys.path.insert(0, os.path.join(os.path.dirname(_HERE), "lib")); sys.path.insert(0, _HERE)
import vcheck, conc_check

KINDS = {0: "MichaelList-gpi", 1: "MichaelList-gpb", 2: "LazyList-gpb", 3: "SkipListSet-gpb", 4: "EllenBinTree-gpb",
         5: "LazyList-gpi", 6: "SkipListSet-gpi", 7: "EllenBinTree-gpi"}
HAS_RAW_PTR_CLASS = (0, 1, 3, 6)       # the others return value_type* from get()
OPN = {1: "insert", 2: "erase", 3: "find_f", 4: "GET", 5: "GET2", 6: "EXTRACT", 7: "XDEREF", 8: "XRELEASE", 9: "contains", 11: "erase_f", 12: "GETHOLD", 13: "HRELEASE"}
NKEYS = 4

WHAT_TEXT = {
    "disposed_while_referenced_rawfound": "the disposer ran for the node a raw_ptr points to while the section that obtained it was still open",
    "disposed_while_referenced_rawchain": "the disposer ran for a node of a raw_ptr's reclaimed chain before raw_ptr::release()",
    "disposed_while_referenced_exempt": "the disposer ran for an extracted node before exempt_ptr::release()",
    "disposed_while_reader_inside": "the disposer ran for a node while a reader that found it was still using it inside its read-side section",
    "dispose_inside_section": "the disposer was executed by a thread that was itself inside a read-side section (retire/dispose under the lock)",
    "disposed_twice": "the disposer ran twice for the same node",
    "disposed_never_inserted": "the disposer ran for a node that was never linked into the container",
    "not_disposed_exactly_once": "after clear(), the container's destructor and synchronize() some node was not disposed exactly once",
    "combine_lost_chain_nodes": "raw_ptr move-assignment lost or duplicated nodes of the combined reclaimed chains",
    "timeout": "the case did not finish (deadlock / livelock): step bound or time limit exceeded",
    "crash": "the harness crashed while running the case",
}


# ------------------------------------------------------------------------------------------------
# generators (everything from the one splitmix64 stream)

def gen_sched(rng, n, kind):
    if kind == 0:      # uniform
        return [rng.below(n) for _ in range(40 + rng.below(500))]
    if kind == 1:      # bursty: long runs with few switches
        s = []
        for _ in range(3 + rng.below(14)):
            s += [rng.below(n)] * (1 + rng.below(60))
        return s
    if kind == 2:      # run one thread to a chosen step, then another one for long, then mix
        a = rng.below(n); b = rng.below(n)
        return [a] * (3 + rng.below(70)) + [b] * (10 + rng.below(200)) + [rng.below(n) for _ in range(60)]
    # kind 3: a thread is stopped at a chosen step (inside its section / between unlink and retire) while another one
    # runs whole operations; repeated a few times with short steps of the first in between
    a = rng.below(n); b = (a + 1 + rng.below(max(1, n - 1))) % n
    s = [a] * (4 + rng.below(60))
    for _ in range(2 + rng.below(4)):
        s += [b] * (10 + rng.below(120)) + [a] * (1 + rng.below(6))
    return s + [rng.below(n) for _ in range(40)]


OP_WEIGHTS = [("insert", 3), ("erase", 4), ("erase_f", 1), ("find_f", 3), ("contains", 1), ("GET", 4), ("GET2", 2), ("GETHOLD", 2), ("HRELEASE", 1),
              ("EXTRACT", 3), ("XDEREF", 1), ("XRELEASE", 1)]


def gen_thread(rng, nops):
    ops = []
    tot = sum(w for _, w in OP_WEIGHTS)
    for _ in range(nops):
        r = rng.below(tot)
        for name, w in OP_WEIGHTS:
            if r < w:
                break
            r -= w
        k = rng.below(NKEYS)
        if name == "insert":
            ops.append([1, k, rng.below(3)])
        elif name == "erase":
            ops.append([2, k])
        elif name == "erase_f":
            ops.append([11, k])
        elif name == "find_f":
            ops.append([3, k])
        elif name == "contains":
            ops.append([9, k])
        elif name == "GET":
            ops.append([4, k])
        elif name == "GET2":
            ops.append([5, k, rng.below(NKEYS)])
        elif name == "GETHOLD":
            ops.append([12, k])
        elif name == "HRELEASE":
            ops.append([13])
        elif name == "EXTRACT":
            ops.append([6, k])
        elif name == "XDEREF":
            ops.append([7])
        elif name == "XRELEASE":
            ops.append([8])
    return ops


def gen_help_case(rng, kind, cid):
    """aimed at the reclaimed chain of a raw_ptr: thread 0 starts with an erase and is stopped after s steps (s swept: at
    some s it has marked the node but not yet unlinked it), then thread 1 runs a get() whose traversal passes the marked
    node, unlinks it (helping) and takes it into the raw_ptr's chain"""
    c = gen_case(rng, kind, cid)
    c["cfg"][1] |= (1 << NKEYS) - 1 if rng.chance(2, 3) else 0
    k = rng.below(NKEYS)
    k2 = k + rng.below(NKEYS - k)
    c["threads"][0][0] = rng.choice([[2, k], [2, k], [11, k]])
    c["threads"][1][0] = rng.choice([[4, k2], [4, k2], [12, k2], [5, k2, rng.below(NKEYS)], [5, rng.below(NKEYS), k2]])
    n = len(c["threads"])
    s = [0] * (1 + rng.below(40)) + [1] * (20 + rng.below(200))
    if rng.chance(1, 2):        # a second erase is stopped in the same way: chains of length 2 / combined chains
        k3 = rng.below(NKEYS)
        c["threads"][0].insert(1, [2, k3])
        s += [0] * (1 + rng.below(60)) + [1] * (20 + rng.below(200))
        c["threads"][1].insert(1, rng.choice([[12, NKEYS - 1], [4, NKEYS - 1], [5, k3, NKEYS - 1]]))
    c["sched"] = s + [rng.below(n) for _ in range(60)]
    return c


def gen_reader_case(rng, kind, cid):
    """aimed at the found node: thread 0 starts with find/get of key k and is stopped after s steps (s swept: at some s it
    is in the middle of using the node it found, inside its section), then thread 1 removes k (erase, or extract + release)
    and runs on; a grace period has to keep the disposer away until thread 0 leaves its section"""
    c = gen_case(rng, kind, cid)
    k = rng.below(NKEYS)
    c["cfg"][1] |= 1 << k
    c["threads"][0][0] = rng.choice([[3, k], [4, k], [5, rng.below(NKEYS), k], [5, k, k], [12, k]])
    w = rng.choice([[[2, k]], [[11, k]], [[6, k], [8]], [[6, k], [6, rng.below(NKEYS)]], [[6, k], [7], [8]]])
    c["threads"][1][0:1] = w
    n = len(c["threads"])
    c["sched"] = [0] * (1 + rng.below(34)) + [1] * (40 + rng.below(200)) + [rng.below(n) for _ in range(60)]
    return c


def gen_case(rng, kind, cid):
    n = 2 + rng.below(2)
    mask = 0
    for k in range(NKEYS):
        if rng.chance(3, 4):
            mask |= 1 << k
    heights = [rng.below(3) for _ in range(NKEYS)]
    threads = [gen_thread(rng, 2 + rng.below(5)) for _ in range(n)]
    return {"id": cid, "cfg": [kind, mask] + heights, "threads": threads, "sched": gen_sched(rng, n, rng.below(4))}


# ------------------------------------------------------------------------------------------------
# running

def parse_mon(extra):
    """-> (status, what, fields) from the `MON ...` line; status in ok|VIOLATION|HANG|None"""
    for x in extra:
        t = x.split()
        if len(t) >= 2 and t[0] == "MON":
            status = t[1]
            what = t[2] if status == "VIOLATION" and len(t) > 2 else None
            f = {}
            for tok in t[2:]:
                if "=" in tok:
                    a, b = tok.split("=", 1)
                    try:
                        f[a] = int(b)
                    except ValueError:
                        f[a] = b
            return status, what, f
    return None, None, {}


def run_chunk(exe, cases, path, timeout, full=False):
    """one process for the chunk; a case that hangs (watchdog: exit 3) or crashes the harness loses nothing but itself:
    the rest of the chunk is run again in a new process.  -> {id: parsed log}, {id: "hang"|"crash rc"}"""
    logs = {}
    broken = {}
    todo = list(cases)
    rnd = 0
    while todo:
        f = "%s.%d.txt" % (path, rnd)
        conc_check.write_cases(f, todo)
        try:
            p = subprocess.run([exe, f] + (["full"] if full else []), stdout=subprocess.PIPE, stderr=subprocess.STDOUT, timeout=timeout, text=True, errors="replace")
            rc, out = p.returncode, p.stdout
        except subprocess.TimeoutExpired as ex:
            out = ex.stdout or ""
            if isinstance(out, bytes):
                out = out.decode(errors="replace")
            rc = 124
        got = conc_check.parse_logs(out)
        nxt = []
        culprit = None
        for c in todo:
            g = got.get(c["id"])
            if culprit is not None:
                nxt.append(c)
            elif g is not None and g["end"] in ("finished", "fuel") and parse_mon(g["extra"])[0] is not None:
                logs[c["id"]] = g
            else:
                culprit = c
                broken[c["id"]] = "hang" if (g is not None and g["end"] == "hang") or rc == 124 else "crash rc=%s: %s" % (rc, out[-300:])
        todo = nxt
        rnd += 1
    return logs, broken


def run_cases(exe, cases, workdir, tag, nproc=None, timeout=300, full=False):
    import concurrent.futures
    nproc = max(1, min(nproc or vcheck.NCPU, 16, (len(cases) + 7) // 8))
    chunks = [cases[k::nproc] for k in range(nproc)]
    logs = {}; broken = {}
    with concurrent.futures.ThreadPoolExecutor(max_workers=nproc) as ex:
        futs = [ex.submit(run_chunk, exe, ch, os.path.join(workdir, "%s_%d" % (tag, k)), timeout, full) for k, ch in enumerate(chunks) if ch]
        for fu in futs:
            l, b = fu.result()
            logs.update(l); broken.update(b)
    return logs, broken


def aim_help_cases(exe, cases, rng, workdir):
    """Probe run (thread 0 alone first, access log on): find the steps at which thread 0 has just marked a node as deleted
    (successful CAS old -> old|1 on a next pointer) and stop it exactly there in the real case, so that the get() of
    thread 1 meets a marked, still linked node.  Returns the number of cases aimed."""
    probes = [dict(c, sched=[0] * 3000) for c in cases]
    logs, _ = run_cases(exe, probes, workdir, "probe", full=True)
    aimed = 0
    for c in cases:
        g = logs.get(c["id"])
        if g is None:
            continue
        j = 0; marks = []
        for l in g["lines"]:
            t = l.split(" ")
            if t[0] != "0" or len(t) < 2 or t[1] in ("ev", "begin"):
                continue
            j += 1          # j-th atomic access of thread 0; it is executed by thread 0's step number j+1 (step 1 = begin)
            if t[1] == "cas" and len(t) >= 6 and t[3] == "1" and t[4].startswith("p") and t[5].startswith("p"):
                a, ab = t[4].split("."); b, bb = t[5].split(".")
                if a == b and int(ab) % 2 == 0 and int(bb) % 2 == 1:
                    marks.append(j)
        if not marks:
            continue
        m = rng.choice(marks)
        n = len(c["threads"])
        c["sched"] = [0] * (m + 1) + [1] * (40 + rng.below(200)) + [rng.below(n) for _ in range(80)]
        c["aimed_after_access"] = m
        aimed += 1
    return aimed


def build(ctx):
    return vcheck.cxx_build(os.path.join(vcheck.VERIF, "harness/C04/rawptr_main.cpp"), os.path.join(ctx.work, "h_rawptr", "rawptr"), hook=True)


def run_rawptr(ctx, kinds=None, per_kind=None, stop_at_first=False):
    """-> coverage dict.  Violations are reported through ctx.violation (signature C04-rawptr-<what>-<kind name>)."""
    if ctx is None:
        raise RuntimeError("run_rawptr needs a check context")
    t0 = time.time()
    exe = build(ctx)
    workdir = os.path.join(ctx.work, "h_rawptr")
    kinds = list(kinds) if kinds is not None else sorted(KINDS)
    thorough = getattr(ctx, "tier", "quick") == "thorough"
    per_kind = per_kind or (500 if thorough else 50)
    replay = getattr(ctx, "replay", None)
    if replay:
        rep = json.load(open(replay))
        if rep.get("harness") != "rawptr":
            return {"skipped": "replay file belongs to another part of C04"}
        cases = [rep["case"]]
    else:
        cases = []
        for kind in kinds:
            for i in range(per_kind):
                if i % 4 == 1:
                    cases.append(gen_reader_case(ctx.rng, kind, "s%d_%d" % (kind, i)))
                elif i % 4 == 3 and kind in HAS_RAW_PTR_CLASS:
                    cases.append(gen_help_case(ctx.rng, kind, "h%d_%d" % (kind, i)))
                else:
                    cases.append(gen_case(ctx.rng, kind, "r%d_%d" % (kind, i)))
    aimed = 0
    if not replay:
        aimed = aim_help_cases(exe, [c for c in cases if c["id"].startswith("h")], ctx.rng, workdir)
    logs, broken = run_cases(exe, cases, workdir, "rp")

    cov = {"cases": len(cases), "per_kind": {}, "timeouts": 0, "fuel": 0, "crashes": 0, "violations": 0, "violation_kinds": {}, "monitors_fired_cases": {},
           "disposer_calls": 0, "disposer_calls_during_run": 0, "rawptr_nonempty_cases": 0, "rawptr_found": 0, "exempt_extractions": 0, "exempt_cases": 0,
           "cases_disposer_ran_while_other_item_referenced": 0, "chain_len_max": 0, "cases_chain_nonempty": 0, "chain_nodes": 0,
           "chains_combined": 0, "held_slots": 0, "use_checks": 0, "comparator_checks": 0, "steps": 0, "op_histogram": {}, "first_violation_case_index": None}
    first_by_sig = {}
    for idx, c in enumerate(cases):
        kind = c["cfg"][0]; kn = KINDS.get(kind, str(kind))
        pk = cov["per_kind"].setdefault(kn, {"cases": 0, "rawptr_nonempty": 0, "exempt": 0, "disposed": 0, "disposed_in_run": 0, "chain_nonempty": 0, "chain_len_max": 0,
                                             "disp_while_other_ref": 0, "violations": 0, "timeouts": 0})
        pk["cases"] += 1
        for th in c["threads"]:
            for op in th:
                n = OPN.get(op[0], "?"); cov["op_histogram"][n] = cov["op_histogram"].get(n, 0) + 1
        what = None; f = {}; events = []
        if c["id"] in broken:
            b = broken[c["id"]]
            what = "timeout" if b == "hang" else "crash"
            f = {"detail": b}
        else:
            g = logs[c["id"]]
            events = g["lines"]
            status, w, f = parse_mon(g["extra"])
            if g["end"] == "fuel":
                what = "timeout"; cov["fuel"] += 1
                f = dict(f, detail="step bound of the scheduler exceeded")
            elif status == "VIOLATION":
                what = w
            for kv in str(f.get("kinds", "")).split(","):       # every monitor that fired in this case (reported: the first one)
                if ":" in kv:
                    cov["monitors_fired_cases"][kv.split(":")[0]] = cov["monitors_fired_cases"].get(kv.split(":")[0], 0) + 1
            cov["disposer_calls"] += f.get("disposed", 0); cov["disposer_calls_during_run"] += f.get("disposed_in_run", 0)
            pk["disposed"] += f.get("disposed", 0); pk["disposed_in_run"] += f.get("disposed_in_run", 0)
            cov["rawptr_found"] += f.get("rawfound", 0)
            if f.get("rawfound", 0) > 0:
                cov["rawptr_nonempty_cases"] += 1; pk["rawptr_nonempty"] += 1
            cov["exempt_extractions"] += f.get("exempt", 0); pk["exempt"] += f.get("exempt", 0)
            if f.get("exempt", 0) > 0:
                cov["exempt_cases"] += 1
            if f.get("disp_other_ref", 0) > 0:
                cov["cases_disposer_ran_while_other_item_referenced"] += 1; pk["disp_while_other_ref"] += 1
            cov["chain_len_max"] = max(cov["chain_len_max"], f.get("chain_len_max", 0)); pk["chain_len_max"] = max(pk["chain_len_max"], f.get("chain_len_max", 0))
            if f.get("chain_len_max", 0) > 0:
                cov["cases_chain_nonempty"] += 1; pk["chain_nonempty"] += 1
            cov["chain_nodes"] += f.get("chain_nodes", 0); cov["chains_combined"] += f.get("combined", 0); cov["held_slots"] += f.get("held_slots", 0)
            cov["use_checks"] += f.get("held_checks", 0); cov["comparator_checks"] += f.get("cmp_checks", 0); cov["steps"] += f.get("steps", 0)
        if what is None:
            continue
        if what == "timeout":
            cov["timeouts"] += 1; pk["timeouts"] += 1
        elif what == "crash":
            cov["crashes"] += 1
        cov["violations"] += 1; pk["violations"] += 1
        cov["violation_kinds"][what] = cov["violation_kinds"].get(what, 0) + 1
        if cov["first_violation_case_index"] is None:
            cov["first_violation_case_index"] = idx
        sig = "C04-rawptr-%s-%s" % (what, kn)
        if sig in first_by_sig:
            continue
        first_by_sig[sig] = idx
        # does the case fail on its own (fresh process)?  RCU singletons live across the cases of one process
        alone = None
        if not replay:
            l2, b2 = run_cases(exe, [c], workdir, "alone%d" % idx, nproc=1, timeout=60)
            if c["id"] in b2:
                alone = "hang/crash"
            else:
                s2, w2, _ = parse_mon(l2[c["id"]]["extra"])
                alone = w2 if s2 == "VIOLATION" else ("fuel" if l2[c["id"]]["end"] == "fuel" else "ok")
        text = "%s (%s): %s" % (KINDS.get(kind, kind), what, WHAT_TEXT.get(what, "a pointer handed out by the container was used after its disposer ran"
                                                                           if what.startswith("use_after_dispose") else what))
        ctx.violation("raw_ptr/exempt_ptr of RCU containers: " + text,
                      {"harness": "rawptr", "kind": kn, "what": what, "case": c, "case_index": idx, "monitor": f, "events": events[-80:],
                       "alone_in_fresh_process": alone, "ops": [[OPN.get(op[0], "?")] + op[1:] for th in c["threads"] for op in th]},
                      signature=sig)
        if stop_at_first:
            break
    cov["help_cases_aimed_at_a_marked_node"] = aimed
    cov["wall_s"] = round(time.time() - t0, 1)
    cov["kinds"] = [KINDS[k] for k in kinds if k in KINDS]
    cov["rule"] = ("2-3 threads x 2-6 ops (insert, erase, erase_f, find_f, contains, GET, GET2 (raw_ptr move-assign/combine), GETHOLD/HRELEASE (raw_ptr kept "
                   "outside the lock), EXTRACT/XDEREF/XRELEASE) over keys 0..3, prefilled container; uniform / bursty / run-to-a-point-then-switch / "
                   "stalled-thread schedules")
    if not replay and cases:
        cov["samples"] = cases[:2]
    return cov


# ------------------------------------------------------------------------------------------------
# standalone

class _Ctx:
    """minimal stand-in for vcheck.Ctx (nothing is written under /verif except the shared build cache of vcheck)"""
    def __init__(self, tier, seed, work, replay=None):
        self.id = "C04"; self.tier = tier; self.seed = seed; self.replay = replay
        self.rng = vcheck.SplitMix64(seed)
        self.work = work
        os.makedirs(work, exist_ok=True)
        self.violations = []; self.coverage = {}
        self.t0 = time.time()

    def thorough(self):
        return self.tier == "thorough"

    def log(self, *a):
        print("[C04-rawptr %6.1fs]" % (time.time() - self.t0), *a, flush=True)

    def violation(self, what, replay_obj, signature=None, no_input=False):
        h = hashlib.sha256(json.dumps(replay_obj, sort_keys=True, default=str).encode()).hexdigest()[:12]
        path = os.path.join(self.work, "replay-%s.json" % h)
        with open(path, "w") as f:
            json.dump(dict(replay_obj, what_text=what, signature=signature, seed=self.seed), f, indent=1, default=str)
        print("VIOLATION property=C04 %s\n    signature=%s replay=%s" % (what, signature, path), flush=True)
        self.violations.append((what, signature, path))


def main():
    import argparse
    ap = argparse.ArgumentParser()
    ap.add_argument("--tier", default="quick", choices=["quick", "thorough"])
    ap.add_argument("--seed", type=int, default=int(os.environ.get("VERIF_SEED") or "1"))
    ap.add_argument("--kinds", default=None)
    ap.add_argument("--per-kind", type=int, default=None)
    ap.add_argument("--replay", default=None)
    ap.add_argument("--work", default=None)
    a = ap.parse_args()
    work = a.work or os.path.join("/tmp", "C04_rawptr-" + hashlib.sha256(vcheck.REPO.encode()).hexdigest()[:8])
    ctx = _Ctx(a.tier, a.seed, work, a.replay)
    kinds = [int(x) for x in a.kinds.split(",")] if a.kinds else None
    try:
        cov = run_rawptr(ctx, kinds=kinds, per_kind=a.per_kind)
    except vcheck.BuildError as e:
        print(str(e)[-3000:]); print("BUILD FAILED"); return 2
    cov.pop("samples", None)
    print(json.dumps(cov, indent=1))
    print("violations reported: %d   wall %.1fs" % (len(ctx.violations), time.time() - ctx.t0))
    return 1 if ctx.violations else 0


if __name__ == "__main__":
    sys.exit(main())
