"""C25 -- bit-manipulation helpers are correct for every input (DESIGN.md section 7, C25).

1. regenerate coq/Gen/Gen_{bit_reversal,bitop,int_algo,split}.v from $VERIF_REPO with tools/cxx2v,
2. build Properties/Properties_C25.v (theorems about the generated definitions, for every input),
3. differential sweep: the functions compiled from $VERIF_REPO vs the OCaml extraction of the generated
   Gallina on the same structured inputs (cross-check of the translator), plus the compiled functions vs
   independent naive references (harness/C25/sweep.cpp) -- the latter is what finds a concrete failing input
   when a proof obligation, the translation, or the correspondence breaks.
"""
import collections, glob, hashlib, json, os, re, shutil, subprocess, sys, time
import vcheck

UNITS = ["bit_reversal", "bitop", "int_algo", "split"]
NPARTS = min(16, vcheck.NCPU)


def _units_present():
    spec = json.load(open(os.path.join(vcheck.VERIF, "tools", "cxx2v", "units.json")))["units"]
    return [u["name"] for u in spec if u["name"] in UNITS]


def _run_parallel(cmds, timeout):
    procs = [subprocess.Popen(c, stdout=subprocess.PIPE, stderr=subprocess.STDOUT, text=True) for c in cmds]
    res = []
    t_end = time.time() + timeout
    for p in procs:
        try:
            o, _ = p.communicate(timeout=max(1, t_end - time.time()))
            res.append((p.returncode, o))
        except subprocess.TimeoutExpired:
            p.kill()
            res.append((124, "timeout"))
    return res


def build_model(ctx, units):
    """Extract the Gen_* models and build the OCaml driver; cached by the content of everything it is made of."""
    srcs = [os.path.join(vcheck.COQ, "Gen", "Gen_%s.v" % u) for u in units] + \
           [os.path.join(vcheck.COQ, "Gen", "Gen_%s.meta.json" % u) for u in units] + \
           [os.path.join(vcheck.COQ, "Base", "CInt.v"), os.path.join(vcheck.COQ, "Extract", "Extract_C25.v"),
            os.path.join(vcheck.VERIF, "ocaml", "cxx2v_rt.ml"), os.path.join(vcheck.VERIF, "ocaml", "c25_driver.ml"),
            os.path.join(vcheck.VERIF, "tools", "cxx2v", "gen_ocaml_dispatch.py")]
    key = vcheck.file_hash(srcs)
    d = os.path.join(ctx.work, "model")
    exe = os.path.join(d, "c25_driver")
    if os.path.exists(exe) and os.path.exists(exe + ".key") and open(exe + ".key").read() == key:
        return exe, None
    shutil.rmtree(d, ignore_errors=True)
    os.makedirs(d)
    rc, out = vcheck.extract("Extract_C25.v", d)
    if rc != 0:
        return None, "extraction failed:\n" + out[-2000:]
    rc, out = vcheck.sh([sys.executable, os.path.join(vcheck.VERIF, "tools", "cxx2v", "gen_ocaml_dispatch.py"),
                         os.path.join(d, "c25_dispatch.ml")] + units)
    if rc != 0:
        return None, "dispatch generation failed:\n" + out[-2000:]
    for f in ("cxx2v_rt.ml", "c25_driver.ml"):
        shutil.copy(os.path.join(vcheck.VERIF, "ocaml", f), d)
    rc, order = vcheck.sh("ocamlfind ocamldep -sort *.ml *.mli", cwd=d)
    if rc != 0:
        return None, "ocamldep failed:\n" + order[-2000:]
    rc, out = vcheck.ocaml_build(d, order.split(), "c25_driver")
    if rc != 0:
        return None, "ocaml build failed:\n" + out[-3000:]
    with open(exe + ".key", "w") as f:
        f.write(key)
    return exe, None


def parse_line(l):
    name, _, rest = l.partition(" ")
    args, _, res = rest.partition(" -> ")
    return name, args.strip(), res.strip()


def nontrivial_class(name, args):
    """Rule for distinct_nontrivial: the proof case-split class an input falls into = (function,
    position of the highest set bit, position of the lowest set bit, popcount bucket) of its first integer
    argument, plus the remaining (small) arguments verbatim."""
    toks = args.split()
    ints = [t for t in toks if not t.startswith("m:")]
    if not ints:
        return (name, args[:24])
    try:
        x = int(ints[0], 16)
    except ValueError:
        return (name, args[:24])
    a = abs(x)
    hi = a.bit_length()
    lo = (a & -a).bit_length()
    pc = bin(a).count("1")
    mem = [t for t in toks if t.startswith("m:")]
    return (name, hi, lo, min(pc, 3) if pc < 4 else (4 if pc < hi else 5), tuple(ints[1:]), len(mem[0]) if mem else 0)


def run(ctx):
    t0 = time.time()
    cov = ctx.coverage
    units = _units_present()
    failures = []            # (kind, detail dict)

    # ---- 1. translate --------------------------------------------------------------------------
    rc, out = vcheck.sh([sys.executable, os.path.join(vcheck.VERIF, "tools", "cxx2v", "gen_all.py")] + units, timeout=600)
    ctx.log("cxx2v:", out.strip().replace("\n", " | ")[-600:])
    cov["translator"] = {"cmd": "python3 tools/cxx2v/gen_all.py " + " ".join(units), "rc": rc, "repo": vcheck.REPO,
                         "output": out.strip().split("\n")[-12:]}
    gen_ok = [u for u in units if os.path.exists(os.path.join(vcheck.COQ, "Gen", "Gen_%s.meta.json" % u))]
    funcs = {}
    for u in gen_ok:
        m = json.load(open(os.path.join(vcheck.COQ, "Gen", "Gen_%s.meta.json" % u)))
        for f in m["functions"]:
            funcs["%s.%s" % (u, f["coq"])] = {"cxx": f["cxx"], "sig": f["sig"], "source": f["source"], "sha256": f["sha256"]}
    cov["generated_functions"] = funcs
    if rc != 0:
        failures.append(("translator", {"translation_unit": [l for l in out.split("\n") if "FAILED" in l or "SKIPPED" in l],
                                        "message": out[-1500:]}))

    # ---- 1b. the splitter constructors (generated unit split_ctor + its differential sweep); its theorems are in the
    #          companion file Properties_C25_Gen.v, built with the other obligations in step 2
    try:
        import C25_init
        cov["constructors"] = C25_init.run_init(ctx, build_coq=False)
    except vcheck.BuildError as e:
        failures.append(("translator", {"message": "constructor sweep could not be built: " + str(e)[-1200:]}))

    # ---- 2. proof obligations ------------------------------------------------------------------
    res = vcheck.coq_build(["Properties/Properties_C25.v"], timeout=1700)
    ctx.coq_evidence(res)
    ctx.log("coq: %d/%d obligations discharged in %.0fs" % (len(res.discharged), len(res.obligations), res.wall_s))
    if not res.ok:
        for (f, ln, thm, msg) in res.failed[:6]:
            failures.append(("proof", {"file": f, "line": ln, "lemma": thm, "coq_error": msg}))
    if ctx.thorough() and res.ok:
        rc2, o2 = vcheck.coqchk("LV.Properties.Properties_C25", timeout=1500)
        cov["coqchk"] = {"rc": rc2, "tail": o2[-300:]}
        if rc2 != 0:
            failures.append(("proof", {"file": "coqchk", "coq_error": o2[-600:]}))

    # ---- 3. harness (real code) ---------------------------------------------------------------
    hsrc = vcheck.file_hash(glob.glob(os.path.join(vcheck.VERIF, "harness", "C25", "*")))
    exe = vcheck.cxx_build(os.path.join(vcheck.VERIF, "harness", "C25", "sweep.cpp"), os.path.join(ctx.work, "h", "sweep"),
                           hook=False, link_cds=False, opt="-O2", extra=("-DNDEBUG", "-DSWEEP_SRC_HASH=0x" + hsrc))
    sw = os.path.join(ctx.work, "sweep")
    shutil.rmtree(sw, ignore_errors=True)
    os.makedirs(sw)
    tier = ctx.tier
    seed = str(ctx.seed)

    # corpus first: recorded lines must still be produced by the real code
    corpus_lines = []
    for cf in sorted(glob.glob(os.path.join(vcheck.VERIF, "corpus", "C25", "*.txt"))):
        corpus_lines += [l.strip() for l in open(cf) if l.strip() and not l.startswith("#")]
    cov["corpus_cases"] = len(corpus_lines)
    if corpus_lines:
        cin = os.path.join(sw, "corpus_in.txt")
        open(cin, "w").write("\n".join(corpus_lines) + "\n")
        rc, o = vcheck.sh([exe, "lines", cin, os.path.join(sw, "corpus_out.txt")], timeout=120)
        got = [l.strip() for l in open(os.path.join(sw, "corpus_out.txt"))] if rc == 0 else []
        for want, g in zip(corpus_lines, got):
            if want != g:
                n, a, r = parse_line(want)
                ctx.violation("corpus case no longer holds on the real code: " + n,
                              {"function": n, "input": a, "expected": r, "observed": parse_line(g)[2]},
                              signature="corpus:%s:%s" % (n, a))
        if rc != 0 or len(got) != len(corpus_lines):
            failures.append(("corpus", {"message": "corpus run failed rc=%s: %s" % (rc, o[-300:])}))

    # real code vs naive references: the implementation-side monitor (always run; this finds failing inputs)
    r = _run_parallel([[exe, "ref", seed, tier, str(p), str(NPARTS), os.path.join(sw, "ref_%d.txt" % p)] for p in range(NPARTS)], 900)
    ref_counts = collections.Counter()
    mismatches = []
    for p in range(NPARTS):
        fp = os.path.join(sw, "ref_%d.txt" % p)
        if r[p][0] != 0 or not os.path.exists(fp):
            failures.append(("harness", {"message": "sweep ref part %d failed rc=%s %s" % (p, r[p][0], r[p][1][-300:])}))
            continue
        for l in open(fp):
            t = l.split()
            if t and t[0] == "REFCOUNT":
                ref_counts[t[1]] += int(t[2])
            elif t and t[0] == "MISMATCH":
                # MISMATCH name args... | expected... | observed...
                body = l.strip()[len("MISMATCH "):]
                name, _, rest = body.partition(" ")
                parts = [x.strip() for x in rest.split("|")]
                mismatches.append((name, parts[0], parts[1] if len(parts) > 1 else "", parts[2] if len(parts) > 2 else ""))
    full32 = None
    if ctx.thorough():
        r = _run_parallel([[exe, "full32", str(p), str(NPARTS), os.path.join(sw, "full_%d.txt" % p)] for p in range(NPARTS)], 1500)
        full32 = collections.Counter()
        for p in range(NPARTS):
            fp = os.path.join(sw, "full_%d.txt" % p)
            if r[p][0] != 0 or not os.path.exists(fp):
                failures.append(("harness", {"message": "sweep full32 part %d failed rc=%s" % (p, r[p][0])}))
                continue
            for l in open(fp):
                t = l.split()
                if t and t[0] == "REFCOUNT":
                    full32[t[1]] += int(t[2])
                elif t and t[0] == "MISMATCH":
                    body = l.strip()[len("MISMATCH "):]
                    name, _, rest = body.partition(" ")
                    parts = [x.strip() for x in rest.split("|")]
                    mismatches.append((name, parts[0], parts[1] if len(parts) > 1 else "", parts[2] if len(parts) > 2 else ""))
        cov["full_2^32_native_vs_reference"] = dict(full32)
    cov["reference_evaluations"] = dict(ref_counts)
    seen = set()
    for (name, args, exp, obs) in mismatches:
        if name in seen:
            continue                      # one replay per function (the smallest-index input found)
        seen.add(name)
        ctx.violation("%s disagrees with its mathematical reference" % name,
                      {"function": name, "cxx": funcs.get(name, {}).get("cxx"), "input": args, "expected": exp, "observed": obs,
                       "how_to_replay": "build harness/C25/sweep.cpp against the tree and run `sweep lines` on: %s %s" % (name, args)},
                      signature="%s:%s" % (name, args))

    # ---- 4. differential sweep: real code vs extracted model -----------------------------------
    evaluations = 0
    hist = collections.Counter()
    ub_with_value = collections.Counter()
    ub_samples = []
    classes = set()
    samples = []
    disagreements = []
    model_missing = collections.Counter()
    model, err = (None, "no unit was translated") if not gen_ok else build_model(ctx, gen_ok)
    if model is None:
        failures.append(("model", {"message": err}))
    else:
        r = _run_parallel([[exe, "emit", seed, tier, str(p), str(NPARTS), os.path.join(sw, "emit_%d.txt" % p)] for p in range(NPARTS)], 900)
        bad = [p for p in range(NPARTS) if r[p][0] != 0]
        if bad:
            failures.append(("harness", {"message": "sweep emit failed for parts %s: %s" % (bad, r[bad[0]][1][-300:])}))
        r = _run_parallel([[model, os.path.join(sw, "emit_%d.txt" % p), os.path.join(sw, "model_%d.txt" % p)] for p in range(NPARTS) if p not in bad], 1500)
        if any(x[0] != 0 for x in r):
            failures.append(("model", {"message": "model driver failed: %s" % [x for x in r if x[0] != 0][0][1][-300:]}))
        for p in range(NPARTS):
            fe, fm = os.path.join(sw, "emit_%d.txt" % p), os.path.join(sw, "model_%d.txt" % p)
            if not (os.path.exists(fe) and os.path.exists(fm)):
                continue
            with open(fe) as a, open(fm) as b:
                for le, lm in zip(a, b):
                    if le == lm:
                        name, args, resx = parse_line(le)
                        evaluations += 1
                        hist[name] += 1
                        classes.add(nontrivial_class(name, args))
                        if len(samples) < 12 and evaluations % 9973 == 1:
                            samples.append(le.strip())
                        continue
                    name, args, resx = parse_line(le)
                    name2, args2, resm = parse_line(lm)
                    evaluations += 1
                    hist[name] += 1
                    if (name, args) != (name2, args2):
                        disagreements.append((name, args, "line mismatch", lm.strip()))
                    elif resm == "UB":
                        ub_with_value[name] += 1
                        if len(ub_samples) < 10:
                            ub_samples.append(le.strip())
                    elif resm == "NOFUNC":
                        model_missing[name] += 1     # its unit was not translated: reported below, not a disagreement
                    else:
                        disagreements.append((name, args, resx, resm))
    seen = set()
    for (name, args, resx, resm) in disagreements:
        if name in seen:
            continue
        seen.add(name)
        ctx.violation("compiled C++ and generated Gallina disagree for %s (translator or CInt semantics is wrong, or the "
                      "harness does not call the translated function)" % name,
                      {"function": name, "input": args, "expected": resm, "observed": resx, "expected_is": "Gallina model",
                       "observed_is": "compiled C++"}, signature="diff:%s:%s" % (name, args))

    if model_missing:
        cov["functions_missing_from_model"] = dict(model_missing)
        if not any(k == "translator" for k, _ in failures):
            failures.append(("model", {"message": "functions exercised by the harness are missing from the generated model: %s"
                                                  % sorted(model_missing)[:10]}))

    # ---- 5. obligations broke but no failing input -> say exactly what no longer checks --------
    if failures and not ctx.violations:
        for kind, det in failures[:4]:
            what = {"translator": "cxx2v can no longer translate a C25 unit (construct outside the supported subset)",
                    "proof": "a C25 theorem about the generated code no longer checks",
                    "model": "the extracted model could not be built/run",
                    "harness": "the C25 harness failed", "corpus": "the corpus run failed"}[kind]
            ctx.violation(what, dict(det, kind=kind, searched="real code vs naive references on %d evaluations: no mismatch"
                                     % sum(ref_counts.values())), no_input=True)
    elif failures:
        cov["broken_obligations"] = [dict(d, kind=k) for k, d in failures[:8]]

    cov.update({
        "evaluations": evaluations + sum(ref_counts.values()) + (sum(full32.values()) if full32 else 0),
        "model_vs_cxx_evaluations": evaluations,
        "distinct_nontrivial": len(classes),
        "rule": "distinct (function, index of highest set bit, index of lowest set bit, popcount class, remaining arguments, "
                "memory size) classes among the inputs on which compiled C++ and extracted Gallina were compared; these are the "
                "case-split classes of the proofs (binary search on the MSB/LSB, per-bit enumeration, per-byte tables)",
        "per_function_inputs": dict(hist),
        "samples": samples,
        "cxx_value_where_model_says_UB": dict(ub_with_value),
        "cxx_value_where_model_says_UB_samples": ub_samples,
        "asm_variants_note": "cds::bitop::MSB/LSB/MSBnz/LSBnz resolve to the inline-asm bsr/bsf functions of "
                             "cds/compiler/gcc/amd64/bitop.h, which cannot be translated: they are covered ONLY by this sweep "
                             "(rows bitop.MSB_u32/_u64, LSB_*, MSBnz_*, LSBnz_*, BitOps4_/BitOps8_MSB/LSB/MSBnz/LSBnz and int_algo.* which calls MSBnz), "
                             "compared with the translated and proved generic C versions (rows bitop.msb32 ... are the generic C "
                             "versions compiled from cds/details/bitop_generic.h)",
        "seed": ctx.seed,
        "thorough_tier_note": "thorough: all 2^32 inputs of the 32-bit functions natively against fast references (byte table / "
                              "compiler builtins, themselves checked against the naive loops), a 1/4096 strided sample of the 32-bit "
                              "domain plus 10x more random inputs against the extracted model, and coqchk",
        "not_proved": [],
        "observations": ["ceil2(n) for n > 2^63 shifts by 64: undefined behaviour (theorem ceil2_above_2_63_is_UB)",
                         "number_splitter::safe_cut(count >= width) on a fresh splitter used to call cut(width) (undefined shift); "
                         "repaired by /repo commit 096bd5f, now theorem number_splitter_<T>_safe_cut_whole_number"],
    })
    ctx.log("sweep: %d model-vs-C++ evaluations, %d reference evaluations, %d classes, UB-with-value %d"
            % (evaluations, sum(ref_counts.values()), len(classes), sum(ub_with_value.values())))
    trusted = vcheck.STD_TRUSTED + [
        "tools/cxx2v (clang 14 JSON AST -> Gallina) and coq/Base/CInt.v's reading of the C++ standard for g++/amd64 "
        "(LP64, two's complement conversions, arithmetic >> on negatives, CWG1457 for signed <<); cross-checked on every run by "
        "the differential sweep above",
        "Print Assumptions: " + ("all C25 theorems closed under the global context" if res.assumptions and all(v == "closed" for v in res.assumptions.values())
                                 else json.dumps(res.assumptions)),
        "ocaml/cxx2v_rt.ml, ocaml/c25_driver.ml, tools/cxx2v/gen_ocaml_dispatch.py (text <-> Coq Z, dispatch)",
    ]
    assumptions = [
        "asserts are compiled out (NDEBUG) in both the translated configuration and the harness",
        "inline-asm bsr/bsf variants are not translated (sweep only)",
        "split_bitstring/byte_splitter constructors (reinterpret_cast of the source object) are not translated: the initial "
        "splitter state {cur=first=0 or offset/8, last=size} is stated in the theorems and compared by the sweep",
    ]
    return ctx.finish(trusted, assumptions)
