"""C28 -- Feldman hash addressing distinguishes every pair of distinct hashes (DESIGN.md section 7, C28).

1. regenerate coq/Gen/Gen_feldman.v, Gen_feldman_make.v, Gen_feldman_ctor.v from $VERIF_REPO with tools/cxx2v (unit list
   tools/cxx2v/units_C28.json: the hash splitters' is_correct / eos / cut / bit_offset; metrics::make; the splitter
   constructors splitter( hash ) / splitter( hash, offset )),
2. build Properties/Properties_C28.v: metrics::make normalisation, every generated splitter meets the splitter
   specification, and -- for every such splitter, accepted configuration and hash -- layout_consumes_all_bits,
   path_deterministic, paths_diverge, slot_in_range, insert_new_hash_never_fails, expand_slot_consistent; and its
   companion Properties/Properties_C28_Gen.v: the GENERATED metrics::make and constructors are the hand-written ones
   of LV.Model.FeldmanPath for every input, and the same theorems stated on the generated pieces,
3. differential run (harness/C28/main.cpp, real code, hook off, one thread  vs  the OCaml extraction of
   LV.Model.FeldmanPath  vs  an independent Python reference of the property):
     make   metrics::make on EVERY (head_bits, array_bits, hash_size) of the quantifier and beyond (hand-written model),
     feldman_make.metrics_make   the same triples against the extracted GENERATED function,
     feldman_ctor.<fam>_init[_at]   the compiled splitter constructors (data members read with -fno-access-control) against
            the extracted GENERATED constructors: every family, every bit offset inside the hash, truncating offsets,
     path   the cut sequence of the splitter the set selects, for every normalised configuration of every family and
            hashes sharing prefixes of every length (one hash and the same hash with one bit flipped, every bit),
     set    the REAL FeldmanHashSet<cds::gc::HP>: insert such hashes, walk the tree, compare where every data node
            landed, the insert results, head_size()/array_node_size() and get_level_statistics(),
   corpus first.  A crash of the real code leaves the failing input as the last (unfinished) output line.
4. when an obligation or the correspondence breaks, the same run (real code vs reference) is the failing-input search.
"""
import collections, glob, json, os, shutil, subprocess, sys, threading, time
import vcheck

UNITS_JSON = os.path.join(vcheck.VERIF, "tools", "cxx2v", "units_C28.json")
NPARTS = min(12, vcheck.NCPU)

FAMILIES = {  # name -> (kind, size in bytes, signed)
    "ns_u16": ("ns", 2, False), "ns_i16": ("ns", 2, True), "ns_u32": ("ns", 4, False), "ns_i32": ("ns", 4, True),
    "ns_u64": ("ns", 8, False), "ns_i64": ("ns", 8, True),
    "sb1": ("sb", 1, False), "sb2": ("sb", 2, False), "sb4": ("sb", 4, False), "sb8": ("sb", 8, False),
    "bs1": ("bs", 1, False), "bs2": ("bs", 2, False), "bs4": ("bs", 4, False), "bs8": ("bs", 8, False),
}
GEN_UNITS = ["feldman", "feldman_make", "feldman_ctor"]
GEN_DISPATCH_UNITS = ["feldman_make", "feldman_ctor"]      # units whose functions the model driver dispatches by name
CTOR_FAMILIES = {}      # family of the generated constructors -> (kind, size in bytes, signed)
for _f, _v in FAMILIES.items():
    if _v[0] == "ns":
        CTOR_FAMILIES[_f] = _v
for _n in range(1, 9):
    CTOR_FAMILIES["sb%d" % _n] = ("sb", _n, False)
    CTOR_FAMILIES["bs%d" % _n] = ("bs", _n, False)
WIDE_SIG = "split_bitstring-cut-above-32"     # candidate finding: is_correct accepts widths > 32, cut is undefined


# ---------------------------------------------------------------------------------------------------
# independent reference (pure integer arithmetic; nothing shared with the Coq model or the C++ code)

def ref_make(head, array, size):
    W = 8 * size
    a = max(array, 2)
    h = min(max(head, 4), W)
    h += (W - h) % a
    return h, a


def ref_accepted(fam, h1, a1):
    kind, size, _ = FAMILIES[fam]
    W = 8 * size
    if kind == "ns":
        return h1 < W and a1 < W
    if kind == "sb":
        return True
    return h1 % 8 == 0 and a1 % 8 == 0


def ref_proved(fam, h1, a1):
    """configurations the theorems cover: accepted, and (byte strings) within the documented 32-bit limit of one cut"""
    kind = FAMILIES[fam][0]
    return ref_accepted(fam, h1, a1) and (kind == "ns" or (h1 <= 32 and a1 <= 32))


def ref_path(W, h1, a1, u):
    widths = [h1] + [a1] * ((W - h1) // a1)
    pos, out = 0, []
    for w in widths:
        slot = (u >> pos) & ((1 << w) - 1)
        pos += w
        out.append((slot, pos >= W))
    return out


def tok_hash(fam, u):
    kind, size, signed = FAMILIES.get(fam) or CTOR_FAMILIES[fam]
    W = 8 * size
    u &= (1 << W) - 1
    if kind == "ns":
        if signed and u >= 1 << (W - 1):
            return "-%x" % ((1 << W) - u)
        return "%x" % u
    return "m:" + "".join("%02x" % ((u >> (8 * i)) & 0xff) for i in range(size))


def untok_hash(fam, t):
    kind, size, signed = FAMILIES.get(fam) or CTOR_FAMILIES[fam]
    W = 8 * size
    if t.startswith("m:"):
        b = bytes.fromhex(t[2:])
        return sum(x << (8 * i) for i, x in enumerate(b))
    v = int(t, 16)
    return v & ((1 << W) - 1)


def ref_path_line(fam, head, array, u):
    size = FAMILIES[fam][1]
    W = 8 * size
    h1, a1 = ref_make(head, array, size)
    if not ref_accepted(fam, h1, a1):
        return "rej m=%x,%x" % (h1, a1)
    p = ref_path(W, h1, a1, u)
    return "m=%x,%x p=%s x=%s" % (h1, a1, ",".join("%x:%d" % (s, 1 if e else 0) for s, e in p),
                                  ",".join("%x" % s for s, _ in p[1:]))


def ref_generated(case):
    """independent reference for the lines named after generated functions -> expected result, or None when the
    arguments are outside what the C++ defines (nothing to compare)"""
    t = case.split()
    unit, _, fn = t[0].partition(".")
    if unit == "feldman_make":
        head, array, size = (int(x, 16) for x in t[1:4])
        h1, a1 = ref_make(head, array, size)
        if h1 >= 64 or a1 >= 64:
            return None
        return "%x %x %x %x" % (1 << h1, h1, 1 << a1, a1)
    at = fn.endswith("_init_at")
    fam = fn[:-len("_init_at")] if at else fn[:-len("_init")]
    kind, size, signed = CTOR_FAMILIES[fam]
    off = int(t[2], 16) if at else 0
    if kind == "ns":
        return "%s %x" % (t[1], off & 0xffffffff)            # number_( n ), shift_( static_cast<unsigned>( offset ))
    if off // 8 > size:
        return None                                          # pointer beyond one-past-the-end of the hash object
    if kind == "sb":
        return "%x %x 0 %x" % (off // 8, off % 8, size)      # cur_ offset_ first_ last_ as byte offsets from &h
    return "%x 0 %x" % (off // 8, size)                      # cur_ first_ last_


def cpl(a, b):
    n = 0
    while n < len(a) and n < len(b) and a[n] == b[n]:
        n += 1
    return n


def ref_set_line(fam, head, array, us):
    """-> (model-format line, head_size, array_size, level statistics [(nodes, data, arraycells, empty, capacity)])"""
    size = FAMILIES[fam][1]
    W = 8 * size
    h1, a1 = ref_make(head, array, size)
    if not ref_accepted(fam, h1, a1):
        return "rej m=%x,%x" % (h1, a1), None, None, None
    present, res = [], []
    for i, u in enumerate(us):
        if any(u == v for _, v, _ in present):
            res.append(0)
            continue
        p = [s for s, _ in ref_path(W, h1, a1, u)]
        d = 1 + max([cpl(p, q) for _, _, q in present] + [0])
        if d > len(p):
            res.append(0)             # eos reached on another hash: the property says this never happens
            continue
        res.append(1)
        present.append((i, u, p))
    land = []
    for k, (i, u, p) in enumerate(present):
        d = 1 + max([cpl(p, q) for j, (_, _, q) in enumerate(present) if j != k] + [0])
        land.append((i, p[:d]))
    line = "m=%x,%x r=%s" % (h1, a1, ",".join(str(r) for r in res)) + "".join(
        " | %d@%s" % (i, ".".join("%x" % s for s in p)) for i, p in land)
    maxd = max([len(p) for _, p in land] + [1])
    ls = []
    for L in range(maxd):
        nodes = len(set(tuple(p[:L]) for _, p in land if len(p) > L)) if L else 1
        data = sum(1 for _, p in land if len(p) == L + 1)
        acell = len(set(tuple(p[:L + 1]) for _, p in land if len(p) > L + 1))
        cap = 1 << (h1 if L == 0 else a1)
        ls.append((nodes, data, acell, nodes * cap - data - acell, cap))
    return line, 1 << h1, 1 << a1, ls


# ---------------------------------------------------------------------------------------------------
# case generation

def normalised_configs(fam, max_head, max_array):
    """one or two raw (head, array) representatives per normalised (head', array') of the family"""
    size = FAMILIES[fam][1]
    W = 8 * size
    by = collections.OrderedDict()
    for head in range(0, max_head + 1):
        for array in range(0, max_array + 1):
            by.setdefault(ref_make(head, array, size), []).append((head, array))
    return by


def gen_cases(ctx):
    rng = ctx.rng.fork()
    thorough = ctx.thorough()
    lines = []
    # (a) make: the whole quantifier (head 0..hash_bits, array 0..16) and beyond
    sizes = [1, 2, 4, 8] + ([3, 5, 6, 7] if thorough else [])
    for size in sizes:
        for head in range(0, 73):
            for array in range(0, 73 if (thorough or size == 8) else 36):
                lines.append("make %x %x %x" % (head, array, size))
    for size in (1, 2, 4, 8):
        for big in (0x7f, 0x80, 0xff, 0x100, 0xffff, 0xffffffff, 0x100000000, (1 << 63) - 1, 1 << 63, (1 << 64) - 1):
            for other in (0, 1, 2, 3, 4, 5, 8, 16):
                lines.append("make %x %x %x" % (big, other, size))
                lines.append("make %x %x %x" % (other, big, size))
    # (a') the same triples against the GENERATED metrics::make, and the GENERATED splitter constructors
    lines += ["feldman_make.metrics_make " + l.split(" ", 1)[1] for l in lines if l.startswith("make ")]
    for fam, (kind, size, signed) in CTOR_FAMILIES.items():
        W = 8 * size
        hashes = [0, 1, (1 << W) - 1, 1 << (W - 1), (1 << (W - 1)) - 1] + [rng.next() & ((1 << W) - 1) for _ in range(6 if thorough else 3)]
        for u in hashes:
            lines.append("feldman_ctor.%s_init %s" % (fam, tok_hash(fam, u)))
        offs = list(range(0, W + 1))
        if kind == "ns":        # static_cast<unsigned>( initial_offset ) truncates; offsets past the width are stored as they are
            offs += [W + 1, 0x7fffffff, 0x80000000, 0xffffffff, 0x100000000, 0x100000005, (1 << 63) + 9, (1 << 64) - 1]
        for off in offs:
            lines.append("feldman_ctor.%s_init_at %s %x" % (fam, tok_hash(fam, hashes[(off * 7 + 3) % len(hashes)]), off))
    # (b) path, (c) set
    set_head_limit = 20 if thorough else 16
    for fam, (kind, size, signed) in FAMILIES.items():
        W = 8 * size
        cfgs = normalised_configs(fam, W + 2, 18)
        for (h1, a1), raws in cfgs.items():
            reps = [raws[0]]
            if len(raws) > 1:
                reps.append(raws[rng.below(len(raws))])
            for ri, (head, array) in enumerate(reps):
                base = rng.next() & ((1 << W) - 1)
                if ri == 0:
                    hashes = [base] + [base ^ (1 << k) for k in range(W)]
                    hashes += [0, (1 << W) - 1, 1 << (W - 1)]
                else:
                    hashes = [base] + [base ^ (1 << rng.below(W)) for _ in range(3)]
                for u in hashes:
                    lines.append("path.%s %x %x %s" % (fam, head, array, tok_hash(fam, u)))
            if not ref_accepted(fam, h1, a1) or h1 > set_head_limit or a1 > 16:
                # rejected configurations: one line to see the rejection on both sides
                if not ref_accepted(fam, h1, a1):
                    lines.append("set.%s %x %x %s" % (fam, raws[0][0], raws[0][1], tok_hash(fam, 1)))
                continue
            head, array = raws[0]
            base = rng.next() & ((1 << W) - 1)
            if h1 <= 12 or thorough and h1 <= 16:
                ks = list(range(W))
            else:
                ks = sorted(set([0, h1 - 1, h1 % W, (h1 + a1 - 1) % W, (h1 + a1) % W, W - 1] + [rng.below(W) for _ in range(3)]))
            for k in ks:
                lines.append("set.%s %x %x %s %s" % (fam, head, array, tok_hash(fam, base), tok_hash(fam, base ^ (1 << k))))
            # three hashes with two different prefix lengths, a duplicate, and the extreme values
            k1, k2 = rng.below(W), rng.below(W)
            lines.append("set.%s %x %x %s %s %s %s" % (fam, head, array, tok_hash(fam, base), tok_hash(fam, base ^ (1 << k1)),
                                                       tok_hash(fam, base), tok_hash(fam, base ^ (1 << k2))))
            lines.append("set.%s %x %x %s %s %s" % (fam, head, array, tok_hash(fam, 0), tok_hash(fam, (1 << W) - 1),
                                                    tok_hash(fam, 1 << (W - 1))))
    return lines


# ---------------------------------------------------------------------------------------------------
# running

def run_parallel(cmds, timeout):
    procs = [subprocess.Popen(c, stdout=subprocess.PIPE, stderr=subprocess.STDOUT, text=True) for c in cmds]
    res = []
    t_end = time.time() + timeout
    for p in procs:
        try:
            o, _ = p.communicate(timeout=max(1, t_end - time.time()))
            res.append((p.returncode, o))
        except subprocess.TimeoutExpired:
            p.kill()
            res.append((124, "timeout"))
    return res


EXTRACT_GEN = """(* written by checks/C28.py: LV.Model.FeldmanPath (as coq/Extract/Extract_C28.v) together with the GENERATED
   metrics::make and splitter constructors; one OCaml module per Coq library *)
Require Extraction.
Require Import ExtrOcamlBasic.
Require LV.Model.FeldmanPath %s.
Set Extraction Output Directory ".".
Separate Extraction FeldmanPath %s.
"""


def build_model(ctx):
    """-> (driver executable or None, error text or None, units whose generated functions the driver can evaluate)"""
    gen_units = [u for u in GEN_DISPATCH_UNITS if os.path.exists(os.path.join(vcheck.COQ, "Gen", "Gen_%s.meta.json" % u))]
    srcs = [os.path.join(vcheck.COQ, "Gen", "Gen_feldman.v"), os.path.join(vcheck.COQ, "Model", "FeldmanPath.v"),
            os.path.join(vcheck.COQ, "Base", "CInt.v"), os.path.join(vcheck.COQ, "Extract", "Extract_C28.v"),
            os.path.join(vcheck.VERIF, "ocaml", "cxx2v_rt.ml"), os.path.join(vcheck.VERIF, "ocaml", "c28_driver.ml"),
            os.path.join(vcheck.VERIF, "tools", "cxx2v", "gen_ocaml_dispatch.py"), os.path.abspath(__file__)]
    for u in gen_units:
        srcs += [os.path.join(vcheck.COQ, "Gen", "Gen_%s.v" % u), os.path.join(vcheck.COQ, "Gen", "Gen_%s.meta.json" % u)]
    key = vcheck.file_hash(srcs) + repr(gen_units)
    d = os.path.join(ctx.work, "model")
    exe = os.path.join(d, "c28_driver")
    if os.path.exists(exe) and os.path.exists(exe + ".key") and open(exe + ".key").read() == key:
        return exe, None, gen_units
    shutil.rmtree(d, ignore_errors=True)
    os.makedirs(d)
    # the extraction needs Gen_feldman.vo, FeldmanPath.vo and the .vo of the generated make / constructors
    vcheck.coq_makefile()
    rc, out = vcheck.sh(["make", "-j4", "Model/FeldmanPath.vo"] + ["Gen/Gen_%s.vo" % u for u in gen_units], cwd=vcheck.COQ, timeout=600)
    if rc != 0:
        return None, "model does not compile:\n" + out[-2000:], gen_units
    if gen_units:
        with open(os.path.join(d, "Extract_C28_gen.v"), "w") as f:
            f.write(EXTRACT_GEN % (" ".join("LV.Gen.Gen_%s" % u for u in gen_units), " ".join("Gen_%s" % u for u in gen_units)))
        rc, out = vcheck.sh(["coqc", "-Q", vcheck.COQ, "LV", "-w", "none", "-o", os.path.join(d, "Extract_C28_gen.vo"),
                             os.path.join(d, "Extract_C28_gen.v")], cwd=d, timeout=600)
    else:
        rc, out = vcheck.extract("Extract_C28.v", d)
    if rc != 0:
        return None, "extraction failed:\n" + out[-2000:], gen_units
    # dispatch of the generated functions by name (an empty table when their units were not translated)
    rc, out = vcheck.sh([sys.executable, os.path.join(vcheck.VERIF, "tools", "cxx2v", "gen_ocaml_dispatch.py"),
                         os.path.join(d, "c28_gen_dispatch.ml")] + gen_units)
    if rc != 0:
        return None, "dispatch generation failed:\n" + out[-2000:], gen_units
    for f in ("cxx2v_rt.ml", "c28_driver.ml"):
        shutil.copy(os.path.join(vcheck.VERIF, "ocaml", f), d)
    rc, order = vcheck.sh("ocamlfind ocamldep -sort *.ml *.mli", cwd=d)
    if rc != 0:
        return None, "ocamldep failed:\n" + order[-2000:], gen_units
    rc, out = vcheck.ocaml_build(d, order.split(), "c28_driver")
    if rc != 0:
        return None, "ocaml build failed:\n" + out[-3000:], gen_units
    with open(exe + ".key", "w") as f:
        f.write(key)
    return exe, None, gen_units


def split_line(l):
    case, sep, res = l.rstrip("\n").partition(" -> ")
    return case.strip(), (res.strip() if sep else None)


def run_cases(exe, lines, d, tag, timeout):
    """run an executable (harness or model driver) over the case lines in NPARTS parallel parts;
    -> (dict case -> result, list of (part, rc, last unfinished case or None, output tail)).
    A part that dies on a case (crash, alarm, memory limit) is restarted after that case, a few times."""
    os.makedirs(d, exist_ok=True)
    n = max(1, min(NPARTS, len(lines) // 50 + 1))
    todo = [lines[i::n] for i in range(n)]
    got, problems = {}, []
    t_end = time.time() + timeout
    for rnd in range(6):
        live = [(i, part) for i, part in enumerate(todo) if part]
        if not live or time.time() > t_end:
            break
        cmds = []
        for i, part in live:
            fi = os.path.join(d, "%s_in_%d_%d.txt" % (tag, i, rnd))
            with open(fi, "w") as f:
                f.write("\n".join(part) + "\n")
            cmds.append([exe, fi, os.path.join(d, "%s_out_%d_%d.txt" % (tag, i, rnd))])
        rs = run_parallel(cmds, max(5, t_end - time.time()))
        for (i, part), (rc, o) in zip(live, rs):
            fo = os.path.join(d, "%s_out_%d_%d.txt" % (tag, i, rnd))
            unfinished = None
            if os.path.exists(fo):
                for l in open(fo, errors="replace"):
                    case, res = split_line(l)
                    if not case:
                        continue
                    if res is None or not l.endswith("\n") or res == "":
                        unfinished = case
                    else:
                        got[case] = res
            todo[i] = []
            if rc != 0 or unfinished:
                problems.append((i, rc, unfinished, o[-400:]))
                if unfinished in part:
                    todo[i] = part[part.index(unfinished) + 1:]
    return got, problems


def parse_case(case):
    t = case.split()
    if t[0] == "make":
        return "make", None, [int(x, 16) for x in t[1:]]
    kind, _, fam = t[0].partition(".")
    if kind in GEN_DISPATCH_UNITS:
        return kind, fam, t[1:]
    return kind, fam, (int(t[1], 16), int(t[2], 16), t[3:])


def check_against_reference(case, cxx):
    """real code vs the independent reference.  -> (status, expected, detail)
       status: ok | bad (violates the property / the reference) | outside (not covered by the theorems)"""
    kind, fam, a = parse_case(case)
    if kind == "make":
        head, array, size = a
        h1, a1 = ref_make(head, array, size)
        if h1 >= 64 or a1 >= 64:
            return "outside", None, "size_t(1) << %d is undefined" % max(h1, a1)
        exp = "%x %x %x %x" % (h1, 1 << h1, a1, 1 << a1)
        return ("ok" if cxx == exp else "bad"), exp, "metrics::make"
    if kind in GEN_DISPATCH_UNITS:
        exp = ref_generated(case)
        if exp is None:
            return "outside", None, "undefined in C++ (shift by 64 / pointer beyond the object)"
        return ("ok" if cxx == exp else "bad"), exp, "metrics::make" if kind == "feldman_make" else "splitter constructor"
    head, array, hts = a
    size = FAMILIES[fam][1]
    h1, a1 = ref_make(head, array, size)
    if h1 >= 64 or a1 >= 64:
        return "outside", None, "metrics::make undefined"
    us = [untok_hash(fam, t) for t in hts]
    if kind == "path":
        exp = ref_path_line(fam, head, array, us[0])
        if cxx == exp:
            return "ok", exp, ""
        if cxx.startswith("rej") != exp.startswith("rej"):
            return "bad", exp, "hash_splitter::is_correct accepts/rejects another set of widths"
        return ("bad" if ref_proved(fam, h1, a1) else "outside"), exp, "cut sequence"
    exp, hs_h, hs_a, ls = ref_set_line(fam, head, array, us)
    main, _, suffix = cxx.partition(" ; ")
    if main != exp:
        if main.startswith("rej") != exp.startswith("rej"):
            return "bad", exp, "hash_splitter::is_correct accepts/rejects another set of widths"
        return ("bad" if ref_proved(fam, h1, a1) else "outside"), exp, "insert results / landing slots"
    if exp.startswith("rej"):
        return "ok", exp, ""
    exp_suffix = "hs=%x,%x ls=%s walk=ok size=%x" % (hs_h, hs_a, ",".join("%x:%x:%x:%x:%x" % t for t in ls),
                                                      sum(t[1] for t in ls))
    if suffix != exp_suffix:
        return "bad", exp + " ; " + exp_suffix, "head_size()/array_node_size()/get_level_statistics()/size()"
    return "ok", exp, ""


def divergence_class(case):
    """rule for distinct_nontrivial"""
    kind, fam, a = parse_case(case)
    if kind == "make":
        head, array, size = a
        h1, a1 = ref_make(head, array, size)
        return ("make", size, head < 4, head > 8 * size, array < 2, (8 * size - min(max(head, 4), 8 * size)) % a1 != 0, min(h1, 65), min(a1, 65))
    if kind == "feldman_make":
        head, array, size = (int(x, 16) for x in a)
        h1, a1 = ref_make(head, array, size)
        return ("gmake", size, head < 4, head > 8 * size, array < 2, (8 * size - min(max(head, 4), 8 * size)) % a1 != 0, min(h1, 65), min(a1, 65))
    if kind == "feldman_ctor":
        off = int(a[1], 16) if len(a) > 1 else -1
        return ("ctor", fam, min(off, 70) if off < 1 << 31 else off.bit_length() + 100)
    head, array, hts = a
    size = FAMILIES[fam][1]
    h1, a1 = ref_make(head, array, size)
    W = 8 * size
    if h1 >= 64 or a1 >= 64 or not ref_accepted(fam, h1, a1):
        return (kind, fam, h1, a1, "rejected-or-undefined")
    us = [untok_hash(fam, t) for t in hts]
    ps = [[s for s, _ in ref_path(W, h1, a1, u)] for u in us]
    d = tuple(sorted(cpl(ps[0], p) for p in ps[1:])) if len(ps) > 1 else (us[0] == 0, us[0] == (1 << W) - 1)
    return (kind, fam, h1, a1, d)


def run(ctx):
    cov = ctx.coverage
    failures = []
    t0 = time.time()

    # ---- replay of one recorded input --------------------------------------------------------
    replay_lines = None
    if ctx.replay:
        r = json.load(open(ctx.replay))
        replay_lines = r.get("input_lines") or ([r["input"]] if "input" in r else [])

    # ---- 1. translate (in the background) and build the harness ------------------------------
    tr = {}

    def translate():
        tr["rc"], tr["out"] = vcheck.sh([sys.executable, os.path.join(vcheck.VERIF, "tools", "cxx2v", "gen_all.py")] + GEN_UNITS,
                                        timeout=600, env={"CXX2V_UNITS": UNITS_JSON})
    th = threading.Thread(target=translate)
    th.start()
    cxx, cxx_problems, corpus, lines = {}, [], [], []
    sw = os.path.join(ctx.work, "sweep")
    try:
        exe = vcheck.cxx_build(os.path.join(vcheck.VERIF, "harness", "C28", "main.cpp"), os.path.join(ctx.work, "h", "main"),
                               hook=False, opt="-O1", extra=("-fno-access-control",))     # reads the splitters' private members
        # ---- cases; the real code runs on corpus + cases while the translator works ----------
        for cf in sorted(glob.glob(os.path.join(vcheck.VERIF, "corpus", "C28", "*.txt"))):
            corpus += [l.strip() for l in open(cf) if l.strip() and not l.startswith("#")]
        cov["corpus_cases"] = len(corpus)
        if replay_lines is not None:
            lines = [split_line(l)[0] for l in replay_lines]
            corpus = []
        else:
            lines = list(collections.OrderedDict.fromkeys(gen_cases(ctx)))
        shutil.rmtree(sw, ignore_errors=True)
        corpus_cases = [split_line(l)[0] for l in corpus]
        t1 = time.time()
        cxx, cxx_problems = run_cases(exe, list(collections.OrderedDict.fromkeys(corpus_cases + lines)), sw, "cxx", 400)
        ctx.log("real code: %d cases run in %.0fs" % (len(cxx), time.time() - t1))
    finally:
        th.join()
    ctx.log("cxx2v:", tr["out"].strip().replace("\n", " | ")[-400:])
    cov["translator"] = {"cmd": "CXX2V_UNITS=tools/cxx2v/units_C28.json python3 tools/cxx2v/gen_all.py " + " ".join(GEN_UNITS),
                         "rc": tr["rc"], "repo": vcheck.REPO, "output": tr["out"].strip().split("\n")[-6:]}
    cov["generated_functions"] = {}
    for gu in GEN_UNITS:
        meta = os.path.join(vcheck.COQ, "Gen", "Gen_%s.meta.json" % gu)
        if os.path.exists(meta):
            for f in json.load(open(meta))["functions"]:
                cov["generated_functions"][f["coq"] if gu == "feldman" else "%s.%s" % (gu, f["coq"])] = {
                    "cxx": f["cxx"], "sig": f["sig"], "source": f["source"], "sha256": f["sha256"]}
    if tr["rc"] != 0:
        failures.append(("translator", {"message": tr["out"][-1500:]}))

    # ---- 2./3. proof obligations, model ---------------------------------------------------------
    model_holder = {}

    def model():
        # the hand-written model only needs unit feldman; the generated make / constructors are added when translated
        feldman_ok = os.path.exists(os.path.join(vcheck.COQ, "Gen", "Gen_feldman.v"))
        model_holder["m"] = build_model(ctx) if feldman_ok else (None, "translation failed", [])
    res = vcheck.coq_build(["Properties/Properties_C28.v", "Properties/Properties_C28_Gen.v"], timeout=1500)
    ctx.coq_evidence(res)
    ctx.log("coq: %d/%d obligations discharged in %.0fs" % (len(res.discharged), len(res.obligations), res.wall_s))
    if not res.ok:
        for (f, ln, thm, msg) in res.failed[:6]:
            failures.append(("proof", {"file": f, "line": ln, "lemma": thm, "coq_error": msg}))
    model()
    mexe, merr, model_gen_units = model_holder["m"]
    cov["model_evaluates_generated_units"] = model_gen_units
    if ctx.thorough() and res.ok:
        for modname in ("LV.Properties.Properties_C28", "LV.Properties.Properties_C28_Gen"):
            rc2, o2 = vcheck.coqchk(modname, timeout=1500)
            cov.setdefault("coqchk", {})[modname] = {"rc": rc2, "tail": o2[-300:]}
            if rc2 != 0:
                failures.append(("proof", {"file": "coqchk " + modname, "coq_error": o2[-600:]}))

    # a crash / hang of the real code: the unfinished line is the failing input
    for (part, rc, unfinished, tail) in cxx_problems:
        if unfinished:
            ctx.violation("the real code crashed, hung or exhausted memory on this case (harness/C28/main.cpp; rc -11/-7 = memory fault, "
                          "-14 = alarm, -6 = abort, -8 = division by zero)",
                          {"input": unfinished, "input_lines": [unfinished], "rc": rc, "output_tail": tail,
                           "how_to_replay": "bin/check C28 --replay <this file>"}, signature="crash:" + unfinished)
        else:
            failures.append(("harness", {"message": "harness part %d failed rc=%s: %s" % (part, rc, tail)}))

    # corpus: recorded results must still be produced
    for l in corpus:
        case, want = split_line(l)
        g = cxx.get(case)
        if g is not None and want is not None and g != want:
            ctx.violation("corpus case no longer holds on the real code", {"input": case, "input_lines": [case], "expected": want,
                                                                           "observed": g}, signature="corpus:" + case)

    # ---- real code vs independent reference (the property monitor) ---------------------------
    hist = collections.Counter()
    classes = set()
    outside = collections.Counter()
    outside_samples = []
    bad = []
    samples = []
    for case in lines:
        g = cxx.get(case)
        if g is None:
            continue
        kind, fam, _ = parse_case(case)
        hist["%s%s" % (kind, "." + fam if fam else "")] += 1
        status, exp, detail = check_against_reference(case, g)
        if status == "ok":
            classes.add(divergence_class(case))
            if len(samples) < 10 and hist.total() % 997 == 1:
                samples.append(case + " -> " + g)
        elif status == "outside":
            outside[(fam or "make") + ": " + detail] += 1
            if exp is not None and len(outside_samples) < 6:
                outside_samples.append({"input": case, "reference": exp, "observed": g})
        else:
            bad.append((case, exp, g, detail))
    seen = set()
    for (case, exp, g, detail) in bad:
        kind, fam, _ = parse_case(case)
        key = kind
        if key in seen or (kind == "feldman_make" and "make" in seen):      # the same deviation of metrics::make, reported once
            continue
        seen.add(key)
        what = {"make": "metrics::make does not normalise (head_bits, array_bits) as the layout theorems require",
                "feldman_make": "metrics::make does not normalise (head_bits, array_bits) as the layout theorems require",
                "feldman_ctor": "a hash splitter constructor does not build the initial state the cut-sequence theorems start from "
                                "(number_/shift_, or cur_/offset_/first_/last_ relative to the hash object)",
                "path": "the hash splitter's cut sequence is not the bit slices of the hash: paths of distinct hashes need not diverge",
                "set": "FeldmanHashSet placed an inserted hash off its path, or insert of a new hash failed"}[kind]
        extra = {}
        if kind == "path":
            # make the failing pair explicit: another hash of the same configuration with the same observed path
            pre = " ".join(case.split()[:3])
            twins = [c for c in lines if c.startswith(pre + " ") and c != case and cxx.get(c) == g]
            if twins:
                extra["distinct_hash_with_the_same_path"] = twins[0]
        ctx.violation(what + " (%s%s: %s)" % (kind, "." + fam if fam else "", detail),
                      dict({"input": case, "input_lines": [case] + list(extra.values()), "expected": exp, "observed": g,
                            "expected_is": {"feldman_ctor": "independent reference: the members the constructor's initialiser list sets "
                                                            "(pointers as byte offsets from the hash object)",
                                            "feldman_make": "independent reference: the members of metrics in declaration order for "
                                                            "head' = clamp(head,4,8*size) + remainder, array' = max(array,2)",
                                            "make": "independent reference: head' = clamp(head,4,8*size) + remainder, array' = max(array,2)"}
                                           .get(kind, "independent reference: slot k = bits of the hash at the k-th width of the normalised layout"),
                            "observed_is": "compiled code of $VERIF_REPO", "how_to_replay": "bin/check C28 --replay <this file>"}, **extra),
                      signature="ref:%s:%s" % (kind, case))
    cov["reference_mismatches"] = len(bad)

    # the recorded candidate finding: widths above 32 with split_bitstring / byte_splitter (accepted by is_correct)
    wide = sum(v for k, v in outside.items() if "cut sequence" in k or "landing" in k)
    cov["outside_the_theorems"] = {"counts": dict(outside), "samples": outside_samples,
                                   "note": "cases whose configuration the theorems exclude: size_t(1)<<64 in metrics::make, and "
                                           "split_bitstring/byte_splitter widths above 32 (is_correct accepts them, cut is undefined: "
                                           "Properties_C28.split_bitstring_head_above_32_refuted); reported as a violation only if "
                                           "known_findings.json lists signature '%s'" % WIDE_SIG}
    if wide and ctx.known_match(WIDE_SIG):
        ctx.violation("split_bitstring/byte_splitter: a head or array width above 32 is accepted by is_correct but cut() is undefined",
                      {"input": outside_samples[0]["input"] if outside_samples else None}, signature=WIDE_SIG)

    # ---- 4. real code vs extracted model ------------------------------------------------------
    evaluations = 0
    gen_evals = collections.Counter()
    ub_with_value = collections.Counter()
    disagreements = []
    if mexe is None:
        failures.append(("model", {"message": merr}))
    else:
        mod, mod_problems = run_cases(mexe, lines, sw, "model", 900)
        for (part, rc, unfinished, tail) in mod_problems:
            failures.append(("model", {"message": "model driver part %d failed rc=%s at %s: %s" % (part, rc, unfinished, tail)}))
        for case in lines:
            g, m = cxx.get(case), mod.get(case)
            if g is None or m is None:
                continue
            gu = case.split(".", 1)[0]
            if gu in GEN_DISPATCH_UNITS and gu not in model_gen_units:
                continue                  # its unit was not translated (reported as a translator failure above)
            evaluations += 1
            gen_evals[gu if gu in GEN_DISPATCH_UNITS else "hand-written model"] += 1
            if m == "UB":
                ub_with_value[case.split()[0]] += 1
                continue
            if g.partition(" ; ")[0] != m:
                disagreements.append((case, m, g))
    ref_kinds = set(seen)        # kinds already reported against the reference: the same deviation, not reported twice
    seen = set()
    for (case, m, g) in disagreements:
        k = case.split()[0].partition(".")[0]
        if k in seen or k in ref_kinds:
            continue
        seen.add(k)
        generated = k in GEN_DISPATCH_UNITS
        ctx.violation("compiled C++ and the extracted Coq model disagree for %s (%s)" % (case.split()[0],
                      "a GENERATED function: the translator or CInt no longer matches the code" if generated else
                      "the hand-written part of the model, the translator or CInt no longer matches the code"),
                      {"input": case, "input_lines": [case], "expected": m, "observed": g,
                       "expected_is": "extracted LV.Gen.Gen_%s" % k if generated else "extracted LV.Model.FeldmanPath",
                       "observed_is": "compiled code of $VERIF_REPO"}, signature="diff:" + case)
    cov["model_disagreements"] = len(disagreements)

    # ---- 5. obligations broke but no failing input --------------------------------------------
    if failures and not ctx.violations:
        for kind, det in failures[:4]:
            what = {"translator": "cxx2v can no longer translate a C28 unit (feldman: splitter functions, feldman_make: metrics::make, "
                                  "feldman_ctor: splitter constructors; construct outside the supported subset)",
                    "proof": "a C28 theorem about the generated splitters / make / constructors / the path model no longer checks",
                    "model": "the extracted C28 model could not be built/run",
                    "harness": "the C28 harness failed"}[kind]
            ctx.violation(what, dict(det, kind=kind, searched="real code vs the independent reference on %d cases "
                                     "(every metrics::make argument triple, every normalised configuration x every single-bit "
                                     "hash difference, real sets): no mismatch" % len(cxx)), no_input=True)
    elif failures:
        cov["broken_obligations"] = [dict(d, kind=k) for k, d in failures[:8]]

    cov.update({
        "evaluations": len(cxx),
        "model_vs_cxx_evaluations": evaluations,
        "model_vs_cxx_evaluations_by_side": dict(gen_evals),
        "real_containers_built": sum(v for k, v in hist.items() if k.startswith("set.")),
        "distinct_nontrivial": len(classes),
        "rule": "distinct classes among the cases on which the real code agreed with the reference: make -> (hash size, which clamps "
                "fire, whether a remainder is moved into the head, head', array'); path/set -> (family, head', array', the levels at "
                "which the hashes of the case diverge).  These are the case splits of make_normalises and paths_diverge.",
        "per_kind_inputs": dict(hist),
        "samples": samples,
        "cxx_value_where_model_says_UB": dict(ub_with_value),
        "seed": ctx.seed,
    })
    ctx.log("sweep: %d cases on the real code, %d compared with the model, %d classes, %d outside the theorems, %d reference mismatches"
            % (len(cxx), evaluations, len(classes), sum(outside.values()), len(bad)))
    trusted = vcheck.STD_TRUSTED + [
        "tools/cxx2v (clang 14 JSON AST -> Gallina) and coq/Base/CInt.v's reading of the C++ standard for g++/amd64; cross-checked on "
        "every run by the differential sweep above",
        "metrics::make and the splitter constructors are GENERATED (Gen_feldman_make, Gen_feldman_ctor) and proved equal to the "
        "hand-written metrics_make / sp_init / sp_init_at of LV.Model.FeldmanPath for every input (Properties_C28_Gen); the compiled "
        "functions are compared with the extracted generated ones on every argument triple of the quantifier / every family and bit "
        "offset (private members read with -fno-access-control)",
        "hand-written (cxx2v does not translate pointer-walking code over atomics), tied to the code only by the differential sweep: "
        "the level loop of traverse_data::reset/traverse/insert/expand_slot (path, expand_slots: descend / expand_from), and the "
        "landing rule of inserts (compared with real FeldmanHashSet<HP> instances)",
        "Print Assumptions: " + ("all C28 theorems closed under the global context" if res.assumptions and all(v == "closed" for v in res.assumptions.values())
                                 else json.dumps(res.assumptions)),
        "ocaml/cxx2v_rt.ml, ocaml/c28_driver.ml, tools/cxx2v/gen_ocaml_dispatch.py (text <-> Coq Z, dispatch); the Python reference "
        "in checks/C28.py",
    ]
    assumptions = [
        "asserts are compiled out (NDEBUG) in the translated configuration and in the harness; the constructor's two is_correct "
        "assertions are the definition of an accepted configuration",
        "single thread: the concurrent insert/expand protocol is C14/C17's subject; here only the addressing arithmetic",
        "split_bitstring/byte_splitter: widths above 32 bits (only possible for hashes wider than 4 bytes) are outside the theorems "
        "(…_above_32_refuted); real sets are built only for head' <= %d" % (20 if ctx.thorough() else 16),
        "LP64 little-endian target: the big-endian branches of cut are not translated",
        "split_bitstring / byte_splitter constructors: the hash object is the byte memory of the generated code (its address is "
        "index 0, exactly sizeof(hash) bytes); instantiated for N = 1..8 bytes",
    ]
    return ctx.finish(trusted, assumptions)
