(** * Events: the common shape of trace events shared by all concurrent models, the OCaml driver
      (ocaml/conc_main.ml) and the C++ event log (hooks/include/khizmax_libcds_verif/sched.h).

    [EvAcc k obj ok]  one atomic access of kind [k] to the shared object with symbolic address [obj]
                      (printed as "<tid> <kind> o<id> <ok>", ids canonicalised by first appearance);
    [EvCli name args] client-visible event (operation invoke/response, critical-section markers,
                      disposer calls ...), printed as "<tid> ev <name> <args>". *)
From Coq Require Import ZArith List String.
Import ListNotations.

Inductive akind := KBegin | KLd | KSt | KXchg | KCas | KFaa | KFas | KFand | KFor | KFxor.

Inductive ev :=
| EvAcc (k : akind) (obj : list Z) (ok : bool)
| EvCli (name : string) (args : list Z).

Definition is_cli (name : string) (e : ev) : bool :=
  match e with EvCli n _ => String.eqb n name | _ => false end.
