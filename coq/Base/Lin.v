(** * Lin: histories, linearizability, an executable checker, LP-annotated traces.

    This file contains DEFINITIONS ONLY (so that it always compiles and extracts);
    every theorem about them is in [LV.Proofs.LinProofs]:

      lincheck_sound        : lincheck S h = true -> linearizable S h
      lincheck_complete     : wf_history h -> linearizable S h -> lincheck S h = true
      lp_valid_linearizable : lp_valid S tr -> linearizable S (erase tr)
      lp_valid_wf           : lp_valid S tr -> wf_history (erase tr)
      wf_historyb_spec      : wf_historyb h = true <-> wf_history h
      lincheck_memo_eq      : (forall a b, eqb a b = true -> a = b) ->
                              lincheck_memo S eqb hash h = lincheck S h

    Contents: Spec, histories, wf_history / wf_historyb, linearizable (the textbook definition),
    lincheck (Wing-Gong search), annotated traces lp_valid / erase, lincheck_memo (optional, faster).

    Usage note: the specification argument of [HInv]/[HRes]/[AInv]/... is implicit and cannot
    always be inferred inside list literals; write [@HInv Fifo t o] or define a local
    abbreviation (see the examples at the end of LinProofs.v).

    Plain stdlib, no ssreflect. *)

Require Import List Arith Bool PeanoNat BinNums BinPos.
Import ListNotations.

Set Implicit Arguments.

(** ** Sequential specifications: a total, deterministic step function. *)

Record Spec := {
  St : Type;                                   (* abstract state          *)
  Op : Type;                                   (* operations (with args)  *)
  Res : Type;                                  (* results                 *)
  sinit : St;
  sstep : St -> Op -> St * Res;
  res_eqb : Res -> Res -> bool;
  res_eqb_spec : forall a b, res_eqb a b = true <-> a = b
}.

(** ** Histories *)

Inductive hev (S : Spec) :=
| HInv (t : nat) (o : Op S)                    (* thread t invokes o       *)
| HRes (t : nat) (r : Res S).                  (* thread t returns r       *)
Arguments HInv {S} & t o.
Arguments HRes {S} & t r.

Definition history (S : Spec) := list (hev S).

Section WithSpec.
Context {Sp : Spec}.

Definition tid_of (e : hev Sp) : nat :=
  match e with HInv t _ => t | HRes t _ => t end.

(** *** Well-formed histories.
    Prop version: the events of every thread alternate Inv, Res, Inv, ... starting with Inv
    (so a thread has at most one pending operation). *)

Fixpoint alternating (open : bool) (l : history Sp) : Prop :=
  match l with
  | [] => True
  | HInv _ _ :: l' => open = false /\ alternating true l'
  | HRes _ _ :: l' => open = true /\ alternating false l'
  end.

Definition thread_events (t : nat) (h : history Sp) : history Sp :=
  filter (fun e => tid_of e =? t) h.

Definition wf_history (h : history Sp) : Prop :=
  forall t, alternating false (thread_events t h).

(** Boolean version: one pass, carrying the list of threads with an open operation. *)

Definition mem_tid (t : nat) (l : list nat) : bool := existsb (Nat.eqb t) l.
Definition del_tid (t : nat) (l : list nat) : list nat := filter (fun u => negb (u =? t)) l.

Fixpoint wfb (open : list nat) (h : history Sp) : bool :=
  match h with
  | [] => true
  | HInv t _ :: h' => negb (mem_tid t open) && wfb (t :: open) h'
  | HRes t _ :: h' => mem_tid t open && wfb (del_tid t open) h'
  end.

Definition wf_historyb (h : history Sp) : bool := wfb [] h.

(** ** Linearizability (Herlihy & Wing), stated with positions in [h].

    Operations are identified by the position [i] of their invocation in [h].
    [completed h i j r]: the invocation at position [i] is answered by the response at
    position [j], which carries result [r] (same thread, and no event of that thread in between). *)

Definition completed (h : history Sp) (i j : nat) (r : Res Sp) : Prop :=
  exists t o,
    nth_error h i = Some (HInv t o) /\
    nth_error h j = Some (HRes t r) /\
    i < j /\
    (forall k e, i < k < j -> nth_error h k = Some e -> tid_of e <> t).

(** An entry of the sequential history: the operation invoked at position [l_inv] of [h]
    by thread [l_tid], with the result it takes in the linearization. *)

Record lop := { l_inv : nat; l_tid : nat; l_op : Op Sp; l_res : Res Sp }.

(** A sequence of (operation, result) pairs is legal from state [s] when running the
    specification yields exactly the recorded results. *)

Fixpoint legal (s : St Sp) (l : list (Op Sp * Res Sp)) : Prop :=
  match l with
  | [] => True
  | (o, r) :: l' => snd (sstep Sp s o) = r /\ legal (fst (sstep Sp s o)) l'
  end.

(** [x] occurs strictly before [y] in [l]. *)
Definition precedes {A} (l : list A) (x y : A) : Prop :=
  exists p q, p < q /\ nth_error l p = Some x /\ nth_error l q = Some y.

(** [lin] is a linearization of [h].  The completion of [h] is implicit: an invocation of
    [h] without response (a pending one) that occurs in [lin] is "completed by a response
    appended at the end of [h]" (its result [l_res] is unconstrained by [h], and it
    precedes nothing in real time); a pending invocation that does not occur in [lin] is "dropped". *)

Record linearization (h : history Sp) (lin : list lop) : Prop := {
  (* (i) lin consists of operations of h, each at most once, and contains every
         completed operation of h with the result it has in h *)
  lin_ops : forall a, In a lin ->
      nth_error h (l_inv a) = Some (HInv (l_tid a) (l_op a));
  lin_nodup : NoDup (map l_inv lin);
  lin_complete : forall i j r, completed h i j r ->
      exists a, In a lin /\ l_inv a = i /\ l_res a = r;
  (* (ii) lin is a legal sequential history of the specification *)
  lin_legal : legal (sinit Sp) (map (fun a => (l_op a, l_res a)) lin);
  (* (iii) real-time order: if a's response precedes b's invocation in h,
           then a precedes b in lin *)
  lin_realtime : forall i j r b, completed h i j r -> In b lin -> j < l_inv b ->
      precedes (map l_inv lin) i (l_inv b)
}.

Definition linearizable (h : history Sp) : Prop := exists lin, linearization h lin.

(** ** The checker (Wing & Gong search).

    [ops_of h]: the operations of [h]: position of the invocation, thread, operation and,
    if the operation is completed in [h], the position and value of its response. *)

Record oper := { o_inv : nat; o_tid : nat; o_op : Op Sp; o_ret : option (nat * Res Sp) }.

(** First event of thread [t] in [l] (whose first element has position [k] in the
    history): [Some (position, result)] if that event is a response. *)
Fixpoint find_ret (t : nat) (l : history Sp) (k : nat) : option (nat * Res Sp) :=
  match l with
  | [] => None
  | HInv u _ :: l' => if u =? t then None else find_ret t l' (S k)
  | HRes u r :: l' => if u =? t then Some (k, r) else find_ret t l' (S k)
  end.

Fixpoint ops_from (l : history Sp) (k : nat) : list oper :=
  match l with
  | [] => []
  | HInv t o :: l' =>
      {| o_inv := k; o_tid := t; o_op := o; o_ret := find_ret t l' (S k) |} :: ops_from l' (S k)
  | HRes _ _ :: l' => ops_from l' (S k)
  end.

Definition ops_of (h : history Sp) : list oper := ops_from h 0.

Definition is_open (a : oper) : bool :=
  match o_ret a with None => true | Some _ => false end.

(** [x] returned before position [i]. *)
Definition returned_before (i : nat) (x : oper) : bool :=
  match o_ret x with Some (j, _) => j <? i | None => false end.

(** [a] may be linearized next: no operation still to be linearized returned before [a] was invoked. *)
Definition minimal (todo : list oper) (a : oper) : bool :=
  forallb (fun x => negb (returned_before (o_inv a) x)) todo.

(** The result [r] computed by the specification agrees with the one recorded in [h] (if any). *)
Definition result_ok (a : oper) (r : Res Sp) : bool :=
  match o_ret a with Some (_, r') => res_eqb Sp r' r | None => true end.

Definition drop_op (a : oper) (todo : list oper) : list oper :=
  filter (fun x => negb (o_inv x =? o_inv a)) todo.

(** [search fuel todo s]: the operations [todo] can be linearized starting from state [s].
    Success when only pending operations remain (they are dropped); otherwise pick any
    minimal operation whose recorded result (if it has one) is the one the specification gives. *)
Fixpoint search (fuel : nat) (todo : list oper) (s : St Sp) : bool :=
  forallb is_open todo ||
  match fuel with
  | 0 => false
  | S f =>
      existsb (fun a =>
        minimal todo a &&
        let (s', r) := sstep Sp s (o_op a) in
        result_ok a r && search f (drop_op a todo) s') todo
  end.

(** Every recursive call removes an operation from [todo], and [h] has at most
    [length h] operations, so [length h] is enough fuel (see [lincheck_complete]). *)
Definition lincheck (h : history Sp) : bool :=
  wf_historyb h && search (length h) (ops_of h) (sinit Sp).

(** ** Traces annotated with linearization points *)

Inductive aev :=
| AInv (t : nat) (o : Op Sp)
| ALin (t : nat)                               (* linearization point of t's current operation *)
| ARes (t : nat) (r : Res Sp).

Inductive status :=
| Idle
| Pending (o : Op Sp)                          (* invoked, not yet linearized  *)
| Linearized (o : Op Sp) (r : Res Sp).         (* linearized with result r     *)

Definition config : Type := St Sp * (nat -> status).

Definition upd (st : nat -> status) (t : nat) (x : status) : nat -> status :=
  fun u => if u =? t then x else st u.

Definition lp_step (c : config) (e : aev) : option config :=
  let (s, st) := c in
  match e with
  | AInv t o =>
      match st t with Idle => Some (s, upd st t (Pending o)) | _ => None end
  | ALin t =>
      match st t with
      | Pending o => Some (fst (sstep Sp s o), upd st t (Linearized o (snd (sstep Sp s o))))
      | _ => None
      end
  | ARes t r =>
      match st t with
      | Linearized _ r' => if res_eqb Sp r r' then Some (s, upd st t Idle) else None
      | _ => None
      end
  end.

Fixpoint lp_run (c : config) (tr : list aev) : option config :=
  match tr with
  | [] => Some c
  | e :: tr' => match lp_step c e with Some c' => lp_run c' tr' | None => None end
  end.

Definition lp_init : config := (sinit Sp, fun _ => Idle).

Definition lp_valid (tr : list aev) : Prop := exists c, lp_run lp_init tr = Some c.

Definition lp_validb (tr : list aev) : bool :=
  match lp_run lp_init tr with Some _ => true | None => false end.

(** The history of an annotated trace: forget the linearization points. *)
Fixpoint erase (tr : list aev) : history Sp :=
  match tr with
  | [] => []
  | AInv t o :: tr' => HInv t o :: erase tr'
  | ALin _ :: tr' => erase tr'
  | ARes t r :: tr' => HRes t r :: erase tr'
  end.

End WithSpec.

(** ** Optional: the same search with a cache of dead ends.

    [lincheck_memo st_eqb st_hash h] explores the same tree as [lincheck], but remembers the
    pairs (operations still to do, abstract state) from which the search failed and does not
    explore them again.  It needs
    - [st_eqb], a boolean equality on abstract states that is sound
      ([st_eqb a b = true -> a = b]; answering [false] on equal states only loses cache hits);
    - [st_hash], any function from states to [positive] (used only to spread the cache over a
      binary trie: nothing is required of it, a constant function is merely slow).
    [LinProofs.lincheck_memo_eq] proves [lincheck_memo st_eqb st_hash h = lincheck h], so all
    theorems about [lincheck] apply. *)

Section Memo.
Context {Sp : Spec} (st_eqb : St Sp -> St Sp -> bool) (st_hash : St Sp -> positive).

(** a dead end: the positions of the invocations still to do, and the state *)
Definition entry : Type := list nat * St Sp.

(** the cache: a binary trie indexed by a hash of the entry; each node holds a bucket *)
Inductive cache := CLeaf | CNode (l : cache) (es : list entry) (r : cache).

Fixpoint cfind (p : positive) (c : cache) : list entry :=
  match c with
  | CLeaf => []
  | CNode l es r =>
      match p with xH => es | xO p' => cfind p' l | xI p' => cfind p' r end
  end.

Fixpoint cadd (p : positive) (e : entry) (c : cache) : cache :=
  match p, c with
  | xH, CLeaf => CNode CLeaf [e] CLeaf
  | xH, CNode l es r => CNode l (e :: es) r
  | xO p', CLeaf => CNode (cadd p' e CLeaf) [] CLeaf
  | xO p', CNode l es r => CNode (cadd p' e l) es r
  | xI p', CLeaf => CNode CLeaf [] (cadd p' e CLeaf)
  | xI p', CNode l es r => CNode l es (cadd p' e r)
  end.

(** the hash of an entry: 20 bits mixing [st_hash s] and the positions [k] (a "times 33" hash) *)
Fixpoint ptrunc (n : nat) (p : positive) : positive :=      (* the n low bits of p *)
  match n, p with
  | S n', xO q => xO (ptrunc n' q)
  | S n', xI q => xI (ptrunc n' q)
  | _, _ => xH
  end.

Definition pmix (acc x : positive) : positive :=
  ptrunc 24 (Pos.add (Pos.add (xO (xO (xO (xO (xO acc))))) acc) x).

Definition hash_entry (k : list nat) (s : St Sp) : positive :=
  ptrunc 20 (fold_left (fun acc i => pmix acc (Pos.of_succ_nat i)) k (ptrunc 24 (st_hash s))).

Fixpoint nats_eqb (a b : list nat) : bool :=
  match a, b with
  | [], [] => true
  | x :: a', y :: b' => (x =? y) && nats_eqb a' b'
  | _, _ => false
  end.

Definition cached (p : positive) (k : list nat) (s : St Sp) (c : cache) : bool :=
  existsb (fun e => nats_eqb (fst e) k && st_eqb (snd e) s) (cfind p c).

(** try the candidates [cands] one after the other, threading the cache through *)
Fixpoint try_all (rec : list (oper (Sp:=Sp)) -> St Sp -> cache -> bool * cache)
    (todo : list oper) (s : St Sp) (cands : list oper) (c : cache) : bool * cache :=
  match cands with
  | [] => (false, c)
  | a :: cands' =>
      let (s', r) := sstep Sp s (o_op a) in
      if minimal todo a && result_ok a r then
        let (b, c') := rec (drop_op a todo) s' c in
        if b then (true, c') else try_all rec todo s cands' c'
      else try_all rec todo s cands' c
  end.

Fixpoint msearch (fuel : nat) (todo : list oper) (s : St Sp) (c : cache) : bool * cache :=
  if forallb is_open todo then (true, c) else
  match fuel with
  | 0 => (false, c)
  | S f =>
      let k := map o_inv todo in
      let p := hash_entry k s in
      if cached p k s c then (false, c) else
      let (b, c') := try_all (msearch f) todo s todo c in
      if b then (true, c') else (false, cadd p (k, s) c')
  end.

Definition lincheck_memo (h : history Sp) : bool :=
  wf_historyb h && fst (msearch (length h) (ops_of h) (sinit Sp) CLeaf).

End Memo.

Arguments lop : clear implicits.
Arguments oper : clear implicits.
Arguments aev : clear implicits.
Arguments status : clear implicits.
Arguments config : clear implicits.
Arguments linearization : clear implicits.
Arguments linearizable : clear implicits.
Arguments lincheck : clear implicits.
Arguments lp_valid : clear implicits.
Arguments lp_validb : clear implicits.
Arguments lincheck_memo : clear implicits.
