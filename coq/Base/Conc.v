(** * Conc: interleaving semantics for executable models of concurrent code.

    A model gives, for every client operation, a _program_ in a small resumption monad: every [Act] is
    exactly one access to shared memory (one scheduling point of the instrumented C++ code), everything
    between two accesses is thread-local computation.  [Emit] records client-visible events
    (operation invoke/response, disposer calls) without being a scheduling point.

    [run] executes a list of threads under an explicit schedule (a list of thread indices) — the very same
    rule the C++ scheduler of harness/vsched.h uses — and is what gets extracted.

    [reach] is the general relation "some sequence of thread choices leads here"; every [run] is a [reach]
    ([run_reach]), and the proof rule [safe]/[reach_inv] (invariant with auxiliary state and per-thread
    views, Owicki-Gries style) establishes facts about _every_ reachable configuration, i.e. for every
    schedule, any number of threads, any length. *)

From Coq Require Import List Arith Lia Bool PeanoNat.
Import ListNotations.

Set Implicit Arguments.

Section Conc.
  Variables (G V E : Type).

  Inductive prog (R : Type) : Type :=
  | Ret (r : R)
  | Emit (es : list E) (k : prog R)
  | Act (f : G -> G * V * list E) (k : V -> prog R).

  Arguments Ret {R} r.
  Arguments Emit {R} es k.
  Arguments Act {R} f k.

  Fixpoint bind {A B} (p : prog A) (q : A -> prog B) : prog B :=
    match p with
    | Ret r => q r
    | Emit es k => Emit es (bind k q)
    | Act f k => Act f (fun v => bind (k v) q)
    end.

  Definition thread := prog unit.

  (** thread-local computation up to the next shared access *)
  Fixpoint settle (p : thread) : list E * thread :=
    match p with
    | Emit es k => let (es', p') := settle k in (es ++ es', p')
    | _ => ([], p)
    end.

  Definition enabled (p : thread) : bool :=
    match p with Act _ _ => true | _ => false end.

  Definition step_thread (g : G) (p : thread) : option (G * thread * list E) :=
    match p with
    | Act f k =>
        let '(g', v, es) := f g in
        let (es', p') := settle (k v) in
        Some (g', p', es ++ es')
    | _ => None
    end.

  Record config := Cfg { shared : G; threads : list thread; trace : list (nat * E) }.

  Definition tag (t : nat) (es : list E) : list (nat * E) := map (pair t) es.

  Fixpoint set_nth {A} (l : list A) (n : nat) (x : A) : list A :=
    match l, n with
    | [], _ => []
    | _ :: l', O => x :: l'
    | y :: l', S n' => y :: set_nth l' n' x
    end.

  Definition step_cfg (c : config) (t : nat) : option config :=
    match nth_error (threads c) t with
    | Some p =>
        match step_thread (shared c) p with
        | Some (g', p', es) => Some (Cfg g' (set_nth (threads c) t p') (trace c ++ tag t es))
        | None => None
        end
    | None => None
    end.

  (** ** every sequence of thread choices *)
  Inductive reach (c0 : config) : config -> Prop :=
  | reach_refl : reach c0 c0
  | reach_step c t c' : reach c0 c -> step_cfg c t = Some c' -> reach c0 c'.

  (** ** the deterministic scheduler (shared with the C++ harness)
      Entry [c] of the schedule means: run the first enabled thread among c, c+1, …, c+n-1 (mod n).
      When the schedule is exhausted the entry for global step number [i] is [i] (round-robin). *)
  Fixpoint pick_from (ts : list thread) (n c j : nat) : option nat :=
    match j with
    | O => None
    | S j' =>
        let idx := (c + (n - j)) mod n in
        match nth_error ts idx with
        | Some p => if enabled p then Some idx else pick_from ts n c j'
        | None => pick_from ts n c j'
        end
    end.

  Definition pick (ts : list thread) (c : nat) : option nat :=
    let n := length ts in pick_from ts n c n.

  Fixpoint run (fuel : nat) (i : nat) (sched : list nat) (c : config) : config * bool :=
    match fuel with
    | O => (c, false)
    | S fuel' =>
        let (entry, rest) := match sched with [] => (i, []) | e :: r => (e, r) end in
        match pick (threads c) entry with
        | None => (c, true)                     (* all threads finished *)
        | Some t =>
            match step_cfg c t with
            | Some c' => run fuel' (S i) rest c'
            | None => (c, true)                 (* unreachable: picked threads are enabled *)
            end
        end
    end.

  Lemma run_reach fuel : forall i sched c, reach c (fst (run fuel i sched c)).
  Proof.
    induction fuel as [|fuel IH]; intros i sched c; cbn [run]; [constructor|].
    destruct sched as [|e r].
    - destruct (pick (threads c) i) as [t|]; [|constructor].
      destruct (step_cfg c t) as [c'|] eqn:Hs; [|constructor].
      specialize (IH (S i) [] c').
      clear -IH Hs. induction IH as [|c1 t1 c2 H1 IH1 H2]; [econstructor 2; [constructor|eassumption]|].
      econstructor 2; eassumption.
    - destruct (pick (threads c) e) as [t|]; [|constructor].
      destruct (step_cfg c t) as [c'|] eqn:Hs; [|constructor].
      specialize (IH (S i) r c').
      clear -IH Hs. induction IH as [|c1 t1 c2 H1 IH1 H2]; [econstructor 2; [constructor|eassumption]|].
      econstructor 2; eassumption.
  Qed.

  (** ** proof rule: global invariant over shared state, auxiliary state and the trace so far,
         with per-thread views that only the owning thread's steps may change *)
  Section Rule.
    Variables (Aux L : Type).
    Variable view : Aux -> nat -> L.
    Variable Inv : G -> Aux -> list (nat * E) -> Prop.

    Definition frame (t : nat) (a a' : Aux) : Prop :=
      forall t', t' <> t -> view a' t' = view a t'.

    Fixpoint safe {R} (t : nat) (p : prog R) (l : L) (Q : R -> L -> Prop) : Prop :=
      match p with
      | Ret r => Q r l
      | Emit es k =>
          forall g a tr, Inv g a tr -> view a t = l ->
            exists a', Inv g a' (tr ++ tag t es) /\ frame t a a' /\ safe t k (view a' t) Q
      | Act f k =>
          forall g a tr, Inv g a tr -> view a t = l ->
            exists a', Inv (fst (fst (f g))) a' (tr ++ tag t (snd (f g))) /\ frame t a a' /\
                       safe t (k (snd (fst (f g)))) (view a' t) Q
      end.

    Lemma safe_bind {A B} t (p : prog A) (q : A -> prog B) Q : forall l,
      safe t p l (fun r l' => safe t (q r) l' Q) -> safe t (bind p q) l Q.
    Proof.
      induction p as [r|es k IH|f k IH]; intros l H; cbn [bind safe] in *.
      - exact H.
      - intros g a tr Hi Hv. destruct (H g a tr Hi Hv) as (a' & H1 & H2 & H3).
        exists a'. repeat split; auto.
      - intros g a tr Hi Hv. destruct (H g a tr Hi Hv) as (a' & H1 & H2 & H3).
        exists a'. repeat split; auto.
    Qed.

    Lemma safe_weaken {R} t (p : prog R) (Q Q' : R -> L -> Prop) :
      (forall r l, Q r l -> Q' r l) -> forall l, safe t p l Q -> safe t p l Q'.
    Proof.
      intros HQ. induction p as [r|es k IH|f k IH]; intros l H; cbn [safe] in *.
      - auto.
      - intros g a tr Hi Hv. destruct (H g a tr Hi Hv) as (a' & H1 & H2 & H3). exists a'; auto.
      - intros g a tr Hi Hv. destruct (H g a tr Hi Hv) as (a' & H1 & H2 & H3). exists a'; auto.
    Qed.

    Definition QTrue : unit -> L -> Prop := fun _ _ => True.

    Definition threads_safe (a : Aux) (ts : list thread) : Prop :=
      forall t p, nth_error ts t = Some p -> safe t p (view a t) QTrue.

    Definition cfg_ok (c : config) : Prop :=
      exists a, Inv (shared c) a (trace c) /\ threads_safe a (threads c).

    Lemma tag_app t es es' : tag t (es ++ es') = tag t es ++ tag t es'.
    Proof. unfold tag. apply map_app. Qed.

    Lemma settle_safe t (p : thread) : forall g a tr,
      Inv g a tr -> safe t p (view a t) QTrue ->
      exists a', Inv g a' (tr ++ tag t (fst (settle p))) /\ frame t a a' /\
                 safe t (snd (settle p)) (view a' t) QTrue.
    Proof.
      induction p as [r|es k IH|f k IH]; intros g a tr Hi Hs; cbn [settle].
      - exists a. cbn. rewrite app_nil_r. repeat split; auto; try (intros ? ?; reflexivity).
      - cbn [safe] in Hs. destruct (Hs g a tr Hi eq_refl) as (a1 & H1 & H2 & H3).
        destruct (IH g a1 _ H1 H3) as (a2 & K1 & K2 & K3).
        destruct (settle k) as [es' p'] eqn:Hk. cbn [fst snd] in *.
        exists a2. rewrite tag_app, app_assoc. repeat split; auto.
        intros t' Ht. rewrite (K2 t' Ht). apply H2; exact Ht.
      - exists a. cbn. rewrite app_nil_r. repeat split; auto; try (intros ? ?; reflexivity).
    Qed.

    Lemma nth_error_set_nth_eq {A} (l : list A) n x y :
      nth_error l n = Some y -> nth_error (set_nth l n x) n = Some x.
    Proof. revert n; induction l as [|z l IH]; intros [|n]; cbn; try discriminate; auto. Qed.

    Lemma nth_error_set_nth_neq {A} (l : list A) n m x :
      n <> m -> nth_error (set_nth l n x) m = nth_error l m.
    Proof.
      revert n m; induction l as [|z l IH]; intros [|n] [|m] H; cbn; auto; try congruence.
    Qed.

    Lemma step_ok c t c' : cfg_ok c -> step_cfg c t = Some c' -> cfg_ok c'.
    Proof.
      intros (a & Hi & Hts) Hs. unfold step_cfg in Hs.
      destruct (nth_error (threads c) t) as [p|] eqn:Hp; [|discriminate].
      unfold step_thread in Hs. destruct p as [r|es k|f k]; try discriminate.
      pose proof (Hts t _ Hp) as Hsafe. cbn [safe] in Hsafe.
      destruct (Hsafe _ _ _ Hi eq_refl) as (a1 & H1 & H2 & H3).
      destruct (f (shared c)) as [[g' v] es] eqn:Hf. cbn [fst snd] in *.
      destruct (settle_safe t (k v) H1 H3) as (a2 & K1 & K2 & K3).
      destruct (settle (k v)) as [es' p'] eqn:Hk. cbn [fst snd] in *.
      inversion Hs; subst c'; clear Hs. exists a2. cbn [shared trace threads]. split.
      - rewrite tag_app, app_assoc. exact K1.
      - intros t' q Hq. destruct (Nat.eq_dec t' t) as [->|Hne].
        + rewrite (nth_error_set_nth_eq _ _ _ Hp) in Hq. inversion Hq; subst q. exact K3.
        + rewrite nth_error_set_nth_neq in Hq by congruence.
          rewrite (K2 t' Hne), (H2 t' Hne). apply Hts; exact Hq.
    Qed.

    Theorem reach_inv c0 c : cfg_ok c0 -> reach c0 c -> cfg_ok c.
    Proof. intros H0 Hr. induction Hr as [|c t c' Hr IH Hs]; [exact H0|]. eapply step_ok; eauto. Qed.

    Corollary reach_Inv c0 c : cfg_ok c0 -> reach c0 c -> exists a, Inv (shared c) a (trace c).
    Proof. intros H0 Hr. destruct (reach_inv H0 Hr) as (a & Hi & _). eauto. Qed.

    Corollary run_Inv fuel sched c0 : cfg_ok c0 ->
      exists a, Inv (shared (fst (run fuel 0 sched c0))) a (trace (fst (run fuel 0 sched c0))).
    Proof. intros H0. eapply reach_Inv; eauto using run_reach. Qed.
  End Rule.

End Conc.

Arguments Ret {G V E R} r.
Arguments Emit {G V E R} es k.
Arguments Act {G V E R} f k.
