(** * Step-grain model of cds::intrusive::SkipListSet<cds::gc::HP, T, Traits>  (cds/intrusive/impl/skip_list.h),
      one atomic access per [Act], in the order the C++ executes them (harness/C15/step_skip.cpp: c_nMaxHeight = 3,
      item counter on, statistics and back-off empty, retired arrays large enough that no HP scan runs in a case).

    Modelled functions (file cds/intrusive/impl/skip_list.h unless noted):
      insert( val, f )          [op_insert]     gNew guard, position, find_position / build_node / insert_at_position loop,
                                                increase_height, ++m_ItemCounter
      find_position             [find_position] with help_remove, the `goto retry`s, guards.assign / protect / copy
      help_remove               [help_remove]
      renew_insert_position     [renew_position]
      insert_at_position        [insert_at]     level 0 store + CAS, upper levels: own-link CAS, pred CAS, renew
      try_remove_at             [try_remove_at] marks top-down, level-0 mark CAS (linearization point), fast unlink
      erase_                    [op_erase]
      find_fastpath / find_slowpath / find_with_   [op_contains]   (incl. the mark check added by /repo b75fd35)
      find_min_position / find_max_position / extract_min_ / extract_max_   [op_extract]  (incl. b75fd35's retry)
      cds::gc::hp guards (cds/gc/hp.h, details/hp_common.h): a guard is one atomic slot of the thread's hazard array;
        assign = store + sync() (a fetch_add on the thread's sync_ word); protect = load, store, sync, load until
        stable; copy = load source slot, store, sync; releasing a guard = store nullptr; slots come from a LIFO
        free list (thread-local, not shared).
      skip_list::node (details/skip_list_base.h): constructor `m_nUnlink.store( 1 )`, make_tower `m_nUnlink.store( h )`,
        level_unlinked( n ) = `fetch_sub( n ) == 1`, is_upper_level( l ) = `load() == l + 1`.

    Pointers: 0 = nullptr, 1 = head, a node is [2 + 8 * serial + key] (so the key of a node is a function of the
    pointer: keys never change); serial numbers are never reused. *)
From Coq Require Import ZArith List String Bool Lia PeanoNat.
From LV Require Import Base.Conc Base.Events.
Import ListNotations.
Local Open Scope Z_scope.


Definition MAXH : nat := 3.            (* c_nMaxHeight *)
Definition NKEYS : nat := 8.

Definition ptr := nat.
Definition null : ptr := 0%nat.
Definition head : ptr := 1%nat.
Definition mk_node (serial : nat) (key : nat) : ptr := (2 + 8 * serial + key)%nat.
Definition key_of (p : ptr) : Z := Z.of_nat ((p - 2) mod 8).
(** serial number of a node = allocation count of its thread * 64 + thread id (at most 63 threads; 63 = the main
    thread's pre-filled nodes), so nodes of different threads never collide *)
Definition node_id (t ser : nat) (key : nat) : ptr := mk_node (ser * 64 + t) key.
Definition owner_of (p : ptr) : nat := ((p - 2) / 8) mod 64.
Definition ser_of (p : ptr) : nat := ((p - 2) / 8) / 64.

Definition mptr := (ptr * bool)%type.      (* marked pointer *)

Record G := mkG {
  nxt : ptr -> nat -> mptr;        (* next( level ) of head / nodes *)
  unl : ptr -> Z;                  (* m_nUnlink *)
  hgt_of : ptr -> nat;             (* m_nHeight of the node: written by its owner before publication (not atomic) *)
  hgt : Z;                         (* m_nHeight of the list (estimated height) *)
  cnt : Z                          (* m_ItemCounter *)
}.

Inductive V := VU | VZ (z : Z) | VP (p : mptr) | VC (ok : bool) (cur : mptr).

Definition prog := Conc.prog G V ev.

(** *** symbolic addresses of the shared objects *)
Definition o_next (p : ptr) (l : nat) : list Z := [1; Z.of_nat p; Z.of_nat l].
Definition o_guard (t slot : nat) : list Z := [2; Z.of_nat t; Z.of_nat slot].
Definition o_unl (p : ptr) : list Z := [3; Z.of_nat p].
Definition o_hgt : list Z := [4].
Definition o_cnt : list Z := [5].
Definition o_sync (t : nat) : list Z := [6; Z.of_nat t].
Definition o_ret (t : nat) : list Z := [7; Z.of_nat t].     (* cursor of the thread's retired array (hp::details::retired_array::current_) *)

Definition upd2 {A} (f : ptr -> nat -> A) (p : ptr) (l : nat) (x : A) : ptr -> nat -> A :=
  fun p' l' => if Nat.eqb p' p && Nat.eqb l' l then x else f p' l'.
Definition upd1 {A} (f : ptr -> A) (p : ptr) (x : A) : ptr -> A :=
  fun p' => if Nat.eqb p' p then x else f p'.

Definition mp_eqb (a b : mptr) : bool := Nat.eqb (fst a) (fst b) && Bool.eqb (snd a) (snd b).

(** *** the atomic accesses *)
Definition a_begin : G -> G * V * list ev := fun g => (g, VU, [EvAcc KBegin [] true]).
Definition a_ld_next (p : ptr) (l : nat) : G -> G * V * list ev :=
  fun g => (g, VP (nxt g p l), [EvAcc KLd (o_next p l) true]).
Definition a_st_next (p : ptr) (l : nat) (x : mptr) : G -> G * V * list ev :=
  fun g => (mkG (upd2 (nxt g) p l x) (unl g) (hgt_of g) (hgt g) (cnt g), VU, [EvAcc KSt (o_next p l) true]).
Definition a_cas_next (p : ptr) (l : nat) (expected desired : mptr) : G -> G * V * list ev :=
  fun g =>
    let cur := nxt g p l in
    if mp_eqb cur expected
    then (mkG (upd2 (nxt g) p l desired) (unl g) (hgt_of g) (hgt g) (cnt g), VC true cur, [EvAcc KCas (o_next p l) true])
    else (g, VC false cur, [EvAcc KCas (o_next p l) false]).
Definition a_st_unl (p : ptr) (n : Z) (h : nat) : G -> G * V * list ev :=
  fun g => (mkG (nxt g) (upd1 (unl g) p n) (upd1 (hgt_of g) p h) (hgt g) (cnt g), VU, [EvAcc KSt (o_unl p) true]).
Definition a_ld_unl (p : ptr) : G -> G * V * list ev :=
  fun g => (g, VZ (unl g p), [EvAcc KLd (o_unl p) true]).
Definition a_fas_unl (p : ptr) (n : Z) : G -> G * V * list ev :=
  fun g => (mkG (nxt g) (upd1 (unl g) p (unl g p - n)) (hgt_of g) (hgt g) (cnt g), VZ (unl g p), [EvAcc KFas (o_unl p) true]).
Definition a_ld_hgt : G -> G * V * list ev := fun g => (g, VZ (hgt g), [EvAcc KLd o_hgt true]).
Definition a_faa_cnt : G -> G * V * list ev :=
  fun g => (mkG (nxt g) (unl g) (hgt_of g) (hgt g) (cnt g + 1), VU, [EvAcc KFaa o_cnt true]).
Definition a_fas_cnt : G -> G * V * list ev :=
  fun g => (mkG (nxt g) (unl g) (hgt_of g) (hgt g) (cnt g - 1), VU, [EvAcc KFas o_cnt true]).
(** hazard slots and the sync_ word carry no information the algorithm reads back (no scan inside a case) *)
Definition a_guard_st (t slot : nat) : G -> G * V * list ev := fun g => (g, VU, [EvAcc KSt (o_guard t slot) true]).
Definition a_guard_ld (t slot : nat) : G -> G * V * list ev := fun g => (g, VU, [EvAcc KLd (o_guard t slot) true]).
Definition a_sync (t : nat) : G -> G * V * list ev := fun g => (g, VU, [EvAcc KFaa (o_sync t) true]).
(** gc::retire: retired_.push = load and store of the array cursor (the array never fills up in a case) *)
Definition a_ret_ld (t : nat) : G -> G * V * list ev := fun g => (g, VU, [EvAcc KLd (o_ret t) true]).
Definition a_ret_st (t : nat) : G -> G * V * list ev := fun g => (g, VU, [EvAcc KSt (o_ret t) true]).

Definition vp (v : V) : mptr := match v with VP p => p | VC _ p => p | _ => (null, false) end.
Definition vz (v : V) : Z := match v with VZ z => z | _ => 0 end.
Definition vok (v : V) : bool := match v with VC ok _ => ok | _ => false end.

(** *** thread-local state: identity, free list of hazard slots (LIFO), serial number of the next node *)
Record TL := mkTL { tid : nat; fl : list nat; ser : nat }.

Definition alloc1 (s : TL) : nat * TL :=
  match fl s with x :: r => (x, mkTL (tid s) r (ser s)) | [] => (99%nat, s) end.
Fixpoint allocn (n : nat) (s : TL) : list nat * TL :=
  match n with
  | O => ([], s)
  | S n' => let (x, s1) := alloc1 s in let (xs, s2) := allocn n' s1 in (x :: xs, s2)
  end.
Definition free1 (x : nat) (s : TL) : TL := mkTL (tid s) (x :: fl s) (ser s).

(** guard operations *)
Definition g_assign {R} (s : TL) (slot : nat) (k : prog R) : prog R :=
  Act (a_guard_st (tid s) slot) (fun _ => Act (a_sync (tid s)) (fun _ => k)).
Definition g_clear {R} (s : TL) (slot : nat) (k : prog R) : prog R :=
  Act (a_guard_st (tid s) slot) (fun _ => k).
Definition g_copy {R} (s : TL) (dst src : nat) (k : prog R) : prog R :=
  Act (a_guard_ld (tid s) src) (fun _ => Act (a_guard_st (tid s) dst) (fun _ => Act (a_sync (tid s)) (fun _ => k))).
(** protect: load, store, sync, load, until two loads agree *)
Fixpoint g_protect {R} (fuel : nat) (s : TL) (slot : nat) (p : ptr) (l : nat) (k : option mptr -> prog R) : prog R :=
  match fuel with
  | O => k None
  | S f =>
      Act (a_ld_next p l) (fun v1 =>
        Act (a_guard_st (tid s) slot) (fun _ =>
          Act (a_sync (tid s)) (fun _ =>
            Act (a_ld_next p l) (fun v2 =>
              if mp_eqb (vp v1) (vp v2) then k (Some (vp v2))
              else g_protect_again f s slot p l (vp v2) k))))
  end
with g_protect_again {R} (fuel : nat) (s : TL) (slot : nat) (p : ptr) (l : nat) (cur : mptr) (k : option mptr -> prog R) : prog R :=
  match fuel with
  | O => k None
  | S f =>
      (* do { pCur = pRet; set( pCur ); pRet = load } while ( pRet != pCur ) *)
      Act (a_guard_st (tid s) slot) (fun _ =>
        Act (a_sync (tid s)) (fun _ =>
          Act (a_ld_next p l) (fun v2 =>
            if mp_eqb cur (vp v2) then k (Some (vp v2))
            else g_protect_again f s slot p l (vp v2) k)))
  end.
(** GuardArray::protect: `do { assign( i, f( pRet = load )); } while ( pRet != load );` — every round starts with a fresh load *)
Fixpoint ga_protect {R} (fuel : nat) (s : TL) (slot : nat) (p : ptr) (l : nat) (k : option mptr -> prog R) : prog R :=
  match fuel with
  | O => k None
  | S f =>
      Act (a_ld_next p l) (fun v1 =>
        Act (a_guard_st (tid s) slot) (fun _ =>
          Act (a_sync (tid s)) (fun _ =>
            Act (a_ld_next p l) (fun v2 =>
              if mp_eqb (vp v1) (vp v2) then k (Some (vp v1))
              else ga_protect f s slot p l k))))
  end.
Fixpoint g_free_all {R} (s : TL) (slots : list nat) (k : TL -> prog R) : prog R :=
  match slots with
  | [] => k s
  | x :: r => g_clear s x (g_free_all (free1 x s) r k)
  end.

(** position: pPrev / pSucc per level, pCur, and the 2 * c_nMaxHeight guard slots *)
Record pos := mkPos { pprev : nat -> ptr; psucc : nat -> ptr; pcur : ptr; pg : list nat }.
Definition set_lvl (f : nat -> ptr) (l : nat) (x : ptr) : nat -> ptr := fun l' => if Nat.eqb l' l then x else f l'.
Definition gslot (ps : pos) (i : nat) : nat := nth i (pg ps) 98%nat.

Definition cmpk (p : ptr) (k : Z) : Z := key_of p - k.

(** outcome of functions that may run out of fuel *)
Inductive res (A : Type) := Ok (a : A) | Fuel.
Arguments Ok {A} a.
Arguments Fuel {A}.

Definition retire {R} (s : TL) (k : prog R) : prog R :=
  Act (a_ret_ld (tid s)) (fun _ => Act (a_ret_st (tid s)) (fun _ => k)).

(** help_remove( nLevel, pPred, pCur ) *)
Definition help_remove {R} (fuel : nat) (s : TL) (l : nat) (pred cur : ptr) (k : res TL -> prog R) : prog R :=
  Act (a_ld_unl cur) (fun u =>
    if vz u =? Z.of_nat l + 1 then
      let (hp, s1) := alloc1 s in
      g_protect fuel s1 hp cur l (fun r =>
        match r with
        | None => k Fuel
        | Some succ =>
            if snd succ then
              Act (a_cas_next pred l (cur, false) (fst succ, false)) (fun c =>
                if vok c then
                  Act (a_fas_unl cur 1) (fun u1 =>
                    if vz u1 =? 1 then retire s1 (g_clear s1 hp (k (Ok (free1 hp s1))))
                    else g_clear s1 hp (k (Ok (free1 hp s1))))
                else g_clear s1 hp (k (Ok (free1 hp s1))))
            else g_clear s1 hp (k (Ok (free1 hp s1)))
        end)
    else k (Ok s)).

(** find_position( val, pos, cmp, bStopIfFound ); [mode]: 0 = find_position, 1 = renew_insert_position( pNode ),
    the latter never stops on equality and gives up when it meets its own node marked *)
Inductive fp_out := FpFound (ps : pos) | FpNotFound (ps : pos) | FpOwnRemoved.

Fixpoint fp_level {R} (fuel : nat) (s : TL) (key : Z) (stop : bool) (own : ptr) (lvl : nat) (pred : ptr) (ps : pos) (ncmp : Z)
  (retry : TL -> prog R) (k : TL -> ptr -> mptr -> Z -> bool -> prog R) (kf : prog R) (kown : TL -> prog R) {struct fuel} : prog R :=
  (* the `while ( true )` of one level; [k s pred cur nCmp found] continues after the level *)
  match fuel with
  | O => kf
  | S f =>
      ga_protect fuel s (gslot ps (2 * lvl + 1)) pred lvl (fun r =>
        match r with
        | None => kf
        | Some cur =>
            if snd cur then retry s
            else if Nat.eqb (fst cur) null then k s pred cur ncmp false
            else
              Act (a_ld_next (fst cur) lvl) (fun vs =>
                Act (a_ld_next pred lvl) (fun vr =>
                  if negb (mp_eqb (vp vr) (fst cur, false)) then retry s
                  else if snd (vp vs) then
                    if negb (Nat.eqb own null) && Nat.eqb (fst cur) own then kown s
                    else help_remove fuel s lvl pred (fst cur) (fun rs => match rs with Ok s' => retry s' | Fuel => kf end)
                  else
                    let c := cmpk (fst cur) key in
                    if c <? 0 then
                      g_copy s (gslot ps (2 * lvl)) (gslot ps (2 * lvl + 1))
                        (fp_level f s key stop own lvl (fst cur) ps c retry k kf kown)
                    else if (c =? 0) && stop then k s pred cur 0 true
                    else k s pred cur c false))
        end)
  end.

(** the `for ( nLevel = c_nMaxHeight - 1; nLevel >= 0; --nLevel )` *)
Fixpoint fp_levels {R} (fuel : nat) (n : nat) (s : TL) (key : Z) (stop : bool) (own : ptr) (pred : ptr) (ps : pos) (ncmp : Z)
  (retry : TL -> prog R) (k : TL -> fp_out -> prog R) (kf : prog R) {struct n} : prog R :=
  match n with
  | O => (* below level 0: `if ( nCmp != 0 ) return false; found: pos.pCur = pCur.ptr(); return pCur.ptr() && nCmp == 0` *)
      if ncmp =? 0 then k s (FpFound ps) else k s (FpNotFound ps)
  | S lvl =>
      g_assign s (gslot ps (2 * lvl))
        (fp_level fuel s key stop own lvl pred ps ncmp retry
           (fun s' pred' cur c found =>
              if found then k s' (FpFound (mkPos (pprev ps) (psucc ps) (fst cur) (pg ps)))
              else
                let ps' := mkPos (set_lvl (pprev ps) lvl pred') (set_lvl (psucc ps) lvl (fst cur)) (fst cur) (pg ps) in
                fp_levels fuel lvl s' key stop own pred' ps' c retry k kf)
           kf (fun s' => k s' FpOwnRemoved))
  end.

Fixpoint find_position {R} (fuel : nat) (s : TL) (key : Z) (stop : bool) (own : ptr) (ps : pos)
  (k : TL -> fp_out -> prog R) (kf : prog R) {struct fuel} : prog R :=
  match fuel with
  | O => kf
  | S f =>
      fp_levels fuel MAXH s key stop own head ps 1
        (fun s' => find_position f s' key stop own ps k kf)
        (fun s' o =>
           match o with
           | FpFound ps' =>
               if Nat.eqb own null && Nat.eqb (pcur ps') null then k s' (FpNotFound ps') else k s' (FpFound ps')
           | _ => k s' o
           end) kf
  end.

(** find_min_position / find_max_position *)
Fixpoint fmin_levels {R} (fuel : nat) (n : nat) (s : TL) (ps : pos)
  (retry : TL -> prog R) (k : TL -> pos -> prog R) (kf : prog R) {struct n} : prog R :=
  match n with
  | O => k s ps
  | S lvl =>
      g_assign s (gslot ps (2 * lvl))
        (ga_protect fuel s (gslot ps (2 * lvl + 1)) head lvl (fun r =>
           match r with
           | None => kf
           | Some cur =>
               let next ps' s' := fmin_levels fuel lvl s' ps' retry k kf in
               let ps' := mkPos (set_lvl (pprev ps) lvl head) (set_lvl (psucc ps) lvl (fst cur)) (fst cur) (pg ps) in
               if Nat.eqb (fst cur) null then next ps' s
               else
                 Act (a_ld_next (fst cur) lvl) (fun vs =>
                   Act (a_ld_next head lvl) (fun vr =>
                     if negb (mp_eqb (vp vr) (fst cur, false)) then retry s
                     else if snd (vp vs) then
                       help_remove fuel s lvl head (fst cur) (fun rs => match rs with Ok s' => retry s' | Fuel => kf end)
                     else next ps' s))
           end))
  end.

Fixpoint find_min_position {R} (fuel : nat) (s : TL) (ps : pos) (k : TL -> pos -> prog R) (kf : prog R) {struct fuel} : prog R :=
  match fuel with
  | O => kf
  | S f => fmin_levels fuel MAXH s ps (fun s' => find_min_position f s' ps k kf) k kf
  end.

Fixpoint fmax_level {R} (fuel : nat) (s : TL) (lvl : nat) (pred : ptr) (ps : pos)
  (retry : TL -> prog R) (k : TL -> ptr -> mptr -> prog R) (kf : prog R) {struct fuel} : prog R :=
  match fuel with
  | O => kf
  | S f =>
      ga_protect fuel s (gslot ps (2 * lvl + 1)) pred lvl (fun r =>
        match r with
        | None => kf
        | Some cur =>
            if snd cur then retry s
            else if Nat.eqb (fst cur) null then k s pred cur
            else
              Act (a_ld_next (fst cur) lvl) (fun vs =>
                Act (a_ld_next pred lvl) (fun vr =>
                  if negb (mp_eqb (vp vr) (fst cur, false)) then retry s
                  else if snd (vp vs) then
                    help_remove fuel s lvl pred (fst cur) (fun rs => match rs with Ok s' => retry s' | Fuel => kf end)
                  else if Nat.eqb (fst (vp vs)) null then k s pred cur
                  else g_copy s (gslot ps (2 * lvl)) (gslot ps (2 * lvl + 1)) (fmax_level f s lvl (fst cur) ps retry k kf)))
        end)
  end.

Fixpoint fmax_levels {R} (fuel : nat) (n : nat) (s : TL) (pred : ptr) (ps : pos)
  (retry : TL -> prog R) (k : TL -> pos -> prog R) (kf : prog R) {struct n} : prog R :=
  match n with
  | O => (* `if ( pCur.ptr() == nullptr && pPred != m_Head.head()) goto retry;`  (b75fd35) *)
      if Nat.eqb (pcur ps) null && negb (Nat.eqb pred head) then retry s else k s ps
  | S lvl =>
      g_assign s (gslot ps (2 * lvl))
        (fmax_level fuel s lvl pred ps retry
           (fun s' pred' cur =>
              let ps' := mkPos (set_lvl (pprev ps) lvl pred') (set_lvl (psucc ps) lvl (fst cur)) (fst cur) (pg ps) in
              fmax_levels fuel lvl s' pred' ps' retry k kf) kf)
  end.

Fixpoint find_max_position {R} (fuel : nat) (s : TL) (ps : pos) (k : TL -> pos -> prog R) (kf : prog R) {struct fuel} : prog R :=
  match fuel with
  | O => kf
  | S f => fmax_levels fuel MAXH s head ps (fun s' => find_max_position f s' ps k kf) k kf
  end.

(** insert_at_position( val, pNode, pos, f ): [Some true/false] = its result *)
Fixpoint ia_clear_upper {R} (new : ptr) (l h : nat) (k : prog R) : prog R :=
  (* for ( nLevel = 1; nLevel < nHeight; ++nLevel ) pNode->next( nLevel ).store( marked_node_ptr()) *)
  match h with
  | O => k
  | S h' => if Nat.ltb l (l + h) then Act (a_st_next new l (null, false)) (fun _ => ia_clear_upper new (S l) h' k) else k
  end.

(** one upper level: the `while ( true )` with own-link CAS, pred CAS, renew *)
Fixpoint ia_level {R} (fuel : nat) (s : TL) (key : Z) (new : ptr) (h l : nat) (p : mptr) (ps : pos)
  (knext : TL -> pos -> prog R) (kdone : TL -> prog R) (kf : prog R) {struct fuel} : prog R :=
  match fuel with
  | O => kf
  | S f =>
      let succ := (psucc ps l, false) in
      Act (a_cas_next new l p succ) (fun c =>
        if negb (vok c) then
          (* marked while inserting: level_unlinked( nHeight - nLevel ); find_position( val, pos, cmp, false ); return true *)
          Act (a_fas_unl new (Z.of_nat (h - l))) (fun _ =>
            find_position fuel s key false null ps (fun s' _ => kdone s') kf)
        else
          Act (a_cas_next (pprev ps l) l succ (new, false)) (fun c2 =>
            if vok c2 then knext s ps
            else
              find_position fuel s key false new ps (fun s' o =>
                match o with
                | FpFound ps' => ia_level f s' key new h l succ ps' knext kdone kf
                | _ =>
                    Act (a_fas_unl new (Z.of_nat (h - l))) (fun _ =>
                      find_position fuel s' key false null ps (fun s'' _ => kdone s'') kf)
                end) kf))
  end.

Fixpoint ia_levels {R} (fuel : nat) (n : nat) (s : TL) (key : Z) (new : ptr) (h l : nat) (ps : pos)
  (kdone : TL -> prog R) (kf : prog R) {struct n} : prog R :=
  (* for ( nLevel = l; nLevel < nHeight; ++nLevel ), n = number of levels left *)
  match n with
  | O => kdone s
  | S n' => ia_level fuel s key new h l (null, false) ps (fun s' ps' => ia_levels fuel n' s' key new h (S l) ps' kdone kf) kdone kf
  end.

Definition insert_at {R} (fuel : nat) (s : TL) (key : Z) (new : ptr) (h : nat) (ps : pos)
  (k : TL -> bool -> prog R) (kf : prog R) : prog R :=
  ia_clear_upper new 1 (h - 1)
    (Act (a_st_next new 0 (psucc ps 0%nat, false)) (fun _ =>
       Act (a_cas_next (pprev ps 0%nat) 0 (psucc ps 0%nat, false) (new, false)) (fun c =>
         if negb (vok c) then k s false
         else ia_levels fuel (h - 1) s key new h 1 ps (fun s' => k s' true) kf))).

(** try_remove_at( pDel, pos, f ): marks, level-0 mark CAS, fast unlink *)
Fixpoint tr_mark_one {R} (fuel : nat) (del : ptr) (l : nat) (cur : mptr) (k : prog R) (kf : prog R) {struct fuel} : prog R :=
  (* while ( !( CAS( pSucc, pSucc | 1 ) || pSucc.bits() != 0 )) *)
  match fuel with
  | O => kf
  | S f =>
      Act (a_cas_next del l cur (fst cur, true)) (fun c =>
        if vok c then k else if snd (vp c) then k else tr_mark_one f del l (vp c) k kf)
  end.

Fixpoint tr_mark_upper {R} (fuel : nat) (del : ptr) (n : nat) (k : prog R) (kf : prog R) {struct n} : prog R :=
  (* for ( nLevel = height - 1; nLevel > 0; --nLevel ), n = nLevel *)
  match n with
  | O => k
  | S n' =>
      Act (a_ld_next del n) (fun v =>
        if snd (vp v) then tr_mark_upper fuel del n' k kf
        else tr_mark_one fuel del n (vp v) (tr_mark_upper fuel del n' k kf) kf)
  end.

Fixpoint tr_unlink {R} (fuel : nat) (s : TL) (key : Z) (del : ptr) (n : nat) (ps : pos)
  (k : TL -> prog R) (kf : prog R) {struct n} : prog R :=
  (* for ( nLevel = height - 1; nLevel >= 0; --nLevel ), n = nLevel + 1 *)
  match n with
  | O => retire s (k s)                        (* fast erase succeeded: gc::retire *)
  | S l =>
      Act (a_ld_next del l) (fun vs =>
        Act (a_cas_next (pprev ps l) l (del, false) (fst (vp vs), false)) (fun c =>
          if vok c then Act (a_fas_unl del 1) (fun _ => tr_unlink fuel s key del l ps k kf)
          else find_position fuel s key false null ps (fun s' _ => k s') kf))
  end.

Fixpoint tr_lp {R} (fuel : nat) (s : TL) (key : Z) (del : ptr) (h : nat) (p : mptr) (ps : pos)
  (k : TL -> bool -> prog R) (kf : prog R) {struct fuel} : prog R :=
  match fuel with
  | O => kf
  | S f =>
      Act (a_cas_next del 0 p (fst p, true)) (fun c =>
        if vok c then tr_unlink fuel s key del h ps (fun s' => k s' true) kf
        else if snd (vp c) then k s false
        else tr_lp f s key del h (vp c) ps k kf)
  end.

Definition try_remove_at {R} (fuel : nat) (s : TL) (del : ptr) (h : nat) (ps : pos)
  (k : TL -> bool -> prog R) (kf : prog R) : prog R :=
  tr_mark_upper fuel del (h - 1)
    (Act (a_ld_next del 0) (fun v => tr_lp fuel s (key_of del) del h (fst (vp v), false) ps k kf)) kf.

Definition empty_pos (slots : list nat) : pos := mkPos (fun _ => null) (fun _ => null) null slots.

Definition zl (l : list Z) : list Z := l.
Definition ev_inv (code k : Z) : list ev := [EvCli "inv"%string [code; k]].
Definition ev_res (a b : Z) : list ev := [EvCli "res"%string [a; b]].

Definition finish {R} (s : TL) (a b : Z) (k : TL -> prog R) : prog R := Emit (ev_res a b) (k s).
Definition out_of_fuel {R} (s : TL) (k : TL -> prog R) : prog R := Emit [EvCli "outoffuel"%string []] (k s).

(** a guard store whose step also reads the (immutable, non-atomic) height of the node being guarded *)
Definition a_guard_st_h (t slot : nat) (p : ptr) : G -> G * V * list ev :=
  fun g => (g, VZ (Z.of_nat (hgt_of g p)), [EvAcc KSt (o_guard t slot) true]).

(** insert( val ): the item is constructed by the client just before (node constructor: m_nUnlink.store( 1 )) *)
Fixpoint insert_loop {R} (fuel : nat) (s : TL) (key : Z) (new : ptr) (h : nat) (tower : bool) (ps : pos)
  (k : TL -> bool -> prog R) (kf : prog R) {struct fuel} : prog R :=
  match fuel with
  | O => kf
  | S f =>
      find_position fuel s key true null ps (fun s1 o =>
        match o with
        | FpFound _ => k s1 false
        | FpOwnRemoved => k s1 false
        | FpNotFound ps1 =>
            let build (cont : prog R) : prog R :=
              if tower then cont
              else if Nat.ltb 1 h then Act (a_st_unl new (Z.of_nat h) h) (fun _ => cont) else cont in
            build (insert_at fuel s1 key new h ps1 (fun s2 ok =>
              if ok then Act a_ld_hgt (fun _ => Act a_faa_cnt (fun _ => k s2 true))
              else insert_loop f s2 key new h true ps1 k kf) kf)
        end) kf
  end.

Definition op_insert {R} (fuel : nat) (s : TL) (k : nat) (h : nat) (cont : TL -> prog R) : prog R :=
  let new := node_id (tid s) (ser s) k in
  let s0 := mkTL (tid s) (fl s) (S (ser s)) in
  Act (a_st_unl new 1 1) (fun _ =>
    let (gnew, s1) := alloc1 s0 in
    g_assign s1 gnew
      (let (slots, s2) := allocn (2 * MAXH) s1 in
       let fin (s' : TL) (b : bool) : prog R :=
         g_free_all s' slots (fun s'' => g_clear s'' gnew (finish (free1 gnew s'') (if b then 1 else 0) 0 cont)) in
       insert_loop fuel s2 (Z.of_nat k) new h false (empty_pos slots) fin
         (g_free_all s2 slots (fun s'' => g_clear s'' gnew (out_of_fuel (free1 gnew s'') cont))))).

(** erase_( val, cmp, f ) *)
Definition op_erase {R} (fuel : nat) (s : TL) (k : nat) (cont : TL -> prog R) : prog R :=
  let (slots, s1) := allocn (2 * MAXH) s in
  let kf := g_free_all s1 slots (fun s' => out_of_fuel s' cont) in
  find_position fuel s1 (Z.of_nat k) false null (empty_pos slots) (fun s2 o =>
    match o with
    | FpFound ps =>
        let del := pcur ps in
        let (gdel, s3) := alloc1 s2 in
        Act (a_guard_st_h (tid s3) gdel del) (fun vh =>
          Act (a_sync (tid s3)) (fun _ =>
            try_remove_at fuel s3 del (Z.to_nat (vz vh)) ps (fun s4 ok =>
              let fin (b : Z) : prog R := g_clear s4 gdel (g_free_all (free1 gdel s4) slots (fun s' => finish s' b 0 cont)) in
              if ok then Act a_fas_cnt (fun _ => fin 1) else fin 0) kf))
    | _ => g_free_all s2 slots (fun s' => finish s' 0 0 cont)
    end) kf.

(** find_with_ = find_fastpath (+ find_slowpath when it aborts) *)
Inductive ff_out := FFound | FNotFound | FAbort | FAgain.

Fixpoint ff_level {R} (fuel : nat) (s : TL) (key : Z) (g0 g1 : nat) (lvl : nat) (pred : ptr) (cur : mptr)
  (k : ff_out -> ptr -> prog R) (kf : prog R) {struct fuel} : prog R :=
  (* while ( pCur != pNull ); [k o pred]: FNotFound here means "go down one level from pred" *)
  match fuel with
  | O => kf
  | S f =>
      if Nat.eqb (fst cur) null && negb (snd cur) then k FNotFound pred
      else if snd cur then k FAgain pred
      else
        let c := cmpk (fst cur) key in
        if c <? 0 then
          g_copy s g0 g1 (ga_protect fuel s g1 (fst cur) lvl (fun r =>
            match r with None => kf | Some nx => ff_level f s key g0 g1 lvl (fst cur) nx k kf end))
        else if c =? 0 then
          Act (a_ld_next (fst cur) 0) (fun v => if snd (vp v) then k FAbort pred else k FFound pred)
        else k FNotFound pred
  end.

Fixpoint ff_levels {R} (fuel : nat) (n : nat) (s : TL) (key : Z) (g0 g1 : nat) (pred : ptr)
  (k : ff_out -> prog R) (kf : prog R) {struct n} : prog R :=
  match n with
  | O => k FNotFound
  | S lvl =>
      ga_protect fuel s g1 pred lvl (fun r =>
        match r with
        | None => kf
        | Some cur =>
            ff_level fuel s key g0 g1 lvl pred cur (fun o pred' =>
              match o with
              | FNotFound => ff_levels fuel lvl s key g0 g1 pred' k kf
              | _ => k o
              end) kf
        end)
  end.

Fixpoint find_fastpath {R} (fuel : nat) (s : TL) (key : Z) (g0 g1 : nat) (attempt : nat) (k : ff_out -> prog R) (kf : prog R) {struct fuel} : prog R :=
  match fuel with
  | O => kf
  | S f =>
      Act a_ld_hgt (fun vh =>
        ff_levels fuel (Z.to_nat (vz vh)) s key g0 g1 head (fun o =>
          match o with
          | FAgain => if Nat.ltb (S attempt) 4 then find_fastpath f s key g0 g1 (S attempt) k kf else k FAbort
          | _ => k o
          end) kf)
  end.

Definition op_contains {R} (fuel : nat) (s : TL) (k : nat) (cont : TL -> prog R) : prog R :=
  let (gs, s1) := allocn 2 s in
  let g0 := nth 0 gs 97%nat in let g1 := nth 1 gs 97%nat in
  find_fastpath fuel s1 (Z.of_nat k) g0 g1 0 (fun o =>
    g_free_all s1 gs (fun s2 =>
      match o with
      | FFound => finish s2 1 0 cont
      | FNotFound | FAgain => finish s2 0 0 cont
      | FAbort =>
          let (slots, s3) := allocn (2 * MAXH) s2 in
          find_position fuel s3 (Z.of_nat k) true null (empty_pos slots) (fun s4 o' =>
            g_free_all s4 slots (fun s5 => match o' with FpFound _ => finish s5 1 0 cont | _ => finish s5 0 0 cont end))
            (g_free_all s3 slots (fun s5 => out_of_fuel s5 cont))
      end))
    (g_free_all s1 gs (fun s2 => out_of_fuel s2 cont)).

(** extract_min_ / extract_max_: the guarded_ptr's guard is allocated at the first reset() and released by the client
    after it read the key *)
Fixpoint extract_loop {R} (fuel : nat) (mx : bool) (s : TL) (gp : option nat) (ps : pos)
  (k : TL -> option nat -> option ptr -> prog R) (kf : TL -> option nat -> prog R) {struct fuel} : prog R :=
  match fuel with
  | O => kf s gp
  | S f =>
      (if mx then find_max_position fuel s ps else find_min_position fuel s ps) (fun s1 ps1 =>
        if Nat.eqb (pcur ps1) null then k s1 gp None
        else
          let del := pcur ps1 in
          let (g, s2) := match gp with Some g => (g, s1) | None => alloc1 s1 end in
          Act (a_guard_st_h (tid s2) g del) (fun vh =>
            try_remove_at fuel s2 del (Z.to_nat (vz vh)) ps1 (fun s3 ok =>
              if ok then Act a_fas_cnt (fun _ => k s3 (Some g) (Some del))
              else extract_loop f mx s3 (Some g) ps1 k kf) (kf s2 (Some g)))) (kf s gp)
  end.

Definition op_extract {R} (fuel : nat) (mx : bool) (s : TL) (cont : TL -> prog R) : prog R :=
  let (slots, s1) := allocn (2 * MAXH) s in
  (* the client: `if ( gp ) b = gp->key;` = two loads of the guard slot, then ~guarded_ptr releases the guard;
     a guard allocated by a failed attempt of an empty result is only released *)
  let release (s' : TL) (gp : option nat) (k : TL -> prog R) : prog R :=
    match gp with Some g => g_clear s' g (k (free1 g s')) | None => k s' end in
  (* empty result: extract_min_ returns guarded_ptr() and its local gp (which may own a guard) is destroyed *)
  let release_empty (s' : TL) (gp : option nat) (k : TL -> prog R) : prog R :=
    match gp with Some g => g_clear s' g (k (free1 g s')) | None => k s' end in
  let read_release (s' : TL) (gp : option nat) (k : TL -> prog R) : prog R :=
    match gp with
    | Some g => Act (a_guard_ld (tid s') g) (fun _ => Act (a_guard_ld (tid s') g) (fun _ => g_clear s' g (k (free1 g s'))))
    | None => k s'
    end in
  extract_loop fuel mx s1 None (empty_pos slots)
    (fun s2 gp r =>
       match r with
       | Some del => g_free_all s2 slots (fun s3 => read_release s3 gp (fun s4 => finish s4 1 (key_of del) cont))
       | None => release_empty s2 gp (fun s3 => g_free_all s3 slots (fun s4 => finish s4 0 0 cont))
       end)
    (fun s2 gp => g_free_all s2 slots (fun s3 => release s3 gp (fun s4 => out_of_fuel s4 cont))).

(** *** client programs *)
Inductive op := OIns (k h : nat) | OErase (k : nat) | OContains (k : nat) | OExtMin | OExtMax.

Definition run_op {R} (fuel : nat) (s : TL) (o : op) (cont : TL -> prog R) : prog R :=
  match o with
  | OIns k h => Emit (ev_inv 1 (Z.of_nat k)) (op_insert fuel s k h cont)
  | OErase k => Emit (ev_inv 6 (Z.of_nat k)) (op_erase fuel s k cont)
  | OContains k => Emit (ev_inv 10 (Z.of_nat k)) (op_contains fuel s k cont)
  | OExtMin => Emit (ev_inv 13 0) (op_extract fuel false s cont)
  | OExtMax => Emit (ev_inv 14 0) (op_extract fuel true s cont)
  end.

Fixpoint run_ops (fuel : nat) (s : TL) (os : list op) : prog unit :=
  match os with
  | [] => Ret tt
  | o :: r => run_op fuel s o (fun s' => run_ops fuel s' r)
  end.

Definition NSLOTS : nat := 16.
Definition thread_prog (fuel : nat) (t : nat) (os : list op) : Conc.thread G V ev :=
  Act a_begin (fun _ => run_ops fuel (mkTL t (seq 0 NSLOTS) 0) os).

(** *** initial state: the keys of [mask] linked with the given tower heights (done by the main thread, sequentially) *)
Definition pre_node (k : nat) : ptr := node_id 63 k k.
Definition g_empty : G := mkG (fun _ _ => (null, false)) (fun _ => 0) (fun _ => 1%nat) 5 0.

(** link the prefilled nodes in increasing key order: at level l the successor of a node is the next prefilled node of
    height > l *)
Fixpoint next_at (l : nat) (nodes : list (nat * nat)) : ptr :=
  match nodes with
  | [] => null
  | (k, h) :: r => if Nat.ltb l h then pre_node k else next_at l r
  end.
Fixpoint link_all (nodes : list (nat * nat)) (g : G) : G :=
  match nodes with
  | [] => g
  | (k, h) :: r =>
      let g1 := link_all r g in
      let p := pre_node k in
      mkG (fun p' l' => if Nat.eqb p' p then (if Nat.ltb l' h then (next_at l' r, false) else (null, false)) else nxt g1 p' l')
          (upd1 (unl g1) p (Z.of_nat h)) (upd1 (hgt_of g1) p h) (hgt g1) (cnt g1 + 1)
  end.
Definition init (nodes : list (nat * nat)) : G :=
  let g1 := link_all nodes g_empty in
  mkG (fun p' l' => if Nat.eqb p' head then (next_at l' nodes, false) else nxt g1 p' l') (unl g1) (hgt_of g1) (hgt g1) (cnt g1).

Definition init_cfg (fuel : nat) (nodes : list (nat * nat)) (ths : list (list op)) : Conc.config G V ev :=
  Conc.Cfg (init nodes) (map (fun to => thread_prog fuel (fst to) (snd to)) (combine (seq 0 (List.length ths)) ths)) [].

Definition decode_op (o : list Z) : option op :=
  match o with
  | c :: r =>
      if c =? 1 then match r with k :: h :: _ => Some (OIns (Nat.min (Z.to_nat k) 7) (S (Nat.min (Z.to_nat h) 2))) | [k] => Some (OIns (Nat.min (Z.to_nat k) 7) 1) | _ => None end
      else if c =? 6 then match r with k :: _ => Some (OErase (Z.to_nat k)) | _ => None end
      else if c =? 10 then match r with k :: _ => Some (OContains (Z.to_nat k)) | _ => None end
      else if c =? 13 then Some OExtMin
      else if c =? 14 then Some OExtMax
      else None
  | [] => None
  end.
Fixpoint decode_ops (os : list (list Z)) : list op :=
  match os with
  | [] => []
  | o :: r => match decode_op o with Some x => x :: decode_ops r | None => decode_ops r end
  end.

(** cfg = [prefill mask over keys 0..3; h0..h3 (height - 1)] *)
Definition prefill_nodes (cfg : list Z) : list (nat * nat) :=
  let mask := Z.to_nat (nth 0 cfg 0) in
  filter (fun kh => Nat.testbit mask (fst kh))
    (map (fun k => (k, S (Nat.min (Z.to_nat (nth (S k) cfg 0)) 2))) (seq 0 4)).

Definition run_case (cfg : list Z) (ths : list (list (list Z))) (sched : list nat) (fuel : nat)
  : list (nat * ev) * bool :=
  let r := Conc.run fuel 0 sched (init_cfg 60 (prefill_nodes cfg) (map decode_ops ths)) in
  (Conc.trace (fst r), snd r).
