(** * WeakRingBuffer<T> started in the state it is in after [s] elements went through it
      (cds/container/weak_ringbuffer.h; the programs are those of LV.Model.Ring, unchanged).

    LV.Model.Ring already is the wrapped model: every counter operation of the C++ code (the two space /
    availability tests, the ++back / ++front of the copy loops, the stored back + n / front + n) goes through
    [u64 x = x mod 2^64].  What keeps the counters of [Ring.init_cfg] away from 2^64 is only that the ring starts
    with front_ = back_ = pfront_ = cback_ = 0 and that a Coq run performs far fewer than 2^64 pushes.

    Here the ring starts in the state the real object is in once [s] elements have been pushed and popped and
    both cached copies are up to date:

        front_ = back_ = pfront_ = cback_ = s mod 2^64          (s : any integer, meant 0 <= s)

    (that state is reachable on the real object: push and pop s elements one at a time, each pop reloading
    cback_, each push after a full ring reloading pfront_; for s = 2^64 - k it is simply not reachable in a
    test's life time, which is why it is a parameter).  With s close to 2^64 a handful of operations carry
    back_ and front_ across the wrap of the uint64_t counters.

    [init_cfg_at exp2 cap 0 pos cos] is [Ring.init_cfg exp2 cap pos cos] (RingWrapProofs.init_cfg_at_0, by
    reflexivity).  Cells start as 0 as in Ring.init (never read before written, see RingWrapProofs).

    Second part: the same for WeakRingBuffer<void> (programs of LV.Model.RingV, unchanged): the byte counters
    start at s mod 2^64 with an empty ring ([vinit_cfg_at]); s is meant to be a multiple of 8 (every value of
    back_ is: real sizes and tails are multiples of 8). *)
From Coq Require Import ZArith List String Bool Lia.
From LV Require Import Base.Conc Base.Events Model.Ring Model.RingV.
Import ListNotations.
Local Open Scope Z_scope.

(** the shared state after [s] elements went through the ring *)
Definition init_at (s : Z) : G := mkG (u64 s) (u64 s) (fun _ => 0).

(** the producer's pfront_ and the consumer's cback_ (plain members, held in the thread's continuation)
    are s mod 2^64 too *)
Definition producer_at (exp2 : bool) (cap s : Z) (os : list pop_) : Conc.thread G V ev :=
  Act a_begin (fun _ => run_pops exp2 cap (u64 s) os).
Definition consumer_at (exp2 : bool) (cap s : Z) (os : list cop) : Conc.thread G V ev :=
  Act a_begin (fun _ => run_cops exp2 cap (u64 s) os).

Definition init_cfg_at (exp2 : bool) (cap s : Z) (pos : list pop_) (cos : list cop) : Conc.config G V ev :=
  Conc.Cfg (init_at s) [producer_at exp2 cap s pos; consumer_at exp2 cap s cos] [].

(** [Ring.run_case] with the start offset as extra parameter; returns the final configuration as well
    (for Examples that look at the wrapped counters) *)
Definition run_cfg_at (s : Z) (cfg : list Z) (ths : list (list (list Z))) (sched : list nat) (fuel : nat)
  : Conc.config G V ev * bool :=
  let exp2 := negb (Z.eqb (nth 1 cfg 0) 0) in
  let cap0 := nth 0 cfg 2 in
  let cap := if exp2 then ceil2 cap0 else cap0 in
  let pos := decode_list decode_pop (nth 0 ths []) in
  let cos := decode_list decode_cop (nth 1 ths []) in
  Conc.run fuel 0 sched (init_cfg_at exp2 cap s pos cos).

Definition run_case_at (s : Z) (cfg : list Z) (ths : list (list (list Z))) (sched : list nat) (fuel : nat)
  : list (nat * ev) * bool :=
  let r := run_cfg_at s cfg ths sched fuel in (Conc.trace (fst r), snd r).

(** ** WeakRingBuffer<void> after [s] bytes went through it *)
Definition vinit_at (s : Z) : GV := mkGV (u64 s) (u64 s) (fun _ => 0) [] false.

Definition vproducer_at (exp2 : bool) (cap s : Z) (os : list vpop_) : Conc.thread GV V ev :=
  Act av_begin (fun _ => run_vpops exp2 cap (u64 s) os).
Definition vconsumer_at (exp2 : bool) (cap s : Z) (os : list vcop) : Conc.thread GV V ev :=
  Act av_begin (fun _ => run_vcops exp2 cap (u64 s) os).

Definition vinit_cfg_at (exp2 : bool) (cap s : Z) (pos : list vpop_) (cos : list vcop) : Conc.config GV V ev :=
  Conc.Cfg (vinit_at s) [vproducer_at exp2 cap s pos; vconsumer_at exp2 cap s cos] [].

Definition run_vcfg_at (s : Z) (cfg : list Z) (ths : list (list (list Z))) (sched : list nat) (fuel : nat)
  : Conc.config GV V ev * bool :=
  let exp2 := negb (Z.eqb (nth 1 cfg 0) 0) in
  let cap0 := nth 0 cfg 16 in
  let cap := if exp2 then ceil2 cap0 else cap0 in
  let pos := decode_list decode_vpop (nth 0 ths []) in
  let cos := decode_list decode_vcop (nth 1 ths []) in
  Conc.run fuel 0 sched (vinit_cfg_at exp2 cap s pos cos).

Definition run_vcase_at (s : Z) (cfg : list Z) (ths : list (list (list Z))) (sched : list nat) (fuel : nat)
  : list (nat * ev) * bool :=
  let r := run_vcfg_at s cfg ths sched fuel in (Conc.trace (fst r), snd r).
