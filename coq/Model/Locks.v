(** * Generic model of client programs over an indexed family of cds::sync::spin_lock objects:
      nested critical sections, a cell-selection function, and "lock all".  One atomic access per [Act].
      Instantiated by LV.Model.LocksArray (cds::sync::lock_array) and LV.Model.LocksInj
      (cds::sync::injecting_monitor).  The lock itself is LV.Model.SpinLock (try_lock / lock / unlock of
      cds/sync/spinlock.h); shared state, access functions and object ids are the ones of that model.

    C++ (cds/sync/lock_array.h, current tree):
      lock( hint ):      nCell = m_SelectCellPolicy( hint, size());  m_arrLocks[nCell].lock();  return nCell;
      try_lock( hint ):  nCell = ...;  if ( m_arrLocks[nCell].try_lock()) return nCell;  return c_nUnspecifiedCell;
      unlock( nCell ):   m_arrLocks[nCell].unlock();
      lock_all():        for ( pLock = m_arrLocks; pLock != m_arrLocks + size(); ++pLock ) pLock->lock();
      unlock_all():      for ( pLock = m_arrLocks; pLock != m_arrLocks + size(); ++pLock ) pLock->unlock();
      mod_select_policy: return nWhat % nCapacity;
    C++ (cds/sync/injecting_monitor.h):
      lock( node ):      node.m_SyncMonitorInjection.m_Lock.lock();
      unlock( node ):    node.m_SyncMonitorInjection.m_Lock.unlock();
    C++ (cds/sync/monitor.h): monitor_scoped_lock: ctor monitor.lock( node ), dtor monitor.unlock( node ).

    Client operations: one operation is a nest  [k1; h1; k2; h2; ...]:
        k = 0, 3  c = lock( h )        (3: through the RAII wrapper; same accesses)
        k = 1     c = try_lock( h )
        k = 2     lock_all()           (h ignored)
      if acquired { "enter c"; touch data[c]; <rest of the nest>; "leave c"; unlock( c ) }
      for lock_all: "enter 0" .. "enter size-1"; touch data[0]; <rest>; "leave 0" .. ; unlock_all().
    [sel] maps a hint to the index of the lock that guards it. *)
From Coq Require Import ZArith List String Bool Lia PeanoNat.
From LV Require Import Base.Conc Base.Events Model.SpinLock.
Import ListNotations.
Local Open Scope string_scope.

Section Locks.
  Variable sel : nat -> nat.
  Variable size : nat.

  (** lock cells c, c+1, ..., c+n-1 in this order; result = number of cells acquired (n unless the spin fuel
      ran out) *)
  Fixpoint lock_range (fuel c n : nat) : prog nat :=
    match n with
    | O => Ret O
    | S n' => bind (lock_outer fuel c) (fun ok =>
                if ok then bind (lock_range fuel (S c) n') (fun m => Ret (S m)) else Ret O)
    end.

  Fixpoint unlock_range (c n : nat) : prog unit :=
    match n with
    | O => Ret tt
    | S n' => bind (unlock c) (fun _ => unlock_range (S c) n')
    end.

  Fixpoint emit_range (name : string) (c n : nat) (k : prog unit) : prog unit :=
    match n with
    | O => k
    | S n' => Emit [EvCli name (zl c)] (emit_range name (S c) n' k)
    end.

  Definition op := list (nat * nat).

  Fixpoint nest (fuel : nat) (o : op) : prog unit :=
    match o with
    | [] => Ret tt
    | (k, h) :: r =>
        Emit [EvCli "inv" [Z.of_nat k; Z.of_nat h]]
          (match k with
           | 2 =>
               bind (lock_range fuel 0 size) (fun m =>
                 if Nat.eqb m size then
                   emit_range "enter" 0 size
                     (Act (a_touch 0) (fun _ =>
                        bind (nest fuel r) (fun _ =>
                          emit_range "leave" 0 size (unlock_range 0 size))))
                 else (* model only: spin fuel exhausted; give back what was taken *)
                   bind (unlock_range 0 m) (fun _ => Emit [EvCli "outoffuel" []] (Ret tt)))
           | _ =>
               bind (match k with 1 => try_lock (sel h) | _ => lock_outer fuel (sel h) end) (fun ok =>
                 if ok then
                   Emit [EvCli "enter" (zl (sel h))]
                     (Act (a_touch (sel h)) (fun _ =>
                        bind (nest fuel r) (fun _ =>
                          Emit [EvCli "leave" (zl (sel h))] (unlock (sel h)))))
                 else Emit [EvCli (match k with 1 => "fail" | _ => "outoffuel" end) [Z.of_nat h]] (Ret tt))
           end)
    end.

  Definition run_op (fuel : nat) (o : op) : prog unit :=
    bind (nest fuel o) (fun _ => Emit [EvCli "ret" []] (Ret tt)).

  Fixpoint run_ops (fuel : nat) (os : list op) : prog unit :=
    match os with
    | [] => Ret tt
    | o :: r => bind (run_op fuel o) (fun _ => run_ops fuel r)
    end.

  Definition thread_prog (fuel : nat) (os : list op) : Conc.thread G V ev :=
    Act a_begin (fun _ => run_ops fuel os).

  Definition init_cfg (fuel : nat) (ths : list (list op)) : Conc.config G V ev :=
    Conc.Cfg (init size) (map (thread_prog fuel) ths) [].
End Locks.

Fixpoint decode_op (o : list Z) : list (nat * nat) :=
  match o with
  | k :: h :: r => (Z.to_nat k, Z.to_nat h) :: decode_op r
  | _ => []
  end.
