(** * Model of cds::urcu::signal_buffered (cds/urcu/details/sh.h, sh_decl.h, sig_buffered.h, src/urcu_sh.cpp).

    The read side (sh_thread_gc::access_lock / access_unlock), check_grace_period, switch_next_epoch (= the fetch_xor)
    and wait_for_quiescent_state (= the scan of the record list) perform exactly the atomic accesses of the
    general-purpose core (the differences are fences / compiler barriers, invisible under sequential consistency):
    LV.Model.RcuGp is reused.  push_buffer, clear_buffer, retire_ptr, batch_retire, Destruct are the text of gpb.h:
    LV.Model.RcuBuf is reused.  signal_buffered::synchronize( ep ):
        { unique_lock sl( m_Lock );  [ep.m_p is null on every path]   nEpoch = m_nCurEpoch.fetch_add( 1 );
          force_membar_all_threads();  switch_next_epoch();  wait_for_quiescent_state();
          switch_next_epoch();  wait_for_quiescent_state();  force_membar_all_threads(); }
        clear_buffer( nEpoch );
    is RcuBuf.synchronize with the hook [mb := force_membar].

    force_membar_all_threads():
        for ( pRec = head; pRec; pRec = next ) { tid = pRec->thread_id_.load();
            if ( tid != null ) { pRec->m_bNeedMemBar.store( true ); raise_signal( tid ); } }
        for ( pRec = head; pRec; pRec = next ) { tid = pRec->thread_id_.load();
            if ( tid != null ) while (( tid = pRec->thread_id_.load()) != null && pRec->m_bNeedMemBar.load()) { raise_signal( tid ); bkOff(); } }
    signal_handler (in the target thread):  pRec->m_bNeedMemBar.store( false )  between two signal fences.

    MODELLING ASSUMPTION (this flavour cannot run under the deterministic scheduler; there is no step correspondence,
    the tie to the code is the real-thread exploration of checks/C05.py): delivery of the signal and execution of the
    handler are ONE atomic step, attributed to a delivery pseudo-thread ([kernel]) that repeatedly clears the
    m_bNeedMemBar flag of some record of the list whose flag is set.  Under sequential consistency the handler has no
    other effect (its purpose - replacing the reader-side fences - is outside an SC model).  pthread_kill itself is
    not an access.  A lost signal is covered: the waiting loop raises again, the pseudo-thread may clear at any time. *)
From Coq Require Import ZArith List String Bool Lia.
From LV Require Import Base.Conc Base.Events Model.RcuGp Model.RcuBuf.
Import ListNotations.
Local Open Scope string_scope.
Local Open Scope list_scope.
Local Open Scope Z_scope.

Definition obj_mb (m : nat) : list Z := [9; Z.of_nat m].
Definition a_mb_st (m : nat) (b : bool) : act := fun g => (set_mb g m b, VZ 0, acc KSt (obj_mb m) true).
Definition a_mb_ld (m : nat) : act := fun g => (g, VZ (Z.b2z (g_mb g m)), acc KLd (obj_mb m) true).

(** first loop: flag + signal for every owned record *)
Fixpoint mb_send (l : list nat) : prog unit :=
  match l with
  | [] => Ret tt
  | m :: r => Act (a_tid_ld m) (fun x => if vz x =? 0 then mb_send r else Act (a_mb_st m true) (fun _ => mb_send r))
  end.

(** the inner waiting loop on one record; [false] = out of fuel *)
Fixpoint mb_wait_rec (fuel : nat) (m : nat) : prog bool :=
  match fuel with
  | O => Ret false
  | S f => Act (a_tid_ld m) (fun x => if vz x =? 0 then Ret true
             else Act (a_mb_ld m) (fun b => if vz b =? 0 then Ret true else mb_wait_rec f m))
  end.

Fixpoint mb_wait (fuel : nat) (l : list nat) : prog bool :=
  match l with
  | [] => Ret true
  | m :: r => Act (a_tid_ld m) (fun x =>
      if vz x =? 0 then mb_wait fuel r
      else bind (mb_wait_rec fuel m) (fun ok => if ok then mb_wait fuel r else Ret false))
  end.

Definition force_membar (fuel : nat) : prog bool :=
  Act a_head_ld (fun v => bind (mb_send (vl v)) (fun _ => Act a_head_ld (fun v' => mb_wait fuel (vl v')))).

(** signal delivery + handler: clear the flag of the first record of the list whose flag is set *)
Fixpoint first_flagged (mb : nat -> bool) (l : list nat) : option nat :=
  match l with [] => None | m :: r => if mb m then Some m else first_flagged mb r end.

Definition a_deliver : act := fun g =>
  match first_flagged (g_mb g) (g_list g) with
  | Some m => (set_mb g m false, VZ 1, acc KSt (obj_mb m) true)
  | None => (g, VZ 0, acc KLd obj_head true)
  end.

Fixpoint kernel (fuel : nat) : Conc.thread G V ev :=
  match fuel with
  | O => Ret tt
  | S f => Act a_deliver (fun _ => kernel f)
  end.

(** client threads 0 .. n-1, the delivery pseudo-thread is thread n *)
Definition sinit_cfg (sfuel rf kfuel : nat) (cap : Z) (cnt : bool) (ths : list (list bop)) : Conc.config G V ev :=
  xinit_cfg 2 sfuel rf cap cnt (force_membar sfuel) [kernel kfuel] ths.

(** cfg = [spin fuel; capacity; counting; recursion fuel; delivery fuel] *)
Definition run_case (cfg : list Z) (ths : list (list (list Z))) (sched : list nat) (fuel : nat)
  : list (nat * ev) * bool :=
  let sfuel := Z.to_nat (nth 0 cfg 2000) in
  let cap := nth 1 cfg 2 in
  let cnt := negb (nth 2 cfg 0 =? 0) in
  let rf := Z.to_nat (nth 3 cfg 40) in
  let kf := Z.to_nat (nth 4 cfg 200) in
  let r := Conc.run fuel 0 sched (sinit_cfg sfuel rf kf cap cnt (map decode_bops ths)) in
  (Conc.trace (fst r), snd r).
