(** * Model of cds::sync::lock_array< spin_lock, mod_select_policy > (cds/sync/lock_array.h):
      LV.Model.Locks with cell = hint mod size.  The harness (harness/C22/main.cpp, mode "arr") uses
      lock(hint)/unlock(cell) for method 0, try_lock(hint) for method 1, std::unique_lock<lock_array>(arr)
      (lock_all/unlock_all) for method 2 and std::unique_lock<lock_array>(arr, hint) for method 3. *)
From Coq Require Import ZArith List PeanoNat.
From LV Require Import Base.Conc Base.Events Model.SpinLock Model.Locks.
Import ListNotations.

Definition sel (size : nat) (hint : nat) : nat := Nat.modulo hint size.

Definition init_cfg (size fuel : nat) (ths : list (list Locks.op)) : Conc.config G V ev :=
  Locks.init_cfg (sel size) size fuel ths.

(** cfg = [size; spin fuel] *)
Definition run_case (cfg : list Z) (ths : list (list (list Z))) (sched : list nat) (fuel : nat)
  : list (nat * ev) * bool :=
  let size := Z.to_nat (nth 0 cfg 1%Z) in
  let sfuel := Z.to_nat (nth 1 cfg 1000%Z) in
  let r := Conc.run fuel 0 sched (init_cfg size sfuel (map (map decode_op) ths)) in
  (Conc.trace (fst r), snd r).
