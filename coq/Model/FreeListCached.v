(** * Model of cds::intrusive::CachedFreeList<FreeList, CacheSize = 4> (cds/intrusive/free_list_cached.h),
      one atomic access per [Act], generic in the backing free list.

    C++ (current tree):

      array_item m_cache[ c_cache_size ];   free_list_type m_freeList;
      size_t get_hash() { return std::hash<std::thread::id>()( std::this_thread::get_id()) & (c_cache_size - 1); }

      void put( node* pNode ) {
          node* expect = nullptr;
          if ( m_cache[ get_hash() ].compare_exchange_weak( expect, pNode ))            // cas cache[slot]
              return;
          m_freeList.put( pNode );
      }

      node* get() {
          atomic<node*>& cell = m_cache[ get_hash() ];
          node* p = cell.load();                                                        // ld cache[slot]
          if ( p && cell.compare_exchange_weak( p, nullptr ))                           // cas cache[slot] (short-circuit)
              return p;
          p = m_freeList.get();
          if ( p ) return p;
          for ( auto& item : m_cache ) {
              p = item.load();                                                          // ld cache[i]
              if ( p && item.compare_exchange_weak( p, nullptr ))                       // cas cache[i] (short-circuit)
                  return p;
          }
          return m_freeList.get();
      }

    The slot of a thread is a function of its std::thread::id; the harness picks worker threads whose slot
    is the one the case asks for, so the slot of thread t is an input of the model.
    compare_exchange_weak never fails spuriously under the hook. *)
From Coq Require Import ZArith List String Bool Lia PeanoNat.
From LV Require Import Base.Conc Base.Events Model.FreeList Model.FreeListTagged.
Import ListNotations.
Local Open Scope Z_scope.
Local Open Scope string_scope.

Definition CACHE_SIZE : nat := 4.
Definition obj_cache (i : nat) : list Z := [3; Z.of_nat i].

Section Cached.
  Variable G0 : Type.
  Variable put0 : nat -> nat -> Conc.prog G0 V ev bool.        (* fuel, node *)
  Variable get0 : nat -> Conc.prog G0 V ev (option nat).       (* fuel *)

  Record CG := mkCG { cache : nat -> nat; back : G0 }.
  Definition cprog := Conc.prog CG V ev.

  Definition set_cache (g : CG) (i p : nat) : CG :=
    mkCG (fun x => if Nat.eqb x i then p else cache g x) (back g).

  (** an access of the backing list, performed on the [back] component *)
  Fixpoint lift {R} (p : Conc.prog G0 V ev R) : cprog R :=
    match p with
    | Ret r => Ret r
    | Emit es k => Emit es (lift k)
    | Act f k => Act (fun g => let '(g0, v, es) := f (back g) in (mkCG (cache g) g0, v, es)) (fun v => lift (k v))
    end.

  Definition ca_begin : CG -> CG * V * list ev := fun g => (g, (O, 0), [EvAcc KBegin [] true]).
  Definition ca_ld_cache (i : nat) : CG -> CG * V * list ev :=
    fun g => (g, (cache g i, 0), [EvAcc KLd (obj_cache i) true]).
  Definition ca_cas_cache (i e d : nat) : CG -> CG * V * list ev := fun g =>
    if Nat.eqb (cache g i) e then (set_cache g i d, (cache g i, 0), [EvAcc KCas (obj_cache i) true])
    else (g, (cache g i, 0), [EvAcc KCas (obj_cache i) false]).

  Definition cput (fuel : nat) (slot n : nat) : cprog bool :=
    Act (ca_cas_cache slot O n) (fun v =>
      if Nat.eqb (vnode v) 0 then Ret true else lift (put0 fuel n)).

  (** try to take the content of cell [i]; [fail] is what follows when the cell is empty or the CAS fails *)
  Definition take_cell (i : nat) (fail : cprog (option nat)) : cprog (option nat) :=
    Act (ca_ld_cache i) (fun v =>
      let p := vnode v in
      if Nat.eqb p 0 then fail
      else Act (ca_cas_cache i p O) (fun v => if Nat.eqb (vnode v) p then Ret (Some p) else fail)).

  Fixpoint scan (rem i : nat) (last : cprog (option nat)) : cprog (option nat) :=
    match rem with
    | O => last
    | S r => take_cell i (scan r (S i) last)
    end.

  Definition cget (fuel : nat) (slot : nat) : cprog (option nat) :=
    take_cell slot
      (Conc.bind (lift (get0 fuel)) (fun r =>
         match r with
         | None => Ret None
         | Some O => scan CACHE_SIZE 0 (lift (get0 fuel))
         | Some n => Ret (Some n)
         end)).

  Fixpoint crun_ops (fuel : nat) (slot : nat) (os : list op) (held : list nat) : cprog unit :=
    match os with
    | [] => Ret tt
    | OGet :: r =>
        Emit [EvCli "inv_get" []]
          (Conc.bind (cget fuel slot) (fun res =>
             match res with
             | Some O => Emit [EvCli "ret_get" [-1]] (crun_ops fuel slot r held)
             | Some n => Emit [EvCli "ret_get" (zn n)] (crun_ops fuel slot r (held ++ [n]))
             | None => Emit [EvCli "outoffuel" []] (Ret tt)
             end))
    | OPut k :: r =>
        match nth_error held k with
        | None => Emit [EvCli "skip" []] (crun_ops fuel slot r held)
        | Some n =>
            Emit [EvCli "inv_put" (zn n)]
              (Conc.bind (cput fuel slot n) (fun ok =>
                 if ok then Emit [EvCli "ret_put" []] (crun_ops fuel slot r (remove_nth k held))
                 else Emit [EvCli "outoffuel" []] (Ret tt)))
        end
    end.

  Definition cthread_prog (fuel : nat) (slot : nat) (os : list op) (held : list nat) : Conc.thread CG V ev :=
    Act ca_begin (fun _ => crun_ops fuel slot os held).

  (** initial state: thread 0 (slot s0) put nodes 1..k one after the other during set-up: node 1 went
      into cache[s0], nodes 2..k onto the backing list ([init0 lo k] = backing list holding lo..k) *)
  Variable init0 : nat -> nat -> G0.
  Definition cinit (s0 k : nat) : CG :=
    mkCG (fun i => if (Nat.eqb i s0 && Nat.leb 1 k)%bool then 1%nat else O) (init0 2%nat k).

  (** [ths]: operations, initially held nodes, slot *)
  Definition cinit_cfg (fuel k : nat) (ths : list (list op * list nat * nat)) : Conc.config CG V ev :=
    let s0 := match ths with th :: _ => snd th | [] => O end in
    Conc.Cfg (cinit s0 k) (map (fun th => cthread_prog fuel (snd th) (fst (fst th)) (snd (fst th))) ths) [].

  (** cfg = [variant; loop fuel; nnodes; k; owners of nodes k+1..nnodes; slot of thread 0; slot of thread 1; ...] *)
  Definition crun_case (cfg : list Z) (ths : list (list (list Z))) (sched : list nat) (fuel : nat)
    : list (nat * ev) * bool :=
    let lfuel := Z.to_nat (nth 1 cfg 100) in
    let nnodes := Z.to_nat (nth 2 cfg 0) in
    let k := Z.to_nat (nth 3 cfg 0) in
    let owners := firstn (nnodes - k) (skipn 4 cfg) in
    let slots := skipn (4 + (nnodes - k)) cfg in
    let dth := decode_threads k owners ths in
    let ths' := map (fun p => (snd p, Nat.modulo (Z.to_nat (nth (fst p) slots 0)) CACHE_SIZE))
                    (combine (seq 0 (List.length dth)) dth) in
    let r := Conc.run fuel 0 sched (cinit_cfg lfuel k ths') in
    (Conc.trace (fst r), snd r).
End Cached.

(** the two instances the harness runs *)
Definition crun_case_fl := crun_case FreeList.G FreeList.put FreeList.get FreeList.init_range.
Definition crun_case_tagged := crun_case FreeListTagged.TG FreeListTagged.tput FreeListTagged.tget FreeListTagged.tinit_range.
