(** * Sequential model of EllenBinTree (cds/intrusive/impl/ellen_bintree.h), operations run to completion.

    The tree is leaf-oriented: items live in the leaves, internal nodes route ([search]: go right iff
    key >= node key, `bRightLeaf = cmp( key, *pParent ) >= 0`).  Two sentinel leaves Inf1 < Inf2 (larger than every
    key) and the root (key Inf2) are created by the constructor:
        m_Root( Inf2 ) -> left = m_LeafInf1, right = m_LeafInf2
    insert (try_insert / help_insert run by one thread):
        new internal node replaces the reached leaf L; if new < L: key = key(L), left = new, right = L
                                                        else     : key = key(new), left = L, right = new
    erase / extract (help_delete + help_marked): the grandparent's link to the parent is replaced by the leaf's
    sibling.  extract_min: leftmost leaf; extract_max: go left at internal nodes with an infinite key, right
    otherwise (`bRightLeaf = !pParent->infinite_key()`); both fail on a sentinel.
    update(bAllowInsert): found -> the functor rewrites the value in place, else insert (if allowed). *)
From Coq Require Import ZArith List Bool Lia.
From LV Require Import Model.SkipSeq.
Import ListNotations.
Local Open Scope Z_scope.

Inductive ekey := Fin (k : Z) | Inf1 | Inf2.

Definition ek_ltb (a b : ekey) : bool :=
  match a, b with
  | Fin x, Fin y => x <? y
  | Fin _, _ => true
  | Inf1, Inf2 => true
  | _, _ => false
  end.
Definition ek_eqb (a b : ekey) : bool :=
  match a, b with
  | Fin x, Fin y => x =? y
  | Inf1, Inf1 => true
  | Inf2, Inf2 => true
  | _, _ => false
  end.

Inductive etree := ELeaf (k : ekey) (v : Z) | ENode (k : ekey) (l r : etree).

Definition e_init : etree := ENode Inf2 (ELeaf Inf1 0) (ELeaf Inf2 0).

Fixpoint e_insert (k v : Z) (t : etree) : etree :=
  match t with
  | ELeaf lk lv =>
      if ek_eqb (Fin k) lk then t
      else if ek_ltb (Fin k) lk then ENode lk (ELeaf (Fin k) v) t
      else ENode (Fin k) t (ELeaf (Fin k) v)
  | ENode K l r => if ek_ltb (Fin k) K then ENode K (e_insert k v l) r else ENode K l (e_insert k v r)
  end.

Fixpoint e_setval (k v : Z) (t : etree) : etree :=
  match t with
  | ELeaf lk lv => if ek_eqb (Fin k) lk then ELeaf lk v else t
  | ENode K l r => if ek_ltb (Fin k) K then ENode K (e_setval k v l) r else ENode K l (e_setval k v r)
  end.

Fixpoint e_mem (k : Z) (t : etree) : bool :=
  match t with
  | ELeaf lk _ => ek_eqb (Fin k) lk
  | ENode K l r => if ek_ltb (Fin k) K then e_mem k l else e_mem k r
  end.

Fixpoint e_erase (k : Z) (t : etree) : etree :=
  match t with
  | ELeaf _ _ => t
  | ENode K l r =>
      if ek_ltb (Fin k) K then
        match l with
        | ELeaf lk _ => if ek_eqb (Fin k) lk then r else t
        | _ => ENode K (e_erase k l) r
        end
      else
        match r with
        | ELeaf lk _ => if ek_eqb (Fin k) lk then l else t
        | _ => ENode K l (e_erase k r)
        end
  end.

Fixpoint e_min (t : etree) : ekey := match t with ELeaf k _ => k | ENode _ l _ => e_min l end.
Fixpoint e_max (t : etree) : ekey :=
  match t with
  | ELeaf k _ => k
  | ENode K l r => match K with Fin _ => e_max r | _ => e_max l end
  end.

Definition e_step (t : etree) (o : sop) : etree :=
  match o with
  | Ins k v => e_insert k v t
  | Ups k v => if e_mem k t then e_setval k v t else e_insert k v t
  | Upd k v => e_setval k v t
  | Del k => e_erase k t
  | ExtMin => match e_min t with Fin k => e_erase k t | _ => t end
  | ExtMax => match e_max t with Fin k => e_erase k t | _ => t end
  end.

Definition e_run (os : list sop) : etree := fold_left e_step os e_init.

(** in-order leaves, and the traversal a client sees (finite keys only) *)
Fixpoint e_leaves (t : etree) : list (ekey * Z) :=
  match t with
  | ELeaf k v => [(k, v)]
  | ENode _ l r => e_leaves l ++ e_leaves r
  end.

Fixpoint fin_only (l : list (ekey * Z)) : list (Z * Z) :=
  match l with
  | [] => []
  | (Fin k, v) :: r => (k, v) :: fin_only r
  | _ :: r => fin_only r
  end.

Definition e_traverse (t : etree) : list (Z * Z) := fin_only (e_leaves t).
Definition e_size (t : etree) : nat := length (e_traverse t).

(** the library's check_consistency(): every internal node is compared with its two children only *)
Definition node_key (t : etree) : ekey := match t with ELeaf k _ => k | ENode k _ _ => k end.
Fixpoint e_check_consistency (t : etree) : bool :=
  match t with
  | ELeaf _ _ => true
  | ENode K l r =>
      ek_ltb (node_key l) K && negb (ek_ltb (node_key r) K) && ek_ltb (node_key l) (node_key r) &&
      e_check_consistency l && e_check_consistency r
  end.

Definition e_decode (o : list Z) : option sop :=
  match SkipSeq.decode o with Some (x, _) => Some x | None => None end.
