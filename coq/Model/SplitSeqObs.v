(** * Observables of the sequential split-list model (LV.Model.SplitSeq) for the C17 correspondence check.

    Nothing of SplitSeq is changed: this file instantiates the three arbitrary functions of the model with the
    ones the C++ uses, adds the constructor arithmetic of the two bucket tables, and runs operation streams.

    C++ (current tree):
      split_list::regular_hash( h )   = bit_reversal()( h ) | 1                         (size_t, 64 bits)     -> [rso_of]
      split_list::dummy_hash( b )     = bit_reversal()( b ) & ~size_t(1)                                      -> [dso_of]
      static_bucket_table( n, lf )    m_nLoadFactor = lf > 0 ? lf : 1;
                                      m_nCapacity = n / lf > 2 ? beans::ceil2( n / lf ) : 2                   -> [static_capacity]
      expandable_bucket_table::calc_metrics( n, lf )
                                      nBucketCount = ( n + lf - 1 ) / lf;
                                      <= 2: one segment of 2;  <= 1024: one segment of 1 << log2ceil( nBucketCount );
                                      else l = log2ceil( nBucketCount ); nSegmentCount = nSegmentSize = 1 << ( l / 2 );
                                           if ( l & 1 ) nSegmentSize *= 2;
                                           if ( nSegmentCount * nSegmentSize * lf < n ) nSegmentSize *= 2;
                                      nCapacity = nSegmentCount * nSegmentSize                                 -> [dynamic_capacity]
      beans::log2ceil( n )            i = log2floor( n ); ( 1 << i ) < n ? i + 1 : i      (= N.log2_up, also for 0 and 1)

    What the harness (harness/C17/others.cpp, split::probe) reads from the real container after every operation and
    what it is compared with:
      return value                          [o_res]
      size()                                [sc]
      m_nBucketCountLog2, m_nMaxItemCount   [blog], [smax] (None = numeric_limits<size_t>::max())
      m_Buckets.capacity(), load_factor()   [scap], [slf]
      walk of m_List from begin() to end(), dummy nodes included: (m_nHash, is_dummy(), key of a regular node)
                                            [layout]: the model list minus nothing (the list head sentinel of
                                            MichaelList/LazyList is not a node of the model either)
      for every b < capacity() with m_Buckets.bucket( b ) != nullptr: the position in that walk of the node the
      table entry points to                 [bucket_pos]
      split_list::stat: m_nInitBucketRecursive, m_nNewBucket deltas over the operation
                                            [o_new] = buckets initialised by the operation (= 1 + recursive calls, if > 0)
      optionally contains( q ) for every key q in 0..n-1, IN THIS ORDER (contains() initialises buckets, so the
      sweep is part of the operation stream)  [sweep]
    No proofs in this file. *)
From Coq Require Import List NArith Arith Bool.
From LV Require Import Model.CuckooSeq Model.SplitSeq.
Import ListNotations.
Local Open Scope N_scope.

Fixpoint rev_bits (w : nat) (x acc : N) : N :=
  match w with
  | O => acc
  | S w' => rev_bits w' (N.div2 x) (N.double acc + N.b2n (N.odd x))
  end.

(** bit reversal of a 64-bit size_t *)
Definition reverse64 (x : N) : N := rev_bits 64 (N.land x (N.ones 64)) 0.
Definition rso_of (h : N) : N := N.lor (reverse64 h) 1.
Definition dso_of (b : N) : N := N.clearbit (reverse64 b) 0.

Definition eff_lf (lf : N) : N := if lf =? 0 then 1 else lf.

Definition static_capacity (items lf : N) : N :=
  let q := items / eff_lf lf in
  if 2 <? q then 2 ^ N.log2_up q else 2.

Definition dynamic_capacity (items lf : N) : N :=
  let lf' := eff_lf lf in
  let nb := (items + lf' - 1) / lf' in
  if nb <=? 2 then 2
  else if nb <=? 1024 then 2 ^ N.log2_up nb
  else let l := N.log2_up nb in
       let cnt := 2 ^ (l / 2) in
       let sz := if N.odd l then 2 * cnt else cnt in
       let sz := if cnt * sz * lf' <? items then 2 * sz else sz in
       cnt * sz.

Definition capacity_of (dynamic : bool) (items lf : N) : N :=
  if dynamic then dynamic_capacity items lf else static_capacity items lf.

(** the walk of the ordered list *)
Definition layout (t : split) : list (N * bool * N) := map (fun n => (so n, is_dummy n, skey n)) (slist t).

Fixpoint pos_of_dummy (l : list snode) (d : N) (i : nat) : nat :=
  match l with
  | [] => i
  | y :: l' => if is_dummy y && N.eqb (so y) d then i else pos_of_dummy l' d (S i)
  end.

(** initialised buckets with the position of their dummy node in the walk (in the order of [binit]) *)
Definition bucket_pos (t : split) : list (N * nat) := map (fun b => (b, pos_of_dummy (slist t) (dso_of b) 0)) (binit t).

Section Run.
  Variable ht : list N.

  Definition bh (x : key) : N := nth (N.to_nat x) ht 0.
  Definition rso (x : key) : N := rso_of (bh x).

  Definition o_insert := sp_insert bh rso dso_of.
  Definition o_erase := sp_erase bh rso dso_of.
  Definition o_find := sp_find bh rso dso_of.

  (** contains( q ) for q = 0 .. n-1 in this order; the found keys (ascending) and the state afterwards *)
  Fixpoint sweep_from (q : N) (n : nat) (t : split) : list key * split :=
    match n with
    | O => ([], t)
    | S n' => let (r, t1) := o_find t q in
              let (fs, t2) := sweep_from (q + 1) n' t1 in
              (if r then q :: fs else fs, t2)
    end.
  Definition sweep (t : split) : list key * split := sweep_from 0 (length ht) t.

  Record sp_out := mkSO { o_res : bool; o_t : split; o_new : nat; o_found : list key; o_t2 : split }.

  Fixpoint sp_run (sw : bool) (t : split) (ops : list (N * key)) : list sp_out * split :=
    match ops with
    | [] => ([], t)
    | (c, x) :: ops' =>
      let (r, t1) := if c =? 1 then o_insert t x else if c =? 2 then o_erase t x else o_find t x in
      let (fs, t2) := if sw then sweep t1 else ([], t1) in
      let (outs, tf) := sp_run sw t2 ops' in
      (mkSO r t1 (Nat.sub (length (binit t1)) (length (binit t))) fs t2 :: outs, tf)
    end.
End Run.

(** cfg = [estimated item count; load factor; dynamic bucket table 0/1; ordered list kind (not modelled: Michael and
    Lazy list are both the sorted list); contains-sweep after every operation 0/1].
    Result: the outputs per operation, then the closing sweep (always made): found keys and final state. *)
Definition sp_run_case (cfg : list N) (ht : list N) (ops : list (N * key)) : list sp_out * (list key * split) :=
  match cfg with
  | items :: lf :: dyn :: _ :: sw :: _ =>
    let cap := capacity_of (negb (dyn =? 0)) items lf in
    let (outs, tf) := sp_run ht (negb (sw =? 0)) (sp_init (N.to_nat cap) (N.to_nat (eff_lf lf))) ops in
    (outs, sweep ht tf)
  | _ => ([], ([], sp_init 2 1))
  end.
