(** * FcDequeFull: cds::container::FCDeque with ALL its request words (op_clear included) and the operations
      that go through kernel::invoke_exclusive (empty(), apply()).

    Extension of LV.Model.FcBatch (every definition re-used unchanged; only [fc_apply] gets its `case op_clear`).

    cds/container/fcdeque.h (current tree):

      enum fc_operation { op_push_front = req_Operation (2), op_push_front_move 3, op_push_back 4,
                          op_push_back_move 5, op_pop_front 6, op_pop_back 7, op_clear 8 };

      void clear()   { auto pRec = m_FlatCombining.acquire_record();
                       constexpr_if ( c_bEliminationEnabled ) m_FlatCombining.batch_combine( op_clear, pRec, *this );
                       else                                   m_FlatCombining.combine( op_clear, pRec, *this );
                       m_FlatCombining.release_record( pRec ); }
         -- an ordinary published request: request word 8, no argument, no result (void).

      fc_apply( pRec ):  switch ( pRec->op()) { ... the four push cases and two pop cases of LV.Model.FcBatch ...
                           case op_clear: while ( !m_Deque.empty()) m_Deque.pop_front(); break; }

      fc_process( itBegin, itEnd ): `switch ( it->op( acquire ))` has the six cases op_push_front[_move],
         op_push_back[_move], op_pop_front, op_pop_back and NO `case op_clear` and no `default`: the iteration that
         meets a clear request does nothing, in particular it does NOT reset itPrev.  A push met before the clear
         request can therefore be collided with a pop met after it.  That is [FcBatch.dq_visit] as it stands (its
         final `else (p, d, [])`), so [dqf_visit] below is that function.  In the pops' inner
         `switch ( itPrev->op())` a clear request held in itPrev would take `default: itPrev = it`, and in the
         pushes' test it is neither op_pop_front nor op_pop_back: as in [dq_visit]; but a clear request is never
         stored in itPrev in the first place.

      bool empty() const { bool bRet = false; auto const& deq = m_Deque;
                           m_FlatCombining.invoke_exclusive( [&deq, &bRet]() { bRet = deq.empty(); } ); return bRet; }
      void apply( Func f ) { auto& deque = m_Deque; m_FlatCombining.invoke_exclusive( [&deque, &f]() { f( deque ); } ); }
         -- NOT published requests: kernel::invoke_exclusive takes the combiner lock m_Mutex (spin), runs the
            functor on m_Deque, calls the wait strategy's wakeup, and unlocks (LV.Model.FcKernelWake, [WExcl]).
            The functor performs no atomic access.  The kernel model runs the EMPTY functor: for empty() and for an
            apply() whose functor only reads, the accesses are those of [WExcl]; the value read is not part of
            that model's trace.  Section [KernelExcl] below is the same kernel with a functor that reads / updates
            the container and whose result is part of the trace.

      size_t size() const { return m_Deque.size(); }
         -- reads the std::deque with NO synchronisation at all (no lock, no request): concurrent with a
            combiner's push/pop it is a data race on the std::deque object.  It is not a linearizable operation
            and no claim is made about it (the header says as much: "size() == 0 is not mean that the deque is
            empty"). *)
From Coq Require Import ZArith List String Bool PeanoNat.
From LV Require Import Base.Conc Base.Events Base.Lin Spec.Specs Model.FcKernel Model.FcKernelWake Model.FcBatch.
Import ListNotations.
Local Open Scope list_scope.

(** ** the sequential specification: Specs.Deque extended with clear(), empty() and the size read through apply() *)
Inductive dfop := FBase (o : dop) | FClear | FEmpty | FSize.

Definition dequef_step (d : list Z) (o : dfop) : list Z * res :=
  match o with
  | FBase o => deque_step d o
  | FClear => ([], RUnit)
  | FEmpty => (d, RBool (is_nil d))
  | FSize => (d, RVal (Some (Z.of_nat (List.length d))))
  end.

Definition DequeFull : Spec := mkSpec [] dequef_step.

(** ** request words *)
Definition dqf_clear (op : nat) : bool := Nat.eqb op 8.
Definition dqf_okop (op : nat) : bool := dq_okop op || dqf_clear op.

(** labels of the functors of empty() and of apply( [&]( deque_type const& d ) { n = d.size(); } ) in [XExcl]
    below (not request words: nothing is published) *)
Definition xop_empty : nat := 9.
Definition xop_apply_size : nat := 10.

Definition dqf_dec (op : nat) (arg : Z) : dfop :=
  if dqf_clear op then FClear else if Nat.eqb op xop_empty then FEmpty
  else if Nat.eqb op xop_apply_size then FSize else FBase (dq_dec op arg).

(** fc_apply with its `case op_clear`: `while ( !m_Deque.empty()) m_Deque.pop_front();` *)
Fixpoint pop_all (fuel : nat) (d : list Z) : list Z :=
  match fuel with
  | O => d
  | S fu => match d with [] => [] | _ :: d' => pop_all fu d' end
  end.

Definition dqf_apply (d : list Z) (op : nat) (arg : Z) : list Z * res :=
  if dqf_clear op then (pop_all (List.length d) d, RUnit) else dq_apply d op arg.

(** fc_process: no `case op_clear` in the switch *)
Definition dqf_visit : itprev -> list Z -> nat -> nat -> nat -> Z -> itprev * list Z * comps := dq_visit.

Definition dqf_process := batch_run dqf_visit.

(** the request words of the collided pairs of one fc_process call are those of [FcBatch.dq_pairs] *)
Definition dqf_pair_push_pop (x : nat * nat * nat * nat) : bool :=
  let '(_, opush, _, opop) := x in
  (dq_push_front opush || dq_push_back opush) && (dq_pop_front opop || dq_pop_back opop).

(** ** kernel::invoke_exclusive with a functor that works on the container

    LV.Model.FcKernelWake with [WExcl] replaced by [XExcl op arg]: `invoke_exclusive( f )` where the functor is
    [cexcl op arg : C -> C * Rs] (the pair (op, arg) is only a label that names the functor; it is NOT a request
    word and nothing is published).  Same atomic accesses as [FcKernelWake.invoke_exclusive]: the functor performs
    none.  It runs as the local computation that follows the exchange which acquires m_Mutex (a step = the pending
    atomic access plus the local computation up to the next access), so the step of the successful exchange
    also applies [cexcl] to the container and emits, in this order,
        "lock",  "inv" [op; arg],  "exec" [t; op; arg; response...],  "ret" [response...]
    The exclusive operation is thus recorded as an INSTANTANEOUS operation at the moment the caller acquires the
    combiner lock; the real call starts earlier ("excl") and returns later ("excldone", same thread, after the
    unlock), i.e. the recorded interval lies inside the real one.  A history that is linearizable with the
    shorter interval is linearizable with the longer one (fewer real-time precedences).

      bool empty() const : cexcl = fun d => (d, RBool (is_nil d))      label [xop_empty] = 9
      apply( f )         : any functor that is an operation of the sequential specification; instance:
                           apply( [&n]( deque_type const& d ) { n = d.size(); } )   label [xop_apply_size] = 10
                           (the synchronised way to read the size; FCDeque::size() itself is unsynchronised) *)
Local Open Scope string_scope.

Set Implicit Arguments.

Section KernelExcl.
  Variable C : Type.
  Variable Rs : Type.
  Variable rs0 : Rs.
  Variable rs_enc : Rs -> list Z.
  Variable capply : C -> nat -> Z -> C * Rs.
  Variable P : Type.
  Variable pinit : P.
  Variable pvisit : P -> C -> nat -> nat -> nat -> Z -> P * C * list (nat * Rs).
  Variable wk : bool.
  Variable wkin : bool.
  Variable cexcl : nat -> Z -> C -> C * Rs.

  Notation G := (FcKernel.G C Rs).
  Notation V := (FcKernel.V Rs P).
  Notation prog := (Conc.prog G V ev).
  Notation kret := (@FcKernel.ret C Rs P).
  Notation kfail := (@FcKernel.fail C Rs P).
  Notation kobind := (@FcKernel.obind C Rs P).
  Notation kexit := (@FcKernel.thread_exit C Rs P).
  Notation wwakeup := (@FcKernelWake.wakeup C Rs P wk).
  Notation wrequest := (@FcKernelWake.request C Rs rs0 rs_enc capply P pinit pvisit wk wkin).

  (** m_spin.exchange( true ) of try_lock inside invoke_exclusive's lock_guard, followed (when the lock was
      free) by the functor *)
  Definition a_xchg_excl (t op : nat) (arg : Z) : G -> G * V * list ev := fun g =>
    if g_lock g then (set_lock g true, VN Rs P 1, [EvAcc KXchg obj_lock true])
    else (set_cont (set_lock g true) (fst (cexcl op arg (g_cont g))), VR P (snd (cexcl op arg (g_cont g))),
          [EvAcc KXchg obj_lock true; EvCli "lock" []; EvCli "inv" [Z.of_nat op; arg];
           EvCli "exec" ([Z.of_nat t; Z.of_nat op; arg] ++ rs_enc (snd (cexcl op arg (g_cont g))));
           EvCli "ret" (rs_enc (snd (cexcl op arg (g_cont g))))]).

  Fixpoint spin_lock_excl (fuel : nat) (spinning : bool) (t op : nat) (arg : Z) : prog (option Rs) :=
    match fuel with
    | O => kfail
    | S fu =>
        if spinning then Act (@a_ldlock C Rs P) (fun v => if Nat.eqb (vn v) 0 then spin_lock_excl fu false t op arg
                                                           else spin_lock_excl fu true t op arg)
        else Act (a_xchg_excl t op arg) (fun o => match o with VR _ rs => kret rs | _ => spin_lock_excl fu true t op arg end)
    end.

  Definition invoke_exclusive_op (fuel t op : nat) (arg : Z) : prog (option unit) :=
    Emit [EvCli "excl" []] (
    kobind (spin_lock_excl fuel false t op arg) (fun _ =>
    if wkin then
      kobind (wwakeup fuel) (fun _ =>
      Emit [EvCli "unlock" []] (Act (@a_unlock C Rs P) (fun _ => Emit [EvCli "excldone" []] (kret tt))))
    else
      Emit [EvCli "unlock" []] (Act (@a_unlock C Rs P) (fun _ =>
      kobind (wwakeup fuel) (fun _ => Emit [EvCli "excldone" []] (kret tt)))))).

  Inductive xop := XReq (batch : bool) (op : nat) (arg : Z) | XExit | XExcl (op : nat) (arg : Z).

  Fixpoint run_xops (fuel mask npass t : nat) (my : option nat) (os : list xop) : prog (option unit) :=
    match os with
    | [] => kexit my
    | XReq batch op arg :: rest =>
        kobind (wrequest fuel mask npass batch t my op arg) (fun r => run_xops fuel mask npass t (Some r) rest)
    | XExit :: rest => kobind (kexit my) (fun _ => run_xops fuel mask npass t None rest)
    | XExcl op arg :: rest => kobind (invoke_exclusive_op fuel t op arg) (fun _ => run_xops fuel mask npass t my rest)
    end.

  Definition xthread_prog (fuel mask npass t : nat) (os : list xop) : Conc.thread G V ev :=
    Act (@a_begin C Rs P) (fun _ =>
    Conc.bind (run_xops fuel mask npass t None os) (fun o =>
    match o with Some _ => Ret tt | None => Emit [EvCli "outoffuel" []] (Ret tt) end)).

  Fixpoint xthread_progs (fuel mask npass t : nat) (ths : list (list xop)) : list (Conc.thread G V ev) :=
    match ths with
    | [] => []
    | os :: rest => xthread_prog fuel mask npass t os :: xthread_progs fuel mask npass (S t) rest
    end.

  Definition xinit_cfg (fuel mask npass : nat) (c0 : C) (ths : list (list xop)) : Conc.config G V ev :=
    Conc.Cfg (FcKernel.init rs0 c0) (xthread_progs fuel mask npass 0 ths) [].
End KernelExcl.

(** FCDeque: requests 2..8 through the kernel, empty() (label 9) and apply( size functor ) (label 10) through
    invoke_exclusive *)
Definition dqx_excl (op : nat) (arg : Z) (d : list Z) : list Z * res :=
  if Nat.eqb op xop_empty then (d, RBool (is_nil d)) else (d, RVal (Some (Z.of_nat (List.length d)))).
Definition dqx_ok (op : nat) : bool := Nat.eqb op xop_empty || Nat.eqb op xop_apply_size.

Definition dqx_init_cfg (wk wkin : bool) (fuel mask npass : nat) (ths : list (list xop)) :=
  xinit_cfg RUnit res_enc dqf_apply (None : itprev) dqf_visit wk wkin dqx_excl fuel mask npass ([] : list Z) ths.
