(** * Model of the iterators of cds::intrusive::FeldmanHashSet<cds::gc::HP, T, Traits> at step grain, on top of LV.Model.Feldman
      (same shared state, same accesses; cds/intrusive/impl/feldman_hashset.h: class iterator_base, do_erase_at, unlink).

    C++ (current tree, after e4e84b0 / 21e862e / fe3f87a):
      iterator_base { array_node* m_pNode; size_t m_idx; gc::Guard m_guard; }      begin() = ( head, -1 ) + forward();  end() = ( head, head_size )
      forward():  pNode = m_pNode; idx = m_idx + 1; nodeSize = pNode->pParent ? arrayNodeSize : headSize;
          for (;;) { if ( idx < nodeSize ) {
                slot = pNode->nodes[idx].load( acquire );                                                   // [a_ld]
                if ( slot.bits() == flag_array_node ) { pNode = to_array( slot.ptr()); idx = 0; nodeSize = arrayNodeSize; }
                else if ( slot.bits() == flag_array_converting ) { /* re-read */ }
                else if ( slot.ptr()) {
                    if ( m_guard.protect( pNode->nodes[idx], ptr ) == slot ) { m_pNode = pNode; m_idx = idx; return; }   // [a_ld] ([a_gst] [a_sync] [a_ld])+
                    continue;                                    /* slot changed under protect: re-read */ }
                else ++idx; }
            else if ( pNode->pParent ) { idx = pNode->idxParent + 1; pNode = pNode->pParent; nodeSize = ...; }
            else { m_pNode = pNode; m_idx = idx; return; /* end() */ } }
      backward(): symmetric: idx = m_idx - 1; down: idx = nodeSize - 1; empty: --idx; up: idx = idxParent - 1; rend() = ( head, -1 )
      operator*, operator->:  m_guard.get()                                                                  // [a_gld]
      do_erase_at( iter ):  for (;;) { slot = iter.m_pNode->nodes[iter.m_idx].load( acquire );                 // [a_ld]
            if ( slot.bits() == 0 && slot.ptr() == iter.pointer()) {                                          // [a_gld]
                if ( CAS( slot -> nullptr )) { gc::retire( slot.ptr()); --m_ItemCounter; return true; } }     // [a_cas] [a_rld] [a_rst] [a_cnt]
            else if ( slot.bits() != 0 ) return unlink( *iter.pointer());                                      // [a_gld] + unlink
            else return false; }
      unlink( val ):  Guard guard; do_erase( hash( val ), guard, pred: &item == &val ) != nullptr;  ~Guard     // third hazard slot; [a_gst]
    pParent / idxParent are plain fields written before the array node is published; an iterator only reaches an array node
    by descending from the head, so the model keeps the descent as a stack [(node, idx)] instead of following parent pointers.

    Client operations of the step harness (harness/C19/step_feldman_iter.cpp), in addition to those of LV.Model.Feldman:
      [20; k]  { auto it = s.begin(), e = s.end(); while ( it != e ) { p = &*it; visit; if ( p->key == k ) erase_at( it ); ++it; } }
      [21; k]  the same with rbegin() / rend()
    Events: "visit key 0" (the second argument is the disposed flag the real harness reads through the guarded pointer),
    "erased r".  No proofs in this file. *)
From Coq Require Import ZArith NArith List String Bool Arith PeanoNat.
From LV Require Import Base.Conc Base.Events Model.Feldman.
Import ListNotations.
Local Open Scope string_scope.

Set Implicit Arguments.

Section ParamsI.
  Variables (hbits abits W : nat) (hs : list N).

  Notation "x <- p ;; q" := (Conc.bind p (fun x => q)) (at level 61, p at next level, right associativity).

  Definition nsize (a : nat) : nat := 2 ^ bits_of hbits abits a.
  Definition a_gld (t s : nat) : act := a_nop KLd (obj_guard t s).

  (** result of forward() / backward(): descent stack, node, index, the protected slot value ([None]: end() / rend()) *)
  Definition itres := (list (nat * nat) * nat * nat * option V)%type.

  Fixpoint fwd (fuel sf : nat) (t s : nat) (stk : list (nat * nat)) (a i : nat) : prog (option itres) :=
    match fuel with
    | O => Ret None
    | S f =>
        if Nat.ltb i (nsize a) then
          Act (a_ld a i) (fun v =>
            if Nat.eqb (sbits (vslot v)) 2 then fwd f sf t s ((a, i) :: stk) (sptr (vslot v)) 0
            else if Nat.eqb (sbits (vslot v)) 1 then fwd f sf t s stk a i
            else if negb (Nat.eqb (sptr (vslot v)) 0) then
              pr <- protect sf t s (mkPos a i 0) ;;
              match pr with
              | None => Ret None
              | Some v' => if slot_eqb (vslot v') (vslot v) then Ret (Some (stk, a, i, Some v')) else fwd f sf t s stk a i
              end
            else fwd f sf t s stk a (S i))
        else
          match stk with
          | (pa, pi) :: r => fwd f sf t s r pa (S pi)
          | [] => Ret (Some (stk, a, i, None))
          end
    end.

  (** backward(): [j] = index to examine + 1 ([0] = the C++ endIdx) *)
  Fixpoint bwd (fuel sf : nat) (t s : nat) (stk : list (nat * nat)) (a j : nat) : prog (option itres) :=
    match fuel with
    | O => Ret None
    | S f =>
        match j with
        | S i =>
            Act (a_ld a i) (fun v =>
              if Nat.eqb (sbits (vslot v)) 2 then bwd f sf t s ((a, i) :: stk) (sptr (vslot v)) (nsize (sptr (vslot v)))
              else if Nat.eqb (sbits (vslot v)) 1 then bwd f sf t s stk a j
              else if negb (Nat.eqb (sptr (vslot v)) 0) then
                pr <- protect sf t s (mkPos a i 0) ;;
                match pr with
                | None => Ret None
                | Some v' => if slot_eqb (vslot v') (vslot v) then Ret (Some (stk, a, i, Some v')) else bwd f sf t s stk a j
                end
              else bwd f sf t s stk a i)
        | O =>
            match stk with
            | (pa, pi) :: r => bwd f sf t s r pa pi
            | [] => Ret (Some (stk, a, 0, None))
            end
        end
    end.

  (** do_erase( hash, guard, pred: the item is [x] ) of unlink( val ) *)
  Fixpoint unlink_loop (fuel sf : nat) (t g0 : nat) (h : N) (x : nat) (p : pos) : prog out :=
    match fuel with
    | O => Ret None
    | S f =>
        r <- traverse abits sf h p ;;
        match r with
        | None => Ret None
        | Some (p', v) =>
            pr <- protect sf t g0 p' ;;
            match pr with
            | None => Ret None
            | Some v' =>
                if negb (slot_eqb (vslot v') (vslot v)) then unlink_loop f sf t g0 h x p'
                else if negb (Nat.eqb (sptr (vslot v)) 0) then
                  if N.eqb (hash hs (vkey v')) h && Nat.eqb (sptr (vslot v)) x then
                    Act (a_cas (parr p') (pidx p') (vslot v) snull) (fun c =>
                      if vok c then _ <- retire t ;; Act (a_cnt KFas (-1)) (fun _ => Ret (Some (true, false)))
                      else unlink_loop f sf t g0 h x p')
                  else Ret (Some (false, false))
                else Ret (Some (false, false))
            end
        end
    end.

  (** do_erase_at for an iterator at ( a, i ) whose guard [s] holds item [x] with key [kx] *)
  Fixpoint erase_at_loop (fuel sf : nat) (t s : nat) (a i x kx : nat) : prog (option bool) :=
    match fuel with
    | O => Ret None
    | S f =>
        Act (a_ld a i) (fun v =>
          if Nat.eqb (sbits (vslot v)) 0 then
            Act (a_gld t s) (fun _ =>
              if Nat.eqb (sptr (vslot v)) x then
                Act (a_cas a i (vslot v) snull) (fun c =>
                  if vok c then _ <- retire t ;; Act (a_cnt KFas (-1)) (fun _ => Ret (Some true))
                  else erase_at_loop f sf t s a i x kx)
              else Ret (Some false))
          else
            Act (a_gld t s) (fun _ =>
              r <- unlink_loop sf sf t 2 (hash hs kx) x (start hbits (hash hs kx)) ;;
              match r with
              | None => Ret None
              | Some (b, _) => Act (a_gst t 2) (fun _ => Ret (Some b))
              end))
    end.

  Definition ev_visit (k : nat) : ev := EvCli "visit" [Z.of_nat k; 0%Z].
  Definition ev_erased (b : bool) : ev := EvCli "erased" [zb b].

  (** the loop of the client: [dir = true] forward.  [i] = argument of the next forward() / backward() call *)
  Fixpoint iter_loop (fuel sf : nat) (dir : bool) (t s : nat) (kdel : nat) (stk : list (nat * nat)) (a i : nat) : prog (option unit) :=
    match fuel with
    | O => Ret None
    | S f =>
        r <- (if dir then fwd sf sf t s stk a i else bwd sf sf t s stk a i) ;;
        match r with
        | None => Ret None
        | Some (stk', a', i', None) => Ret (Some tt)
        | Some (stk', a', i', Some v) =>
            Act (a_gld t s) (fun _ =>
              Emit [ev_visit (vkey v)]
                (if Nat.eqb (vkey v) kdel then
                   e <- erase_at_loop sf sf t s a' i' (sptr (vslot v)) (vkey v) ;;
                   match e with
                   | None => Ret None
                   | Some b => Emit [ev_erased b] (iter_loop f sf dir t s kdel stk' a' (if dir then S i' else i'))
                   end
                 else iter_loop f sf dir t s kdel stk' a' (if dir then S i' else i')))
        end
    end.

  Definition run_opI (fuel : nat) (t : nat) (o : list Z) (gs : bool) : prog (option bool) :=
    let a := if gs then 1 else 0 in
    let b := if gs then 0 else 1 in
    match o with
    | [code; kz] =>
        let k := Z.to_nat kz in
        let c := Z.to_nat code in
        if Nat.eqb c 20 || Nat.eqb c 21 then
          Emit [ev_inv c k]
            (r <- iter_loop fuel fuel (Nat.eqb c 20) t a k [] 0 (if Nat.eqb c 20 then 0 else nsize 0) ;;
             match r with
             | None => give_up
             | Some _ => Act (a_gst t b) (fun _ => Act (a_gst t a) (fun _ => Emit [ev_ret true false] (Ret (Some gs))))
             end)
        else run_op hbits abits W hs fuel t o gs
    | _ => Ret (Some gs)
    end.

  Fixpoint run_opsI (fuel : nat) (t : nat) (os : list (list Z)) (gs : bool) : prog unit :=
    match os with
    | [] => Ret tt
    | o :: r => x <- run_opI fuel t o gs ;; match x with Some gs' => run_opsI fuel t r gs' | None => Ret tt end
    end.

  Definition thread_progI (fuel : nat) (t : nat) (os : list (list Z)) : Conc.thread G V ev :=
    Act a_begin (fun _ => run_opsI fuel t os false).

  Fixpoint thread_progsI (fuel : nat) (t : nat) (ths : list (list (list Z))) : list (Conc.thread G V ev) :=
    match ths with
    | [] => []
    | os :: r => thread_progI fuel t os :: thread_progsI fuel (S t) r
    end.

  Definition init_cfgI (fuel : nat) (ths : list (list (list Z))) : Conc.config G V ev :=
    Conc.Cfg init (thread_progsI fuel 0 ths) [].
End ParamsI.

(** ** entry point for the extracted driver.  cfg as for LV.Model.Feldman.run_case *)
Definition run_case (cfg : list Z) (ths : list (list (list Z))) (sched : list nat) (fuel : nat)
  : list (nat * ev) * bool :=
  let lf := Z.to_nat (nth 0 cfg 50%Z) in
  let hb := Z.to_nat (nth 1 cfg 4%Z) in
  let ab := Z.to_nat (nth 2 cfg 2%Z) in
  let hs := map Z.to_N (skipn 3 cfg) in
  let r := Conc.run fuel 0 sched (init_cfgI hb ab 32 hs lf ths) in
  (Conc.trace (fst r), snd r).
