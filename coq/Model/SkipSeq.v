(** * Sequential models shared by the C18 theorems.

    1. Sorted association lists [sl_*]: the reference "traversal" semantics of an ordered map.  The sequential
       models of EllenBinTree (Model/EllenSeq.v) and BronsonAVLTreeMap (Model/AvlSeq.v) are proved to traverse to
       exactly these lists; Proofs/SkipSeqProofs.v relates them to [Spec.Specs.MapSpec].
    2. A sequential skip list: one explicit sorted list PER LEVEL (as the real structure: a node of height h is
       linked into the lists 0 .. h-1), insert / erase / extract_min / extract_max run to completion.
       Tower heights are data carried by the operation (the harness forces them the same way).

    Operations (what harness/C15 executes, sequential mode):
      Ins k v   insert, an existing binding is kept        (insert / insert_with / emplace)
      Ups k v   update, inserting when absent              (update(..., true))
      Upd k v   update, never inserting                    (update(..., false))
      Del k     erase / extract(k) / unlink
      ExtMin, ExtMax *)
From Coq Require Import ZArith List Bool Lia.
Import ListNotations.
Local Open Scope Z_scope.

Inductive sop := Ins (k v : Z) | Ups (k v : Z) | Upd (k v : Z) | Del (k : Z) | ExtMin | ExtMax.

(** ** sorted association lists *)
Fixpoint sl_find (k : Z) (l : list (Z * Z)) : option Z :=
  match l with
  | [] => None
  | (k', v) :: r => if k =? k' then Some v else sl_find k r
  end.

(** insert-or-(keep|overwrite) at the sorted position *)
Fixpoint sl_put (overwrite : bool) (k v : Z) (l : list (Z * Z)) : list (Z * Z) :=
  match l with
  | [] => [(k, v)]
  | (k', v') :: r =>
      if k <? k' then (k, v) :: l
      else if k =? k' then (if overwrite then (k, v) :: r else l)
      else (k', v') :: sl_put overwrite k v r
  end.

Fixpoint sl_upd (k v : Z) (l : list (Z * Z)) : list (Z * Z) :=
  match l with
  | [] => []
  | (k', v') :: r => if k =? k' then (k, v) :: r else (k', v') :: sl_upd k v r
  end.

Fixpoint sl_del (k : Z) (l : list (Z * Z)) : list (Z * Z) :=
  match l with
  | [] => []
  | (k', v') :: r => if k =? k' then r else (k', v') :: sl_del k r
  end.

Definition sl_step (l : list (Z * Z)) (o : sop) : list (Z * Z) :=
  match o with
  | Ins k v => sl_put false k v l
  | Ups k v => sl_put true k v l
  | Upd k v => sl_upd k v l
  | Del k => sl_del k l
  | ExtMin => tl l
  | ExtMax => removelast l
  end.

Definition sl_run (os : list sop) : list (Z * Z) := fold_left sl_step os [].

(** ** the skip list: [levels] = the list of level 0, level 1, ...; a node is (key, value, height) *)
Definition snode := (Z * Z * nat)%type.
Definition nkey (n : snode) : Z := fst (fst n).
Definition nval (n : snode) : Z := snd (fst n).
Definition nheight (n : snode) : nat := snd n.

Definition MAXH : nat := 8.

Fixpoint lv_has (k : Z) (l : list snode) : bool :=
  match l with
  | [] => false
  | n :: r => (k =? nkey n) || lv_has k r
  end.

(** link a node into one level at its sorted position (the key is known to be absent) *)
Fixpoint lv_link (n : snode) (l : list snode) : list snode :=
  match l with
  | [] => [n]
  | m :: r => if nkey n <? nkey m then n :: l else m :: lv_link n r
  end.

Definition lv_unlink (k : Z) (l : list snode) : list snode := filter (fun m => negb (k =? nkey m)) l.

Definition lv_setval (k v : Z) (l : list snode) : list snode :=
  map (fun m => if k =? nkey m then (k, v, nheight m) else m) l.

(** apply [f] to the levels 0 .. h-1 (towers are linked bottom-up), leave the others *)
Fixpoint map_below (f : list snode -> list snode) (h : nat) (ls : list (list snode)) : list (list snode) :=
  match ls, h with
  | [], _ => []
  | l :: r, O => ls
  | l :: r, S h' => f l :: map_below f h' r
  end.

Definition level0 (ls : list (list snode)) : list snode := hd [] ls.

Definition clamp (h : nat) : nat := if Nat.ltb h 1 then 1%nat else if Nat.ltb MAXH h then MAXH else h.

Definition sk_insert (k v : Z) (h : nat) (ls : list (list snode)) : list (list snode) :=
  if lv_has k (level0 ls) then ls else map_below (lv_link (k, v, clamp h)) (clamp h) ls.

(** the value lives in the node; every level that links the node sees the new value *)
Definition sk_update (k v : Z) (ls : list (list snode)) : list (list snode) := map (lv_setval k v) ls.

Definition sk_erase (k : Z) (ls : list (list snode)) : list (list snode) := map (lv_unlink k) ls.

Definition sk_init : list (list snode) := repeat [] MAXH.

(** skip-list operation = map operation + the height the next tower gets *)
Definition sk_step (ls : list (list snode)) (oh : sop * nat) : list (list snode) :=
  let (o, h) := oh in
  match o with
  | Ins k v => sk_insert k v h ls
  | Ups k v => if lv_has k (level0 ls) then sk_update k v ls else sk_insert k v h ls
  | Upd k v => sk_update k v ls
  | Del k => sk_erase k ls
  | ExtMin => match level0 ls with [] => ls | n :: _ => sk_erase (nkey n) ls end
  | ExtMax => match rev (level0 ls) with [] => ls | n :: _ => sk_erase (nkey n) ls end
  end.

Definition sk_run (os : list (sop * nat)) : list (list snode) := fold_left sk_step os sk_init.

Definition sk_traverse (ls : list (list snode)) : list (Z * Z) := map (fun n => (nkey n, nval n)) (level0 ls).
Definition sk_size (ls : list (list snode)) : nat := length (level0 ls).

(** entry point for the extracted driver (ocaml/ is shared; the driver lives in checks/C18_shapes.py + a tiny
    OCaml main generated there): op = [code; k; v; h], codes as in harness/C15/c15.h *)
Definition decode (o : list Z) : option (sop * nat) :=
  match o with
  | [c; k; v; h] =>
      let hh := S (Z.to_nat h) in
      if (c =? 1) || (c =? 2) || (c =? 5) then Some (Ins k v, hh)
      else if c =? 4 then Some (Ups k v, hh)
      else if c =? 3 then Some (Upd k v, hh)
      else if (c =? 6) || (c =? 7) || (c =? 8) || (c =? 9) then Some (Del k, hh)
      else if c =? 13 then Some (ExtMin, hh)
      else if c =? 14 then Some (ExtMax, hh)
      else None
  | _ => None
  end.
