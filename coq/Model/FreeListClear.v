(** * Model of empty() and clear( Disposer ) of cds::intrusive::FreeList (cds/intrusive/free_list.h), on top
      of LV.Model.FreeList (put / get are re-used unchanged), one atomic access per [Act].

    C++ (current tree):

      /// Checks whether the free list is empty
      bool empty() const {
          return m_Head.load( atomics::memory_order_relaxed ) == nullptr;                 // ld head
      }

      /// Clears the free list (not atomic)
      /** For each element disp disposer is called to free memory. ...
          This method must be explicitly called before the free list destructor. */
      template <typename Disposer> void clear( Disposer disp ) {
          node * head = m_Head.load( atomics::memory_order_relaxed );                     // ld head
          m_Head.store( nullptr, atomics::memory_order_relaxed );                         // st head
          while ( head ) {
              node * next = head->m_freeListNext.load( atomics::memory_order_relaxed );   // ld next
              disp( head );                                                               // "dispose <id>"
              head = next;
          }
      }

    clear() is documented "(not atomic)" and is meant to be called before the destructor (class comment:
    "free-list clear() must be explicitly called before destroying the free-list object"): load + store of
    m_Head instead of an exchange, and it ignores m_freeListRefs completely.  It is therefore modelled as a
    QUIESCENT-ONLY operation: the program [clear] below is executed alone ([solo_ev]) from a state in which
    no put / get is in flight.  empty() is a single relaxed load and may run concurrently with put / get:
    it is a third client operation of [run_ops2].

    Client operations of a thread (the first two exactly as in LV.Model.FreeList):
      [1]     get     "inv_get";  p = get();  "ret_get <id or -1>"
      [2; k]  put k   "inv_put <id>";  put(k-th held node);  "ret_put"
      [3]     empty   "inv_empty";  b = empty();  "ret_empty <1 or 0>" *)
From Coq Require Import ZArith List String Bool Lia PeanoNat.
From LV Require Import Base.Conc Base.Events Model.FreeList.
Import ListNotations.
Local Open Scope Z_scope.
Local Open Scope string_scope.

(** ** empty() *)
Definition empty_prog : prog bool := Act a_ld_head (fun v => Ret (Nat.eqb (vnode v) 0)).

Definition b2z (b : bool) : Z := if b then 1 else 0.

Inductive op2 := O2Get | O2Put (k : nat) | O2Empty.

Fixpoint run_ops2 (fuel : nat) (os : list op2) (held : list nat) : prog unit :=
  match os with
  | [] => Ret tt
  | O2Get :: r =>
      Emit [EvCli "inv_get" []]
        (Conc.bind (get fuel) (fun res =>
           match res with
           | Some O => Emit [EvCli "ret_get" [-1]] (run_ops2 fuel r held)
           | Some n => Emit [EvCli "ret_get" (zn n)] (run_ops2 fuel r (held ++ [n]))
           | None => Emit [EvCli "outoffuel" []] (Ret tt)
           end))
  | O2Put k :: r =>
      match nth_error held k with
      | None => Emit [EvCli "skip" []] (run_ops2 fuel r held)
      | Some n =>
          Emit [EvCli "inv_put" (zn n)]
            (Conc.bind (put fuel n) (fun ok =>
               if ok then Emit [EvCli "ret_put" []] (run_ops2 fuel r (remove_nth k held))
               else Emit [EvCli "outoffuel" []] (Ret tt)))
      end
  | O2Empty :: r =>
      Emit [EvCli "inv_empty" []]
        (Act a_ld_head (fun v =>
           Emit [EvCli "ret_empty" [b2z (Nat.eqb (vnode v) 0)]] (run_ops2 fuel r held)))
  end.

Definition thread_prog2 (fuel : nat) (os : list op2) (held : list nat) : Conc.thread G V ev :=
  Act a_begin (fun _ => run_ops2 fuel os held).

Definition init_cfg2 (fuel k : nat) (ths : list (list op2 * list nat)) : Conc.config G V ev :=
  Conc.Cfg (init k) (map (fun th => thread_prog2 fuel (fst th) (snd th)) ths) [].

(** the same threads seen as put/get-only threads (for the vocabulary of LV.Proofs.FreeListThm, which only
    looks at the held lists) *)
Definition forget (ths : list (list op2 * list nat)) : list (list op * list nat) :=
  map (fun th => ([] : list op, snd th)) ths.

(** ** clear( disp ) *)
Definition a_st_head (h : nat) : act := fun g => (set_head g h, (O, 0), [EvAcc KSt obj_head true]).

(** the while loop; [false] = out of fuel *)
Fixpoint clear_loop (fuel : nat) (h : nat) : prog bool :=
  match fuel with
  | O => Ret false
  | S f =>
      if Nat.eqb h 0 then Ret true else
      Act (a_ld_next h) (fun v => Emit [EvCli "dispose" (zn h)] (clear_loop f (vnode v)))
  end.

Definition clear (fuel : nat) : prog bool :=
  Act a_ld_head (fun v => Act (a_st_head 0) (fun _ => clear_loop fuel (vnode v))).

(** sequential execution of a program by a single thread, collecting the events *)
Fixpoint solo_ev {R} (p : prog R) (g : G) : G * R * list ev :=
  match p with
  | Ret r => (g, r, [])
  | Emit es k => let '(g', r, es') := solo_ev k g in (g', r, (es ++ es')%list)
  | Act f k => let '(g', v, es) := f g in let '(g'', r, es') := solo_ev (k v) g' in (g'', r, (es ++ es')%list)
  end.

(** the nodes handed to the disposer, in order *)
Fixpoint disposed (es : list ev) : list nat :=
  match es with
  | [] => []
  | EvCli name [z] :: r => if String.eqb name "dispose" then Z.to_nat z :: disposed r else disposed r
  | _ :: r => disposed r
  end.

(** ** entry point for an extracted driver: cfg as in LV.Model.FreeList.fl_run_case *)
Definition decode_op2 (o : list Z) : option op2 :=
  match o with
  | [1] => Some O2Get
  | [2; k] => Some (O2Put (Z.to_nat k))
  | [3] => Some O2Empty
  | _ => None
  end.

Fixpoint decode_ops2 (os : list (list Z)) : list op2 :=
  match os with
  | [] => []
  | o :: r => match decode_op2 o with Some x => x :: decode_ops2 r | None => decode_ops2 r end
  end.

Definition decode_threads2 (k : nat) (owners : list Z) (ths : list (list (list Z))) : list (list op2 * list nat) :=
  map (fun p => (decode_ops2 (snd p), held_of owners (S k) (fst p))) (combine (seq 0 (List.length ths)) ths).

(** runs the threads, then (the threads being finished) clear() by the main thread: returns the trace of
    the concurrent part, the events of clear(), and whether everything terminated within the fuel *)
Definition fl2_run_case (cfg : list Z) (ths : list (list (list Z))) (sched : list nat) (fuel : nat)
  : list (nat * ev) * list ev * bool :=
  let lfuel := Z.to_nat (nth 1 cfg 100) in
  let k := Z.to_nat (nth 3 cfg 0) in
  let owners := skipn 4 cfg in
  let r := Conc.run fuel 0 sched (init_cfg2 lfuel k (decode_threads2 k owners ths)) in
  let '(_, ok, es) := solo_ev (clear lfuel) (Conc.shared (fst r)) in
  (Conc.trace (fst r), es, (snd r && ok)%bool).
