(** * DhpLang: programs whose steps contain non-atomic accesses to shared memory.

    [Conc.prog] has exactly two kinds of nodes: [Act] (one atomic access = one scheduling point) and [Emit]
    (client event).  The DHP code also reads and writes *non-atomic* shared memory between two atomic
    accesses (the retired array, the cursors, [next_] links, free guard lists ...): under the baton scheduler
    of hooks/include/khizmax_libcds_verif/sched.h such code runs in the step of the atomic access that
    precedes it ("a step = the pending atomic access of that thread plus its local computation up to the
    next access").  [dprog] adds the node [DLoc] for that code and [compile] turns a [dprog] into a
    [Conc.prog] with exactly this meaning: the function of every [Conc.Act] performs the atomic access and
    then every [DLoc]/[DEmit] that follows it, up to the next [DAct]; the value handed to the continuation is
    the rest of the program. *)
From Coq Require Import List.
From LV Require Import Base.Conc.
Import ListNotations.

Set Implicit Arguments.

Section Lang.
  Context {G E : Type}.

  Inductive dprog (R : Type) : Type :=
  | DRet (r : R)
  | DEmit (es : list E) (k : dprog R)
  | DLoc (X : Type) (f : G -> G * X) (k : X -> dprog R)              (* non-atomic code, not a scheduling point *)
  | DAct (X : Type) (f : G -> G * X * list E) (k : X -> dprog R).    (* exactly one atomic access *)

  Arguments DRet {R} r.
  Arguments DEmit {R} es k.
  Arguments DLoc {R X} f k.
  Arguments DAct {R X} f k.

  Fixpoint dbind {A B} (p : dprog A) (q : A -> dprog B) : dprog B :=
    match p with
    | DRet r => q r
    | DEmit es k => DEmit es (dbind k q)
    | DLoc f k => DLoc f (fun x => dbind (k x) q)
    | DAct f k => DAct f (fun x => dbind (k x) q)
    end.

  (** run the non-atomic code at the front of [p]: final memory, events, rest (a [DAct] or [DRet]) *)
  Fixpoint dsettle {R} (p : dprog R) (g : G) : G * list E * dprog R :=
    match p with
    | DEmit es k => let '(g', es', p') := dsettle k g in (g', es ++ es', p')
    | DLoc f k => let (g1, x) := f g in dsettle (k x) g1
    | _ => (g, [], p)
    end.

  (** the value type of the compiled program is the rest of the source program *)
  Fixpoint compile (fuel : nat) (p : dprog unit) : Conc.prog G (dprog unit) E unit :=
    match fuel with
    | O => Ret tt
    | S n =>
        match p with
        | DAct f k =>
            Act (fun g => let '(g1, x, es) := f g in
                          let '(g2, es2, rest) := dsettle (k x) g1 in
                          (g2, rest, es ++ es2))
                (fun rest => compile n rest)
        | _ => Ret tt      (* DRet: finished.  (DEmit/DLoc at the front never occur: see [dthread]) *)
        end
    end.
End Lang.

Arguments DRet {G E R} r.
Arguments DEmit {G E R} es k.
Arguments DLoc {G E R X} f k.
Arguments DAct {G E R X} f k.
