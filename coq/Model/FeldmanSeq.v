(** * Sequential model of cds::intrusive::FeldmanHashSet growth (cds/intrusive/details/feldman_hashset_base.h,
      cds/intrusive/impl/feldman_hashset.h), one thread.

    The set stores hash values (the key IS the hash: two items with equal hashes are the same key).  The head
    array has 2^head_bits slots, every other array node 2^array_bits slots; a slot is empty, a data node, or
    a pointer to a deeper array node.

    C++ (current tree):
      traverse_data( hash )   splitter( hash ); pArr = head; nSlot = splitter.cut( head_bits )
      traverse( pos )         while slot is an array node: nSlot = splitter.cut( array_bits ); pArr = that node
      number_splitter::cut(c) r = ( number >> shift ) & ( 2^c - 1 ); shift += c;       eos(): shift >= width
      insert( val )           loop: slot = traverse( pos );
                                data node with the same hash -> false;
                                data node, other hash: if !splitter.eos() expand_slot( pos, slot ) (and loop) else false;
                                empty -> CAS( slot, val ), ++count, true
      expand_slot( pos, cur ) pArr = new array node; idx = hash_splitter( hash( *cur ), OFFSET ).cut( array_bits )
                              where OFFSET = pos.splitter.bit_offset() (bits consumed so far);
                              pArr->nodes[idx] = cur;  parent slot = pArr
      erase( hash )           slot = traverse; data node with this hash -> slot = nullptr, --count (arrays never shrink)
      find                    slot = traverse; data node with this hash
    Slots of a level: [cut x off c = (x / 2^off) mod 2^c].  The retry loop of insert is the recursion of [fins]
    on fuel (one unit per level entered or expansion made).  No proofs in this file. *)
From Coq Require Import List NArith Arith Bool.
From LV Require Import Model.CuckooSeq.   (* key, upd *)
Import ListNotations.

Inductive fnode := FEmpty | FData (x : key) | FArr (slots : list fnode).

Section Feldman.
  Variable W : nat.      (* width of the hash in bits *)
  Variable hb ab : nat.  (* head_bits, array_bits *)

  Definition cut (x : key) (off c : nat) : nat :=
    N.to_nat (N.land (N.shiftr x (N.of_nat off)) (N.ones (N.of_nat c))).

  (** expand_slot: the new array node holding only the old data node [y], placed by its bits at [off] *)
  Definition expand (y : key) (off : nat) : fnode :=
    FArr (upd (cut y off ab) (fun _ => FData y) (repeat FEmpty (2 ^ ab))).

  (** insert below the slot [n]; [off] = bits consumed so far (splitter.bit_offset()) *)
  Fixpoint fins (fuel : nat) (n : fnode) (x : key) (off : nat) : fnode * outcome :=
    match fuel with
    | O => (n, OutOfFuel)
    | S f =>
      match n with
      | FEmpty => (FData x, Ok true)
      | FData y => if N.eqb y x then (n, Ok false)
                   else if W <=? off then (n, Ok false)
                   else fins f (expand y off) x off
      | FArr sl =>
        let i := cut x off ab in
        let r := fins f (nth i sl FEmpty) x (off + ab) in
        (FArr (upd i (fun _ => fst r) sl), snd r)
      end
    end.

  (** find: structural; the inner [fix] is the array lookup nodes[ cut ] *)
  Fixpoint ffind (n : fnode) (x : key) (off : nat) : bool :=
    match n with
    | FEmpty => false
    | FData y => N.eqb y x
    | FArr sl =>
      (fix look (l : list fnode) (i : nat) : bool :=
         match l with
         | [] => false
         | a :: l' => match i with O => ffind a x (off + ab) | S i' => look l' i' end
         end) sl (cut x off ab)
    end.

  Fixpoint fdel (fuel : nat) (n : fnode) (x : key) (off : nat) : fnode * bool :=
    match fuel with
    | O => (n, false)
    | S f =>
      match n with
      | FEmpty => (n, false)
      | FData y => if N.eqb y x then (FEmpty, true) else (n, false)
      | FArr sl =>
        let i := cut x off ab in
        let r := fdel f (nth i sl FEmpty) x (off + ab) in
        (FArr (upd i (fun _ => fst r) sl), snd r)
      end
    end.

  Fixpoint felems (n : fnode) : list key :=
    match n with
    | FEmpty => []
    | FData y => [y]
    | FArr sl => flat_map felems sl
    end.

  (** the set: head array + item counter *)
  Record fset := mkF { fhead : list fnode; fcnt : nat }.

  Definition finit : fset := mkF (repeat FEmpty (2 ^ hb)) 0.

  Definition f_insert (fuel : nat) (t : fset) (x : key) : outcome * fset :=
    let i := cut x 0 hb in
    let r := fins fuel (nth i (fhead t) FEmpty) x hb in
    (snd r, mkF (upd i (fun _ => fst r) (fhead t)) (match snd r with Ok true => S (fcnt t) | _ => fcnt t end)).

  Definition f_erase (fuel : nat) (t : fset) (x : key) : bool * fset :=
    let i := cut x 0 hb in
    let r := fdel fuel (nth i (fhead t) FEmpty) x hb in
    (snd r, mkF (upd i (fun _ => fst r) (fhead t)) (if snd r then pred (fcnt t) else fcnt t)).

  Definition f_find (t : fset) (x : key) : bool :=
    ffind (nth (cut x 0 hb) (fhead t) FEmpty) x hb.

  Definition f_elems (t : fset) : list key := flat_map felems (fhead t).
End Feldman.
