(** * Model of cds::intrusive::MSPriorityQueue<T, Traits> (cds/intrusive/mspriority_queue.h), the heap of
      Hunt, Michael, Parthasarathy, Scott with a size lock, per-node locks and per-node tags.
      [lock_type] = cds::sync::spin_lock (atomic<bool> m_spin; lock() = test-and-test-and-set, see
      LV.Model.SpinLock).  One [Act] per atomic access, in program order.  The tags, the value pointers and
      the item counter (cds::bitop::bit_reverse_counter<>, cds/details/bit_reverse_counter.h) are plain fields
      protected by those locks: an access to them is part of the local computation that FOLLOWS an atomic
      access (the step of the deterministic scheduler = the pending atomic access plus everything up to the
      next one), so it is performed by the [G -> G * V * list ev] of that [Act] (the "body" arguments below).

    C++ (current tree); every atomic access is numbered, the plain code executed in the same step follows it:

      bit_reverse_counter (m_nCounter, m_nReversed : size_t, m_nHighBit : int = -1; complement(x, b) flips bit b
      of x and returns the OLD bit):
        inc():  ++m_nCounter; for ( nBit = m_nHighBit - 1; nBit >= 0; --nBit ) if ( !complement( m_nReversed, nBit )) break;
                if ( nBit < 0 ) { m_nReversed = m_nCounter; ++m_nHighBit; }   return m_nReversed;
        dec():  ret = m_nReversed; --m_nCounter;
                for ( nBit = m_nHighBit - 1; nBit >= 0; --nBit ) if ( complement( m_nReversed, nBit )) break;
                if ( nBit < 0 ) { m_nReversed = m_nCounter; --m_nHighBit; }   return ret;

      capacity() = m_Heap.capacity() - 1      (m_Heap[0] is not used; the model's [cap] is capacity())

      bool push( value_type& val ):
          curId = get_current_thread_id();
          m_Lock.lock();                                              (P1: xchg [+ ld ... xchg])
              if ( m_ItemCounter.value() >= capacity()) {
                  m_Lock.unlock();  return false; }                   (P2f: st)
              i = m_ItemCounter.inc();          [assert( i < m_Heap.capacity()) is compiled out: NDEBUG]
          refNode = m_Heap[i];  refNode.lock();                       (P2: xchg ...)
          m_Lock.unlock();                                            (P3: st)
              refNode.m_pVal = &val;  refNode.m_nTag = curId;
          refNode.unlock();                                           (P4: st)
          heapify_after_push( i, curId );  return true;

      heapify_after_push( i, curId ):
          while ( i > 1 ) {
              nParent = i / 2;
              refParent.lock();                                       (H1: xchg ...)
              refItem.lock();                                         (H2: xchg ...)
                  if ( refParent.m_nTag == Available && refItem.m_nTag == curId ) {
                      if ( cmp( *refItem.m_pVal, *refParent.m_pVal ) > 0 ) { swap tags; swap values; i = nParent; }
                      else { refItem.m_nTag = Available; i = 0; } }
                  else if ( refParent.m_nTag == Empty ) i = 0;
                  else if ( refItem.m_nTag != curId ) i = nParent;
                  else bProgress = false;
              refItem.unlock();                                       (H3: st)
              refParent.unlock();                                     (H4: st)   [back-off: no atomic access]
          }
          if ( i == 1 ) {
              refItem = m_Heap[1];  refItem.lock();                   (H5: xchg ...)
                  if ( refItem.m_nTag == curId ) refItem.m_nTag = Available;
              refItem.unlock(); }                                     (H6: st)

      value_type * pop():
          refTop = m_Heap[1];
          m_Lock.lock();                                              (Q1: xchg ...)
              if ( m_ItemCounter.value() == 0 ) {
                  m_Lock.unlock();  return nullptr; }                 (Q2e: st)
              nBottom = m_ItemCounter.dec();
          refTop.lock();                                              (Q2: xchg ...)
          if ( nBottom == 1 ) {
                  refTop.m_nTag = Empty;  pVal = refTop.m_pVal;  refTop.m_pVal = nullptr;
              refTop.unlock();                                        (Q3a: st)
              m_Lock.unlock();                                        (Q4a: st)
              return pVal; }
          refBottom = m_Heap[nBottom];  refBottom.lock();             (Q3: xchg ...)
          m_Lock.unlock();                                            (Q4: st)
              refBottom.m_nTag = Empty;  pVal = refBottom.m_pVal;  refBottom.m_pVal = nullptr;
          refBottom.unlock();                                         (Q5: st)
              if ( refTop.m_nTag == Empty ) {
                  refTop.unlock();  return pVal; }                    (Q6e: st)
              swap( refTop.m_pVal, pVal );  refTop.m_nTag = Available;
          heapify_after_pop( &refTop );  return pVal;

      heapify_after_pop( pParent ):                  (pParent is locked)
          nCapacity = m_Heap.capacity();  nParent = 1;
          for ( nChild = nParent * 2; nChild < nCapacity; nChild *= 2 ) {
              pChild = &m_Heap[nChild];  pChild->lock();              (R1: xchg ...)
                  if ( pChild->m_nTag == Empty ) {
                      pChild->unlock();  break; }                     (R2e: st)
                  nRight = nChild + 1;
              if ( nRight < nCapacity ) {
                  refRight.lock();                                    (R2: xchg ...)
                      if ( refRight.m_nTag != Empty && cmp( *refRight.m_pVal, *pChild->m_pVal ) > 0 ) {
                          pChild->unlock();                           (R3: st)
                          nChild = nRight;  pChild = &refRight; }
                      else refRight.unlock();                         (R3: st)
              }
                  if ( cmp( *pChild->m_pVal, *pParent->m_pVal ) > 0 ) { swap tags; swap values;
                      pParent->unlock();                              (R4s: st)
                      nParent = nChild;  pParent = pChild; }
                  else { pChild->unlock();  break; }                  (R4n: st)
          }
          pParent->unlock();                                          (R5: st)

    cmp( a, b ) > 0  iff  priority(a) > priority(b)   (the comparator the harness supplies orders items by their
    priority field only: items of equal priority compare equal).

    Undefined behaviour of the C++ that the model makes visible as an event followed by the end of the thread:
      "ub_oob i"      m_Heap[i] with i >= m_Heap.capacity()  (the assert is compiled out)
      "ub_null"       cmp dereferences a null m_pVal
    LV.Proofs.MsPqProofs shows that neither is reachable when every slot number the counter can produce fits
    the buffer ([slot_safe cap], true for cap + 1 = 2^k) -- and [ub_oob] IS reached for e.g. cap = 5.

    Client operations (what harness/C11/main.cpp executes on the real queue):
      [1; p; id]  push item (priority p, identity id):  "inv_push p id";  b = push(item);  "ret_push b p id"
      [2]         pop:                                   "inv_pop";  q = pop();  "ret_pop 1 p id" | "ret_pop 0 0 0"
    Ghost event (no counterpart in the C++ log; checks/C11.py drops the lines "ev g_..." of the model log before
    comparing): "g_full n k c" emitted by the step P1 that decides a push fails: n = m_ItemCounter.value(),
    k = number of heap cells 1..capacity holding a value at that instant, c = capacity;
    "g_inc" emitted by the step P1 that calls inc(), "g_dec" / "g_emp" by the step Q1 that calls dec() / finds the
    heap empty: the linearization points (under m_Lock) of the operations. *)
From Coq Require Import ZArith List String Bool Lia PeanoNat.
From LV Require Import Base.Conc Base.Events.
Import ListNotations.
Local Open Scope Z_scope.
Local Open Scope string_scope.

(** ** bit_reverse_counter<size_t> *)
Record brc := mkB { bc : Z; br : Z; bh : Z }.     (* m_nCounter, m_nReversed, m_nHighBit *)
Definition brc_init : brc := mkB 0 0 (-1).

Definition flip (r : Z) (b : nat) : Z := Z.lxor r (Z.shiftl 1 (Z.of_nat b)).

(** the two [for] loops; [nb] = nBit + 1; the boolean tells whether the loop was left through [break] *)
Fixpoint inc_loop (nb : nat) (r : Z) : bool * Z :=
  match nb with
  | O => (false, r)
  | S b => if Z.testbit r (Z.of_nat b) then inc_loop b (flip r b) else (true, flip r b)
  end.

Fixpoint dec_loop (nb : nat) (r : Z) : bool * Z :=
  match nb with
  | O => (false, r)
  | S b => if Z.testbit r (Z.of_nat b) then (true, flip r b) else dec_loop b (flip r b)
  end.

Definition brc_inc (s : brc) : Z * brc :=
  let c := bc s + 1 in
  let (broke, r) := inc_loop (Z.to_nat (bh s)) (br s) in
  if broke then (r, mkB c r (bh s)) else (c, mkB c c (bh s + 1)).

Definition brc_dec (s : brc) : Z * brc :=
  let c := bc s - 1 in
  let (broke, r) := dec_loop (Z.to_nat (bh s)) (br s) in
  if broke then (br s, mkB c r (bh s)) else (br s, mkB c c (bh s - 1)).

(** ** shared state *)
Definition item := (Z * Z)%type.                   (* priority, identity *)
Definition prio (x : item) : Z := fst x.

Inductive tag := TEmpty | TAvail | TOwner (t : nat).
Definition tag_eqb (a b : tag) : bool :=
  match a, b with
  | TEmpty, TEmpty => true
  | TAvail, TAvail => true
  | TOwner x, TOwner y => Nat.eqb x y
  | _, _ => false
  end.

Record node := mkN { nlock : bool; ntag : tag; nval : option item }.
Record G := mkG { slock : bool; ctr : brc; heap : nat -> node }.

(** what a step hands back to the thread *)
Record V := mkV { vbusy : bool;            (* the lock was taken (xchg returned true / load saw true) *)
                  vn : nat; vb : bool; vi : option item;
                  verr : nat }.            (* 0 = fine, 1 = null dereference, 2 = index outside the buffer *)
Definition v0 : V := mkV false 0 false None 0.
Definition vbusyV : V := mkV true 0 false None 0.

Definition prog := Conc.prog G V ev.

(** lock identifiers: 0 = m_Lock (heap size lock), i >= 1 = m_Heap[i].m_Lock *)
Definition lockbit (g : G) (l : nat) : bool :=
  match l with O => slock g | _ => nlock (heap g l) end.

Definition set_node (g : G) (i : nat) (nd : node) : G :=
  mkG (slock g) (ctr g) (fun j => if Nat.eqb j i then nd else heap g j).
Definition set_ctr (g : G) (s : brc) : G := mkG (slock g) s (heap g).
Definition set_lockbit (g : G) (l : nat) (b : bool) : G :=
  match l with
  | O => mkG b (ctr g) (heap g)
  | _ => set_node g l (mkN b (ntag (heap g l)) (nval (heap g l)))
  end.
(** plain fields of a cell *)
Definition set_cell (g : G) (i : nat) (tg : tag) (v : option item) : G :=
  set_node g i (mkN (nlock (heap g i)) tg v).

Definition obj_lock (l : nat) : list Z :=
  match l with O => [0] | _ => [1; Z.of_nat l] end.

Definition body := G -> G * V * list ev.
Definition body_none : body := fun g => (g, v0, []).

Definition a_begin : G -> G * V * list ev := fun g => (g, v0, [EvAcc KBegin [] true]).

(** try_lock's exchange; when it acquires the lock the plain code [bd] that follows runs in the same step *)
Definition unbusy (v : V) : V := mkV false (vn v) (vb v) (vi v) (verr v).
Definition a_lock (l : nat) (bd : body) : G -> G * V * list ev :=
  fun g =>
    if lockbit g l then (g, vbusyV, [EvAcc KXchg (obj_lock l) true])
    else let '(g', v, es) := bd (set_lockbit g l true) in (g', unbusy v, EvAcc KXchg (obj_lock l) true :: es).
Definition a_load (l : nat) : G -> G * V * list ev :=
  fun g => (g, (if lockbit g l then vbusyV else v0), [EvAcc KLd (obj_lock l) true]).
(** unlock's store followed by the plain code [bd] up to the next access.  The whole is one indivisible step
    and [bd] never looks at lock bits, so the order in which the step's two effects are applied to [G] cannot be
    observed; [bd] is applied first because that makes the step the composition of two invariant-preserving
    halves (plain code under the lock, then the release). *)
Definition a_unlock (l : nat) (bd : body) : G -> G * V * list ev :=
  fun g => let '(g', v, es) := bd g in (set_lockbit g' l false, v, EvAcc KSt (obj_lock l) true :: es).

(** spin_lock::lock(): while ( !try_lock()) { while ( m_spin.load()) backoff(); }   [None] = out of fuel *)
Fixpoint lock_outer (fuel : nat) (l : nat) (bd : body) : prog (option V) :=
  match fuel with
  | O => Ret None
  | S f => Act (a_lock l bd) (fun v => if vbusy v then lock_inner f l bd else Ret (Some v))
  end
with lock_inner (fuel : nat) (l : nat) (bd : body) : prog (option V) :=
  match fuel with
  | O => Ret None
  | S f => Act (a_load l) (fun v => if vbusy v then lock_inner f l bd else lock_outer f l bd)
  end.

Definition unlock (l : nat) (bd : body) : prog V := Act (a_unlock l bd) (fun v => Ret v).

(** ** plain code of the individual steps *)
(* [bsz] below is m_Heap.capacity(), the number of cells of the buffer (cell 0 unused); capacity() = [cap] < bsz *)

Definition occupied (g : G) (cap : nat) : nat :=
  List.length (filter (fun i => match nval (heap g i) with Some _ => true | None => false end) (seq 1 cap)).

(** P1 *)
Definition body_push_size (cap bsz : nat) : body :=
  fun g =>
    if Z.leb (Z.of_nat cap) (bc (ctr g))
    then (g, mkV false 0 true None 0,
          [EvCli "g_full" [bc (ctr g); Z.of_nat (occupied g cap); Z.of_nat cap]])
    else let (s, c') := brc_inc (ctr g) in
         let i := Z.to_nat s in
         (set_ctr g c', mkV false i false None (if Nat.ltb i bsz then 0 else 2), [EvCli "g_inc" []]).

(** P3 *)
Definition body_push_store (t i : nat) (x : item) : body :=
  fun g => (set_cell g i (TOwner t) (Some x), v0, []).

(** H2: result [vn] = new i, [vb] = bProgress *)
Definition body_sift_up (t i p : nat) : body :=
  fun g =>
    let P := heap g p in let I := heap g i in
    if tag_eqb (ntag P) TAvail && tag_eqb (ntag I) (TOwner t) then
      match nval I, nval P with
      | Some a, Some b =>
          if Z.gtb (prio a) (prio b)
          then (set_cell (set_cell g i (ntag P) (nval P)) p (ntag I) (nval I), mkV false p true None 0, [])
          else (set_cell g i TAvail (nval I), mkV false 0 true None 0, [])
      | _, _ => (g, mkV false 0 true None 1, [])
      end
    else if tag_eqb (ntag P) TEmpty then (g, mkV false 0 true None 0, [])
    else if negb (tag_eqb (ntag I) (TOwner t)) then (g, mkV false p true None 0, [])
    else (g, mkV false i false None 0, []).

(** H5 *)
Definition body_push_top (t : nat) : body :=
  fun g =>
    let I := heap g 1%nat in
    if tag_eqb (ntag I) (TOwner t) then (set_cell g 1 TAvail (nval I), v0, []) else (g, v0, []).

(** Q1: [vb] = empty, [vn] = nBottom *)
Definition body_pop_size (bsz : nat) : body :=
  fun g =>
    if Z.eqb (bc (ctr g)) 0 then (g, mkV false 0 true None 0, [EvCli "g_emp" []])
    else let (s, c') := brc_dec (ctr g) in
         let i := Z.to_nat s in
         (set_ctr g c', mkV false i false None (if Nat.ltb i bsz then 0 else 2), [EvCli "g_dec" []]).

(** Q2 with nBottom == 1, and Q4: take the value of cell [i] *)
Definition body_take (i : nat) : body :=
  fun g => (set_cell g i TEmpty None, mkV false 0 false (nval (heap g i)) 0, []).

(** Q5: [vb] = the top was Empty, [vi] = pVal afterwards *)
Definition body_pop_top (pv : option item) : body :=
  fun g =>
    let T := heap g 1%nat in
    if tag_eqb (ntag T) TEmpty then (g, mkV false 0 true pv 0, [])
    else (set_cell g 1 TAvail pv, mkV false 0 false (nval T) 0, []).

(** "if ( cmp( *pChild->m_pVal, *pParent->m_pVal ) > 0 ) { swap tags; swap values }": [vb] = swapped *)
Definition cmp_swap (p c : nat) : body :=
  fun g =>
    let P := heap g p in let C := heap g c in
    match nval C, nval P with
    | Some a, Some b =>
        if Z.gtb (prio a) (prio b)
        then (set_cell (set_cell g p (ntag C) (nval C)) c (ntag P) (nval P), mkV false 0 true None 0, [])
        else (g, mkV false 0 false None 0, [])
    | _, _ => (g, mkV false 0 false None 1, [])
    end.

(** R1: [vn] = 0 child Empty | 1 lock the right sibling next | 2 swapped with the parent | 3 not swapped *)
Definition body_child (bsz p c : nat) : body :=
  fun g =>
    if tag_eqb (ntag (heap g c)) TEmpty then (g, mkV false 0 false None 0, [])
    else if Nat.ltb (S c) bsz then (g, mkV false 1 false None 0, [])
    else let '(g', v, es) := cmp_swap p c g in
         (g', mkV false (if vb v then 2 else 3) false None (verr v), es).

(** R2: [vb] = the right child is chosen *)
Definition body_right (c : nat) : body :=
  fun g =>
    let R := heap g (S c) in let C := heap g c in
    if negb (tag_eqb (ntag R) TEmpty) then
      match nval R, nval C with
      | Some a, Some b => (g, mkV false 0 (Z.gtb (prio a) (prio b)) None 0, [])
      | _, _ => (g, mkV false 0 false None 1, [])
      end
    else (g, mkV false 0 false None 0, []).

(** ** operations; [None] = the thread stops (out of fuel, or undefined behaviour of the C++) *)
Definition obind {A B} (p : prog (option A)) (k : A -> prog (option B)) : prog (option B) :=
  bind p (fun r => match r with Some x => k x | None => Ret None end).

Definition zitem (x : item) : list Z := [fst x; snd x].

Definition stop_err {A} (code : nat) : prog (option A) :=
  match code with
  | 1%nat => Emit [EvCli "ub_null" []] (Ret None)
  | _ => Emit [EvCli "ub_oob" []] (Ret None)
  end.

(** a step whose result may report undefined behaviour *)
Definition checked {A} (v : V) (k : prog (option A)) : prog (option A) :=
  match verr v with O => k | c => stop_err c end.

Definition lock_ (lf l : nat) (bd : body) {A} (k : V -> prog (option A)) : prog (option A) :=
  obind (lock_outer lf l bd) (fun v => checked v (k v)).
Definition unlock_ (l : nat) (bd : body) {A} (k : V -> prog (option A)) : prog (option A) :=
  bind (unlock l bd) (fun v => checked v (k v)).

Fixpoint heapify_push (hf lf : nat) (t i : nat) : prog (option unit) :=
  match hf with
  | O => Ret None
  | S hf' =>
      if Nat.ltb 1 i then
        let p := Nat.div2 i in
        lock_ lf p body_none (fun _ =>
        lock_ lf i (body_sift_up t i p) (fun v =>
        unlock_ i body_none (fun _ =>
        unlock_ p body_none (fun _ =>
        heapify_push hf' lf t (vn v)))))
      else if Nat.eqb i 1 then
        lock_ lf 1 (body_push_top t) (fun _ =>
        unlock_ 1 body_none (fun _ => Ret (Some tt)))
      else Ret (Some tt)
  end.

Definition push (cap bsz hf lf : nat) (t : nat) (x : item) : prog (option bool) :=
  lock_ lf 0 (body_push_size cap bsz) (fun v =>
    if vb v then unlock_ 0 body_none (fun _ => Ret (Some false))
    else
      let i := vn v in
      lock_ lf i body_none (fun _ =>
      unlock_ 0 (body_push_store t i x) (fun _ =>
      unlock_ i body_none (fun _ =>
      obind (heapify_push hf lf t i) (fun _ => Ret (Some true)))))).

(** the loop of heapify_after_pop: [p] = nParent (locked), [c] = nChild *)
Fixpoint heapify_pop (hf lf : nat) (bsz : nat) (p c : nat) : prog (option unit) :=
  match hf with
  | O => Ret None
  | S hf' =>
      if Nat.ltb c bsz then
        lock_ lf c (body_child bsz p c) (fun v =>
          match vn v with
          | 0%nat => unlock_ c body_none (fun _ => unlock_ p body_none (fun _ => Ret (Some tt)))
          | 1%nat =>
              lock_ lf (S c) (body_right c) (fun w =>
                let chosen := if vb w then S c else c in
                let other := if vb w then c else S c in
                unlock_ other (cmp_swap p chosen) (fun u =>
                  if vb u then unlock_ p body_none (fun _ => heapify_pop hf' lf bsz chosen (2 * chosen))
                  else unlock_ chosen body_none (fun _ => unlock_ p body_none (fun _ => Ret (Some tt)))))
          | 2%nat => unlock_ p body_none (fun _ => heapify_pop hf' lf bsz c (2 * c))
          | _ => unlock_ c body_none (fun _ => unlock_ p body_none (fun _ => Ret (Some tt)))
          end)
      else unlock_ p body_none (fun _ => Ret (Some tt))
  end.

Definition pop (bsz hf lf : nat) : prog (option (option item)) :=
  lock_ lf 0 (body_pop_size bsz) (fun v =>
    if vb v then unlock_ 0 body_none (fun _ => Ret (Some None))
    else
      let b := vn v in
      if Nat.eqb b 1 then
        lock_ lf 1 (body_take 1) (fun w =>
        unlock_ 1 body_none (fun _ =>
        unlock_ 0 body_none (fun _ => Ret (Some (vi w)))))
      else
        lock_ lf 1 body_none (fun _ =>
        lock_ lf b body_none (fun _ =>
        unlock_ 0 (body_take b) (fun w =>
        unlock_ b (body_pop_top (vi w)) (fun u =>
          if vb u then unlock_ 1 body_none (fun _ => Ret (Some (vi u)))
          else obind (heapify_pop hf lf bsz 1 2) (fun _ => Ret (Some (vi u)))))))).

Inductive op := OPush (x : item) | OPop.

(** result: [true] = the operation returned, the thread goes on with its next operation *)
Definition run_op (cap bsz hf lf : nat) (t : nat) (o : op) : prog bool :=
  match o with
  | OPush x =>
      Emit [EvCli "inv_push" (zitem x)]
        (bind (push cap bsz hf lf t x) (fun r =>
           match r with
           | Some b => Emit [EvCli "ret_push" ((if b then 1 else 0) :: zitem x)] (Ret true)
           | None => Emit [EvCli "stopped" []] (Ret false)
           end))
  | OPop =>
      Emit [EvCli "inv_pop" []]
        (bind (pop bsz hf lf) (fun r =>
           match r with
           | Some (Some x) => Emit [EvCli "ret_pop" (1 :: zitem x)] (Ret true)
           | Some None => Emit [EvCli "ret_pop" [0; 0; 0]] (Ret true)
           | None => Emit [EvCli "stopped" []] (Ret false)
           end))
  end.

Fixpoint run_ops (cap bsz hf lf : nat) (t : nat) (os : list op) : prog unit :=
  match os with
  | [] => Ret tt
  | o :: r => bind (run_op cap bsz hf lf t o) (fun ok => if ok then run_ops cap bsz hf lf t r else Ret tt)
  end.

Definition thread_prog (cap bsz hf lf : nat) (t : nat) (os : list op) : Conc.thread G V ev :=
  Act a_begin (fun _ => run_ops cap bsz hf lf t os).

Definition init : G := mkG false brc_init (fun _ => mkN false TEmpty None).

Fixpoint thread_progs (cap bsz hf lf : nat) (t : nat) (ths : list (list op)) : list (Conc.thread G V ev) :=
  match ths with
  | [] => []
  | os :: r => thread_prog cap bsz hf lf t os :: thread_progs cap bsz hf lf (S t) r
  end.

Definition init_cfg (cap bsz hf lf : nat) (ths : list (list op)) : Conc.config G V ev :=
  Conc.Cfg init (thread_progs cap bsz hf lf 0 ths) [].

(** ** entry point for the extracted driver *)
Definition decode_op (o : list Z) : option op :=
  match o with
  | [1; p; id] => Some (OPush (p, id))
  | [2] => Some OPop
  | _ => None
  end.

Fixpoint decode_ops (os : list (list Z)) : list op :=
  match os with
  | [] => []
  | o :: r => match decode_op o with Some x => x :: decode_ops r | None => decode_ops r end
  end.

(** cfg = [capacity(); lock spin fuel; heapify loop fuel; variant (harness only); buffer size m_Heap.capacity()]
    the buffer size defaults to capacity() + 1; the real code has capacity() = floor2(buffer size) - 1, so a buffer
    whose size is not a power of two has unused cells capacity()+1 .. size-1 that heapify_after_pop still visits *)
Definition run_case (cfg : list Z) (ths : list (list (list Z))) (sched : list nat) (fuel : nat)
  : list (nat * ev) * bool :=
  let cap := Z.to_nat (nth 0 cfg 1) in
  let lf := Z.to_nat (nth 1 cfg 1000) in
  let hf := Z.to_nat (nth 2 cfg 1000) in
  let bsz := match nth_error cfg 4 with Some z => Z.to_nat z | None => S cap end in
  let r := Conc.run fuel 0 sched (init_cfg cap bsz hf lf (map decode_ops ths)) in
  (Conc.trace (fst r), snd r).
