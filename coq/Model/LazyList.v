(** * Model of cds::intrusive::LazyList<cds::gc::HP, T, Traits> (cds/intrusive/impl/lazy_list.h),
      one atomic access of the C++ code per [Act], node spin locks and hazard-pointer guard traffic included.

    C++ (current tree), class LazyList, node lock = cds::sync::spin (spin_lock<backoff::LockDefault>: the back-off has no
    atomics), stat = empty_stat, item_counter = atomicity::empty_item_counter (variant 20) or item_counter (variant 23):

      struct position { node_type* pPred; node_type* pCur; gc::GuardArray<2> guards;  // guard_prev_item = 0, guard_current_item = 1
          void lock()   { pPred->m_Lock.lock(); pCur->m_Lock.lock(); }
          void unlock() { pCur->m_Lock.unlock(); pPred->m_Lock.unlock(); } };
      spin_lock:  spin_lock() { m_spin.store( false ); }                                      // [a_alloc]: first access of a fresh item
                  lock()   { while ( !try_lock()) { while ( m_spin.load()) backoff(); } }     // [lock_outer / lock_inner]
                  try_lock() { return !m_spin.exchange( true ); }    unlock() { m_spin.store( false ); }
      bool is_marked() const { return m_pNext.load(relaxed).bits() != 0; }                    // [a_ld]

      void link_node( node_type* pNode, node_type* pPred, node_type* pCur ) {
          pNode->m_pNext.store( marked_node_ptr(pCur), release );                             // [a_st]
          pPred->m_pNext.store( marked_node_ptr(pNode), release );                            // [a_st]   LP of insert
      }
      void unlink_node( node_type* pPred, node_type* pCur, node_type* pHead ) {
          node_type* pNext = pCur->m_pNext.load(relaxed).ptr();                               // [a_ld]
          pCur->m_pNext.store( marked_node_ptr( pHead, 1 ), release );   // logical removal + back-link   [a_st]   LP of erase
          pPred->m_pNext.store( marked_node_ptr( pNext ), release );     // physical removal              [a_st]
      }
      void search( node_type* pHead, const Q& key, position& pos, Compare cmp ) {
          node_type const* pTail = &m_Tail;
          marked_node_ptr pCur( pHead );  marked_node_ptr pPrev( pHead );
          while ( pCur.ptr() != pTail ) {
              if ( pCur.ptr() != pHead ) { if ( cmp( *pCur.ptr(), key ) >= 0 ) break; }
              pos.guards.copy( guard_prev_item, guard_current_item );                         // [copy_guard]
              pPrev = pCur;
              pCur = pos.guards.protect( guard_current_item, pPrev->m_pNext, to_value_ptr );  // [protect]
              if ( pCur.bits()) pPrev = pCur = pHead;          // a marked node was reached: start again from the head
          }
          pos.pCur = pCur.ptr();  pos.pPred = pPrev.ptr();
      }
      static bool validate_link( node_type* pPred, node_type* pCur ) {
          return !pPred->is_marked() && !pCur->is_marked() && pPred->m_pNext.load(relaxed) == pCur;   // [a_ld] x 1..3 (short circuit)
      }
      insert_at:   while (true) { search(..); { lock pos; if ( validate ) { if ( pCur != &m_Tail && cmp == 0 ) return false;
                                                                             else { link_node(..); [f( val );] break; } } }  // unlock at scope exit
                                }  ++m_ItemCounter; return true;
      update_at:   while (true) { search(..); { lock pos; if ( validate ) { if ( pCur != &m_Tail && cmp == 0 ) { func( false, .. ); return (true,false); }
                                                            else { if ( !bAllowInsert ) return (false,false); link_node(..); func( true, .. ); break; } } } }
                   ++m_ItemCounter; return (true,true);
      unlink_at / erase_at:
                   while (true) { search(..); { int nResult = 0; { lock pos; if ( validate ) { if ( pCur != &m_Tail && cmp == 0 [&& pCur == &val] )
                                                                 { unlink_node( pPred, pCur, pHead ); [f( *pCur );] nResult = 1; } else nResult = -1; } }
                                  if ( nResult ) { if ( nResult > 0 ) { --m_ItemCounter; retire_node( pCur ); return true; } return false; } } }
      extract_at:  erase_at( .., pos ) ? guarded_ptr( pos.guards.release( guard_current_item )) : guarded_ptr()
      find_at(f):  search(..); if ( pCur != &m_Tail ) { lock pCur->m_Lock; if ( !pCur->is_marked() && cmp == 0 ) { f(..); return true; } } return false;
      find_at:     search(..); return pCur != &m_Tail && !pCur->is_marked() && cmp == 0;       (contains; get_at adds the guard release)

    Hazard pointers (cds/gc/hp.h) exactly as in LV.Model.MichaelList (GuardArray<2> here); the harness gives cds::gc::HP a
    retired capacity that is never reached inside a case.  MEMORY SAFETY IS A HYPOTHESIS ([smr_safe], DESIGN 4): node ids
    come from a never-reusing allocator.  Node ids: 1 = m_Head, 2 = m_Tail, 0 = nullptr (only m_Tail.m_pNext).

    Client operations and events as in LV.Model.MichaelList (harness/C13/list_ops.h).  The harness allocates the item of an
    insert / update (and the never-linked item of an unlink without own item) at the start of the call: its spin_lock
    constructor is the first atomic access of the operation. *)
From Coq Require Import ZArith List String Bool Lia PeanoNat.
From LV Require Import Base.Conc Base.Events.
Import ListNotations.
Local Open Scope Z_scope.
Local Open Scope string_scope.

Record node := mkNode { nkey : Z; nnext : nat; nmark : bool; nlock : bool }.
Record G := mkG { heap : nat -> node; nalloc : nat; count : Z }.

Record V := mkV { vptr : nat; vmark : bool; vkey : Z }.
Definition v0 : V := mkV 0 false 0.
Definition vok (b : bool) : V := mkV 0 b 0.

Definition prog := Conc.prog G V ev.

Definition HEAD : nat := 1%nat.
Definition TAIL : nat := 2%nat.

Definition upd_heap (h : nat -> node) (n : nat) (x : node) : nat -> node :=
  fun m => if Nat.eqb m n then x else h m.

Definition set_next (g : G) (n p : nat) (m : bool) : G :=
  mkG (upd_heap (heap g) n (mkNode (nkey (heap g n)) p m (nlock (heap g n)))) (nalloc g) (count g).
Definition set_lock (g : G) (n : nat) (b : bool) : G :=
  mkG (upd_heap (heap g) n (mkNode (nkey (heap g n)) (nnext (heap g n)) (nmark (heap g n)) b)) (nalloc g) (count g).

Definition obj_next (n : nat) : list Z := [1; Z.of_nat n].
Definition obj_lock (n : nat) : list Z := [6; Z.of_nat n].
Definition obj_guard (t s : nat) : list Z := [2; Z.of_nat t; Z.of_nat s].
Definition obj_sync (t : nat) : list Z := [3; Z.of_nat t].
Definition obj_retired (t : nat) : list Z := [4; Z.of_nat t].
Definition obj_count : list Z := [5].

Definition act := G -> G * V * list ev.

Definition a_begin : act := fun g => (g, v0, [EvAcc KBegin [] true]).
Definition a_ld (n : nat) : act :=
  fun g => (g, mkV (nnext (heap g n)) (nmark (heap g n)) (nkey (heap g (nnext (heap g n)))), [EvAcc KLd (obj_next n) true]).
Definition a_st (n p : nat) (m : bool) : act :=
  fun g => (set_next g n p m, v0, [EvAcc KSt (obj_next n) true]).
(** the item is created: id [S (nalloc g)], key [k], lock constructor stores false *)
Definition a_alloc (k : Z) : act :=
  fun g => let n := S (nalloc g) in
    (mkG (upd_heap (heap g) n (mkNode k 0 false false)) n (count g), mkV n false k, [EvAcc KSt (obj_lock n) true]).
Definition a_xchg (n : nat) : act :=
  fun g => (set_lock g n true, vok (nlock (heap g n)), [EvAcc KXchg (obj_lock n) true]).
Definition a_ldlock (n : nat) : act :=
  fun g => (g, vok (nlock (heap g n)), [EvAcc KLd (obj_lock n) true]).
Definition a_unlock (n : nat) : act :=
  fun g => (set_lock g n false, v0, [EvAcc KSt (obj_lock n) true]).

Definition a_nop (k : akind) (o : list Z) : act := fun g => (g, v0, [EvAcc k o true]).
Definition a_gst (t s : nat) : act := a_nop KSt (obj_guard t s).
Definition a_gld (t s : nat) : act := a_nop KLd (obj_guard t s).
Definition a_sync (t : nat) : act := a_nop KFaa (obj_sync t).
Definition a_rld (t : nat) : act := a_nop KLd (obj_retired t).
Definition a_rst (t : nat) : act := a_nop KSt (obj_retired t).
Definition a_cnt (k : akind) (d : Z) : act :=
  fun g => (mkG (heap g) (nalloc g) (count g + d), v0, [EvAcc k obj_count true]).

Notation "x <- p ;; q" := (Conc.bind p (fun x => q)) (at level 61, p at next level, right associativity).

Definition veqb (a b : V) : bool := Nat.eqb (vptr a) (vptr b) && Bool.eqb (vmark a) (vmark b).

(** ** hazard-pointer plumbing *)
Fixpoint protect (fuel : nat) (t s : nat) (l : nat) : prog (option V) :=
  match fuel with
  | O => Ret None
  | S f =>
      Act (a_ld l) (fun v => Act (a_gst t s) (fun _ => Act (a_sync t) (fun _ => Act (a_ld l) (fun v' =>
        if veqb v v' then Ret (Some v) else protect f t s l))))
  end.
Definition assign_guard (t s : nat) : prog unit := Act (a_gst t s) (fun _ => Act (a_sync t) (fun _ => Ret tt)).
Definition copy_guard (t d s : nat) : prog unit := Act (a_gld t s) (fun _ => assign_guard t d).
Definition retire (t : nat) : prog unit := Act (a_rld t) (fun _ => Act (a_rst t) (fun _ => Ret tt)).
Definition use_guarded (t s : nat) : prog unit := Act (a_gld t s) (fun _ => Act (a_gld t s) (fun _ => Ret tt)).
Definition alloc2 (fr : list nat) : (nat * nat) * list nat :=
  match fr with a :: b :: r => ((a, b), r) | _ => ((0, 0)%nat, fr) end.
Fixpoint free_guards (t : nat) (gs fr : list nat) : prog (list nat) :=
  match gs with
  | [] => Ret fr
  | s :: r => Act (a_gst t s) (fun _ => free_guards t r (s :: fr))
  end.

(** ** spin lock (TATAS); [false] = out of fuel *)
Fixpoint lock_outer (fuel : nat) (n : nat) : prog bool :=
  match fuel with
  | O => Ret false
  | S f => Act (a_xchg n) (fun old => if vmark old then lock_inner f n else Ret true)
  end
with lock_inner (fuel : nat) (n : nat) : prog bool :=
  match fuel with
  | O => Ret false
  | S f => Act (a_ldlock n) (fun v => if vmark v then lock_inner f n else lock_outer f n)
  end.
Definition unlock (n : nat) : prog unit := Act (a_unlock n) (fun _ => Ret tt).

(** ** search: returns (pPred, pCur, key of pCur) *)
Fixpoint search (fuel : nat) (t g0 g1 : nat) (k : Z) (pPrev : nat) (pCur : V) : prog (option (nat * V)) :=
  match fuel with
  | O => Ret None
  | S f =>
      if Nat.eqb (vptr pCur) TAIL then Ret (Some (pPrev, pCur))
      else if negb (Nat.eqb (vptr pCur) HEAD) && Z.leb k (vkey pCur) then Ret (Some (pPrev, pCur))
      else
        _ <- copy_guard t g0 g1 ;;
        ov <- protect f t g1 (vptr pCur) ;;
        match ov with
        | None => Ret None
        | Some nx =>
            if vmark nx then search f t g0 g1 k HEAD (mkV HEAD false 0)
            else search f t g0 g1 k (vptr pCur) nx
        end
  end.

Definition search_from_head (fuel : nat) (t g0 g1 : nat) (k : Z) : prog (option (nat * V)) :=
  search fuel t g0 g1 k HEAD (mkV HEAD false 0).

(** validate_link with short-circuit evaluation *)
Definition validate (pPred pCur : nat) : prog bool :=
  Act (a_ld pPred) (fun v1 =>
    if vmark v1 then Ret false
    else Act (a_ld pCur) (fun v2 =>
      if vmark v2 then Ret false
      else Act (a_ld pPred) (fun v3 => Ret (Nat.eqb (vptr v3) pCur && negb (vmark v3))))).

Definition link_node (n pPred pCur : nat) : prog unit :=
  Act (a_st n pCur false) (fun _ => Act (a_st pPred n false) (fun _ => Ret tt)).
Definition unlink_node (pPred pCur : nat) : prog unit :=
  Act (a_ld pCur) (fun v => Act (a_st pCur HEAD true) (fun _ => Act (a_st pPred (vptr v) false) (fun _ => Ret tt))).

Definition lock_pos (fuel : nat) (pPred pCur : nat) : prog bool :=
  b <- lock_outer fuel pPred ;; if b then lock_outer fuel pCur else Ret false.
Definition unlock_pos (pPred pCur : nat) : prog unit :=
  _ <- unlock pCur ;; unlock pPred.

Definition ev_inv (o : list Z) : ev := EvCli "inv" [nth 0 o 0; nth 1 o 0; nth 2 o 0; nth 3 o 0].
Definition ev_fn (code flag k : Z) : ev := EvCli "fn" [code; flag; k].
Definition ev_ret (a b : Z) : ev := EvCli "ret" [a; b].
Definition zb (b : bool) : Z := if b then 1 else 0.
Definition cnt_inc (ic : bool) : prog unit := if ic then Act (a_cnt KFaa 1) (fun _ => Ret tt) else Ret tt.
Definition cnt_dec (ic : bool) : prog unit := if ic then Act (a_cnt KFas (-1)) (fun _ => Ret tt) else Ret tt.
Definition out (A : Type) := option A.

Definition is_key (pCur : V) (k : Z) : bool := negb (Nat.eqb (vptr pCur) TAIL) && Z.eqb (vkey pCur) k.

(** insert_at (code 1 / 2): returns the result *)
Fixpoint insert_loop (fuel sf : nat) (ic withf : bool) (t g0 g1 : nat) (k : Z) (n : nat) : prog (out bool) :=
  match fuel with
  | O => Ret None
  | S f =>
      r <- search_from_head sf t g0 g1 k ;;
      match r with
      | None => Ret None
      | Some (pPred, pCur) =>
          lk <- lock_pos sf pPred (vptr pCur) ;;
          if negb lk then Ret None
          else
            ok <- validate pPred (vptr pCur) ;;
            if ok then
              if is_key pCur k then (_ <- unlock_pos pPred (vptr pCur) ;; Ret (Some false))
              else
                _ <- link_node n pPred (vptr pCur) ;;
                (if withf then Emit [ev_fn 2 1 k] (_ <- unlock_pos pPred (vptr pCur) ;; _ <- cnt_inc ic ;; Ret (Some true))
                 else _ <- unlock_pos pPred (vptr pCur) ;; _ <- cnt_inc ic ;; Ret (Some true))
            else
              _ <- unlock_pos pPred (vptr pCur) ;; insert_loop f sf ic withf t g0 g1 k n
      end
  end.

(** update_at: returns (first, second) *)
Fixpoint update_loop (fuel sf : nat) (ic allow : bool) (t g0 g1 : nat) (k : Z) (n : nat) : prog (out (bool * bool)) :=
  match fuel with
  | O => Ret None
  | S f =>
      r <- search_from_head sf t g0 g1 k ;;
      match r with
      | None => Ret None
      | Some (pPred, pCur) =>
          lk <- lock_pos sf pPred (vptr pCur) ;;
          if negb lk then Ret None
          else
            ok <- validate pPred (vptr pCur) ;;
            if ok then
              if is_key pCur k then
                Emit [ev_fn 3 0 k] (_ <- unlock_pos pPred (vptr pCur) ;; Ret (Some (true, false)))
              else if negb allow then (_ <- unlock_pos pPred (vptr pCur) ;; Ret (Some (false, false)))
              else
                _ <- link_node n pPred (vptr pCur) ;;
                Emit [ev_fn 3 1 k] (_ <- unlock_pos pPred (vptr pCur) ;; _ <- cnt_inc ic ;; Ret (Some (true, true)))
            else
              _ <- unlock_pos pPred (vptr pCur) ;; update_loop f sf ic allow t g0 g1 k n
      end
  end.

(** erase_at (4 / 5), unlink_at (6: only the item [mine]), extract_at (7) *)
Fixpoint erase_loop (fuel sf : nat) (ic : bool) (code : Z) (mine : nat) (t g0 g1 : nat) (k : Z) : prog (out bool) :=
  match fuel with
  | O => Ret None
  | S f =>
      r <- search_from_head sf t g0 g1 k ;;
      match r with
      | None => Ret None
      | Some (pPred, pCur) =>
          lk <- lock_pos sf pPred (vptr pCur) ;;
          if negb lk then Ret None
          else
            ok <- validate pPred (vptr pCur) ;;
            if ok then
              if is_key pCur k && (negb (Z.eqb code 6) || Nat.eqb (vptr pCur) mine) then
                _ <- unlink_node pPred (vptr pCur) ;;
                (if Z.eqb code 5 then
                   Emit [ev_fn 5 1 k] (_ <- unlock_pos pPred (vptr pCur) ;; _ <- cnt_dec ic ;; _ <- retire t ;; Ret (Some true))
                 else _ <- unlock_pos pPred (vptr pCur) ;; _ <- cnt_dec ic ;; _ <- retire t ;; Ret (Some true))
              else (_ <- unlock_pos pPred (vptr pCur) ;; Ret (Some false))
            else
              _ <- unlock_pos pPred (vptr pCur) ;; erase_loop f sf ic code mine t g0 g1 k
      end
  end.

Fixpoint own_find (k : Z) (l : list (Z * nat)) : nat :=
  match l with
  | [] => 0%nat
  | (k', n) :: r => if Z.eqb k k' then n else own_find k r
  end.
Definition own_set (k : Z) (n : nat) (l : list (Z * nat)) : list (Z * nat) :=
  (k, n) :: filter (fun kn => negb (Z.eqb k (fst kn))) l.
Definition own_del (k : Z) (l : list (Z * nat)) : list (Z * nat) :=
  filter (fun kn => negb (Z.eqb k (fst kn))) l.

Definition lstate := (list nat * list (Z * nat))%type.
Definition give_up : prog (out lstate) := Emit [EvCli "outoffuel" []] (Ret None).

Definition run_op (fuel sf : nat) (ic : bool) (t : nat) (o : list Z) (ls : lstate) : prog (out lstate) :=
  let code := nth 0 o 0 in
  let k := nth 1 o 0 in
  let x := nth 2 o 0 in
  let '(fr, own) := ls in
  let '((g0, g1), fr1) := alloc2 fr in
  if Z.leb 1 code && Z.leb code 10 then
    Emit [ev_inv o]
    (if Z.eqb code 1 || Z.eqb code 2 then
       Act (a_alloc k) (fun nv =>
         r <- insert_loop fuel sf ic (Z.eqb code 2) t g0 g1 k (vptr nv) ;;
         match r with
         | None => give_up
         | Some b =>
             fr2 <- free_guards t [g0; g1] fr1 ;;
             Emit [ev_ret (zb b) 0] (Ret (Some (fr2, if b then own_set k (vptr nv) own else own)))
         end)
     else if Z.eqb code 3 then
       Act (a_alloc k) (fun nv =>
         r <- update_loop fuel sf ic (Z.odd x) t g0 g1 k (vptr nv) ;;
         match r with
         | None => give_up
         | Some (a, b) =>
             fr2 <- free_guards t [g0; g1] fr1 ;;
             Emit [ev_ret (zb a) (zb b)] (Ret (Some (fr2, if b then own_set k (vptr nv) own else own)))
         end)
     else if Z.eqb code 4 || Z.eqb code 5 then
       r <- erase_loop fuel sf ic code 0 t g0 g1 k ;;
       match r with
       | None => give_up
       | Some b =>
           fr2 <- free_guards t [g0; g1] fr1 ;;
           Emit [ev_ret (zb b) 0] (Ret (Some (fr2, own)))
       end
     else if Z.eqb code 6 then
       let mine := own_find k own in
       let body := fun (m : nat) =>
         r <- erase_loop fuel sf ic 6 m t g0 g1 k ;;
         match r with
         | None => give_up
         | Some b =>
             fr2 <- free_guards t [g0; g1] fr1 ;;
             Emit [ev_ret (zb b) (zb (negb (Nat.eqb mine 0)))] (Ret (Some (fr2, if b then own_del k own else own)))
         end in
       if Nat.eqb mine 0 then Act (a_alloc k) (fun nv => body (vptr nv)) else body mine
     else if Z.eqb code 7 then
       r <- erase_loop fuel sf ic 7 0 t g0 g1 k ;;
       match r with
       | None => give_up
       | Some true =>
           fr2 <- free_guards t [g0] fr1 ;;
           _ <- use_guarded t g1 ;;
           fr3 <- free_guards t [g1] fr2 ;;
           Emit [ev_ret 1 (k + 1)] (Ret (Some (fr3, own)))
       | Some false =>
           fr2 <- free_guards t [g0; g1] fr1 ;;
           Emit [ev_ret 0 0] (Ret (Some (fr2, own)))
       end
     else
       r <- search_from_head sf t g0 g1 k ;;
       match r with
       | None => give_up
       | Some (pPred, pCur) =>
           if Nat.eqb (vptr pCur) TAIL then
             fr2 <- free_guards t [g0; g1] fr1 ;;
             Emit [ev_ret 0 0] (Ret (Some (fr2, own)))
           else if Z.eqb code 10 then
             (* find with functor: under the node's lock *)
             lk <- lock_outer sf (vptr pCur) ;;
             if negb lk then give_up
             else
               Act (a_ld (vptr pCur)) (fun v =>
                 if negb (vmark v) && Z.eqb (vkey pCur) k then
                   Emit [ev_fn 10 1 k]
                     (_ <- unlock (vptr pCur) ;;
                      fr2 <- free_guards t [g0; g1] fr1 ;;
                      Emit [ev_ret 1 0] (Ret (Some (fr2, own))))
                 else
                   _ <- unlock (vptr pCur) ;;
                   fr2 <- free_guards t [g0; g1] fr1 ;;
                   Emit [ev_ret 0 0] (Ret (Some (fr2, own))))
           else
             Act (a_ld (vptr pCur)) (fun v =>
               let found := negb (vmark v) && Z.eqb (vkey pCur) k in
               if Z.eqb code 8 && found then
                 fr2 <- free_guards t [g0] fr1 ;;
                 _ <- use_guarded t g1 ;;
                 fr3 <- free_guards t [g1] fr2 ;;
                 Emit [ev_ret 1 (k + 1)] (Ret (Some (fr3, own)))
               else
                 fr2 <- free_guards t [g0; g1] fr1 ;;
                 Emit [ev_ret (zb found) 0] (Ret (Some (fr2, own))))
       end)
  else Ret (Some ls).

Fixpoint run_ops (fuel sf : nat) (ic : bool) (t : nat) (os : list (list Z)) (ls : lstate) : prog unit :=
  match os with
  | [] => Ret tt
  | o :: r =>
      x <- run_op fuel sf ic t o ls ;;
      match x with
      | None => Ret tt
      | Some ls' => run_ops fuel sf ic t r ls'
      end
  end.

Definition init_ls : lstate := (seq 0 16, []).
Definition thread_prog (fuel sf : nat) (ic : bool) (t : nat) (os : list (list Z)) : Conc.thread G V ev :=
  Act a_begin (fun _ => run_ops fuel sf ic t os init_ls).

(** empty list: m_Head.m_pNext = &m_Tail, m_Tail.m_pNext = nullptr *)
Definition init : G :=
  mkG (fun n => if Nat.eqb n HEAD then mkNode 0 TAIL false false else mkNode 0 0 false false) 2 0.

Fixpoint thread_progs (fuel sf : nat) (ic : bool) (t : nat) (ths : list (list (list Z))) : list (Conc.thread G V ev) :=
  match ths with
  | [] => []
  | os :: r => thread_prog fuel sf ic t os :: thread_progs fuel sf ic (S t) r
  end.
Definition init_cfg (fuel sf : nat) (ic : bool) (ths : list (list (list Z))) : Conc.config G V ev :=
  Conc.Cfg init (thread_progs fuel sf ic 0 ths) [].

(** cfg = [variant id (bit 1: item counter on); mode; max steps] *)
Definition run_case (cfg : list Z) (ths : list (list (list Z))) (sched : list nat) (fuel : nat)
  : list (nat * ev) * bool :=
  let ic := Z.odd (Z.div (nth 0 cfg 0) 2) in
  let r := Conc.run fuel 0 sched (init_cfg 64 400 ic ths) in
  (Conc.trace (fst r), snd r).
