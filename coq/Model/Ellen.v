(** * Step-grain model of cds::intrusive::EllenBinTree<cds::gc::HP> (cds/intrusive/impl/ellen_bintree.h)

    One [Act] per atomic access of the real code, in program order, including the accesses of the hazard-pointer
    guards (cds/gc/details/hp_common.h), the flag word of every node (is_internal / is_leaf / infinite_key are atomic
    loads of m_nFlags), the ABA counter m_nEmptyUpdate (null_update_desc), the retired-array cursor and the item
    counter.  Checked against the real code by the step correspondence of checks/C15.py (harness/C15/step_ellen.cpp):
    same programs, same schedules, every atomic access compared.

      insert( val, f )        [op_insert]   guardInsert, search, alloc_internal_node once, try_insert, retry loop
      try_insert              [try_insert]  get_child check, infinite_key( n ), child stores, IFlag CAS, help_insert, retire
      erase_( val, ... )      [op_erase]    search, check_delete_precondition, DFlag CAS, help_delete, help_marked, retire x 3
      find_ / contains        [op_contains] search
      search                  [srch]        guards.copy x 3, search_protect_update, `goto retry` on DFlag / Mark,
                                            protect_child_node (two protects, update re-read, inner retry)

    NOTE (differs from the published algorithm): this implementation has NO helping — help() is commented out in the
    source; a search that meets a DFlag / Mark restarts, an update that meets a non-Clean update word retries, and the
    steps of an operation (flag, child CAS, unflag) are executed by the thread that flagged.

    Pointers: 0 = nullptr, 1 = m_Root, 2 = m_LeafInf1, 3 = m_LeafInf2; an allocated object is
    [4 + 32 * (serial * 64 + thread) + 8 * kind + key] with kind 0 = leaf (key = its key), 1 = internal node,
    2 = update descriptor.  The key of an internal node is assigned by try_insert before publication (not atomic):
    it is written by the step of the m_pLeft store that follows it in program order.
    Update words: (id, bits), bits 0 Clean / 1 DFlag / 2 IFlag / 3 Mark; a Clean word made by null_update_desc is
    (counter value, 0) — the counter of the code wraps at 2^14, the cases are far shorter. *)
From Coq Require Import ZArith List String Bool Lia PeanoNat.
From LV Require Import Base.Conc Base.Events.
Import ListNotations.
Local Open Scope Z_scope.

Definition ptr := nat.
Definition null : ptr := 0%nat.
Definition root : ptr := 1%nat.
Definition inf1 : ptr := 2%nat.
Definition inf2 : ptr := 3%nat.
Definition mk_id (t ser kind key : nat) : ptr := (4 + 32 * (ser * 64 + t) + 8 * kind + key)%nat.
Definition lkey (p : ptr) : Z := Z.of_nat ((p - 4) mod 8).

Definition uword := (nat * nat)%type.          (* update word: (descriptor / counter, bits) *)
Definition u_eqb (a b : uword) : bool := Nat.eqb (fst a) (fst b) && Nat.eqb (snd a) (snd b).

Record G := mkG {
  flags : ptr -> Z;                (* m_nFlags: 1 internal, 2 key_infinite1, 4 key_infinite2 *)
  ikey : ptr -> Z;                 (* m_Key of an internal node *)
  lft : ptr -> ptr;                (* m_pLeft *)
  rgt : ptr -> ptr;                (* m_pRight *)
  upd : ptr -> uword;              (* m_pUpdate *)
  emp : ptr -> nat;                (* m_nEmptyUpdate *)
  cnt : Z                          (* m_ItemCounter *)
}.

Inductive V := VU | VZ (z : Z) | VFl (f k : Z) | VP (p : ptr) | VW (w : uword) | VCP (ok : bool) (cur : ptr) | VCW (ok : bool) (cur : uword) | VN (n : nat).

Definition prog := Conc.prog G V ev.

Definition o_flags (p : ptr) : list Z := [1; Z.of_nat p].
Definition o_left (p : ptr) : list Z := [2; Z.of_nat p].
Definition o_right (p : ptr) : list Z := [3; Z.of_nat p].
Definition o_upd (p : ptr) : list Z := [4; Z.of_nat p].
Definition o_emp (p : ptr) : list Z := [5; Z.of_nat p].
Definition o_guard (t slot : nat) : list Z := [6; Z.of_nat t; Z.of_nat slot].
Definition o_sync (t : nat) : list Z := [7; Z.of_nat t].
Definition o_ret (t : nat) : list Z := [8; Z.of_nat t].
Definition o_cnt : list Z := [9].

Definition upd1 {A} (f : ptr -> A) (p : ptr) (x : A) : ptr -> A := fun p' => if Nat.eqb p' p then x else f p'.

(** *** the atomic accesses *)
Definition a_begin : G -> G * V * list ev := fun g => (g, VU, [EvAcc KBegin [] true]).
(** m_nFlags.load (is_internal / is_leaf / infinite_key); a comparison reads the (immutable) key right after *)
Definition a_ld_flags (p : ptr) : G -> G * V * list ev :=
  fun g => (g, VFl (flags g p) (ikey g p), [EvAcc KLd (o_flags p) true]).
Definition a_st_flags (p : ptr) (f : Z) : G -> G * V * list ev :=
  fun g => (mkG (upd1 (flags g) p f) (ikey g) (lft g) (rgt g) (upd g) (emp g) (cnt g), VU, [EvAcc KSt (o_flags p) true]).
Definition a_st_emp (p : ptr) (n : nat) : G -> G * V * list ev :=
  fun g => (mkG (flags g) (ikey g) (lft g) (rgt g) (upd g) (upd1 (emp g) p n) (cnt g), VU, [EvAcc KSt (o_emp p) true]).
Definition a_faa_emp (p : ptr) : G -> G * V * list ev :=
  fun g => (mkG (flags g) (ikey g) (lft g) (rgt g) (upd g) (upd1 (emp g) p (S (emp g p))) (cnt g), VN (emp g p), [EvAcc KFaa (o_emp p) true]).
Definition child (g : G) (p : ptr) (right : bool) : ptr := if right then rgt g p else lft g p.
Definition o_child (p : ptr) (right : bool) : list Z := if right then o_right p else o_left p.
Definition set_child (g : G) (p : ptr) (right : bool) (x : ptr) : G :=
  if right then mkG (flags g) (ikey g) (lft g) (upd1 (rgt g) p x) (upd g) (emp g) (cnt g)
  else mkG (flags g) (ikey g) (upd1 (lft g) p x) (rgt g) (upd g) (emp g) (cnt g).
Definition a_ld_child (p : ptr) (right : bool) : G -> G * V * list ev :=
  fun g => (g, VP (child g p right), [EvAcc KLd (o_child p right) true]).
(** the store of m_pLeft of a new internal node also carries the (non-atomic) key assignment that precedes it *)
Definition a_st_left_key (p : ptr) (key : Z) (x : ptr) : G -> G * V * list ev :=
  fun g => (mkG (flags g) (upd1 (ikey g) p key) (upd1 (lft g) p x) (rgt g) (upd g) (emp g) (cnt g), VU, [EvAcc KSt (o_left p) true]).
Definition a_st_right (p : ptr) (x : ptr) : G -> G * V * list ev :=
  fun g => (set_child g p true x, VU, [EvAcc KSt (o_right p) true]).
Definition a_cas_child (p : ptr) (right : bool) (expected desired : ptr) : G -> G * V * list ev :=
  fun g =>
    let cur := child g p right in
    if Nat.eqb cur expected then (set_child g p right desired, VCP true cur, [EvAcc KCas (o_child p right) true])
    else (g, VCP false cur, [EvAcc KCas (o_child p right) false]).
Definition a_ld_upd (p : ptr) : G -> G * V * list ev :=
  fun g => (g, VW (upd g p), [EvAcc KLd (o_upd p) true]).
Definition a_cas_upd (p : ptr) (expected desired : uword) : G -> G * V * list ev :=
  fun g =>
    let cur := upd g p in
    if u_eqb cur expected
    then (mkG (flags g) (ikey g) (lft g) (rgt g) (upd1 (upd g) p desired) (emp g) (cnt g), VCW true cur, [EvAcc KCas (o_upd p) true])
    else (g, VCW false cur, [EvAcc KCas (o_upd p) false]).
Definition a_faa_cnt : G -> G * V * list ev :=
  fun g => (mkG (flags g) (ikey g) (lft g) (rgt g) (upd g) (emp g) (cnt g + 1), VU, [EvAcc KFaa o_cnt true]).
Definition a_fas_cnt : G -> G * V * list ev :=
  fun g => (mkG (flags g) (ikey g) (lft g) (rgt g) (upd g) (emp g) (cnt g - 1), VU, [EvAcc KFas o_cnt true]).
Definition a_guard_st (t slot : nat) : G -> G * V * list ev := fun g => (g, VU, [EvAcc KSt (o_guard t slot) true]).
Definition a_guard_ld (t slot : nat) : G -> G * V * list ev := fun g => (g, VU, [EvAcc KLd (o_guard t slot) true]).
Definition a_sync (t : nat) : G -> G * V * list ev := fun g => (g, VU, [EvAcc KFaa (o_sync t) true]).
Definition a_ret_ld (t : nat) : G -> G * V * list ev := fun g => (g, VU, [EvAcc KLd (o_ret t) true]).
Definition a_ret_st (t : nat) : G -> G * V * list ev := fun g => (g, VU, [EvAcc KSt (o_ret t) true]).

Definition vptr (v : V) : ptr := match v with VP p => p | VCP _ p => p | _ => null end.
Definition vw (v : V) : uword := match v with VW w => w | VCW _ w => w | _ => (0%nat, 0%nat) end.
Definition vok (v : V) : bool := match v with VCP ok _ => ok | VCW ok _ => ok | _ => false end.
Definition vfl (v : V) : Z := match v with VFl f _ => f | _ => 0 end.
Definition vkey (v : V) : Z := match v with VFl _ k => k | _ => 0 end.
Definition vn (v : V) : nat := match v with VN n => n | _ => 0%nat end.

Definition is_internal_f (f : Z) : bool := Z.odd f.
Definition inf_of (f : Z) : Z := Z.land f 6.

(** *** thread-local state: identity, free list of hazard slots (LIFO), serial number of the next allocation *)
Record TL := mkTL { tid : nat; fl : list nat; ser : nat }.
Definition alloc1 (s : TL) : nat * TL :=
  match fl s with x :: r => (x, mkTL (tid s) r (ser s)) | [] => (99%nat, s) end.
Fixpoint allocn (n : nat) (s : TL) : list nat * TL :=
  match n with
  | O => ([], s)
  | S n' => let (x, s1) := alloc1 s in let (xs, s2) := allocn n' s1 in (x :: xs, s2)
  end.
Definition free1 (x : nat) (s : TL) : TL := mkTL (tid s) (x :: fl s) (ser s).
(** allocations never return an address used before (the harness gives the tree a non-recycling node allocator) *)
Definition new_obj (s : TL) (kind key : nat) : ptr * TL := (mk_id (tid s) (ser s) kind key, mkTL (tid s) (fl s) (S (ser s))).

Definition g_assign {R} (s : TL) (slot : nat) (k : prog R) : prog R :=
  Act (a_guard_st (tid s) slot) (fun _ => Act (a_sync (tid s)) (fun _ => k)).
Definition g_clear {R} (s : TL) (slot : nat) (k : prog R) : prog R :=
  Act (a_guard_st (tid s) slot) (fun _ => k).
Definition g_copy {R} (s : TL) (dst src : nat) (k : prog R) : prog R :=
  Act (a_guard_ld (tid s) src) (fun _ => Act (a_guard_st (tid s) dst) (fun _ => Act (a_sync (tid s)) (fun _ => k))).
Fixpoint g_free_all {R} (s : TL) (slots : list nat) (k : TL -> prog R) : prog R :=
  match slots with
  | [] => k s
  | x :: r => g_clear s x (g_free_all (free1 x s) r k)
  end.
Definition retire {R} (s : TL) (k : prog R) : prog R :=
  Act (a_ret_ld (tid s)) (fun _ => Act (a_ret_st (tid s)) (fun _ => k)).

(** GuardArray::protect( i, atomic, f ): `do { assign( i, f( pRet = load )); } while ( pRet != load );` *)
Fixpoint ga_protect_child {R} (fuel : nat) (s : TL) (slot : nat) (p : ptr) (right : bool) (k : option ptr -> prog R) : prog R :=
  match fuel with
  | O => k None
  | S f =>
      Act (a_ld_child p right) (fun v1 =>
        Act (a_guard_st (tid s) slot) (fun _ =>
          Act (a_sync (tid s)) (fun _ =>
            Act (a_ld_child p right) (fun v2 =>
              if Nat.eqb (vptr v1) (vptr v2) then k (Some (vptr v1))
              else ga_protect_child f s slot p right k))))
  end.
Fixpoint ga_protect_upd {R} (fuel : nat) (s : TL) (slot : nat) (p : ptr) (k : option uword -> prog R) : prog R :=
  match fuel with
  | O => k None
  | S f =>
      Act (a_ld_upd p) (fun v1 =>
        Act (a_guard_st (tid s) slot) (fun _ =>
          Act (a_sync (tid s)) (fun _ =>
            Act (a_ld_upd p) (fun v2 =>
              if u_eqb (vw v1) (vw v2) then k (Some (vw v1))
              else ga_protect_upd f s slot p k))))
  end.
(** Guard::protect( atomic, f ): load; `do { assign( f( pCur = pRet )); pRet = load } while ( pRet != pCur )` *)
Fixpoint g_protect_again {R} (fuel : nat) (s : TL) (slot : nat) (p : ptr) (right : bool) (cur : ptr) (k : option ptr -> prog R) : prog R :=
  match fuel with
  | O => k None
  | S f =>
      Act (a_guard_st (tid s) slot) (fun _ =>
        Act (a_sync (tid s)) (fun _ =>
          Act (a_ld_child p right) (fun v2 =>
            if Nat.eqb cur (vptr v2) then k (Some cur) else g_protect_again f s slot p right (vptr v2) k)))
  end.
Definition g_protect_child {R} (fuel : nat) (s : TL) (slot : nat) (p : ptr) (right : bool) (k : option ptr -> prog R) : prog R :=
  Act (a_ld_child p right) (fun v1 => g_protect_again fuel s slot p right (vptr v1) k).

(** *** search *)
Record sres := mkS { r_gp : ptr; r_p : ptr; r_leaf : ptr; r_updp : uword; r_updgp : uword; r_rp : bool; r_rl : bool }.
(** slots of search_result::guards in declaration order *)
Definition G_GP := 0%nat. Definition G_P := 1%nat. Definition G_LEAF := 2%nat.
Definition G_UGP := 3%nat. Definition G_UP := 4%nat. Definition G_TMP := 5%nat.
Definition gs (slots : list nat) (i : nat) : nat := nth i slots 98%nat.

Definition cmp3 (a b : Z) : Z := if a <? b then -1 else if a =? b then 0 else 1.
(** compare( key, node ): one load of the flag word (infinite_key), then the keys *)
Definition cmp_node (key : Z) (f nodekey : Z) : Z := if inf_of f =? 0 then cmp3 key nodekey else -1.

(** protect_child_node( res, pParent, bRight, updParent ): [k None] = nullptr (the update word changed) *)
Fixpoint protect_child {R} (fuel : nat) (s : TL) (slots : list nat) (p : ptr) (right : bool) (updp : uword)
  (k : option ptr -> prog R) (kf : prog R) {struct fuel} : prog R :=
  match fuel with
  | O => kf
  | S f =>
      ga_protect_child fuel s (gs slots G_LEAF) p right (fun r1 =>
        match r1 with
        | None => kf
        | Some c =>
            ga_protect_child fuel s (gs slots G_TMP) p right (fun r2 =>
              match r2 with
              | None => kf
              | Some cv =>
                  Act (a_ld_upd p) (fun vu =>
                    if negb (u_eqb (vw vu) updp) then k None
                    else if negb (Nat.eqb c cv) then protect_child f s slots p right updp k kf
                    else if Nat.eqb c null then g_clear s (gs slots G_TMP) (k (Some c))
                    else
                      Act (a_ld_flags c) (fun vf =>
                        if is_internal_f (vfl vf) then g_clear s (gs slots G_TMP) (k (Some c))
                        else g_assign s (gs slots G_LEAF) (g_clear s (gs slots G_TMP) (k (Some c)))))
              end)
        end)
  end.

Record sst := mkSt { x_leaf : ptr; x_p : ptr; x_gp : ptr; x_updp : uword; x_updgp : uword; x_rl : bool; x_rp : bool }.
Definition st0 : sst := mkSt root null null (0%nat, 0%nat) (0%nat, 0%nat) false false.
(** `goto retry`: pParent, updParent, bRightLeaf and pLeaf are reset, the other locals keep their values *)
Definition st_retry (gp : ptr) (updgp : uword) (rp : bool) : sst := mkSt root null gp (0%nat, 0%nat) updgp false rp.

Fixpoint srch {R} (fuel : nat) (s : TL) (slots : list nat) (key : Z) (st : sst)
  (k : sres -> bool -> prog R) (kf : prog R) {struct fuel} : prog R :=
  match fuel with
  | O => kf
  | S f =>
      Act (a_ld_flags (x_leaf st)) (fun vf =>
        if is_internal_f (vfl vf) then
          g_copy s (gs slots G_GP) (gs slots G_P)
            (g_copy s (gs slots G_P) (gs slots G_LEAF)
               (g_copy s (gs slots G_UGP) (gs slots G_UP)
                  (let gp := x_p st in let pp := x_leaf st in let rp := x_rl st in let updgp := x_updp st in
                   ga_protect_upd fuel s (gs slots G_UP) pp (fun ru =>
                     match ru with
                     | None => kf
                     | Some up =>
                         if Nat.eqb (snd up) 1 || Nat.eqb (snd up) 3 then srch f s slots key (st_retry gp updgp rp) k kf
                         else
                           Act (a_ld_flags pp) (fun vc =>
                             let rl := 0 <=? cmp_node key (vfl vc) (vkey vc) in
                             protect_child fuel s slots pp rl up (fun rc =>
                               match rc with
                               | None => srch f s slots key (st_retry gp updgp rp) k kf
                               | Some c => srch f s slots key (mkSt c pp gp up updgp rl rp) k kf
                               end) kf)
                     end))))
        else
          Act (a_ld_flags (x_leaf st)) (fun vc =>
            let ncmp := cmp_node key (vfl vc) (lkey (x_leaf st)) in
            k (mkS (x_gp st) (x_p st) (x_leaf st) (x_updp st) (x_updgp st) (x_rp st) (x_rl st)) (ncmp =? 0)))
  end.

Definition clean (r : sres) : bool := Nat.eqb (snd (r_updgp r)) 0 && Nat.eqb (snd (r_updp r)) 0.

(** *** insert *)
Definition set_inf {R} (n : ptr) (inf : Z) (k : prog R) : prog R :=
  (* infinite_key( nInf ): load, clear the two bits, set, store *)
  Act (a_ld_flags n) (fun vf => Act (a_st_flags n (Z.lor (Z.land (vfl vf) 1) inf)) (fun _ => k)).

Definition help_insert {R} (r : sres) (ni : ptr) (op : ptr) (k : prog R) : prog R :=
  Act (a_cas_child (r_p r) (r_rl r) (r_leaf r) ni) (fun _ =>
    Act (a_faa_emp (r_p r)) (fun n =>
      Act (a_cas_upd (r_p r) (op, 2%nat) (S (vn n), 0%nat)) (fun _ => k))).

Definition try_insert {R} (s : TL) (key : Z) (leaf ni : ptr) (r : sres) (k : TL -> bool -> prog R) : prog R :=
  Act (a_ld_child (r_p r) (r_rl r)) (fun v =>
    if negb (Nat.eqb (vptr v) (r_leaf r)) then k s false
    else
      Act (a_ld_flags (r_leaf r)) (fun vf =>
        let ncmp := cmp_node key (vfl vf) (lkey (r_leaf r)) in
        let rest : prog R :=
          let (g, s1) := alloc1 s in
          let (op, s2) := new_obj s1 2 0 in
          g_assign s2 g
            (Act (a_cas_upd (r_p r) (fst (r_updp r), 0%nat) (op, 2%nat)) (fun c =>
               if vok c then help_insert r ni op (retire s2 (g_clear s2 g (k (free1 g s2) true)))
               else g_clear s2 g (k (free1 g s2) false))) in
        if ncmp <? 0 then
          if negb (Nat.eqb (r_gp r) null) then
            set_inf ni 0 (Act (a_st_left_key ni (lkey (r_leaf r)) leaf) (fun _ => Act (a_st_right ni (r_leaf r)) (fun _ => rest)))
          else
            set_inf ni 2 (Act (a_st_left_key ni 0 leaf) (fun _ => Act (a_st_right ni (r_leaf r)) (fun _ => rest)))
        else
          set_inf ni 0 (Act (a_st_left_key ni key (r_leaf r)) (fun _ => Act (a_st_right ni leaf) (fun _ => rest))))).

Definition ev_inv (code k : Z) : list ev := [EvCli "inv"%string [code; k]].
Definition ev_res (a b : Z) : list ev := [EvCli "res"%string [a; b]].
Definition finish {R} (s : TL) (a b : Z) (k : TL -> prog R) : prog R := Emit (ev_res a b) (k s).
Definition out_of_fuel {R} (s : TL) (k : TL -> prog R) : prog R := Emit [EvCli "outoffuel"%string []] (k s).

Fixpoint insert_loop {R} (fuel : nat) (s : TL) (key : Z) (leaf : ptr) (slots : list nat) (ni : option ptr)
  (k : TL -> bool -> prog R) (kf : TL -> prog R) {struct fuel} : prog R :=
  match fuel with
  | O => kf s
  | S f =>
      srch fuel s slots key st0 (fun r found =>
        if found then k s false
        else if clean r then
          let attempt (n : ptr) (s' : TL) : prog R :=
            try_insert s' key leaf n r (fun s'' ok =>
              if ok then Act a_faa_cnt (fun _ => k s'' true) else insert_loop f s'' key leaf slots (Some n) k kf) in
          match ni with
          | Some n => attempt n s
          | None =>
              let (n, s') := new_obj s 1 0 in
              Act (a_st_flags n 1) (fun _ => Act (a_st_emp n 0) (fun _ => attempt n s'))
          end
        else insert_loop f s key leaf slots ni k kf) (kf s)
  end.

Definition op_insert {R} (fuel : nat) (s : TL) (k : nat) (cont : TL -> prog R) : prog R :=
  let (leaf, s0) := new_obj s 0 k in
  Act (a_st_flags leaf 0) (fun _ =>
    let (gi, s1) := alloc1 s0 in
    g_assign s1 gi
      (let (slots, s2) := allocn 6 s1 in
       insert_loop fuel s2 (Z.of_nat k) leaf slots None
         (fun s' b => g_free_all s' slots (fun s'' => g_clear s'' gi (finish (free1 gi s'') (if b then 1 else 0) 0 cont)))
         (fun s' => g_free_all s' slots (fun s'' => g_clear s'' gi (out_of_fuel (free1 gi s'') cont))))).

(** *** erase *)
Definition help_marked {R} (fuel : nat) (s : TL) (r : sres) (op : ptr) (k : prog R) (kf : prog R) : prog R :=
  let (g, s1) := alloc1 s in
  g_protect_child fuel s1 g (r_p r) (negb (r_rl r)) (fun rs =>
    match rs with
    | None => kf
    | Some sib =>
        Act (a_ld_flags sib) (fun vf =>
          let go : prog R :=
            Act (a_cas_child (r_gp r) (r_rp r) (r_p r) sib) (fun _ =>
              Act (a_faa_emp (r_gp r)) (fun n =>
                Act (a_cas_upd (r_gp r) (op, 1%nat) (S (vn n), 0%nat)) (fun _ => g_clear s1 g k))) in
          if is_internal_f (vfl vf) then go else g_assign s1 g go)
    end).

Definition help_delete {R} (fuel : nat) (s : TL) (r : sres) (op : ptr) (k : bool -> prog R) (kf : prog R) : prog R :=
  Act (a_cas_upd (r_p r) (fst (r_updp r), 0%nat) (op, 3%nat)) (fun c =>
    if vok c then
      help_marked fuel s r op
        (Act (a_ld_flags (r_p r)) (fun _ => retire s (Act (a_ld_flags (r_leaf r)) (fun _ => retire s (retire s (k true)))))) kf
    else if u_eqb (vw c) (op, 3%nat) then help_marked fuel s r op (k true) kf
    else
      Act (a_faa_emp (r_gp r)) (fun n =>
        Act (a_cas_upd (r_gp r) (op, 1%nat) (S (vn n), 0%nat)) (fun c2 =>
          if vok c2 then retire s (k false) else k false))).

Fixpoint erase_loop {R} (fuel : nat) (s : TL) (key : Z) (slots : list nat) (pop : option ptr)
  (k : TL -> bool -> prog R) (kf : prog R) {struct fuel} : prog R :=
  match fuel with
  | O => kf
  | S f =>
      srch fuel s slots key st0 (fun r found =>
        if negb found then
          match pop with Some _ => retire s (k s false) | None => k s false end
        else if clean r then
          let (op, s') := match pop with Some d => (d, s) | None => new_obj s 2 0 end in
          Act (a_ld_child (r_gp r) (r_rp r)) (fun v1 =>
            if Nat.eqb (vptr v1) (r_p r) then
              Act (a_ld_child (r_p r) (r_rl r)) (fun v2 =>
                if Nat.eqb (vptr v2) (r_leaf r) then
                  let (g, s2) := alloc1 s' in
                  g_assign s2 g
                    (Act (a_cas_upd (r_gp r) (fst (r_updgp r), 0%nat) (op, 1%nat)) (fun c =>
                       if vok c then
                         help_delete fuel s2 r op (fun ok =>
                           if ok then g_clear s2 g (Act a_fas_cnt (fun _ => k (free1 g s2) true))
                           else g_clear s2 g (erase_loop f (free1 g s2) key slots None k kf)) kf
                       else g_clear s2 g (erase_loop f (free1 g s2) key slots (Some op) k kf)))
                else erase_loop f s' key slots (Some op) k kf)
            else erase_loop f s' key slots (Some op) k kf)
        else erase_loop f s key slots pop k kf) kf
  end.

Definition op_erase {R} (fuel : nat) (s : TL) (k : nat) (cont : TL -> prog R) : prog R :=
  let (slots, s1) := allocn 6 s in
  erase_loop fuel s1 (Z.of_nat k) slots None
    (fun s' b => g_free_all s' slots (fun s'' => finish s'' (if b then 1 else 0) 0 cont))
    (g_free_all s1 slots (fun s'' => out_of_fuel s'' cont)).

Definition op_contains {R} (fuel : nat) (s : TL) (k : nat) (cont : TL -> prog R) : prog R :=
  let (slots, s1) := allocn 6 s in
  srch fuel s1 slots (Z.of_nat k) st0
    (fun _ found => g_free_all s1 slots (fun s'' => finish s'' (if found then 1 else 0) 0 cont))
    (g_free_all s1 slots (fun s'' => out_of_fuel s'' cont)).

(** *** client programs *)
Inductive op := OIns (k : nat) | OErase (k : nat) | OContains (k : nat).

Definition run_op {R} (fuel : nat) (s : TL) (o : op) (cont : TL -> prog R) : prog R :=
  match o with
  | OIns k => Emit (ev_inv 1 (Z.of_nat k)) (op_insert fuel s k cont)
  | OErase k => Emit (ev_inv 6 (Z.of_nat k)) (op_erase fuel s k cont)
  | OContains k => Emit (ev_inv 10 (Z.of_nat k)) (op_contains fuel s k cont)
  end.

Fixpoint run_ops (fuel : nat) (s : TL) (os : list op) : prog unit :=
  match os with
  | [] => Ret tt
  | o :: r => run_op fuel s o (fun s' => run_ops fuel s' r)
  end.

Definition NSLOTS : nat := 16.
Definition thread_prog (fuel : nat) (t : nat) (os : list op) : Conc.thread G V ev :=
  Act a_begin (fun _ => run_ops fuel (mkTL t (seq 0 NSLOTS) 0) os).

(** *** initial state: make_empty_tree, then the keys of [mask] inserted sequentially by the main thread (thread 63) *)
Definition g_empty : G :=
  mkG (fun p => if Nat.eqb p root then 5 else if Nat.eqb p inf1 then 2 else if Nat.eqb p inf2 then 4 else 0)
      (fun _ => 0)
      (fun p => if Nat.eqb p root then inf1 else null)
      (fun p => if Nat.eqb p root then inf2 else null)
      (fun _ => (0%nat, 0%nat)) (fun _ => 0%nat) 0.

Definition node_key (g : G) (n : ptr) : Z :=
  let f := flags g n in
  if negb (Z.land f 4 =? 0) then 1001 else if negb (Z.land f 2 =? 0) then 1000
  else if is_internal_f f then ikey g n else lkey n.

(** the leaf a sequential search for [key] ends in: (grandparent, parent, leaf, bRightLeaf) *)
Fixpoint find_leaf (fuel : nat) (g : G) (key : Z) (gp p cur : ptr) (rl : bool) : ptr * ptr * ptr * bool :=
  match fuel with
  | O => (gp, p, cur, rl)
  | S f =>
      if is_internal_f (flags g cur) then
        let right := 0 <=? cmp_node key (flags g cur) (ikey g cur) in
        find_leaf f g key p cur (child g cur right) right
      else (gp, p, cur, rl)
  end.

Definition seq_insert (g : G) (k idx : nat) : G :=
  let key := Z.of_nat k in
  let '(gp, p, l, rl) := find_leaf 16 g key null null root false in
  let leaf := mk_id 63 (2 * idx) 0 k in
  let ni := mk_id 63 (2 * idx + 1) 1 0 in
  let ncmp := cmp_node key (flags g l) (lkey l) in
  let '(nf, nk, nl, nr) :=
    if ncmp <? 0 then (if Nat.eqb gp null then (3, 0, leaf, l) else (1, lkey l, leaf, l)) else (1, key, l, leaf) in
  let g1 := mkG (upd1 (upd1 (flags g) leaf 0) ni nf) (upd1 (ikey g) ni nk) (upd1 (lft g) ni nl) (upd1 (rgt g) ni nr)
                (upd1 (upd g) p (S (emp g p), 0%nat)) (upd1 (emp g) p (S (emp g p))) (cnt g + 1) in
  set_child g1 p rl ni.

Fixpoint prefill (g : G) (keys : list nat) (idx : nat) : G :=
  match keys with
  | [] => g
  | k :: r => prefill (seq_insert g k idx) r (S idx)
  end.

Definition prefill_keys (cfg : list Z) : list nat :=
  let mask := Z.to_nat (nth 0 cfg 0) in filter (fun k => Nat.testbit mask k) (seq 0 4).
Definition init (keys : list nat) : G := prefill g_empty keys 0.

Definition init_cfg (fuel : nat) (keys : list nat) (ths : list (list op)) : Conc.config G V ev :=
  Conc.Cfg (init keys) (map (fun to => thread_prog fuel (fst to) (snd to)) (combine (seq 0 (List.length ths)) ths)) [].

Definition decode_op (o : list Z) : option op :=
  match o with
  | c :: k :: _ =>
      if c =? 1 then Some (OIns (Nat.min (Z.to_nat k) 7))
      else if c =? 6 then Some (OErase (Nat.min (Z.to_nat k) 7))
      else if c =? 10 then Some (OContains (Nat.min (Z.to_nat k) 7))
      else None
  | _ => None
  end.
Fixpoint decode_ops (os : list (list Z)) : list op :=
  match os with
  | [] => []
  | o :: r => match decode_op o with Some x => x :: decode_ops r | None => decode_ops r end
  end.

(** *** the leaf-oriented BST check of one state (monitor): keys of the left subtree < key of the node <= keys of the
    right subtree, with Inf1 < Inf2 above every key; every internal node has two children *)
Fixpoint bst_ok (fuel : nat) (g : G) (n : ptr) (lo hi : Z) : bool :=
  match fuel with
  | O => false
  | S f =>
      let k := node_key g n in
      if Nat.eqb n null then false
      else if is_internal_f (flags g n) then
        (lo <=? k) && (k <? hi) && bst_ok f g (lft g n) lo k && bst_ok f g (rgt g n) k hi
      else (lo <=? k) && (k <? hi)
  end.
Definition tree_ok (g : G) : bool := bst_ok 24 g root (-1) 1002.

(** the scheduler of [Conc.run], checking [tree_ok] after every step *)
Fixpoint run_mon (fuel : nat) (i : nat) (sched : list nat) (c : Conc.config G V ev) (ok : bool) : Conc.config G V ev * bool * bool :=
  match fuel with
  | O => (c, false, ok)
  | S fuel' =>
      let (entry, rest) := match sched with [] => (i, []) | e :: r => (e, r) end in
      match Conc.pick (Conc.threads c) entry with
      | None => (c, true, ok)
      | Some t =>
          match Conc.step_cfg c t with
          | Some c' => run_mon fuel' (S i) rest c' (ok && tree_ok (Conc.shared c'))
          | None => (c, true, ok)
          end
      end
  end.

Definition run_case (cfg : list Z) (ths : list (list (list Z))) (sched : list nat) (fuel : nat)
  : list (nat * ev) * bool :=
  let c0 := init_cfg 60 (prefill_keys cfg) (map decode_ops ths) in
  let '(c, fin, ok) := run_mon fuel 0 sched c0 (tree_ok (Conc.shared c0)) in
  (Conc.trace c ++ (if ok then [] else [(99%nat, EvCli "monitor_bst_violated"%string [])]), fin).
