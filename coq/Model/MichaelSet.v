(** * Model of cds::intrusive::MichaelHashSet<cds::gc::HP, MichaelList<HP,...>, Traits> (cds/intrusive/michael_set.h):
      an array of [nb] ordered lists; every operation on key [k] is the same operation of the list
      m_Buckets[ hash( k ) & m_nHashBitmask ]:

        template <typename Q> size_t hash_value( Q const& key ) const { return m_HashFunctor( key ) & m_nHashBitmask; }
        bucket_type& bucket( Q const& key ) { return m_Buckets[ hash_value( key ) ]; }
        bool insert( value_type& val )  { bool bRet = bucket( val ).insert( val ); if ( bRet ) ++m_ItemCounter; return bRet; }
        ... update / erase / unlink / extract / find / contains / get likewise
      (michael_set::traits::item_counter = atomicity::empty_item_counter: no atomic of its own).

    The model is the PRODUCT (LV.Model.Product) of [nb] instances of the step-grain Michael-list model LV.Model.MichaelList
    (property C13, tied to cds/intrusive/impl/michael_list.h by step correspondence): shared state = one list state per bucket,
    an operation runs the list program [MichaelList.run_op] lifted to its bucket.  Difference to the real class: the real
    thread has ONE free list of hazard-pointer slots for all buckets, here each bucket keeps its own copy of that local
    bookkeeping (slot numbers only appear as object names of accesses that carry no modelled state).  No step
    correspondence of its own: MichaelHashSet is covered by the observable correspondence of checks/C14.py.
    Operation codes and arguments: those of MichaelList.run_op ([code; key; x; y]).  No proofs in this file. *)
From Coq Require Import ZArith List Arith PeanoNat.
From LV Require Import Base.Conc Base.Events Model.MichaelList Model.Product.
Import ListNotations.

Set Implicit Arguments.

Section MS.
  (** number of buckets (a power of two in the real class), hash table key -> hash *)
  Variables (nb : nat) (hs : list Z).

  Definition hash (k : Z) : Z := nth (Z.to_nat k) hs 0%Z.
  (** hash & (nb - 1); the guard only matters for an [nb] that is not a power of two *)
  Definition bucket (k : Z) : nat :=
    let b := Z.to_nat (Z.land (hash k) (Z.of_nat nb - 1)) in if Nat.ltb b nb then b else 0.

  Definition GP := nat -> MichaelList.G.
  Definition progP := Conc.prog GP MichaelList.V (nat * ev).
  Definition lsmap := nat -> MichaelList.lstate.

  Definition run_opP (fuel sf : nat) (ic : bool) (t : nat) (o : list Z) (lsm : lsmap) : progP (option lsmap) :=
    let b := bucket (nth 1 o 0%Z) in
    Conc.bind (lift b (MichaelList.run_op fuel sf ic t o (lsm b)))
      (fun r => match r with Some ls' => Ret (Some (updf lsm b ls')) | None => Ret None end).

  Fixpoint run_opsP (fuel sf : nat) (ic : bool) (t : nat) (os : list (list Z)) (lsm : lsmap) : progP unit :=
    match os with
    | [] => Ret tt
    | o :: r => Conc.bind (run_opP fuel sf ic t o lsm) (fun x => match x with Some lsm' => run_opsP fuel sf ic t r lsm' | None => Ret tt end)
    end.

  Definition thread_progP (fuel sf : nat) (ic : bool) (t : nat) (os : list (list Z)) : Conc.thread GP MichaelList.V (nat * ev) :=
    Conc.bind (lift 0 (Act MichaelList.a_begin (fun _ => Ret tt))) (fun _ => run_opsP fuel sf ic t os (fun _ => MichaelList.init_ls)).

  Definition initP : GP := fun _ => MichaelList.init.

  Fixpoint thread_progsP (fuel sf : nat) (ic : bool) (t : nat) (ths : list (list (list Z))) : list (Conc.thread GP MichaelList.V (nat * ev)) :=
    match ths with
    | [] => []
    | os :: r => thread_progP fuel sf ic t os :: thread_progsP fuel sf ic (S t) r
    end.

  Definition init_cfgP (fuel sf : nat) (ic : bool) (ths : list (list (list Z))) : Conc.config GP MichaelList.V (nat * ev) :=
    Conc.Cfg initP (thread_progsP fuel sf ic 0 ths) [].
End MS.
