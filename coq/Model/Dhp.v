(** * Model of cds::gc::dhp::smr (src/dhp.cpp, cds/gc/dhp.h) and of the two block allocators built on
      cds::intrusive::FreeList (cds/intrusive/free_list.h; selected by free_list_selector.h because g++ >= 7
      has no CDS_DCAS_SUPPORT).  One [DAct] per atomic access in C++ order, non-atomic code in [DLoc]
      (see Model/DhpLang.v).  Compiled-out code (asserts, CDS_HPSTAT) is absent; last_plist_size_ is a
      std::atomic (not hooked) that only sizes a vector.  std::sort + std::binary_search = list membership.

    Modelled C++ (current tree), by function:

    FreeList::put(n):      if n->refs.fetch_add(SB) == 0: add_knowing_refcount_is_zero(n)
    FreeList::add_knowing_refcount_is_zero(n):
        head = m_Head.load(); loop { n->next.store(head); n->refs.store(1);
          if !m_Head.CAS(head, n) { if n->refs.fetch_add(SB-1) == 1 continue; } return; }
    FreeList::get():       head = m_Head.load();
        while head { prev = head; refs = head->refs.load();
          if (refs & MASK)==0 || !head->refs.CAS(refs, refs+1) { head = m_Head.load(); continue; }
          next = head->next.load();
          if m_Head.CAS(head, next) { head->refs.fetch_sub(2); return head; }
          refs = prev->refs.fetch_sub(1); if refs == SB+1: add_knowing_refcount_is_zero(prev); }
        return nullptr
    hp_allocator::alloc(): gb = free_list_.get() or new guard_block (node ctor: next.store(nullptr));
        for p in first .. first+GB-2 { p->clear(); p->next_ = p+1 }  last->next_ = nullptr; last->clear()
    hp_allocator::free(b): free_list_.put(b)
    retired_allocator::alloc(): rb = free_list_.get() or new retired_block; rb->next_ = nullptr
    retired_allocator::free(b): b->next_ = nullptr; free_list_.put(b)
    thread_hp_storage::{alloc, free, extend, clear, init}   (dhp.h, quoted next to each definition below)
    retired_array::{push, repush, init, fini, extend, empty}
    smr::{alloc_thread_data, free_thread_data, scan, help_scan, detach_all_thread, ~smr}
    DHP::Guard::{Guard, ~Guard, assign, clear, protect},  DHP::retire, DHP::scan

    Parameters: [c_H] initial guard count asked for (the constructor turns < 4 into 16), [c_GB] guards per
    extension block (16 in /repo), [c_RB] retired pointers per block (256 in /repo), [c_old] selects the
    retired_array::extend of before commit 1cc4b4f and [c_oldtail] the free_thread_data of before commit cf24f31
    (list_tail_ left dangling) -- both for regression witnesses only; [c_spin] fuel of every loop. *)
From Coq Require Import ZArith NArith List String Bool Lia PeanoNat.
From LV Require Import Base.Conc Base.Events Model.DhpLang.
Import ListNotations.
Local Open Scope string_scope.
Local Open Scope list_scope.

Record cfg := mkCfg { c_H : nat; c_GB : nat; c_RB : nat; c_old : bool; c_spin : nat; c_nsrc : nat; c_oldtail : bool }.

Definition eff_H (c : cfg) : nat := if Nat.ltb (c_H c) 4 then 16 else c_H c.

(** a guard (hazard pointer cell): in the initial array of record r, or in extension block b *)
Inductive gref := GI (r i : nat) | GE (b i : nat).

Definition gref_eqb (x y : gref) : bool :=
  match x, y with
  | GI a i, GI b j => Nat.eqb a b && Nat.eqb i j
  | GE a i, GE b j => Nat.eqb a b && Nat.eqb i j
  | _, _ => false
  end.

Record rec := mkRec {
  r_next : option nat;            (* thread_record::next_         (plain) *)
  r_tid : nat;                    (* thread_id_                   (atomic; 0 = c_NullThreadId) *)
  r_free : bool;                  (* free_                        (atomic) *)
  r_sync : nat;                   (* sync_                        (atomic) *)
  r_slots : list nat;             (* hp_ of the initial array     (atomic each; 0 = nullptr) *)
  r_snext : list (option gref);   (* guard::next_ of the initial array (plain) *)
  r_fhead : option gref;          (* hazards_.free_head_          (plain) *)
  r_ext : option nat;             (* hazards_.extended_list_      (atomic) *)
  r_cb : option nat;              (* retired_.current_block_      (plain) *)
  r_cc : nat;                     (* retired_.current_cell_ as an index into current_block_ *)
  r_head : option nat;            (* retired_.list_head_ *)
  r_tail : option nat;            (* retired_.list_tail_ *)
  r_bcount : nat }.               (* retired_.block_count_ *)

Record gblock := mkGb {
  gb_refs : N; gb_flnext : option nat;       (* FreeList::node  (atomic) *)
  gb_nextb : option nat;                     (* next_block_     (plain) *)
  gb_slots : list nat; gb_snext : list (option gref) }.

Record rblock := mkRb {
  rb_refs : N; rb_flnext : option nat;       (* FreeList::node  (atomic) *)
  rb_next : option nat;                      (* next_           (plain) *)
  rb_cells : list nat }.                     (* retired_ptr::m_p of each cell (plain; stale content stays) *)

Record G := mkG {
  recs : list rec; gbs : list gblock; rbs : list rblock;
  tlist : option nat;                        (* smr::thread_list_ *)
  hp_head : option nat; rt_head : option nat;(* m_Head of the two free lists *)
  srcs : list nat;                           (* client atomics protected by Guard::protect *)
  oob : bool }.                              (* a retired cell outside its block was written *)

(** ** plain helpers *)
Fixpoint upd_nth {A} (l : list A) (n : nat) (f : A -> A) : list A :=
  match l, n with
  | [], _ => []
  | x :: r, O => f x :: r
  | x :: r, S n' => x :: upd_nth r n' f
  end.

Definition oeqb (x y : option nat) : bool :=
  match x, y with
  | None, None => true
  | Some a, Some b => Nat.eqb a b
  | _, _ => false
  end.

Definition dflt_rec : rec := mkRec None 0 false 0 [] [] None None None 0 None None 0.
Definition dflt_gb : gblock := mkGb 0 None None [] [].
Definition dflt_rb : rblock := mkRb 0 None None [].

Definition grec (g : G) (r : nat) : rec := nth r (recs g) dflt_rec.
Definition ggb (g : G) (b : nat) : gblock := nth b (gbs g) dflt_gb.
Definition grb (g : G) (b : nat) : rblock := nth b (rbs g) dflt_rb.

Definition set_recs (g : G) v := mkG v (gbs g) (rbs g) (tlist g) (hp_head g) (rt_head g) (srcs g) (oob g).
Definition set_gbs (g : G) v := mkG (recs g) v (rbs g) (tlist g) (hp_head g) (rt_head g) (srcs g) (oob g).
Definition set_rbs (g : G) v := mkG (recs g) (gbs g) v (tlist g) (hp_head g) (rt_head g) (srcs g) (oob g).
Definition set_tlist (g : G) v := mkG (recs g) (gbs g) (rbs g) v (hp_head g) (rt_head g) (srcs g) (oob g).
Definition set_hp_head (g : G) v := mkG (recs g) (gbs g) (rbs g) (tlist g) v (rt_head g) (srcs g) (oob g).
Definition set_rt_head (g : G) v := mkG (recs g) (gbs g) (rbs g) (tlist g) (hp_head g) v (srcs g) (oob g).
Definition set_srcs (g : G) v := mkG (recs g) (gbs g) (rbs g) (tlist g) (hp_head g) (rt_head g) v (oob g).
Definition set_oob (g : G) v := mkG (recs g) (gbs g) (rbs g) (tlist g) (hp_head g) (rt_head g) (srcs g) v.

Definition upd_rec (g : G) (r : nat) (f : rec -> rec) : G := set_recs g (upd_nth (recs g) r f).
Definition upd_gb (g : G) (b : nat) (f : gblock -> gblock) : G := set_gbs g (upd_nth (gbs g) b f).
Definition upd_rb (g : G) (b : nat) (f : rblock -> rblock) : G := set_rbs g (upd_nth (rbs g) b f).

Definition rs_next v (x : rec) := mkRec v (r_tid x) (r_free x) (r_sync x) (r_slots x) (r_snext x) (r_fhead x) (r_ext x) (r_cb x) (r_cc x) (r_head x) (r_tail x) (r_bcount x).
Definition rs_tid v (x : rec) := mkRec (r_next x) v (r_free x) (r_sync x) (r_slots x) (r_snext x) (r_fhead x) (r_ext x) (r_cb x) (r_cc x) (r_head x) (r_tail x) (r_bcount x).
Definition rs_free v (x : rec) := mkRec (r_next x) (r_tid x) v (r_sync x) (r_slots x) (r_snext x) (r_fhead x) (r_ext x) (r_cb x) (r_cc x) (r_head x) (r_tail x) (r_bcount x).
Definition rs_sync v (x : rec) := mkRec (r_next x) (r_tid x) (r_free x) v (r_slots x) (r_snext x) (r_fhead x) (r_ext x) (r_cb x) (r_cc x) (r_head x) (r_tail x) (r_bcount x).
Definition rs_slots v (x : rec) := mkRec (r_next x) (r_tid x) (r_free x) (r_sync x) v (r_snext x) (r_fhead x) (r_ext x) (r_cb x) (r_cc x) (r_head x) (r_tail x) (r_bcount x).
Definition rs_snext v (x : rec) := mkRec (r_next x) (r_tid x) (r_free x) (r_sync x) (r_slots x) v (r_fhead x) (r_ext x) (r_cb x) (r_cc x) (r_head x) (r_tail x) (r_bcount x).
Definition rs_fhead v (x : rec) := mkRec (r_next x) (r_tid x) (r_free x) (r_sync x) (r_slots x) (r_snext x) v (r_ext x) (r_cb x) (r_cc x) (r_head x) (r_tail x) (r_bcount x).
Definition rs_ext v (x : rec) := mkRec (r_next x) (r_tid x) (r_free x) (r_sync x) (r_slots x) (r_snext x) (r_fhead x) v (r_cb x) (r_cc x) (r_head x) (r_tail x) (r_bcount x).
(** the four cursor fields of the retired array together *)
Definition rs_ret cb cc hd tl bc (x : rec) := mkRec (r_next x) (r_tid x) (r_free x) (r_sync x) (r_slots x) (r_snext x) (r_fhead x) (r_ext x) cb cc hd tl bc.
Definition rs_cur cb cc (x : rec) := rs_ret cb cc (r_head x) (r_tail x) (r_bcount x) x.

Definition gs_refs v (x : gblock) := mkGb v (gb_flnext x) (gb_nextb x) (gb_slots x) (gb_snext x).
Definition gs_flnext v (x : gblock) := mkGb (gb_refs x) v (gb_nextb x) (gb_slots x) (gb_snext x).
Definition gs_nextb v (x : gblock) := mkGb (gb_refs x) (gb_flnext x) v (gb_slots x) (gb_snext x).
Definition gs_slots v (x : gblock) := mkGb (gb_refs x) (gb_flnext x) (gb_nextb x) v (gb_snext x).
Definition gs_snext v (x : gblock) := mkGb (gb_refs x) (gb_flnext x) (gb_nextb x) (gb_slots x) v.

Definition bs_refs v (x : rblock) := mkRb v (rb_flnext x) (rb_next x) (rb_cells x).
Definition bs_flnext v (x : rblock) := mkRb (rb_refs x) v (rb_next x) (rb_cells x).
Definition bs_next v (x : rblock) := mkRb (rb_refs x) (rb_flnext x) v (rb_cells x).
Definition bs_cells v (x : rblock) := mkRb (rb_refs x) (rb_flnext x) (rb_next x) v.

(** guard cells *)
Definition slot_get (g : G) (s : gref) : nat :=
  match s with
  | GI r i => nth i (r_slots (grec g r)) 0
  | GE b i => nth i (gb_slots (ggb g b)) 0
  end.
Definition slot_set (g : G) (s : gref) (v : nat) : G :=
  match s with
  | GI r i => upd_rec g r (fun x => rs_slots (upd_nth (r_slots x) i (fun _ => v)) x)
  | GE b i => upd_gb g b (fun x => gs_slots (upd_nth (gb_slots x) i (fun _ => v)) x)
  end.
Definition snext_get (g : G) (s : gref) : option gref :=
  match s with
  | GI r i => nth i (r_snext (grec g r)) None
  | GE b i => nth i (gb_snext (ggb g b)) None
  end.
Definition snext_set (g : G) (s : gref) (v : option gref) : G :=
  match s with
  | GI r i => upd_rec g r (fun x => rs_snext (upd_nth (r_snext x) i (fun _ => v)) x)
  | GE b i => upd_gb g b (fun x => gs_snext (upd_nth (gb_snext x) i (fun _ => v)) x)
  end.

(** ** symbolic addresses of the atomic objects (any injective naming will do: the logs are compared
       after canonicalisation by first appearance) *)
Definition zn (n : nat) : Z := Z.of_nat n.
Definition obj_rec (r fld : nat) : list Z := [0%Z; zn r; zn fld].    (* 0 thread_id_, 1 free_, 2 sync_, 3 extended_list_ *)
Definition obj_slot (s : gref) : list Z :=
  match s with GI r i => [1%Z; zn r; zn i] | GE b i => [2%Z; zn b; zn i] end.
Definition obj_tlist : list Z := [4%Z].
Definition obj_src (k : nat) : list Z := [7%Z; zn k].

Inductive fl := FHp | FRt.
Definition obj_head (f : fl) : list Z := match f with FHp => [5%Z] | FRt => [6%Z] end.
Definition obj_node (f : fl) (n fld : nat) : list Z :=     (* 0 m_freeListRefs, 1 m_freeListNext *)
  match f with FHp => [8%Z; zn n; zn fld] | FRt => [9%Z; zn n; zn fld] end.

Definition acc (k : akind) (o : list Z) (ok : bool) : list ev := [EvAcc k o ok].
Definition fl_z (f : fl) : Z := match f with FHp => 0%Z | FRt => 1%Z end.
(** allocator ghost events: block b taken from free list f / freshly created / given back *)
Definition ev_alloc (f : fl) (b : nat) : ev := EvCli "_alloc" [fl_z f; zn b].
Definition ev_new (f : fl) (b : nat) : ev := EvCli "_new" [fl_z f; zn b].
Definition ev_free (f : fl) (b : nat) : ev := EvCli "_free" [fl_z f; zn b].

(** ghost events (model only; names start with '_', dropped before the logs are compared) *)
Definition gref_z (s : gref) : list Z := match s with GI r i => [0%Z; zn r; zn i] | GE b i => [1%Z; zn b; zn i] end.
Definition ev_slot (s : gref) (v : nat) : ev := EvCli "_slot" (gref_z s ++ [zn v]).
Definition ev_own (s : gref) : ev := EvCli "_own" (gref_z s).
Definition ev_rel (s : gref) : ev := EvCli "_rel" (gref_z s).
Definition ev_relall : ev := EvCli "_relall" [].
Definition ev_att (r : nat) : ev := EvCli "_att" [zn r].
Definition ev_det (r : nat) : ev := EvCli "_det" [zn r].
Definition ev_link (r b : nat) : ev := EvCli "_link" [zn r; zn b].
Definition ev_scanb (r : nat) : ev := EvCli "_scanb" [zn r].
Definition ev_scane (r : nat) : ev := EvCli "_scane" [zn r].
Definition ev_dispose (p : nat) : ev := EvCli "dispose" [zn p].

(** ** atomic accesses *)
Definition A (X : Type) := G -> G * X * list ev.

Definition a_begin : A unit := fun g => (g, tt, [EvAcc KBegin [] true]).

Definition a_ld_tlist : A (option nat) := fun g => (g, tlist g, acc KLd obj_tlist true).
Definition a_st_tlist (v : option nat) : A unit := fun g => (set_tlist g v, tt, acc KSt obj_tlist true).
Definition a_cas_tlist (e n : option nat) : A (bool * option nat) := fun g =>
  if oeqb (tlist g) e then (set_tlist g n, (true, e), acc KCas obj_tlist true)
  else (g, (false, tlist g), acc KCas obj_tlist false).

Definition a_ld_tid (r : nat) : A nat := fun g => (g, r_tid (grec g r), acc KLd (obj_rec r 0) true).
Definition a_st_tid (r v : nat) : A unit := fun g => (upd_rec g r (rs_tid v), tt, acc KSt (obj_rec r 0) true).
Definition a_cas_tid (r e n : nat) : A bool := fun g =>
  if Nat.eqb (r_tid (grec g r)) e then (upd_rec g r (rs_tid n), true, acc KCas (obj_rec r 0) true)
  else (g, false, acc KCas (obj_rec r 0) false).
Definition a_ld_free (r : nat) : A bool := fun g => (g, r_free (grec g r), acc KLd (obj_rec r 1) true).
Definition a_st_free (r : nat) (v : bool) : A unit := fun g => (upd_rec g r (rs_free v), tt, acc KSt (obj_rec r 1) true).
Definition a_faa_sync (r : nat) : A unit := fun g =>
  (upd_rec g r (fun x => rs_sync (S (r_sync x)) x), tt, acc KFaa (obj_rec r 2) true).
Definition a_ld_ext (r : nat) : A (option nat) := fun g => (g, r_ext (grec g r), acc KLd (obj_rec r 3) true).
Definition a_st_ext (r : nat) (v : option nat) : A unit := fun g => (upd_rec g r (rs_ext v), tt, acc KSt (obj_rec r 3) true).
(** the same store together with the ghost events of the step *)
Definition a_st_ext_g (r : nat) (v : option nat) (ghost : list ev) : A unit :=
  fun g => (upd_rec g r (rs_ext v), tt, acc KSt (obj_rec r 3) true ++ ghost).

Definition a_ld_slot (s : gref) : A nat := fun g => (g, slot_get g s, acc KLd (obj_slot s) true).
(** does [s] name an existing cell? (the ghost event is emitted only for a store that hits a cell) *)
Definition slot_valid (g : G) (s : gref) : bool :=
  match s with
  | GI r i => Nat.ltb r (List.length (recs g)) && Nat.ltb i (List.length (r_slots (grec g r)))
  | GE b i => Nat.ltb b (List.length (gbs g)) && Nat.ltb i (List.length (gb_slots (ggb g b)))
  end.
Definition a_st_slot (s : gref) (v : nat) : A unit := fun g =>
  (slot_set g s v, tt, acc KSt (obj_slot s) true ++ (if slot_valid g s then [ev_slot s v] else [])).

Definition a_ld_src (k : nat) : A nat := fun g => (g, nth k (srcs g) 0, acc KLd (obj_src k) true).
Definition a_st_src (k v : nat) : A unit := fun g =>
  (set_srcs g (upd_nth (srcs g) k (fun _ => v)), tt, acc KSt (obj_src k) true).

(** free-list words *)
Definition fl_head (g : G) (f : fl) : option nat := match f with FHp => hp_head g | FRt => rt_head g end.
Definition fl_set_head (g : G) (f : fl) (v : option nat) : G := match f with FHp => set_hp_head g v | FRt => set_rt_head g v end.
Definition fl_refs (g : G) (f : fl) (n : nat) : N := match f with FHp => gb_refs (ggb g n) | FRt => rb_refs (grb g n) end.
Definition fl_set_refs (g : G) (f : fl) (n : nat) (v : N) : G :=
  match f with FHp => upd_gb g n (gs_refs v) | FRt => upd_rb g n (bs_refs v) end.
Definition fl_next (g : G) (f : fl) (n : nat) : option nat := match f with FHp => gb_flnext (ggb g n) | FRt => rb_flnext (grb g n) end.
Definition fl_set_next (g : G) (f : fl) (n : nat) (v : option nat) : G :=
  match f with FHp => upd_gb g n (gs_flnext v) | FRt => upd_rb g n (bs_flnext v) end.

Definition W32 : N := 4294967296%N.
Definition SB : N := 2147483648%N.          (* c_ShouldBeOnFreeList *)
Definition RMASK : N := 2147483647%N.       (* c_RefsMask *)
Definition w32 (x : N) : N := N.modulo x W32.

Definition a_ld_head (f : fl) : A (option nat) := fun g => (g, fl_head g f, acc KLd (obj_head f) true).
Definition a_cas_head (f : fl) (e n : option nat) : A (bool * option nat) := fun g =>
  if oeqb (fl_head g f) e then (fl_set_head g f n, (true, e), acc KCas (obj_head f) true)
  else (g, (false, fl_head g f), acc KCas (obj_head f) false).
Definition a_ld_refs (f : fl) (n : nat) : A N := fun g => (g, fl_refs g f n, acc KLd (obj_node f n 0) true).
Definition a_st_refs (f : fl) (n : nat) (v : N) : A unit := fun g => (fl_set_refs g f n v, tt, acc KSt (obj_node f n 0) true).
Definition a_cas_refs (f : fl) (n : nat) (e v : N) : A bool := fun g =>
  if N.eqb (fl_refs g f n) e then (fl_set_refs g f n v, true, acc KCas (obj_node f n 0) true)
  else (g, false, acc KCas (obj_node f n 0) false).
Definition a_faa_refs (f : fl) (n : nat) (d : N) : A N := fun g =>
  (fl_set_refs g f n (w32 (fl_refs g f n + d)), fl_refs g f n, acc KFaa (obj_node f n 0) true).
Definition a_fas_refs (f : fl) (n : nat) (d : N) : A N := fun g =>
  (fl_set_refs g f n (w32 (fl_refs g f n + W32 - d)), fl_refs g f n, acc KFas (obj_node f n 0) true).
Definition a_ld_flnext (f : fl) (n : nat) : A (option nat) := fun g => (g, fl_next g f n, acc KLd (obj_node f n 1) true).
Definition a_st_flnext (f : fl) (n : nat) (v : option nat) : A unit := fun g => (fl_set_next g f n v, tt, acc KSt (obj_node f n 1) true).

(** ** programs.  Every program returns [option _]; [None] = a loop ran out of fuel. *)
Definition P (R : Type) := @dprog G ev (option R).

Definition ret {R} (r : R) : P R := DRet (Some r).
Definition fuel_out {R} : P R := DEmit [EvCli "outoffuel" []] (DRet None).
Definition act {X} (f : A X) : P X := DAct f (fun x => DRet (Some x)).
Definition loc {X} (f : G -> G * X) : P X := DLoc f (fun x => DRet (Some x)).
Definition emit (es : list ev) : P unit := DEmit es (DRet (Some tt)).
Definition xbind {X Y} (p : P X) (q : X -> P Y) : P Y :=
  dbind p (fun o => match o with Some x => q x | None => DRet None end).
Notation "x <- p ;; q" := (xbind p (fun x => q)) (at level 61, p at next level, right associativity).
Notation "p ;;; q" := (xbind p (fun _ => q)) (at level 61, right associativity).

(** *** cds::intrusive::FreeList *)
Fixpoint add_knowing (sp : nat) (f : fl) (n : nat) (head : option nat) : P unit :=
  match sp with
  | O => fuel_out
  | S sp' =>
      act (a_st_flnext f n head) ;;;
      act (a_st_refs f n 1%N) ;;;
      r <- act (a_cas_head f head (Some n)) ;;
      if fst r then ret tt
      else old <- act (a_faa_refs f n (SB - 1)%N) ;;
           if N.eqb old 1%N then add_knowing sp' f n (snd r) else ret tt
  end.

Definition fl_add (sp : nat) (f : fl) (n : nat) : P unit :=
  head <- act (a_ld_head f) ;; add_knowing sp f n head.

Definition fl_put (sp : nat) (f : fl) (n : nat) : P unit :=
  old <- act (a_faa_refs f n SB) ;;
  if N.eqb old 0%N then fl_add sp f n else ret tt.

Fixpoint fl_get_loop (sp : nat) (f : fl) (head : option nat) : P (option nat) :=
  match head with
  | None => ret None
  | Some h =>
      match sp with
      | O => fuel_out
      | S sp' =>
          refs <- act (a_ld_refs f h) ;;
          if N.eqb (N.land refs RMASK) 0%N then (hd <- act (a_ld_head f) ;; fl_get_loop sp' f hd)
          else
            c <- act (a_cas_refs f h refs (refs + 1)%N) ;;
            if negb c then (hd <- act (a_ld_head f) ;; fl_get_loop sp' f hd)
            else
              next <- act (a_ld_flnext f h) ;;
              r <- act (a_cas_head f (Some h) next) ;;
              if fst r then (act (a_fas_refs f h 2%N) ;;; ret (Some h))
              else
                old <- act (a_fas_refs f h 1%N) ;;
                (if N.eqb old (SB + 1)%N then fl_add sp' f h else ret tt) ;;;
                fl_get_loop sp' f (snd r)
      end
  end.

Definition fl_get (sp : nat) (f : fl) : P (option nat) :=
  head <- act (a_ld_head f) ;; fl_get_loop sp f head.

(** *** hp_allocator *)
Definition new_gblock (c : cfg) : G -> G * nat := fun g =>
  (set_gbs g (gbs g ++ [mkGb 0 None None (repeat 0 (c_GB c)) (repeat None (c_GB c))]), List.length (gbs g)).

(** for ( p = first; p != first + GB - 1; ++p ) { p->clear( relaxed ); p->next_ = p + 1; } *)
Fixpoint link_guards (b i n : nat) : P unit :=
  match n with
  | O => ret tt
  | S n' =>
      act (a_st_slot (GE b i) 0) ;;;
      loc (fun g => (snext_set g (GE b i) (Some (GE b (S i))), tt)) ;;;
      link_guards b (S i) n'
  end.

Definition hp_alloc (c : cfg) : P nat :=
  o <- fl_get (c_spin c) FHp ;;
  b <- match o with
       | Some b => emit [ev_alloc FHp b] ;;; ret b
       | None => nb <- loc (new_gblock c) ;; emit [ev_new FHp nb] ;;; act (a_st_flnext FHp nb None) ;;; ret nb
       end ;;
  link_guards b 0 (c_GB c - 1) ;;;
  loc (fun g => (snext_set g (GE b (c_GB c - 1)) None, tt)) ;;;
  act (a_st_slot (GE b (c_GB c - 1)) 0) ;;;
  ret b.

Definition hp_free (c : cfg) (b : nat) : P unit := emit [ev_free FHp b] ;;; fl_put (c_spin c) FHp b.

(** *** retired_allocator *)
Definition new_rblock (c : cfg) : G -> G * nat := fun g =>
  (set_rbs g (rbs g ++ [mkRb 0 None None (repeat 0 (c_RB c))]), List.length (rbs g)).

Definition rt_alloc (c : cfg) : P nat :=
  o <- fl_get (c_spin c) FRt ;;
  b <- match o with
       | Some b => emit [ev_alloc FRt b] ;;; ret b
       | None => nb <- loc (new_rblock c) ;; emit [ev_new FRt nb] ;;; act (a_st_flnext FRt nb None) ;;; ret nb
       end ;;
  loc (fun g => (upd_rb g b (bs_next None), tt)) ;;;
  ret b.

Definition rt_free (c : cfg) (b : nat) : P unit :=
  loc (fun g => (upd_rb g b (bs_next None), tt)) ;;;      (* block->next_ = nullptr, then the block is the allocator's *)
  emit [ev_free FRt b] ;;;
  fl_put (c_spin c) FRt b.

(** *** thread_hp_storage
    extend(): block = hp_allocator::alloc(); block->next_block_ = extended_list_.load();
              extended_list_.store( block ); free_head_ = block->first(); *)
Definition hp_extend (c : cfg) (r : nat) : P unit :=
  b <- hp_alloc c ;;
  e <- act (a_ld_ext r) ;;
  loc (fun g => (upd_gb g b (gs_nextb e), tt)) ;;;
  act (a_st_ext_g r (Some b) [ev_link r b]) ;;;
  loc (fun g => (upd_rec g r (rs_fhead (Some (GE b 0))), tt)).

(** alloc(): if ( free_head_ == nullptr ) extend(); g = free_head_; free_head_ = g->next_; return g; *)
Definition hp_galloc (c : cfg) (r : nat) : P (option gref) :=
  fh <- loc (fun g => (g, r_fhead (grec g r))) ;;
  match fh with None => hp_extend c r | Some _ => ret tt end ;;;
  loc (fun g => match r_fhead (grec g r) with
                | Some s => (upd_rec g r (rs_fhead (snext_get g s)), Some s)
                | None => (g, None)
                end).

(** free( g ): g->clear(); g->next_ = free_head_; free_head_ = g; *)
Definition hp_gfree (r : nat) (s : gref) : P unit :=
  act (a_st_slot s 0) ;;;
  loc (fun g => (upd_rec (snext_set g s (r_fhead (grec g r))) r (rs_fhead (Some s)), tt)).

Fixpoint clear_slots (r i n : nat) : P unit :=
  match n with
  | O => ret tt
  | S n' => act (a_st_slot (GI r i) 0) ;;; clear_slots r (S i) n'
  end.

Fixpoint free_gblocks (c : cfg) (fuel : nat) (p : option nat) : P unit :=
  match p with
  | None => ret tt
  | Some b =>
      match fuel with
      | O => fuel_out
      | S f =>
          nx <- loc (fun g => (g, gb_nextb (ggb g b))) ;;
          hp_free c b ;;;
          free_gblocks c f nx
      end
  end.

(** clear(): for cur in array_: cur->clear(); for p = extended_list_.load(); p; { next = p->next_block_;
             a.free( p ); p = next; }  extended_list_.store( nullptr ); *)
(** [det]: ghost events of the caller, emitted in the step of the extended_list_ load: from there on the
    blocks are given back one by one and the cells of the record no longer count as guards *)
Definition hp_clear (c : cfg) (r : nat) (det : list ev) : P unit :=
  clear_slots r 0 (eff_H c) ;;;
  p <- act (a_ld_ext r) ;;
  emit det ;;;
  free_gblocks c (c_spin c) p ;;;
  act (a_st_ext r None).

(** init(): p->next_ = p + 1 for the initial array, last->next_ = nullptr; free_head_ = array_; *)
Definition hp_init (c : cfg) (r : nat) : G -> G * unit := fun g =>
  let h := eff_H c in
  (upd_rec g r (fun x => rs_fhead (Some (GI r 0))
     (rs_snext (map (fun i => if Nat.eqb (S i) h then None else Some (GI r (S i))) (seq 0 h)) x)), tt).

(** *** retired_array
    push( p ): *current_cell_ = p; if ( ++current_cell_ == current_block_->last()) {
                 if ( current_block_->next_ ) { current_block_ = next_; current_cell_ = first(); return true; }
                 return false; }  return true; *)
Definition rt_push (c : cfg) (r : nat) (p : nat) : G -> G * bool := fun g =>
  let x := grec g r in
  match r_cb x with
  | None => (set_oob g true, true)
  | Some b =>
      let g1 := if Nat.ltb (r_cc x) (c_RB c)
                then upd_rb g b (fun y => bs_cells (upd_nth (rb_cells y) (r_cc x) (fun _ => p)) y)
                else set_oob g true in
      let cc := S (r_cc x) in
      if Nat.eqb cc (c_RB c) then
        match rb_next (grb g1 b) with
        | Some nb => (upd_rec g1 r (rs_cur (Some nb) 0), true)
        | None => (upd_rec g1 r (rs_cur (Some b) cc), false)
        end
      else (upd_rec g1 r (rs_cur (Some b) cc), true)
  end.

(** init(): if ( list_head_ == nullptr ) { block = alloc(); current_block_ = list_head_ = list_tail_ = block;
            current_cell_ = block->first(); block_count_ = 1; } *)
Definition rt_init (c : cfg) (r : nat) : P unit :=
  hd <- loc (fun g => (g, r_head (grec g r))) ;;
  match hd with
  | Some _ => ret tt
  | None => b <- rt_alloc c ;; loc (fun g => (upd_rec g r (rs_ret (Some b) 0 (Some b) (Some b) 1), tt))
  end.

Fixpoint free_rblocks (c : cfg) (fuel : nat) (p : option nat) : P unit :=
  match p with
  | None => ret tt
  | Some b =>
      match fuel with
      | O => fuel_out
      | S f =>
          nx <- loc (fun g => (g, rb_next (grb g b))) ;;
          rt_free c b ;;;
          free_rblocks c f nx
      end
  end.

(** fini(): for p = list_head_; p; { next = p->next_; alloc.free( p ); p = next; } all cursors = nullptr *)
Definition rt_fini (c : cfg) (r : nat) : P unit :=
  hd <- loc (fun g => (g, r_head (grec g r))) ;;
  free_rblocks c (c_spin c) hd ;;;
  loc (fun g => (upd_rec g r (rs_ret None 0 None None 0), tt)).

(** extend(): block = alloc(); full = current_block_ == list_tail_ && current_cell_ == current_block_->last();
              list_tail_ = list_tail_->next_ = block; if ( full ) { current_block_ = block; current_cell_ = first(); }
              ++block_count_;
    before commit 1cc4b4f:  current_block_ = list_tail_ = list_tail_->next_ = block; current_cell_ = first(); *)
Definition rt_do_extend (c : cfg) (r b : nat) : G -> G * unit := fun g =>
  let x := grec g r in
  let full := oeqb (r_cb x) (r_tail x) && Nat.eqb (r_cc x) (c_RB c) in
  let g1 := match r_tail x with Some tl => upd_rb g tl (bs_next (Some b)) | None => g end in
  if c_old c || full
  then (upd_rec g1 r (rs_ret (Some b) 0 (r_head x) (Some b) (S (r_bcount x))), tt)
  else (upd_rec g1 r (rs_ret (r_cb x) (r_cc x) (r_head x) (Some b) (S (r_bcount x))), tt).

Definition rt_extend (c : cfg) (r : nat) : P unit :=
  b <- rt_alloc c ;; loc (rt_do_extend c r b).

(** empty(): current_block_ == nullptr || ( current_block_ == list_head_ && current_cell_ == first()) *)
Definition rt_empty (g : G) (r : nat) : bool :=
  let x := grec g r in
  match r_cb x with
  | None => true
  | Some _ => oeqb (r_cb x) (r_head x) && Nat.eqb (r_cc x) 0
  end.

(** *** smr::scan
    stage 1: for every record with thread_id_ != null: copy_hazards over the initial array, then over every
    block of extended_list_ (followed through next_block_) *)
Fixpoint copy_hazards (mk : nat -> gref) (i n : nat) (pl : list nat) : P (list nat) :=
  match n with
  | O => ret pl
  | S n' => v <- act (a_ld_slot (mk i)) ;; copy_hazards mk (S i) n' (if Nat.eqb v 0 then pl else v :: pl)
  end.

Fixpoint scan_blocks (c : cfg) (fuel : nat) (b : option nat) (pl : list nat) : P (list nat) :=
  match b with
  | None => ret pl
  | Some bb =>
      match fuel with
      | O => fuel_out
      | S f =>
          pl1 <- copy_hazards (GE bb) 0 (c_GB c) pl ;;
          nb <- loc (fun g => (g, gb_nextb (ggb g bb))) ;;
          scan_blocks c f nb pl1
      end
  end.

Fixpoint scan_recs (c : cfg) (fuel : nat) (node : option nat) (pl : list nat) : P (list nat) :=
  match node with
  | None => ret pl
  | Some n =>
      match fuel with
      | O => fuel_out
      | S f =>
          tid <- act (a_ld_tid n) ;;
          pl1 <- (if Nat.eqb tid 0 then ret pl
                  else pl0 <- copy_hazards (GI n) 0 (eff_H c) pl ;;
                       e <- act (a_ld_ext n) ;;
                       scan_blocks c (c_spin c) e pl0) ;;
          nx <- loc (fun g => (g, r_next (grec g n))) ;;
          scan_recs c f nx pl1
      end
  end.

Definition memb (p : nat) (l : list nat) : bool := existsb (Nat.eqb p) l.

(** retire_data( plist, stg, block, size ): for each of the first [size] cells of [block]:
      binary_search( plist, p->m_p ) ? stg.repush( p ) : ( p->free(), ++count )
    [racc] collects the freed pointers in reverse order *)
Fixpoint retire_data (c : cfg) (r : nat) (pl : list nat) (b i n : nat) (g : G) (racc : list nat) (cnt : nat)
  : G * list nat * nat :=
  match n with
  | O => (g, racc, cnt)
  | S n' =>
      let p := nth i (rb_cells (grb g b)) 0 in
      if memb p pl then retire_data c r pl b (S i) n' (fst (rt_push c r p g)) racc cnt
      else retire_data c r pl b (S i) n' g (p :: racc) (S cnt)
  end.

Fixpoint stage2_blocks (c : cfg) (fuel : nat) (r : nat) (pl : list nat) (block lastb : option nat) (lastc : nat)
    (g : G) (racc : list nat) (fcnt rcnt : nat) : G * list nat * nat * nat :=
  match block, fuel with
  | Some b, S f =>
      let endb := oeqb (Some b) lastb in
      let size := if endb then lastc else c_RB c in
      let '(g1, racc1, c1) := retire_data c r pl b 0 size g racc 0 in
      if endb then (g1, racc1, fcnt + c1, rcnt + c_RB c)
      else stage2_blocks c f r pl (rb_next (grb g1 b)) lastb lastc g1 racc1 (fcnt + c1) (rcnt + c_RB c)
  | _, _ => (g, racc, fcnt, rcnt)
  end.

(** stage 2; result: freed pointers in order, and whether retired_.extend() is to be called *)
Definition stage2 (c : cfg) (r : nat) (pl : list nat) : G -> G * (list nat * bool) := fun g =>
  let x := grec g r in
  let lastb := r_cb x in
  let lastc := r_cc x in
  let g0 := upd_rec g r (rs_cur (r_head x) 0) in
  let '(g1, racc, fcnt, rcnt) := stage2_blocks c (S (List.length (rbs g))) r pl (r_head x) lastb lastc g0 [] 0 0 in
  let ext := Nat.ltb fcnt (rcnt / 4) && oeqb lastb (r_tail (grec g1 r)) && Nat.eqb lastc (c_RB c) in
  (g1, (rev racc, ext)).

Definition scan (c : cfg) (r : nat) : P unit :=
  act (a_faa_sync r) ;;;
  emit [ev_scanb r] ;;;
  h <- act (a_ld_tlist) ;;
  pl <- scan_recs c (c_spin c) h [] ;;
  x <- loc (stage2 c r pl) ;;
  emit (map ev_dispose (fst x)) ;;;
  (if snd x then rt_extend c r else ret tt) ;;;
  emit [ev_scane r].

(** *** smr::help_scan
    for hprec in thread_list_: skip pThis; skip if free_; owner = thread_id_.load(); if owner == null then CAS
    (null -> me) else skip; hprec->sync(); move every retired pointer of hprec into pThis (scan( pThis ) when
    push says full); src.fini(); free_.store( true ); thread_id_.store( null ).   Finally scan( pThis ). *)
Fixpoint move_cells (c : cfg) (me : nat) (b i n : nat) : P unit :=
  match n with
  | O => ret tt
  | S n' =>
      ok <- loc (fun g => rt_push c me (nth i (rb_cells (grb g b)) 0) g) ;;
      (if ok then ret tt else scan c me) ;;;
      move_cells c me b (S i) n'
  end.

Fixpoint move_blocks (c : cfg) (fuel : nat) (me src : nat) (block : option nat) : P unit :=
  match block with
  | None => ret tt
  | Some b =>
      match fuel with
      | O => fuel_out
      | S f =>
          lastc <- loc (fun g => (g, if oeqb (Some b) (r_cb (grec g src)) then r_cc (grec g src) else c_RB c)) ;;
          move_cells c me b 0 lastc ;;;
          nx <- loc (fun g => (g, if oeqb (Some b) (r_cb (grec g src)) then None else rb_next (grb g b))) ;;
          move_blocks c f me src nx
      end
  end.

Fixpoint help_recs (c : cfg) (fuel : nat) (me : nat) (mytid : nat) (node : option nat) : P unit :=
  match node with
  | None => ret tt
  | Some h =>
      match fuel with
      | O => fuel_out
      | S f =>
          let continue := (nx <- loc (fun g => (g, r_next (grec g h))) ;; help_recs c f me mytid nx) in
          if Nat.eqb h me then continue
          else
            fr <- act (a_ld_free h) ;;
            if fr then continue
            else
              owner <- act (a_ld_tid h) ;;
              if negb (Nat.eqb owner 0) then continue
              else
                got <- act (a_cas_tid h 0 mytid) ;;
                if negb got then continue
                else
                  act (a_faa_sync h) ;;;
                  hd <- loc (fun g => (g, r_head (grec g h))) ;;
                  move_blocks c (c_spin c) me h hd ;;;
                  rt_fini c h ;;;
                  act (a_st_free h true) ;;;
                  act (a_st_tid h 0) ;;;
                  continue
      end
  end.

Definition help_scan (c : cfg) (me mytid : nat) : P unit :=
  h <- act (a_ld_tlist) ;;
  help_recs c (c_spin c) me mytid h ;;;
  scan c me.

(** *** smr::alloc_thread_data *)
Definition new_rec (c : cfg) : G -> G * nat := fun g =>
  (set_recs g (recs g ++ [mkRec None 0 false 0 (repeat 0 (eff_H c)) (repeat None (eff_H c)) (Some (GI (List.length (recs g)) 0))
                                 None None 0 None None 0]), List.length (recs g)).

Fixpoint reuse_recs (fuel : nat) (mytid : nat) (node : option nat) : P (option nat) :=
  match node with
  | None => ret None
  | Some h =>
      match fuel with
      | O => fuel_out
      | S f =>
          got <- act (a_cas_tid h 0 mytid) ;;
          if got then (act (a_st_free h false) ;;; ret (Some h))
          else nx <- loc (fun g => (g, r_next (grec g h))) ;; reuse_recs f mytid nx
      end
  end.

Fixpoint push_rec (fuel : nat) (r : nat) (old : option nat) : P unit :=
  match fuel with
  | O => fuel_out
  | S f =>
      loc (fun g => (upd_rec g r (rs_next old), tt)) ;;;
      x <- act (a_cas_tlist old (Some r)) ;;
      if fst x then ret tt else push_rec f r (snd x)
  end.

Definition alloc_thread_data (c : cfg) (mytid : nat) : P nat :=
  h <- act (a_ld_tlist) ;;
  o <- reuse_recs (c_spin c) mytid h ;;
  r <- match o with
       | Some r => ret r
       | None =>
           r <- loc (new_rec c) ;;
           act (a_st_ext r None) ;;;             (* thread_hp_storage constructor *)
           act (a_st_tid r mytid) ;;;
           old <- act (a_ld_tlist) ;;
           push_rec (c_spin c) r old ;;;
           ret r
       end ;;
  loc (hp_init c r) ;;;
  rt_init c r ;;;
  ret r.

(** *** smr::free_thread_data( pRec, callHelpScan ):
      hazards_.clear(); scan( pRec ); if ( callHelpScan ) help_scan( pRec );
      if ( retired_.empty()) { retired_.fini(); free_.store( true ); }
      else { free_block = current_block_->next_;
             if ( free_block ) { current_block_->next_ = nullptr; list_tail_ = current_block_;   // cf24f31
                                 while ( free_block ) { next = free_block->next_; retired_allocator_.free( free_block );
                                                        free_block = next; --block_count_; } } }
      thread_id_.store( null ); *)
Definition free_thread_data (c : cfg) (r mytid : nat) (help : bool) (det : list ev) : P unit :=
  hp_clear c r det ;;;
  scan c r ;;;
  (if help then help_scan c r mytid else ret tt) ;;;
  e <- loc (fun g => (g, rt_empty g r)) ;;
  (if e then rt_fini c r ;;; act (a_st_free r true)
   else
     fb <- loc (fun g => match r_cb (grec g r) with
                         | Some cb => let nb := rb_next (grb g cb) in
                                      (match nb with
                                       | Some _ =>
                                           let g1 := upd_rb g cb (bs_next None) in
                                           if c_oldtail c then g1
                                           else upd_rec g1 r (fun x => rs_ret (r_cb x) (r_cc x) (r_head x) (Some cb) (r_bcount x) x)
                                       | None => g end, nb)
                         | None => (g, None)
                         end) ;;
     (fix go (fuel : nat) (p : option nat) : P unit :=
        match p with
        | None => ret tt
        | Some b =>
            match fuel with
            | O => fuel_out
            | S f =>
                nx <- loc (fun g => (g, rb_next (grb g b))) ;;
                rt_free c b ;;;
                loc (fun g => (upd_rec g r (fun x => rs_ret (r_cb x) (r_cc x) (r_head x) (r_tail x) (pred (r_bcount x)) x), tt)) ;;;
                go f nx
            end
        end) (c_spin c) fb) ;;;
  act (a_st_tid r 0).

(** *** destruction of the singleton: smr::destruct( true ) = detach_all_thread(); ~smr() *)
Fixpoint detach_all (c : cfg) (fuel : nat) (mytid : nat) (node : option nat) : P unit :=
  match node with
  | None => ret tt
  | Some h =>
      match fuel with
      | O => fuel_out
      | S f =>
          nx <- loc (fun g => (g, r_next (grec g h))) ;;
          tid <- act (a_ld_tid h) ;;
          (if Nat.eqb tid 0 then ret tt else free_thread_data c h mytid false []) ;;;
          detach_all c f mytid nx
      end
  end.

(** pointers freed by ~smr for one record: every cell of the blocks before current_block_, then the cells
    of current_block_ below current_cell_ *)
Fixpoint final_cells (c : cfg) (fuel : nat) (g : G) (block cb : option nat) (cc : nat) : list nat :=
  match block, fuel with
  | Some b, S f =>
      if oeqb (Some b) cb then firstn cc (rb_cells (grb g b))
      else rb_cells (grb g b) ++ final_cells c f g (rb_next (grb g b)) cb cc
  | _, _ => []
  end.

Fixpoint destroy_recs (c : cfg) (fuel : nat) (node : option nat) : P unit :=
  match node with
  | None => ret tt
  | Some h =>
      match fuel with
      | O => fuel_out
      | S f =>
          ps <- loc (fun g => (g, match r_cb (grec g h) with
                                  | None => final_cells c (S (List.length (rbs g))) g (r_head (grec g h)) None 0
                                  | Some cb => final_cells c (S (List.length (rbs g))) g (r_head (grec g h)) (Some cb) (r_cc (grec g h))
                                  end)) ;;
          emit (map ev_dispose ps) ;;;
          rt_fini c h ;;;
          hp_clear c h [] ;;;
          nx <- loc (fun g => (g, r_next (grec g h))) ;;
          act (a_st_free h true) ;;;
          destroy_recs c f nx
      end
  end.

Definition destruct (c : cfg) (mytid : nat) : P unit :=
  h <- act (a_ld_tlist) ;;
  detach_all c (c_spin c) mytid h ;;;
  h2 <- act (a_ld_tlist) ;;
  act (a_st_tlist None) ;;;
  destroy_recs c (c_spin c) h2.

(** ** client operations (what harness/C02/main.cpp executes on the real cds::gc::DHP) *)
Inductive op :=
| OAttach | ODetach
| OGalloc (j : nat) | OGfree (j : nat)
| OAssign (j p : nat) | OClear (j : nat)
| OProtect (j k : nat) | OPublish (k p : nat)
| ORetire (p : nat) | OScan
| OWait (k v : nat).      (* spin until src_k == v: lets a program order its threads' phases itself *)

(** thread-local state of the client: tls_ and the Guard objects it holds *)
Record L := mkL { l_tls : option nat; l_guards : list (nat * gref) }.

Fixpoint gfind (l : list (nat * gref)) (j : nat) : option gref :=
  match l with
  | [] => None
  | (i, s) :: r => if Nat.eqb i j then Some s else gfind r j
  end.
Fixpoint gdrop (l : list (nat * gref)) (j : nat) : list (nat * gref) :=
  match l with
  | [] => []
  | (i, s) :: r => if Nat.eqb i j then gdrop r j else (i, s) :: gdrop r j
  end.

Definition zl (l : list nat) : list Z := map zn l.
Definition inv (code : nat) (args : list nat) : P unit := emit [EvCli "op" (zl (code :: args))].
Definition rsp (v : nat) : P unit := emit [EvCli "ret" [zn v]].
Definition skip : P unit := emit [EvCli "skip" []].

(** Guard::protect( src ): pCur = src.load(); do { pRet = pCur; assign( pCur ); pCur = src.load(); } while ( pRet != pCur ) *)
Fixpoint protect_loop (fuel : nat) (r : nat) (s : gref) (k : nat) (pcur : nat) : P nat :=
  match fuel with
  | O => fuel_out
  | S f =>
      act (a_st_slot s pcur) ;;;
      act (a_faa_sync r) ;;;
      v <- act (a_ld_src k) ;;
      if Nat.eqb v pcur then ret v else protect_loop f r s k v
  end.

Fixpoint wait_loop (fuel : nat) (k v : nat) : P unit :=
  match fuel with
  | O => fuel_out
  | S f => x <- act (a_ld_src k) ;; if Nat.eqb x v then ret tt else wait_loop f k v
  end.

Definition run_op (c : cfg) (t : nat) (l : L) (o : op) : P L :=
  let mytid := S t in
  match o with
  | OAttach =>
      inv 1 [] ;;;
      match l_tls l with
      | Some _ => skip ;;; ret l
      | None => r <- alloc_thread_data c mytid ;; emit [ev_att r] ;;; rsp 0 ;;; ret (mkL (Some r) [])
      end
  | ODetach =>
      inv 2 [] ;;;
      match l_tls l with
      | None => skip ;;; ret l
      | Some r => free_thread_data c r mytid true [ev_relall; ev_det r] ;;; rsp 0 ;;; ret (mkL None [])
      end
  | OGalloc j =>
      inv 3 [j] ;;;
      match l_tls l, gfind (l_guards l) j with
      | Some r, None =>
          s <- hp_galloc c r ;;
          match s with
          | Some s => emit [ev_own s] ;;; rsp 0 ;;; ret (mkL (l_tls l) ((j, s) :: l_guards l))
          | None => emit [EvCli "modelerror" []] ;;; ret l
          end
      | _, _ => skip ;;; ret l
      end
  | OGfree j =>
      inv 4 [j] ;;;
      match l_tls l, gfind (l_guards l) j with
      | Some r, Some s => emit [ev_rel s] ;;; hp_gfree r s ;;; rsp 0 ;;; ret (mkL (l_tls l) (gdrop (l_guards l) j))
      | _, _ => skip ;;; ret l
      end
  | OAssign j p =>
      inv 5 [j; p] ;;;
      match l_tls l, gfind (l_guards l) j with
      | Some r, Some s => act (a_st_slot s p) ;;; act (a_faa_sync r) ;;; rsp 0 ;;; ret l
      | _, _ => skip ;;; ret l
      end
  | OClear j =>
      inv 6 [j] ;;;
      match l_tls l, gfind (l_guards l) j with
      | Some r, Some s => act (a_st_slot s 0) ;;; rsp 0 ;;; ret l
      | _, _ => skip ;;; ret l
      end
  | OProtect j k =>
      inv 7 [j; k] ;;;
      match l_tls l, gfind (l_guards l) j with
      | Some r, Some s =>
          p0 <- act (a_ld_src k) ;;
          v <- protect_loop (c_spin c) r s k p0 ;;
          rsp v ;;; ret l
      | _, _ => skip ;;; ret l
      end
  | OPublish k p =>
      inv 8 [k; p] ;;; act (a_st_src k p) ;;; rsp 0 ;;; ret l
  | ORetire p =>
      inv 9 [p] ;;;
      match l_tls l with
      | Some r =>
          ok <- loc (rt_push c r p) ;;
          (if ok then ret tt else scan c r) ;;;
          rsp 0 ;;; ret l
      | None => skip ;;; ret l
      end
  | OScan =>
      inv 10 [] ;;;
      match l_tls l with
      | Some r => scan c r ;;; rsp 0 ;;; ret l
      | None => skip ;;; ret l
      end
  | OWait k v =>
      inv 15 [k; v] ;;; wait_loop (c_spin c) k v ;;; rsp 0 ;;; ret l
  end.

Fixpoint run_ops (c : cfg) (t : nat) (l : L) (os : list op) : P unit :=
  match os with
  | [] => ret tt
  | o :: r => l' <- run_op c t l o ;; run_ops c t l' r
  end.

Definition to_unit {R} (p : P R) : @dprog G ev unit := dbind p (fun _ => DRet tt).

Definition thread_src (c : cfg) (t : nat) (os : list op) : @dprog G ev unit :=
  DAct a_begin (fun _ => to_unit (run_ops c t (mkL None []) os)).

Definition init (c : cfg) : G := mkG [] [] [] None None None (repeat 0 (c_nsrc c)) false.

Definition V := @dprog G ev unit.

Definition init_cfg (fuel : nat) (c : cfg) (ths : list (list op)) : Conc.config G V ev :=
  Conc.Cfg (init c) (map (fun x => compile fuel (thread_src c (fst x) (snd x))) (combine (seq 0 (List.length ths)) ths)) [].

(** ** entry point for the extracted driver *)
Definition zn' (z : Z) : nat := Z.to_nat z.

(** compact encodings: [11; a; b] retire a..b;  [12; j0; a; b] for i in a..b: Guard j0+i-a allocated and
    assigned object i;  [13; j0; n] free guards j0..j0+n-1;  [14; j0; n] clear guards j0..j0+n-1 *)
Definition decode_op (o : list Z) : list op :=
  match o with
  | [1%Z] => [OAttach]
  | [2%Z] => [ODetach]
  | [3%Z; j] => [OGalloc (zn' j)]
  | [4%Z; j] => [OGfree (zn' j)]
  | [5%Z; j; p] => [OAssign (zn' j) (zn' p)]
  | [6%Z; j] => [OClear (zn' j)]
  | [7%Z; j; k] => [OProtect (zn' j) (zn' k)]
  | [8%Z; k; p] => [OPublish (zn' k) (zn' p)]
  | [9%Z; p] => [ORetire (zn' p)]
  | [10%Z] => [OScan]
  | [15%Z; k; v] => [OWait (zn' k) (zn' v)]
  | [11%Z; a; b] => map (fun i => ORetire (zn' a + i)) (seq 0 (S (zn' b) - zn' a))
  | [12%Z; j0; a; b] =>
      flat_map (fun i => [OGalloc (zn' j0 + i); OAssign (zn' j0 + i) (zn' a + i)]) (seq 0 (S (zn' b) - zn' a))
  | [13%Z; j0; n] => map (fun i => OGfree (zn' j0 + i)) (seq 0 (zn' n))
  | [14%Z; j0; n] => map (fun i => OClear (zn' j0 + i)) (seq 0 (zn' n))
  | _ => []
  end.

Definition decode_ops (os : list (list Z)) : list op := flat_map decode_op os.

Definition is_cli_ev (e : nat * ev) : bool := match snd e with EvCli _ _ => true | _ => false end.

(** cfg = [H; GB; RB; old_extend; spin fuel; nsrc; destroy; old_tail] ; after the scheduled part, when every thread
    finished and destroy = 1, smr::destruct( true ) is run by the main thread (index = number of threads): only
    its client events (the disposer calls) are part of the log *)
Definition run_case (cf : list Z) (ths : list (list (list Z))) (sched : list nat) (fuel : nat)
  : list (nat * ev) * bool :=
  let c := mkCfg (zn' (nth 0 cf 16%Z)) (zn' (nth 1 cf 16%Z)) (zn' (nth 2 cf 256%Z))
                 (Z.eqb (nth 3 cf 0%Z) 1) (zn' (nth 4 cf 100000%Z)) (zn' (nth 5 cf 4%Z)) (Z.eqb (nth 7 cf 0%Z) 1) in
  let destroy := Z.eqb (nth 6 cf 1%Z) 1 in
  let n := List.length ths in
  let r := Conc.run fuel 0 sched (init_cfg fuel c (map decode_ops ths)) in
  if snd r && destroy then
    let d := Conc.run fuel 0 []
               (Conc.Cfg (Conc.shared (fst r)) [compile fuel (DAct a_begin (fun _ => to_unit (destruct c (S n))))] []) in
    (Conc.trace (fst r) ++ map (fun e => (n, snd e)) (filter is_cli_ev (Conc.trace (fst d)))
       ++ (if oob (Conc.shared (fst d)) then [(n, EvCli "_oob" [])] else []), snd d)
  else (Conc.trace (fst r) ++ (if oob (Conc.shared (fst r)) then [(n, EvCli "_oob" [])] else []), snd r).
