(** * Model of cds::algo::flat_combining::kernel with a wait strategy whose wakeup() calls kernel::wakeup_any()
      (wait_strategy::single_mutex_multi_condvar / multi_mutex_multi_condvar), and of kernel::invoke_exclusive.

    Extension of LV.Model.FcKernel: every definition of that file is re-used unchanged (accesses, publish,
    combining, compact_list ... with [chk = true], the current tree); only the programs that contain a call of
    `m_waitStrategy.wakeup( *this )` are new.  One atomic access per [Act], -DNDEBUG.

    C++ (cds/algo/flat_combining/kernel.h), quoted in execution order:

    wakeup_any()                    pRec = m_pHead;
                                    while ( pRec ) {
                                      if ( pRec->nState.load() == active && pRec->op() >= req_Operation ) {
                                        m_waitStrategy.notify( *this, *pRec );  break; }
                                      pRec = pRec->pNext.load(); }
       -- the same sequence of accesses as kernel::iterator::skip_inactive started at m_pHead
          ([FcKernel.skip_inactive fuel (S head)]); notify() of the strategy performs no atomic access.

    m_waitStrategy.wait( fc, rec )  if ( fc.get_operation( rec ) >= req_Operation ) { unique_lock lock( rec.m_mutex );
       (multi_mutex_multi_condvar)    if ( fc.get_operation( rec ) >= req_Operation ) {
                                        if ( rec.m_wakeup ) { rec.m_wakeup = false; return true; }
                                        ret = rec.m_condvar.wait_for( lock, ... ) == no_timeout;  rec.m_wakeup = false;  return ret; } }
                                    return false;
       -- get_operation( rec ) = rec.op( acquire ): two loads of the own request word; the mutex, the condition
          variable and the flag m_wakeup are not atomics of the kernel.  kernel::wait_for_combining uses the
          result of wait() only for a statistics counter (`if ( wait()) m_Stat.onWakeupByNotifying();`), so the
          flag does not influence the accesses of the kernel and is not part of the model's state (the harness
          strategy keeps it, counts the waits that returned true, and a kernel that DOES act on the result
          diverges from this model at that point).

    wait_for_combining( pRec )      while ( pRec->op() != req_Response ) { republish( pRec );  wait();
                                      if ( m_Mutex.try_lock()) {
                                        if ( pRec->op() == req_Response ) {
       [wkin = true,  the repaired order]    m_waitStrategy.wakeup( *this );  m_Mutex.unlock();  break; }
       [wkin = false, the order before]      m_Mutex.unlock();  m_waitStrategy.wakeup( *this );  break; }
                                        return false; } }
                                    return true;

    invoke_exclusive( f )           { lock_guard l( m_Mutex );  f();
       [wkin = true]                  m_waitStrategy.wakeup( *this ); }
       [wkin = false]               }  m_waitStrategy.wakeup( *this );
       -- f is the empty functor here (the containers pass functors that touch only the sequential container).
       -- m_Mutex.lock() of cds::sync::spin (cds/sync/spinlock.h, TATAS):
                                    while ( !try_lock()) { while ( m_spin.load()) backoff(); }

    [wk = false]: wait_strategy::backoff with the empty back-off: wait() and wakeup() perform no atomic access;
    the programs below then perform exactly the accesses of LV.Model.FcKernel.

    Client-visible events in addition to those of LV.Model.FcKernel (emitted by harness/C23/main.cpp at the same
    points): "excl" before invoke_exclusive, "excldone" after it. *)
From Coq Require Import ZArith List String Bool Lia PeanoNat.
From LV Require Import Base.Conc Base.Events Model.FcKernel.
Import ListNotations.
Local Open Scope string_scope.
Local Open Scope list_scope.

Set Implicit Arguments.

Section KernelWake.
  Variable C : Type.
  Variable Rs : Type.
  Variable rs0 : Rs.
  Variable rs_enc : Rs -> list Z.
  Variable capply : C -> nat -> Z -> C * Rs.
  Variable P : Type.
  Variable pinit : P.
  Variable pvisit : P -> C -> nat -> nat -> nat -> Z -> P * C * list (nat * Rs).
  (** [wk]: the wait strategy is of the condition-variable kind: wait() reads the request word (twice while it
      is pending) and wakeup() calls fc.wakeup_any();  [wkin]: wakeup() is called while the combiner
      lock is still held (the repaired kernel) / after the lock was released (before the repair) *)
  Variable wk : bool.
  Variable wkin : bool.

  Notation G := (FcKernel.G C Rs).
  Notation V := (FcKernel.V Rs P).
  Notation prog := (Conc.prog G V ev).
  Notation kret := (@FcKernel.ret C Rs P).
  Notation kfail := (@FcKernel.fail C Rs P).
  Notation kobind := (@FcKernel.obind C Rs P).
  Notation kskip := (@FcKernel.skip_inactive C Rs P).
  Notation krepublish := (@FcKernel.republish C Rs P).
  Notation kcombining := (@FcKernel.combining C Rs rs0 rs_enc capply P pinit pvisit true).
  Notation kas_combiner := (@FcKernel.as_combiner C Rs rs0 rs_enc capply P pinit pvisit true).
  Notation kacquire := (@FcKernel.acquire_record C Rs rs0 P).
  Notation kexit := (@FcKernel.thread_exit C Rs P).

  (** m_spin.load() of the spin lock *)
  Definition a_ldlock : G -> G * V * list ev :=
    fun g => (g, VN Rs P (if g_lock g then 1 else 0), [EvAcc KLd obj_lock true]).

  (** m_waitStrategy.wakeup( *this ) *)
  Definition wakeup (fuel : nat) : prog (option unit) :=
    if wk then kobind (kskip fuel (S head)) (fun _ => kret tt) else kret tt.

  (** m_waitStrategy.wait( *this, *pRec ) followed by [k] *)
  Definition wait_strategy {A} (r : nat) (k : prog A) : prog A :=
    if wk then Act (@a_ld C Rs P r FReq) (fun q =>
               if Nat.leb req_Operation (vn q) then Act (@a_ld C Rs P r FReq) (fun _ => k) else k)
    else k.

  (** result: [true] = the request was served by another combiner, [false] = this thread holds the lock *)
  Fixpoint wait_for_combining (fuel pfuel r : nat) : prog (option bool) :=
    match fuel with
    | O => kfail
    | S fu =>
        Act (@a_ld C Rs P r FReq) (fun q =>
        if Nat.eqb (vn q) req_Response then kret true else
        kobind (krepublish pfuel r) (fun _ =>
        wait_strategy r (
        Act (@a_xchg C Rs P) (fun o =>
        if Nat.eqb (vn o) 0 then
          Emit [EvCli "lock" []] (
          Act (@a_ld C Rs P r FReq) (fun q' =>
          if Nat.eqb (vn q') req_Response then
            if wkin then
              kobind (wakeup pfuel) (fun _ =>
              Emit [EvCli "unlock" []] (Act (@a_unlock C Rs P) (fun _ => kret true)))
            else
              Emit [EvCli "unlock" []] (Act (@a_unlock C Rs P) (fun _ =>
              kobind (wakeup pfuel) (fun _ => kret true)))
          else kret false))
        else wait_for_combining fu pfuel r))))
    end.

  Definition try_combining (fuel mask npass : nat) (batch : bool) (r : nat) : prog (option unit) :=
    Act (@a_xchg C Rs P) (fun o =>
    if Nat.eqb (vn o) 0 then kas_combiner fuel mask npass batch r
    else kobind (wait_for_combining fuel fuel r) (fun served =>
         if served then kret tt
         else kobind (krepublish fuel r) (fun _ =>
              kobind (kcombining fuel mask npass batch) (fun _ =>
              Emit [EvCli "unlock" []] (Act (@a_unlock C Rs P) (fun _ => kret tt)))))).

  Definition request (fuel mask npass : nat) (batch : bool) (t : nat) (my : option nat) (op : nat) (arg : Z)
    : prog (option nat) :=
    Emit [EvCli "inv" [Z.of_nat op; arg]] (
    kobind (kacquire fuel my) (fun r =>
    Act (@a_request C Rs P r op t arg) (fun _ =>
    kobind (try_combining fuel mask npass batch r) (fun _ =>
    Act (@a_release C Rs P r) (fun v =>
    Emit [EvCli "ret" (match v with VR _ rs => rs_enc rs | _ => [] end)] (kret r)))))).

  (** cds::sync::spin::lock(): [spinning] = inside the inner loop `while ( m_spin.load()) backoff();` *)
  Fixpoint spin_lock (fuel : nat) (spinning : bool) : prog (option unit) :=
    match fuel with
    | O => kfail
    | S fu =>
        if spinning then Act a_ldlock (fun v => if Nat.eqb (vn v) 0 then spin_lock fu false else spin_lock fu true)
        else Act (@a_xchg C Rs P) (fun o => if Nat.eqb (vn o) 0 then kret tt else spin_lock fu true)
    end.

  (** invoke_exclusive with the empty functor *)
  Definition invoke_exclusive (fuel : nat) : prog (option unit) :=
    Emit [EvCli "excl" []] (
    kobind (spin_lock fuel false) (fun _ =>
    Emit [EvCli "lock" []] (
    if wkin then
      kobind (wakeup fuel) (fun _ =>
      Emit [EvCli "unlock" []] (Act (@a_unlock C Rs P) (fun _ => Emit [EvCli "excldone" []] (kret tt))))
    else
      Emit [EvCli "unlock" []] (Act (@a_unlock C Rs P) (fun _ =>
      kobind (wakeup fuel) (fun _ => Emit [EvCli "excldone" []] (kret tt))))))).

  Inductive wop := WReq (batch : bool) (op : nat) (arg : Z) | WExit | WExcl.

  Fixpoint run_ops (fuel mask npass t : nat) (my : option nat) (os : list wop) : prog (option unit) :=
    match os with
    | [] => kexit my
    | WReq batch op arg :: rest =>
        kobind (request fuel mask npass batch t my op arg) (fun r => run_ops fuel mask npass t (Some r) rest)
    | WExit :: rest => kobind (kexit my) (fun _ => run_ops fuel mask npass t None rest)
    | WExcl :: rest => kobind (invoke_exclusive fuel) (fun _ => run_ops fuel mask npass t my rest)
    end.

  Definition thread_prog (fuel mask npass t : nat) (os : list wop) : Conc.thread G V ev :=
    Act (@a_begin C Rs P) (fun _ =>
    Conc.bind (run_ops fuel mask npass t None os) (fun o =>
    match o with Some _ => Ret tt | None => Emit [EvCli "outoffuel" []] (Ret tt) end)).

  Fixpoint thread_progs (fuel mask npass t : nat) (ths : list (list wop)) : list (Conc.thread G V ev) :=
    match ths with
    | [] => []
    | os :: rest => thread_prog fuel mask npass t os :: thread_progs fuel mask npass (S t) rest
    end.

  Definition init_cfg (fuel mask npass : nat) (c0 : C) (ths : list (list wop)) : Conc.config G V ev :=
    Conc.Cfg (FcKernel.init rs0 c0) (thread_progs fuel mask npass 0 ths) [].

End KernelWake.

Definition decode_wop (o : list Z) : option wop :=
  match o with
  | [1; rid] => Some (WReq false op_single rid)
  | [2; rid] => Some (WReq true op_pair rid)
  | [3] => Some WExit
  | [4] => Some WExcl
  | _ => None
  end%Z.

Fixpoint decode_wops (os : list (list Z)) : list wop :=
  match os with
  | [] => []
  | o :: r => match decode_wop o with Some x => x :: decode_wops r | None => decode_wops r end
  end.

(** the counting container of harness/C23 on this kernel *)
Definition cntw_init_cfg (wk wkin : bool) (fuel mask npass : nat) (ths : list (list wop)) :=
  init_cfg 0 cnt_enc cnt_apply (None : cnt_P) cnt_visit wk wkin fuel mask npass (fun _ : Z => 0) ths.

(** cfg = [compact factor; combine pass count; loop fuel; compact_list version; wait strategy; wakeup order]
      wait strategy 0 (default) = wait_strategy::backoff: the case is run exactly as by LV.Model.FcKernel.run_case
                                  (the configurations of Properties_C23's theorems about [cnt_init_cfg]);
      wait strategy 1 = wakeup() calls wakeup_any(): this file's kernel, compact_list of the current tree;
      wakeup order 1 (default) = inside the combiner lock, 0 = after the unlock (the kernel before the repair). *)
Definition run_case (cfg : list Z) (ths : list (list (list Z))) (sched : list nat) (fuel : nat)
  : list (nat * ev) * bool :=
  let cf := Z.to_nat (nth 0 cfg 1%Z) in
  let pc := Z.to_nat (nth 1 cfg 1%Z) in
  let lfuel := Z.to_nat (nth 2 cfg 400%Z) in
  if Z.eqb (nth 4 cfg 0%Z) 0 then
    (* the body of FcKernel.run_case (not called by name: the extracted function must be the only `run_case`) *)
    let chk := negb (Z.eqb (nth 3 cfg 1%Z) 0) in
    let r := Conc.run fuel 0 sched
               (FcKernel.init_cfg 0 cnt_enc cnt_apply (None : cnt_P) cnt_visit chk lfuel (compact_mask cf) pc
                                  (fun _ => 0) (map decode_cops ths)) in
    (Conc.trace (fst r), snd r)
  else
  let wkin := negb (Z.eqb (nth 5 cfg 1%Z) 0) in
  let r := Conc.run fuel 0 sched (cntw_init_cfg true wkin lfuel (compact_mask cf) pc (map decode_wops ths)) in
  (Conc.trace (fst r), snd r).

Lemma run_case_backoff cfg ths sched fuel :
  nth 4 cfg 0%Z = 0%Z -> run_case cfg ths sched fuel = FcKernel.run_case cfg ths sched fuel.
Proof. intros H. unfold run_case, FcKernel.run_case. rewrite H. reflexivity. Qed.
