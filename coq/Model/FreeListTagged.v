(** * Model of cds::intrusive::TaggedFreeList (cds/intrusive/free_list_tagged.h), one atomic access per [Act].

    C++ (current tree):

      struct node { atomic<node*> m_freeListNext; };
      struct tagged_ptr { node* ptr; uintptr_t tag; };
      atomic<tagged_ptr> m_Head;                                  // 128-bit, double-width CAS

      void put( node* pNode ) {
          tagged_ptr currentHead = m_Head.load();                                       // ld head
          tagged_ptr newHead = { pNode };
          do {
              newHead.tag = currentHead.tag + 1;
              pNode->m_freeListNext.store( currentHead.ptr );                           // st next
          } while ( !m_Head.compare_exchange_weak( currentHead, newHead ));            // cas head (failure: currentHead := current)
      }

      node* get() {
          tagged_ptr currentHead = m_Head.load();                                       // ld head
          tagged_ptr newHead;
          while ( currentHead.ptr != nullptr ) {
              newHead.ptr = currentHead.ptr->m_freeListNext.load();                     // ld next
              newHead.tag = currentHead.tag + 1;
              if ( m_Head.compare_exchange_weak( currentHead, newHead ))                // cas head (failure: currentHead := current)
                  break;
          }
          return currentHead.ptr;
      }

    compare_exchange_weak never fails spuriously under the hook (it is compare_exchange_strong).
    The tag is a uintptr_t (64 bits on this target): kept in [Z], incremented modulo 2^64, so a wrap of
    the tag behaves as in C++ (the theorems assume it does not happen).

    Client operations, nodes, initial state: exactly as in LV.Model.FreeList. *)
From Coq Require Import ZArith List String Bool Lia PeanoNat.
From LV Require Import Base.Conc Base.Events Model.FreeList.
Import ListNotations.
Local Open Scope Z_scope.
Local Open Scope string_scope.

Definition u64 (x : Z) : Z := x mod 18446744073709551616.

Record TG := mkTG { thead : nat; ttag : Z; tnext : nat -> nat }.

(** value returned by an access: pointer part and tag part *)
Definition TV : Type := (nat * Z)%type.
Definition tprog := Conc.prog TG TV ev.

Definition tset_head (g : TG) (h : nat) (tg : Z) : TG := mkTG h tg (tnext g).
Definition tset_next (g : TG) (n h : nat) : TG :=
  mkTG (thead g) (ttag g) (fun x => if Nat.eqb x n then h else tnext g x).

Definition tact := TG -> TG * TV * list ev.

Definition ta_begin : tact := fun g => (g, (O, 0), [EvAcc KBegin [] true]).
Definition ta_ld_head : tact := fun g => (g, (thead g, ttag g), [EvAcc KLd obj_head true]).
Definition ta_ld_next (n : nat) : tact := fun g => (g, (tnext g n, 0), [EvAcc KLd (obj_next n) true]).
Definition ta_st_next (n h : nat) : tact := fun g => (tset_next g n h, (O, 0), [EvAcc KSt (obj_next n) true]).
(** double-width CAS on {ptr, tag}: returns the pair read; success iff both parts equal the expected pair *)
Definition ta_cas_head (ep : nat) (et : Z) (dp : nat) (dt : Z) : tact := fun g =>
  if (Nat.eqb (thead g) ep && Z.eqb (ttag g) et)%bool
  then (tset_head g dp dt, (thead g, ttag g), [EvAcc KCas obj_head true])
  else (g, (thead g, ttag g), [EvAcc KCas obj_head false]).

Definition same_head (v : TV) (p : nat) (t : Z) : bool := (Nat.eqb (fst v) p && Z.eqb (snd v) t)%bool.

Fixpoint tput_loop (fuel : nat) (n : nat) (hp : nat) (ht : Z) : tprog bool :=
  match fuel with
  | O => Ret false
  | S f =>
      Act (ta_st_next n hp) (fun _ =>
      Act (ta_cas_head hp ht n (u64 (ht + 1))) (fun v =>
        if same_head v hp ht then Ret true else tput_loop f n (fst v) (snd v)))
  end.

Definition tput (fuel : nat) (n : nat) : tprog bool :=
  Act ta_ld_head (fun v => tput_loop fuel n (fst v) (snd v)).

Fixpoint tget_loop (fuel : nat) (hp : nat) (ht : Z) : tprog (option nat) :=
  match fuel with
  | O => Ret None
  | S f =>
      if Nat.eqb hp 0 then Ret (Some O) else
      Act (ta_ld_next hp) (fun v =>
        let nx := fst v in
        Act (ta_cas_head hp ht nx (u64 (ht + 1))) (fun v =>
          if same_head v hp ht then Ret (Some hp) else tget_loop f (fst v) (snd v)))
  end.

Definition tget (fuel : nat) : tprog (option nat) :=
  Act ta_ld_head (fun v => tget_loop fuel (fst v) (snd v)).

Fixpoint trun_ops (fuel : nat) (os : list op) (held : list nat) : tprog unit :=
  match os with
  | [] => Ret tt
  | OGet :: r =>
      Emit [EvCli "inv_get" []]
        (Conc.bind (tget fuel) (fun res =>
           match res with
           | Some O => Emit [EvCli "ret_get" [-1]] (trun_ops fuel r held)
           | Some n => Emit [EvCli "ret_get" (zn n)] (trun_ops fuel r (held ++ [n]))
           | None => Emit [EvCli "outoffuel" []] (Ret tt)
           end))
  | OPut k :: r =>
      match nth_error held k with
      | None => Emit [EvCli "skip" []] (trun_ops fuel r held)
      | Some n =>
          Emit [EvCli "inv_put" (zn n)]
            (Conc.bind (tput fuel n) (fun ok =>
               if ok then Emit [EvCli "ret_put" []] (trun_ops fuel r (remove_nth k held))
               else Emit [EvCli "outoffuel" []] (Ret tt)))
      end
  end.

Definition tthread_prog (fuel : nat) (os : list op) (held : list nat) : Conc.thread TG TV ev :=
  Act ta_begin (fun _ => trun_ops fuel os held).

(** initial state: nodes 1..k put one after the other: head = {k, tag k}, next i = i-1 *)
Definition tinit (k : nat) : TG :=
  mkTG k (Z.of_nat k) (fun n => if (Nat.leb 1 n && Nat.leb n k)%bool then Nat.pred n else O).

Definition tinit_range (lo k : nat) : TG :=
  mkTG (if Nat.leb lo k then k else O) (if Nat.leb lo k then Z.of_nat (S k - lo) else 0)
       (fun n => if (Nat.leb (S lo) n && Nat.leb n k)%bool then Nat.pred n else O).

Definition tinit_cfg (fuel k : nat) (ths : list (list op * list nat)) : Conc.config TG TV ev :=
  Conc.Cfg (tinit k) (map (fun th => tthread_prog fuel (fst th) (snd th)) ths) [].

(** cfg as in LV.Model.FreeList.fl_run_case (variant 1) *)
Definition trun_case (cfg : list Z) (ths : list (list (list Z))) (sched : list nat) (fuel : nat)
  : list (nat * ev) * bool :=
  let lfuel := Z.to_nat (nth 1 cfg 100) in
  let k := Z.to_nat (nth 3 cfg 0) in
  let owners := skipn 4 cfg in
  let r := Conc.run fuel 0 sched (tinit_cfg lfuel k (decode_threads k owners ths)) in
  (Conc.trace (fst r), snd r).
