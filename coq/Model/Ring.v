(** * Model of cds::container::WeakRingBuffer<T, Traits> (cds/container/weak_ringbuffer.h) over the
      buffers of cds/opt/buffer.h, one atomic access per [Act].

    Two fixed threads: thread 0 is the producer, thread 1 the consumer.  The atomics are [front_] and
    [back_] (uint64_t counters); [pfront_] (producer's cached copy of front_) and [cback_] (consumer's
    cached copy of back_) are plain members touched by one thread only: they live in the continuation of
    that thread.  Buffer cells are plain memory: they are part of [G], and they are read / written by the
    thread-local code that follows an atomic access, i.e. inside the same scheduler step as that access
    (the scheduler of hooks/include/.../sched.h switches threads only immediately before an atomic access).

    C++ (current tree), NDEBUG so the asserts are gone:

      bool push( Q* arr, size_t count, CopyFunc copy ) {
          counter_type back = back_.load( relaxed );
          if ( static_cast<size_t>( pfront_ + capacity() - back ) < count ) {
              pfront_ = front_.load( acquire );
              if ( static_cast<size_t>( pfront_ + capacity() - back ) < count )
                  return false;                                  // not enough space
          }
          for ( size_t i = 0; i < count; ++i, ++back )
              copy( buffer_[buffer_.mod( back )], arr[i] );
          back_.store( back, release );
          return true;
      }
      emplace( args... ) / enqueue_with( f ):    the same with count == 1:
          back = back_.load; if ( pfront_ + capacity() - back < 1 ) { pfront_ = front_.load; if ( ... < 1 ) return false; }
          new( &buffer_[buffer_.mod( back )] ) value_type( args... );   /   f( buffer_[buffer_.mod( back )] );
          back_.store( back + 1 ); return true;
      push( value_type const& ) = enqueue = emplace.

      bool pop( Q* arr, size_t count, CopyFunc copy ) {
          counter_type front = front_.load( relaxed );
          if ( static_cast<size_t>( cback_ - front ) < count ) {
              cback_ = back_.load( acquire );
              if ( static_cast<size_t>( cback_ - front ) < count )
                  return false;
          }
          for ( size_t i = 0; i < count; ++i, ++front ) { value_type& val = buffer_[buffer_.mod( front )]; copy( arr[i], val ); cleaner( val ); }
          front_.store( front, release );
          return true;
      }
      dequeue( Q& val ) = pop( &val, 1 );
      dequeue_with( f ):  front = front_.load; if ( cback_ - front < 1 ) { cback_ = back_.load; if ( cback_ - front < 1 ) return false; }
                          f( buffer_[buffer_.mod( front )] ); front_.store( front + 1 ); return true;
      value_type* front(): front = front_.load; if ( cback_ - front < 1 ) { cback_ = back_.load; if ( ... < 1 ) return nullptr; }
                          return &buffer_[buffer_.mod( front )];
      bool pop_front():   front = front_.load; if ( cback_ - front < 1 ) { cback_ = back_.load; if ( ... < 1 ) return false; }
                          front_.store( front + 1 ); return true;
      size():  back_.load( relaxed ) - front_.load( relaxed )       (g++ evaluates the left operand first)
      empty(): front_.load( relaxed ) == back_.load( relaxed )

    cds/opt/buffer.h, every buffer class:
      size_t mod( size_t idx ) { constexpr_if ( c_bExp2 ) return idx & ( capacity() - 1 ); else return idx % capacity(); }
    ([uninitialized_dynamic_buffer<T,Alloc,Exp2>] rounds the requested capacity up to a power of two when
    Exp2 is true; the static buffers static_assert it.)

    The value cleaner of the harness type (int) is trivial, so popping writes nothing to the cells.

    Counters are uint64_t: every difference the code computes and every incremented counter goes through
    [u64] (reduction modulo 2^64).  The theorems assume the total number of pushed elements plus the capacity
    is below 2^64, which excludes wrap-around (with a capacity that is not a power of two the index
    [idx % capacity] is not continuous across a wrap of the counter).

    Client operations (what harness/C12/main.cpp executes on the real ring), integer encoding:
      producer (thread 0)
        [1; v1; ...; vk]  push( arr, k )                    "inv_push v1..vk"  ->  "push_ok v1..vk" | "push_fail k"
        [2; v]            push( v ) (= enqueue = emplace)   same events with k = 1
        [3; v]            enqueue_with( [v](int& d){ d = v; } )
      consumer (thread 1)
        [4; k]            pop( arr, k )                     "inv_pop k"  ->  "pop_ok v1..vk" | "pop_fail k"
        [5]               pop( val ) (= dequeue)            k = 1
        [6]               dequeue_with( f )                 k = 1
        [7]               p = front(); if ( p ) { v = *p; pop_front(); }
                                                            "inv_pop 1"  ->  "pop_ok v" | "pop_fail 1" | "popfront_fail"
        [8]               p = front(); if ( p ) v = *p;     "inv_front" -> "front_ok v" | "front_null"
      either thread
        [9]               size()                            "inv_size" -> "size n"
        [10]              empty()                           "inv_empty" -> "empty b" *)
From Coq Require Import ZArith List String Bool Lia.
From LV Require Import Base.Conc Base.Events.
Import ListNotations.
Local Open Scope Z_scope.
Local Open Scope string_scope.

Definition two64 : Z := 2 ^ 64.
Definition u64 (x : Z) : Z := x mod two64.

(** shared state: the two atomic counters and the buffer cells (indexed 0 .. capacity-1) *)
Record G := mkG { g_front : Z; g_back : Z; g_cells : Z -> Z }.

(** value returned by an access: the value loaded, and the cell values read by the local code that
    follows the access in the same step *)
Definition V := (Z * list Z)%type.

Definition prog := Conc.prog G V ev.

(** buffer_.mod *)
Definition idx (exp2 : bool) (cap x : Z) : Z := if exp2 then Z.land x (cap - 1) else x mod cap.

Definition set_front (g : G) (v : Z) : G := mkG v (g_back g) (g_cells g).
Definition set_back (g : G) (v : Z) : G := mkG (g_front g) v (g_cells g).
Definition set_cell (g : G) (i v : Z) : G :=
  mkG (g_front g) (g_back g) (fun j => if Z.eqb j i then v else g_cells g j).

(** for ( i = 0; i < count; ++i, ++back ) buffer_[buffer_.mod( back )] = arr[i] *)
Fixpoint write_cells (exp2 : bool) (cap : Z) (g : G) (b : Z) (vals : list Z) : G :=
  match vals with
  | [] => g
  | v :: r => write_cells exp2 cap (set_cell g (idx exp2 cap b) v) (u64 (b + 1)) r
  end.

(** for ( i = 0; i < count; ++i, ++front ) arr[i] = buffer_[buffer_.mod( front )] *)
Fixpoint read_cells (exp2 : bool) (cap : Z) (g : G) (f : Z) (n : nat) : list Z :=
  match n with
  | O => []
  | S n' => g_cells g (idx exp2 cap f) :: read_cells exp2 cap g (u64 (f + 1)) n'
  end.

Definition obj_front : list Z := [0].
Definition obj_back : list Z := [1].

Definition zlen (l : list Z) : Z := Z.of_nat (List.length l).

(** static_cast<size_t>( pfront_ + capacity() - back ) < count *)
Definition space_lt (cap pf back n : Z) : bool := Z.ltb (u64 (pf + cap - back)) n.
(** static_cast<size_t>( cback_ - front ) < count *)
Definition avail_lt (cb front n : Z) : bool := Z.ltb (u64 (cb - front)) n.

Definition a_begin : G -> G * V * list ev := fun g => (g, (0, []), [EvAcc KBegin [] true]).

(** Response events ("push_ok ..", "pop_fail k", ...) are what the harness prints right after the call
    returned, i.e. in the same scheduler step as the last atomic access of the call: they are part of the
    event list of that access. *)

(** *** producer *)

(** back = back_.load(); when the cached pfront_ already shows enough space, the copy loop runs in the
    same step *)
Definition a_push_ld_back (exp2 : bool) (cap pf : Z) (vals : list Z) : G -> G * V * list ev :=
  fun g =>
    let back := g_back g in
    let g' := if space_lt cap pf back (zlen vals) then g else write_cells exp2 cap g back vals in
    (g', (back, []), [EvAcc KLd obj_back true]).

(** pfront_ = front_.load(); second space test: return false, or the copy loop *)
Definition a_push_ld_front (exp2 : bool) (cap back : Z) (vals : list Z) : G -> G * V * list ev :=
  fun g =>
    let pf := g_front g in
    if space_lt cap pf back (zlen vals) then
      (g, (pf, []), [EvAcc KLd obj_front true; EvCli "push_fail" [zlen vals]])
    else (write_cells exp2 cap g back vals, (pf, []), [EvAcc KLd obj_front true]).

(** back_.store( back ); return true *)
Definition a_st_back (v : Z) (vals : list Z) : G -> G * V * list ev :=
  fun g => (set_back g v, (0, []), [EvAcc KSt obj_back true; EvCli "push_ok" vals]).

(** push( arr, count ): result = new pfront_ *)
Definition push_n (exp2 : bool) (cap pf : Z) (vals : list Z) : prog Z :=
  let n := zlen vals in
  Act (a_push_ld_back exp2 cap pf vals) (fun r =>
    let back := fst r in
    if space_lt cap pf back n then
      Act (a_push_ld_front exp2 cap back vals) (fun r2 =>
        let pf' := fst r2 in
        if space_lt cap pf' back n then Ret pf'
        else Act (a_st_back (u64 (back + n)) vals) (fun _ => Ret pf'))
    else Act (a_st_back (u64 (back + n)) vals) (fun _ => Ret pf)).

(** emplace / enqueue_with / push( val ): the same accesses and the same memory effect as
    push( &val, 1 ): one cell written at buffer_.mod( back ), back_.store( back + 1 ) *)
Definition push_1 (exp2 : bool) (cap pf v : Z) : prog Z := push_n exp2 cap pf [v].

(** *** consumer
    [need] = the count of the availability test, [n] = number of cells the local code reads when the test
    succeeds (pop: need = n = count; front(): 1, 1; pop_front(): 1, 0), [eok vals] = response events when the
    call returns right after a successful test (front()), [efail] = response event of the failing return. *)

Definition a_cons_ld_front (exp2 : bool) (cap cb need : Z) (n : nat) (eok : list Z -> list ev)
  : G -> G * V * list ev :=
  fun g =>
    let front := g_front g in
    if avail_lt cb front need then (g, (front, []), [EvAcc KLd obj_front true])
    else let vals := read_cells exp2 cap g front n in
         (g, (front, vals), EvAcc KLd obj_front true :: eok vals).

Definition a_cons_ld_back (exp2 : bool) (cap front need : Z) (n : nat) (eok : list Z -> list ev) (efail : ev)
  : G -> G * V * list ev :=
  fun g =>
    let cb := g_back g in
    if avail_lt cb front need then (g, (cb, []), [EvAcc KLd obj_back true; efail])
    else let vals := read_cells exp2 cap g front n in
         (g, (cb, vals), EvAcc KLd obj_back true :: eok vals).

(** front_.store( front ); return true *)
Definition a_st_front (v : Z) (vals : list Z) : G -> G * V * list ev :=
  fun g => (set_front g v, (0, []), [EvAcc KSt obj_front true; EvCli "pop_ok" vals]).

Definition no_ev : list Z -> list ev := fun _ => [].

(** pop( arr, count ): result = new cback_ *)
Definition pop_n (exp2 : bool) (cap cb : Z) (n : nat) : prog Z :=
  let zn := Z.of_nat n in
  let efail := EvCli "pop_fail" [zn] in
  Act (a_cons_ld_front exp2 cap cb zn n no_ev) (fun r =>
    let front := fst r in
    if avail_lt cb front zn then
      Act (a_cons_ld_back exp2 cap front zn n no_ev efail) (fun r2 =>
        let cb' := fst r2 in
        if avail_lt cb' front zn then Ret cb'
        else Act (a_st_front (u64 (front + zn)) (snd r2)) (fun _ => Ret cb'))
    else Act (a_st_front (u64 (front + zn)) (snd r)) (fun _ => Ret cb)).

(** front() followed by the client's read of *p: the accesses of pop( .., 1 ) without the store;
    result = (new cback_, Some [value] | None) *)
Definition peek (exp2 : bool) (cap cb : Z) (eok : list Z -> list ev) (efail : ev) : prog (Z * option (list Z)) :=
  Act (a_cons_ld_front exp2 cap cb 1 1 eok) (fun r =>
    let front := fst r in
    if avail_lt cb front 1 then
      Act (a_cons_ld_back exp2 cap front 1 1 eok efail) (fun r2 =>
        let cb' := fst r2 in
        if avail_lt cb' front 1 then Ret (cb', None) else Ret (cb', Some (snd r2)))
    else Ret (cb, Some (snd r))).

(** pop_front(): no cell is read; [vals] = what the client read through the pointer front() returned *)
Definition pop_front (exp2 : bool) (cap cb : Z) (vals : list Z) : prog Z :=
  let efail := EvCli "popfront_fail" [] in
  Act (a_cons_ld_front exp2 cap cb 1 0 no_ev) (fun r =>
    let front := fst r in
    if avail_lt cb front 1 then
      Act (a_cons_ld_back exp2 cap front 1 0 no_ev efail) (fun r2 =>
        let cb' := fst r2 in
        if avail_lt cb' front 1 then Ret cb'
        else Act (a_st_front (u64 (front + 1)) vals) (fun _ => Ret cb'))
    else Act (a_st_front (u64 (front + 1)) vals) (fun _ => Ret cb)).

(** *** both *)
Definition a_ld_front (mk : Z -> list ev) : G -> G * V * list ev :=
  fun g => (g, (g_front g, []), EvAcc KLd obj_front true :: mk (g_front g)).
Definition a_ld_back (mk : Z -> list ev) : G -> G * V * list ev :=
  fun g => (g, (g_back g, []), EvAcc KLd obj_back true :: mk (g_back g)).

Definition size_op : prog unit :=
  Act (a_ld_back (fun _ => [])) (fun b =>
    Act (a_ld_front (fun f => [EvCli "size" [u64 (fst b - f)]])) (fun _ => Ret tt)).
Definition empty_op : prog unit :=
  Act (a_ld_front (fun _ => [])) (fun f =>
    Act (a_ld_back (fun b => [EvCli "empty" [if Z.eqb (fst f) b then 1 else 0]])) (fun _ => Ret tt)).

(** *** client operations *)
Inductive pop_ :=          (* producer operations *)
| PPush (vals : list Z) | PPush1 (v : Z) | PEnqWith (v : Z) | PSize | PEmpty.
Inductive cop :=           (* consumer operations *)
| CPop (n : nat) | CPop1 | CDeqWith | CFrontPop | CFront | CSize | CEmpty.

Definition do_push (exp2 : bool) (cap pf : Z) (vals : list Z) : prog Z :=
  Emit [EvCli "inv_push" vals] (push_n exp2 cap pf vals).

Definition do_size {L} (l : L) : prog L :=
  Emit [EvCli "inv_size" []] (bind size_op (fun _ => Ret l)).
Definition do_empty {L} (l : L) : prog L :=
  Emit [EvCli "inv_empty" []] (bind empty_op (fun _ => Ret l)).

(** one producer operation; the result is the new pfront_ *)
Definition run_pop (exp2 : bool) (cap pf : Z) (o : pop_) : prog Z :=
  match o with
  | PPush vals => do_push exp2 cap pf vals
  | PPush1 v => do_push exp2 cap pf [v]
  | PEnqWith v => do_push exp2 cap pf [v]
  | PSize => do_size pf
  | PEmpty => do_empty pf
  end.

Definition do_pop (exp2 : bool) (cap cb : Z) (n : nat) : prog Z :=
  Emit [EvCli "inv_pop" [Z.of_nat n]] (pop_n exp2 cap cb n).

Definition do_front_pop (exp2 : bool) (cap cb : Z) : prog Z :=
  Emit [EvCli "inv_pop" [1]]
    (bind (peek exp2 cap cb no_ev (EvCli "pop_fail" [1])) (fun r =>
       match snd r with
       | Some vals => pop_front exp2 cap (fst r) vals
       | None => Ret (fst r)
       end)).

Definition do_front (exp2 : bool) (cap cb : Z) : prog Z :=
  Emit [EvCli "inv_front" []]
    (bind (peek exp2 cap cb (fun vals => [EvCli "front_ok" vals]) (EvCli "front_null" [])) (fun r => Ret (fst r))).

(** one consumer operation; the result is the new cback_ *)
Definition run_cop (exp2 : bool) (cap cb : Z) (o : cop) : prog Z :=
  match o with
  | CPop n => do_pop exp2 cap cb n
  | CPop1 => do_pop exp2 cap cb 1
  | CDeqWith => do_pop exp2 cap cb 1
  | CFrontPop => do_front_pop exp2 cap cb
  | CFront => do_front exp2 cap cb
  | CSize => do_size cb
  | CEmpty => do_empty cb
  end.

Fixpoint run_pops (exp2 : bool) (cap pf : Z) (os : list pop_) : prog unit :=
  match os with
  | [] => Ret tt
  | o :: r => bind (run_pop exp2 cap pf o) (fun pf' => run_pops exp2 cap pf' r)
  end.

Fixpoint run_cops (exp2 : bool) (cap cb : Z) (os : list cop) : prog unit :=
  match os with
  | [] => Ret tt
  | o :: r => bind (run_cop exp2 cap cb o) (fun cb' => run_cops exp2 cap cb' r)
  end.

Definition producer (exp2 : bool) (cap : Z) (os : list pop_) : Conc.thread G V ev :=
  Act a_begin (fun _ => run_pops exp2 cap 0 os).
Definition consumer (exp2 : bool) (cap : Z) (os : list cop) : Conc.thread G V ev :=
  Act a_begin (fun _ => run_cops exp2 cap 0 os).

(** WeakRingBuffer( capacity ): front_( 0 ), pfront_( 0 ), cback_( 0 ), back_.store( 0 ) (constructor,
    before the threads start); cells uninitialised (0 here; never read before written, see RingProofs) *)
Definition init : G := mkG 0 0 (fun _ => 0).

Definition init_cfg (exp2 : bool) (cap : Z) (pos : list pop_) (cos : list cop) : Conc.config G V ev :=
  Conc.Cfg init [producer exp2 cap pos; consumer exp2 cap cos] [].

(** ** entry point for the extracted driver *)
Definition decode_pop (o : list Z) : option pop_ :=
  match o with
  | 1 :: vals => Some (PPush vals)
  | [2; v] => Some (PPush1 v)
  | [3; v] => Some (PEnqWith v)
  | [9] => Some PSize
  | [10] => Some PEmpty
  | _ => None
  end.

Definition decode_cop (o : list Z) : option cop :=
  match o with
  | [4; k] => Some (CPop (Z.to_nat k))
  | [5] => Some CPop1
  | [6] => Some CDeqWith
  | [7] => Some CFrontPop
  | [8] => Some CFront
  | [9] => Some CSize
  | [10] => Some CEmpty
  | _ => None
  end.

Fixpoint decode_list {A} (d : list Z -> option A) (os : list (list Z)) : list A :=
  match os with
  | [] => []
  | o :: r => match d o with Some x => x :: decode_list d r | None => decode_list d r end
  end.

(** smallest power of two >= n (what uninitialized_dynamic_buffer<.., Exp2 = true> allocates) *)
Fixpoint ceil2_from (fuel : nat) (p n : Z) : Z :=
  match fuel with
  | O => p
  | S f => if Z.leb n p then p else ceil2_from f (2 * p) n
  end.
Definition ceil2 (n : Z) : Z := ceil2_from 64 1 n.

(** cfg = [requested capacity; exp2 (0/1); buffer kind (ignored: all buffers share mod/capacity)] *)
Definition run_case (cfg : list Z) (ths : list (list (list Z))) (sched : list nat) (fuel : nat)
  : list (nat * ev) * bool :=
  let exp2 := negb (Z.eqb (nth 1 cfg 0) 0) in
  let cap0 := nth 0 cfg 2 in
  let cap := if exp2 then ceil2 cap0 else cap0 in
  let pos := decode_list decode_pop (nth 0 ths []) in
  let cos := decode_list decode_cop (nth 1 ths []) in
  let r := Conc.run fuel 0 sched (init_cfg exp2 cap pos cos) in
  (Conc.trace (fst r), snd r).
