(** * Model of cds::container::RWQueue<int> (cds/container/rwqueue.h): Michael & Scott's two-lock queue,
      lock_type = cds::sync::spin (cds/sync/spinlock.h).  One atomic access per [Act].

    C++ (current tree):
      struct head_type { mutable lock_type lock; node_type * ptr; };     // ptr is a PLAIN field, guarded by lock
      head_type m_Head; head_type m_Tail; item_counter m_ItemCounter;
      node_type: atomics::atomic< node_type *> m_pNext (initialised by the constructor, no store); value_type m_value;

      bool enqueue( value_type const& data ) {
          scoped_node_ptr p( alloc_node( data ));              // no atomic access
          if ( enqueue_node( p.get())) ... }
      bool enqueue_node( node_type * p ) {
          {   scoped_lock lock( m_Tail.lock );                  // spin_lock::lock()
              m_Tail.ptr->m_pNext.store( p, release );          // reads m_Tail.ptr (plain)
              m_Tail.ptr = p;                                   // plain write, still under the lock
          }                                                     // spin_lock::unlock(): m_spin.store( false )
          ++m_ItemCounter;  return true; }
      bool dequeue_with( Func f ) {
          node_type * pNode;
          {   scoped_lock lock( m_Head.lock );
              pNode = m_Head.ptr;                               // plain read
              node_type * pNewHead = pNode->m_pNext.load( acquire );
              if ( pNewHead == nullptr ) return false;          // unlock
              f( pNewHead->m_value );
              m_Head.ptr = pNewHead;                            // plain write
          }                                                     // unlock
          --m_ItemCounter;  free_node( pNode );  return true; }
      spin_lock:  try_lock(): return !m_spin.exchange( true );
                  lock():     while ( !try_lock()) { while ( m_spin.load()) backoff(); }

    Plain accesses are not scheduling points.  The model keeps them with the adjacent atomic access of the
    same thread, on the side where the C++ performs them: the thread learns [ptr] when its exchange
    acquires the lock (the read follows the exchange), and writes the new [ptr] together with the access
    that precedes the write (the next-store of enqueue, the next-load of dequeue).  Other threads touch the
    field only while holding the same lock, which the proof establishes (it is not assumed).
    The new node gets its identity (never-reusing allocator) at the step that publishes it.

    Client operations:  [1; v] enq v: inv_enq v ; ret_enq 1      [2] deq: inv_deq ; ret_deq 1 v | ret_deq 0 0 *)
From Coq Require Import ZArith List String Bool Lia PeanoNat.
From LV Require Import Base.Conc Base.Events.
Import ListNotations.
Local Open Scope Z_scope.
Local Open Scope string_scope.

Record G := mkG {
  hlock : bool; tlock : bool;        (* m_Head.lock.m_spin, m_Tail.lock.m_spin *)
  hptr : nat; tptr : nat;            (* m_Head.ptr, m_Tail.ptr *)
  nxt : nat -> option nat;
  val : nat -> Z;
  nalloc : nat;
  cnt : Z
}.

Inductive V := VU | VBN (b : bool) (n : nat) | VPZ (p : option nat) (z : Z).
Definition vb (v : V) : bool := match v with VBN b _ => b | _ => false end.
Definition vn (v : V) : nat := match v with VBN _ n => n | _ => O end.
Definition vp (v : V) : option nat := match v with VPZ p _ => p | _ => None end.
Definition vz (v : V) : Z := match v with VPZ _ z => z | _ => 0 end.

Definition prog := Conc.prog G V ev.
Definition act := G -> G * V * list ev.

(** which end of the queue *)
Inductive side := SHead | STail.

Definition obj_lock (s : side) : list Z := match s with SHead => [0] | STail => [1] end.
Definition obj_next (n : nat) : list Z := [2; Z.of_nat n].
Definition obj_cnt : list Z := [3].

Definition get_lock (g : G) (s : side) : bool := match s with SHead => hlock g | STail => tlock g end.
Definition get_ptr (g : G) (s : side) : nat := match s with SHead => hptr g | STail => tptr g end.
Definition set_lock (g : G) (s : side) (b : bool) : G :=
  match s with
  | SHead => mkG b (tlock g) (hptr g) (tptr g) (nxt g) (val g) (nalloc g) (cnt g)
  | STail => mkG (hlock g) b (hptr g) (tptr g) (nxt g) (val g) (nalloc g) (cnt g)
  end.

Definition a_begin : act := fun g => (g, VU, [EvAcc KBegin [] true]).
(** m_spin.exchange( true ); the caller that acquired the lock then reads [ptr] *)
Definition a_xchg (s : side) : act := fun g =>
  (set_lock g s true, VBN (get_lock g s) (get_ptr g s), [EvAcc KXchg (obj_lock s) true]).
Definition a_ld_lock (s : side) : act := fun g => (g, VBN (get_lock g s) 0, [EvAcc KLd (obj_lock s) true]).
Definition a_unlock (s : side) : act := fun g => (set_lock g s false, VU, [EvAcc KSt (obj_lock s) true]).

(** m_Tail.ptr->m_pNext.store( p ); m_Tail.ptr = p;   [tp] = the value of m_Tail.ptr the thread read *)
Definition a_st_next (tp : nat) (v : Z) : act := fun g =>
  let n := nalloc g in
  (mkG (hlock g) (tlock g) (hptr g) n
       (fun x => if Nat.eqb x tp then Some n else if Nat.eqb x n then None else nxt g x)
       (fun x => if Nat.eqb x n then v else val g x) (S n) (cnt g),
   VU, [EvAcc KSt (obj_next tp) true]).

(** pNewHead = pNode->m_pNext.load(); if non-null: f( pNewHead->m_value ); m_Head.ptr = pNewHead *)
Definition a_ld_next (hp : nat) : act := fun g =>
  match nxt g hp with
  | Some x => (mkG (hlock g) (tlock g) x (tptr g) (nxt g) (val g) (nalloc g) (cnt g), VPZ (Some x) (val g x),
               [EvAcc KLd (obj_next hp) true])
  | None => (g, VPZ None 0, [EvAcc KLd (obj_next hp) true])
  end.

Definition a_cnt (k : akind) (d : Z) : act := fun g =>
  (mkG (hlock g) (tlock g) (hptr g) (tptr g) (nxt g) (val g) (nalloc g) (cnt g + d), VU, [EvAcc k obj_cnt true]).

(** spin_lock::lock(); [Some ptr] = acquired (ptr = the guarded field), [None] = out of fuel *)
Fixpoint lock_outer (fuel : nat) (s : side) : prog (option nat) :=
  match fuel with
  | O => Ret None
  | S f => Act (a_xchg s) (fun r => if vb r then lock_inner f s else Ret (Some (vn r)))
  end
with lock_inner (fuel : nat) (s : side) : prog (option nat) :=
  match fuel with
  | O => Ret None
  | S f => Act (a_ld_lock s) (fun r => if vb r then lock_inner f s else lock_outer f s)
  end.

Definition with_ic {R} (ic : bool) (k : akind) (d : Z) (p : prog R) : prog R :=
  if ic then Act (a_cnt k d) (fun _ => p) else p.

(** false = out of fuel *)
Definition enqueue (ic : bool) (fuel : nat) (v : Z) : prog bool :=
  Conc.bind (lock_outer fuel STail) (fun r =>
    match r with
    | None => Ret false
    | Some tp =>
        Act (a_st_next tp v) (fun _ =>
        Act (a_unlock STail) (fun _ =>
        with_ic ic KFaa 1 (Ret true)))
    end).

Definition dequeue (ic : bool) (fuel : nat) : prog (option (option Z)) :=
  Conc.bind (lock_outer fuel SHead) (fun r =>
    match r with
    | None => Ret None
    | Some hp =>
        Act (a_ld_next hp) (fun r2 =>
          match vp r2 with
          | None => Act (a_unlock SHead) (fun _ => Ret (Some None))
          | Some _ => Act (a_unlock SHead) (fun _ => with_ic ic KFas (-1) (Ret (Some (Some (vz r2)))))
          end)
    end).

Inductive op := OEnq (v : Z) | ODeq.

(** [true] = completed, [false] = out of fuel (the thread stops) *)
Definition run_op (ic : bool) (fuel : nat) (o : op) : prog bool :=
  match o with
  | OEnq v =>
      Emit [EvCli "inv_enq" [v]]
        (Conc.bind (enqueue ic fuel v) (fun ok =>
           if ok then Emit [EvCli "ret_enq" [1]] (Ret true) else Emit [EvCli "outoffuel" []] (Ret false)))
  | ODeq =>
      Emit [EvCli "inv_deq" []]
        (Conc.bind (dequeue ic fuel) (fun r =>
           match r with
           | Some (Some v) => Emit [EvCli "ret_deq" [1; v]] (Ret true)
           | Some None => Emit [EvCli "ret_deq" [0; 0]] (Ret true)
           | None => Emit [EvCli "outoffuel" []] (Ret false)
           end))
  end.

Fixpoint run_ops (ic : bool) (fuel : nat) (os : list op) : prog unit :=
  match os with
  | [] => Ret tt
  | o :: r => Conc.bind (run_op ic fuel o) (fun ok => if ok then run_ops ic fuel r else Ret tt)
  end.

Definition thread_prog (ic : bool) (fuel : nat) (os : list op) : Conc.thread G V ev :=
  Act a_begin (fun _ => run_ops ic fuel os).

(** the queue starts with one dummy node (node 0) *)
Definition init : G := mkG false false 0 0 (fun _ => None) (fun _ => 0) 1 0.

Definition init_cfg (ic : bool) (fuel : nat) (ths : list (list op)) : Conc.config G V ev :=
  Conc.Cfg init (map (thread_prog ic fuel) ths) [].

Definition decode_op (o : list Z) : option op :=
  match o with
  | [1; v] => Some (OEnq v)
  | [2] => Some ODeq
  | _ => None
  end.

Fixpoint decode_ops (os : list (list Z)) : list op :=
  match os with
  | [] => []
  | o :: r => match decode_op o with Some x => x :: decode_ops r | None => decode_ops r end
  end.

(** cfg = [_; item counter; _; spin fuel]  (same positions as LV.Model.MSQueue) *)
Definition run_case (cfg : list Z) (ths : list (list (list Z))) (sched : list nat) (fuel : nat)
  : list (nat * ev) * bool :=
  let ic := negb (Z.eqb (nth 1 cfg 0) 0) in
  let lfuel := Z.to_nat (nth 3 cfg 1000) in
  let r := Conc.run fuel 0 sched (init_cfg ic lfuel (map decode_ops ths)) in
  (Conc.trace (fst r), snd r).
