(** * Model of cds::urcu::general_buffered (cds/urcu/details/gpb.h) on top of the general-purpose core LV.Model.RcuGp.

    C++ modelled (current tree):
      general_buffered( nBufferCapacity ): m_Buffer( nBufferCapacity > 1 ? nBufferCapacity : 2 ), m_nCurEpoch(0),
                                           m_nCapacity( nBufferCapacity )
      retire_ptr( p ):    if ( p.m_p ) push_buffer( epoch_retired_ptr( p, m_nCurEpoch.load()));
      batch_retire( first, last ):  nEpoch = m_nCurEpoch.load();
                                    while ( first != last ) { epoch_retired_ptr ep( *first, nEpoch ); ++first; push_buffer( ep ); }
      push_buffer( ep ):  bPushed = m_Buffer.push( ep );
                          if ( !bPushed || m_Buffer.size() >= capacity()) { synchronize(); if ( !bPushed ) ep.free(); return true; }
                          return false;
      synchronize():      epoch_retired_ptr ep( retired_ptr(), m_nCurEpoch.load());  synchronize( ep );
      synchronize( ep ):  { unique_lock sl( m_Lock );  if ( ep.m_p && m_Buffer.push( ep )) return false;   // ep.m_p is null here
                            nEpoch = m_nCurEpoch.fetch_add( 1 );  flip_and_wait();  flip_and_wait(); }
                          clear_buffer( nEpoch );  return true;
      clear_buffer( nEpoch ):  while ( m_Buffer.pop( p )) { if ( p.m_nEpoch <= nEpoch ) p.free();
                                                            else { push_buffer( std::move(p)); break; } }
      Destruct():         clear_buffer( max uint64 )  (no grace period), then the singleton is deleted.

    The buffer is modelled ABSTRACTLY as a bounded FIFO whose push / pop / size are single atomic steps (its own
    linearizability is property C07).  harness/C05/main.cpp instantiates general_buffered with a Buffer type that wraps
    the real cds::container::VyukovMPMCCycleQueue and executes each of its operations atomically (one scheduling
    point, then the queue operation without scheduling points), so the step correspondence is exact for gpb.h;
    the run with the default buffer type (queue internals scheduled) is checked by the monitors only.
    Capacity of the FIFO = the power of two >= max(nBufferCapacity, 2) (cds/opt/buffer.h rounds up).
    [cnt] = the buffer counts its items (vyukov_queue traits with item_counter): size() is exact; with the default
    traits (empty_item_counter) size() is constantly 0 and performs no atomic access.
    m_nCurEpoch is a uint64_t; the model uses unbounded Z (2^64 synchronize calls are out of reach).

    Recursion: clear_buffer -> push_buffer -> synchronize -> clear_buffer is a mutual fixpoint on [rf] ("recursion
    fuel"); running out of it is reported like running out of spin fuel. *)
From Coq Require Import ZArith List String Bool Lia.
From LV Require Import Base.Conc Base.Events Model.RcuGp.
Import ListNotations.
Local Open Scope string_scope.
Local Open Scope list_scope.
Local Open Scope Z_scope.

Definition obj_epoch : list Z := [7].
Definition obj_bpush : list Z := [8; 0].
Definition obj_bpop : list Z := [8; 1].
Definition obj_bsize : list Z := [8; 2].

Definition a_epoch_ld : act := fun g => (g, VZ (g_epoch g), acc KLd obj_epoch true).
Definition a_epoch_faa : act := fun g => (set_epoch g (g_epoch g + 1), VZ (g_epoch g), acc KFaa obj_epoch true).
(** m_Buffer.push: the access event carries the result *)
Definition a_buf_push (p e : Z) : act := fun g =>
  if Nat.ltb (List.length (g_buf g)) (g_bcap g)
  then (set_buf g (g_buf g ++ [(p, e)]), VZ 1, acc KCas obj_bpush true)
  else (g, VZ 0, acc KCas obj_bpush false).
Definition a_buf_pop : act := fun g =>
  match g_buf g with
  | [] => (g, VP None, acc KCas obj_bpop false)
  | x :: r => (set_buf g r, VP (Some x), acc KCas obj_bpop true)
  end.
Definition a_buf_size : act := fun g => (g, VZ (Z.of_nat (List.length (g_buf g))), acc KLd obj_bsize true).

Section Gpb.
  Variables (flips sfuel : nat) (cap : Z) (cnt : bool).
  (** hook executed by synchronize (lock held) before the first and after the second flip_and_wait:
      [Ret true] for general_buffered, force_membar_all_threads for signal_buffered (LV.Model.RcuSignal) *)
  Variable mb : prog bool.

  (** the test [m_Buffer.size() >= capacity()] after a successful push *)
  Definition size_reached {R} (k : bool -> prog R) : prog R :=
    if cnt then Act a_buf_size (fun n => k (cap <=? vz n)) else k (cap <=? 0).

  (** results: [false] = out of fuel *)
  Fixpoint push_buffer (rf : nat) (p e : Z) : prog bool :=
    match rf with
    | O => Ret false
    | S f =>
        Act (a_buf_push p e) (fun v =>
          if vz v =? 1
          then size_reached (fun full => if full then synchronize f else Ret true)
          else bind (synchronize f) (fun ok => if ok then Emit (cli "dispose" [p]) (Ret true) else Ret false))
    end
  with synchronize (rf : nat) : prog bool :=
    match rf with
    | O => Ret false
    | S f =>
        Act a_epoch_ld (fun _ =>
          bind (lock_outer sfuel) (fun ok =>
            if ok then
              Act a_epoch_faa (fun n =>
                bind mb (fun ok0 =>
                  if ok0 then
                    bind (flips_and_wait flips sfuel) (fun ok' =>
                      if ok' then bind mb (fun ok1 =>
                        if ok1 then bind unlock (fun _ => clear_buffer f (vz n)) else Ret false)
                      else Ret false)
                  else Ret false))
            else Ret false))
    end
  with clear_buffer (rf : nat) (n : Z) : prog bool :=
    match rf with
    | O => Ret false
    | S f =>
        Act a_buf_pop (fun v =>
          match vp v with
          | None => Ret true
          | Some (p, e) => if e <=? n then Emit (cli "dispose" [p]) (clear_buffer f n) else push_buffer f p e
          end)
    end.

  Fixpoint push_all (rf : nat) (e : Z) (ps : list Z) : prog bool :=
    match ps with
    | [] => Ret true
    | p :: r => bind (push_buffer rf p e) (fun ok => if ok then push_all rf e r else Ret false)
    end.

  Fixpoint emit_retires {R} (ps : list Z) (k : prog R) : prog R :=
    match ps with
    | [] => k
    | p :: r => Emit (cli "retire" [p]) (emit_retires r k)
    end.

  (** client operations; 1-4, 7-9 as in LV.Model.RcuGp
        [5]             sync     "sync_begin"; synchronize(); "sync_end"
        [6; p]          retire   "retire p"; retire_ptr(p)
        [10; p1 .. pk]  batch    "retire p1" .. "retire pk"; batch_retire( [p1..pk] ); "batch_end"      (k >= 1)
      A thread that completes its program emits "done". *)
  Inductive bop := BCore (o : RcuGp.op) | BBatch (ps : list Z).

  Definition gpb_sync (rf : nat) : prog bool :=
    Emit (cli "sync_begin" []) (bind (synchronize rf) (fun ok => if ok then Emit (cli "sync_end" []) (Ret true) else Ret false)).

  Definition gpb_retire (rf : nat) (ps : list Z) (tail : list ev) : prog bool :=
    emit_retires ps (Act a_epoch_ld (fun e => bind (push_all rf (vz e) ps) (fun ok =>
      if ok then Emit tail (Ret true) else Ret false))).

  Definition run_bop (rf : nat) (t : nat) (s : lst) (o : bop) : prog (option lst) :=
    match o with
    | BCore OSync =>
        match my_depth s with
        | O => bind (gpb_sync rf) (fun ok => if ok then Ret (Some s) else Ret None)
        | _ => Ret (Some s)
        end
    | BCore (ORetire p) =>
        match my_depth s with
        | O => bind (gpb_retire rf [p] []) (fun ok => if ok then Ret (Some s) else Ret None)
        | _ => Ret (Some s)
        end
    | BCore o' => run_op flips sfuel t s o'
    | BBatch ps =>
        match my_depth s, ps with
        | O, _ :: _ => bind (gpb_retire rf ps (cli "batch_end" [])) (fun ok => if ok then Ret (Some s) else Ret None)
        | _, _ => Ret (Some s)
        end
    end.

  Fixpoint run_bops (rf : nat) (t : nat) (s : lst) (os : list bop) : prog unit :=
    match os with
    | [] => bind (finish s) (fun _ => Emit (cli "done" []) (Ret tt))
    | o :: r => bind (run_bop rf t s o) (fun s' =>
        match s' with
        | Some s'' => run_bops rf t s'' r
        | None => Emit (cli "outoffuel" []) (Ret tt)
        end)
    end.

  Definition bthread_prog (rf : nat) (t : nat) (os : list bop) : Conc.thread G V ev :=
    Act a_begin (fun _ => run_bops rf t (mkL None O) os).
End Gpb.

(** the number of cells of the Vyukov queue: the power of two >= max(cap, 2) *)
Fixpoint ceil2_from (fuel : nat) (c : nat) (n : nat) : nat :=
  match fuel with
  | O => c
  | S f => if Nat.leb n c then c else ceil2_from f (2 * c) n
  end.
Definition buffer_cells (cap : Z) : nat := ceil2_from 64 2 (Z.to_nat cap).

Definition binit (cap : Z) (cnt : bool) : G :=
  mkG 1 [] O (fun _ => 0) (fun _ => 0) false 0 0 0 [] (buffer_cells cap) cap cnt (fun _ => false) None false false O.

(** client threads followed by [extra] threads (pseudo-threads of the flavour: none for general_buffered) *)
Definition xinit_cfg (flips sfuel rf : nat) (cap : Z) (cnt : bool) (mb : prog bool) (extra : list (Conc.thread G V ev))
  (ths : list (list bop)) : Conc.config G V ev :=
  Conc.Cfg (binit cap cnt)
           (map (fun p => bthread_prog flips sfuel cap cnt mb rf (fst p) (snd p)) (number O ths) ++ extra) [].

Definition binit_cfg (flips sfuel rf : nat) (cap : Z) (cnt : bool) (ths : list (list bop)) : Conc.config G V ev :=
  xinit_cfg flips sfuel rf cap cnt (Ret true) [] ths.

(** Destruct: clear_buffer( max ) disposes whatever is left, in FIFO order (runs after all threads, unscheduled) *)
Definition destruct_events (g : G) : list ev := map (fun x => EvCli "dispose" [fst x]) (g_buf g).

Definition decode_bop (o : list Z) : option bop :=
  match o with
  | 10 :: p :: ps => Some (BBatch (p :: ps))
  | _ => match decode_op o with Some x => Some (BCore x) | None => None end
  end.

Fixpoint decode_bops (os : list (list Z)) : list bop :=
  match os with
  | [] => []
  | o :: r => match decode_bop o with Some x => x :: decode_bops r | None => decode_bops r end
  end.

(** cfg = [flips; spin fuel; capacity; counting (0/1); recursion fuel].  The disposals of Destruct are appended
    to the trace as events of thread number [length ths] when all threads have finished. *)
Definition run_case (cfg : list Z) (ths : list (list (list Z))) (sched : list nat) (fuel : nat)
  : list (nat * ev) * bool :=
  let flips := Z.to_nat (nth 0 cfg 2) in
  let sfuel := Z.to_nat (nth 1 cfg 2000) in
  let cap := nth 2 cfg 2 in
  let cnt := negb (nth 3 cfg 0 =? 0) in
  let rf := Z.to_nat (nth 4 cfg 40) in
  let r := Conc.run fuel 0 sched (binit_cfg flips sfuel rf cap cnt (map decode_bops ths)) in
  (Conc.trace (fst r) ++ (if snd r then Conc.tag (List.length ths) (destruct_events (Conc.shared (fst r))) else []), snd r).
