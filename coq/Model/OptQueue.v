(** * Model of cds::container::OptimisticQueue<GC,int> (cds/container/optimistic_queue.h) over
      cds::intrusive::OptimisticQueue (cds/intrusive/optimistic_queue.h; Ladan-Mozes & Shavit),
      GC = gc::HP or gc::DHP.  One atomic access per [Act].

    MEMORY SAFETY HYPOTHESIS ([smr_safe], DESIGN section 4): never-reusing allocator, as in LV.Model.MSQueue;
    hazard slots, sync_ and the retired cursor appear as events only.

    C++ (current tree), cds/intrusive/optimistic_queue.h:
      node():  m_pNext.store( nullptr ); m_pPrev.store( nullptr );                           [2 stores]
      bool enqueue( value_type& val ) {
          typename gc::template GuardArray<2> guards;
          guards.assign( 1, &val );                                          // hp1.store, sync_.fetch_add
          while( true ) {
              node_type * pTail = guards.protect( 0, m_pTail, ... );         // do { hp0.store( p = ld ); faa } while ( p != ld )
              pNew->m_pNext.store( pTail );
              if ( m_pTail.compare_exchange_strong( pTail, pNew )) {
                  pTail->m_pPrev.store( pNew );
                  ++m_ItemCounter;  break; }
              bkoff(); }
          return true; }                                                     // ~GuardArray: clear 0, clear 1
      bool do_dequeue( dequeue_result& res ) {                               // res.guards: GuardArray<3>
          while ( true ) {
              pHead = res.guards.protect( 0, m_pHead, ... );
              pTail = res.guards.protect( 1, m_pTail, ... );
              pFirstNodePrev = res.guards.protect( 2, pHead->m_pPrev, ... );
              if ( pHead == m_pHead.load()) {
                  if ( pTail != pHead ) {
                      if ( pFirstNodePrev == nullptr || pFirstNodePrev->m_pNext.load() != pHead ) {
                          fix_list( pTail, pHead );  continue; }
                      if ( m_pHead.compare_exchange_weak( pHead, pFirstNodePrev )) break;
                  }
                  else return false;                                         // empty
              }
              bkoff(); }
          --m_ItemCounter;  res.pHead = pHead;  res.pNext = pFirstNodePrev;  return true; }
      void fix_list( node_type * pTail, node_type * pHead ) {
          typename gc::template GuardArray<2> guards;
          pCurNode = pTail;
          while ( pCurNode != pHead ) {
              pCurNodeNext = guards.protect( 0, pCurNode->m_pNext, ... );
              if ( pHead != m_pHead.load()) break;
              pCurNodeNext->m_pPrev.store( pCurNode );
              guards.assign( 1, node_traits::to_value_ptr( pCurNode = pCurNodeNext )); } }   // hp.store, faa
    cds/container/optimistic_queue.h: enqueue allocates the node, dequeue_with copies res.pNext's value and
    calls dispose_result (gc::retire( pHead ) unless it is the dummy member).

    Guard slots: a thread's free guard list is a stack; GuardArray<k> takes its k top slots and its
    destructor pushes them back in index order (which reverses them).  The five top slots are tracked
    ([slots]); enqueue uses two, dequeue three, fix_list (inside dequeue) the next two.

    A null [pCurNodeNext] in fix_list would be dereferenced by the real code; the model stops the thread
    there like an out-of-fuel loop (the invariants show the chain from tail reaches head, so it does not
    happen while head is unchanged).

    Client operations: [1; v] enq v: inv_enq v ; ret_enq 1       [2] deq: inv_deq ; ret_deq 1 v | ret_deq 0 0 *)
From Coq Require Import ZArith List String Bool Lia PeanoNat.
From LV Require Import Base.Conc Base.Events.
Import ListNotations.
Local Open Scope Z_scope.
Local Open Scope string_scope.

Record G := mkG {
  head : nat; tail : nat;
  nxt : nat -> option nat;        (* m_pNext: towards the older node (the previous tail) *)
  prv : nat -> option nat;        (* m_pPrev: towards the newer node *)
  val : nat -> Z;
  nalloc : nat;                   (* node 0 = m_Dummy *)
  cnt : Z
}.

Inductive V := VU | VN (n : nat) | VP (p : option nat) | VBZ (b : bool) (z : Z).
Definition vn (v : V) : nat := match v with VN n => n | _ => O end.
Definition vp (v : V) : option nat := match v with VP p => p | _ => None end.
Definition vb (v : V) : bool := match v with VBZ b _ => b | _ => false end.
Definition vz (v : V) : Z := match v with VBZ _ z => z | _ => 0 end.

Definition prog := Conc.prog G V ev.
Definition act := G -> G * V * list ev.

Record conf := mkConf { c_ic : bool; c_hp : bool }.

Definition obj_head : list Z := [0].
Definition obj_tail : list Z := [1].
Definition obj_next (n : nat) : list Z := [2; Z.of_nat n].
Definition obj_hz (t s : nat) : list Z := [3; Z.of_nat t; Z.of_nat s].
Definition obj_sync (t : nat) : list Z := [4; Z.of_nat t].
Definition obj_ret (t : nat) : list Z := [5; Z.of_nat t].
Definition obj_cnt : list Z := [6].
Definition obj_prev (n : nat) : list Z := [7; Z.of_nat n].

Definition opt_eqb (a b : option nat) : bool :=
  match a, b with
  | Some x, Some y => Nat.eqb x y
  | None, None => true
  | _, _ => false
  end.

Definition a_begin : act := fun g => (g, VU, [EvAcc KBegin [] true]).
Definition touch (k : akind) (o : list Z) : act := fun g => (g, VU, [EvAcc k o true]).

Definition upd (f : nat -> option nat) (n : nat) (p : option nat) : nat -> option nat :=
  fun x => if Nat.eqb x n then p else f x.

(** node construction, first store (m_pNext := nullptr); the node gets its identity here *)
Definition a_alloc (v : Z) : act := fun g =>
  let n := nalloc g in
  (mkG (head g) (tail g) (upd (nxt g) n None) (prv g) (fun x => if Nat.eqb x n then v else val g x) (S n) (cnt g),
   VN n, [EvAcc KSt (obj_next n) true]).
Definition a_st_next (n : nat) (p : option nat) : act := fun g =>
  (mkG (head g) (tail g) (upd (nxt g) n p) (prv g) (val g) (nalloc g) (cnt g), VU, [EvAcc KSt (obj_next n) true]).
Definition a_st_prev (n : nat) (p : option nat) : act := fun g =>
  (mkG (head g) (tail g) (nxt g) (upd (prv g) n p) (val g) (nalloc g) (cnt g), VU, [EvAcc KSt (obj_prev n) true]).

Definition a_ld_head : act := fun g => (g, VN (head g), [EvAcc KLd obj_head true]).
Definition a_ld_tail : act := fun g => (g, VN (tail g), [EvAcc KLd obj_tail true]).
Definition a_ld_next (n : nat) : act := fun g => (g, VP (nxt g n), [EvAcc KLd (obj_next n) true]).
Definition a_ld_prev (n : nat) : act := fun g => (g, VP (prv g n), [EvAcc KLd (obj_prev n) true]).

Definition set_tail (g : G) (x : nat) : G := mkG (head g) x (nxt g) (prv g) (val g) (nalloc g) (cnt g).
Definition set_head (g : G) (x : nat) : G := mkG x (tail g) (nxt g) (prv g) (val g) (nalloc g) (cnt g).
Definition set_cnt (g : G) (c : Z) : G := mkG (head g) (tail g) (nxt g) (prv g) (val g) (nalloc g) c.

Definition a_cas_tail (e d : nat) : act := fun g =>
  if Nat.eqb (tail g) e then (set_tail g d, VBZ true 0, [EvAcc KCas obj_tail true])
  else (g, VBZ false 0, [EvAcc KCas obj_tail false]).
(** on success the thread goes on to copy d's value (constant once published), returned with the CAS *)
Definition a_cas_head (e d : nat) : act := fun g =>
  if Nat.eqb (head g) e then (set_head g d, VBZ true (val g d), [EvAcc KCas obj_head true])
  else (g, VBZ false 0, [EvAcc KCas obj_head false]).
Definition a_cnt (k : akind) (d : Z) : act := fun g => (set_cnt g (cnt g + d), VU, [EvAcc k obj_cnt true]).

(** ** GuardArray::protect loops; [None] = out of fuel *)
Fixpoint protect_n (fuel : nat) (t s : nat) (ld : act) : prog (option nat) :=
  match fuel with
  | O => Ret None
  | S f =>
      Act ld (fun r =>
      Act (touch KSt (obj_hz t s)) (fun _ =>
      Act (touch KFaa (obj_sync t)) (fun _ =>
      Act ld (fun r2 => if Nat.eqb (vn r2) (vn r) then Ret (Some (vn r)) else protect_n f t s ld))))
  end.
Definition protect_head fuel t s := protect_n fuel t s a_ld_head.
Definition protect_tail fuel t s := protect_n fuel t s a_ld_tail.

Fixpoint protect_p (fuel : nat) (t s : nat) (ld : act) : prog (option (option nat)) :=
  match fuel with
  | O => Ret None
  | S f =>
      Act ld (fun r =>
      Act (touch KSt (obj_hz t s)) (fun _ =>
      Act (touch KFaa (obj_sync t)) (fun _ =>
      Act ld (fun r2 => if opt_eqb (vp r2) (vp r) then Ret (Some (vp r)) else protect_p f t s ld))))
  end.
Definition protect_prev fuel t s h := protect_p fuel t s (a_ld_prev h).
Definition protect_next fuel t s c := protect_p fuel t s (a_ld_next c).

Definition with_ic {R} (cf : conf) (k : akind) (d : Z) (p : prog R) : prog R :=
  if c_ic cf then Act (a_cnt k d) (fun _ => p) else p.

Definition clear2 {R} (t s0 s1 : nat) (p : prog R) : prog R :=
  Act (touch KSt (obj_hz t s0)) (fun _ => Act (touch KSt (obj_hz t s1)) (fun _ => p)).

(** ** enqueue; false = out of fuel *)
Fixpoint enq_loop (cf : conf) (fuel : nat) (t s0 : nat) (n : nat) : prog bool :=
  match fuel with
  | O => Ret false
  | S f =>
      Conc.bind (protect_tail f t s0) (fun ot =>
        match ot with
        | None => Ret false
        | Some tl =>
            Act (a_st_next n (Some tl)) (fun _ =>
            Act (a_cas_tail tl n) (fun r =>
              if vb r then Act (a_st_prev tl (Some n)) (fun _ => with_ic cf KFaa 1 (Ret true))
              else enq_loop cf f t s0 n))
        end)
  end.

Definition enqueue (cf : conf) (fuel : nat) (t s0 s1 : nat) (v : Z) : prog bool :=
  Act (a_alloc v) (fun r =>
  Act (a_st_prev (vn r) None) (fun _ =>
  Act (touch KSt (obj_hz t s1)) (fun _ =>
  Act (touch KFaa (obj_sync t)) (fun _ =>
    Conc.bind (enq_loop cf fuel t s0 (vn r)) (fun ok =>
      if ok then clear2 t s0 s1 (Ret true) else Ret false))))).

(** ** fix_list; [Some true] = done (or head changed), [None] = out of fuel / null dereference *)
Fixpoint fix_loop (fuel : nat) (t f0 f1 : nat) (h cur : nat) : prog (option bool) :=
  match fuel with
  | O => Ret None
  | S f =>
      if Nat.eqb cur h then Ret (Some true)
      else
        Conc.bind (protect_next f t f0 cur) (fun on =>
          match on with
          | None => Ret None
          | Some pn =>
              Act a_ld_head (fun r =>
                if negb (Nat.eqb (vn r) h) then Ret (Some true)
                else match pn with
                     | None => Ret None
                     | Some c =>
                         Act (a_st_prev c (Some cur)) (fun _ =>
                         Act (touch KSt (obj_hz t f1)) (fun _ =>
                         Act (touch KFaa (obj_sync t)) (fun _ => fix_loop f t f0 f1 h c)))
                     end)
          end)
  end.

Definition fix_list (fuel : nat) (t f0 f1 : nat) (tl h : nat) : prog (option bool) :=
  Conc.bind (fix_loop fuel t f0 f1 h tl) (fun r =>
    match r with
    | None => Ret None
    | Some b => clear2 t f0 f1 (Ret (Some b))
    end).

(** ** do_dequeue; the result carries the current order of the two slots fix_list uses *)
Inductive dres := DFuel | DEmpty (f0 f1 : nat) | DGot (h p : nat) (v : Z) (f0 f1 : nat).

Fixpoint deq_loop (fuel : nat) (t s0 s1 s2 f0 f1 : nat) : prog dres :=
  match fuel with
  | O => Ret DFuel
  | S f =>
      Conc.bind (protect_head f t s0) (fun oh =>
      match oh with None => Ret DFuel | Some h =>
      Conc.bind (protect_tail f t s1) (fun ot =>
      match ot with None => Ret DFuel | Some tl =>
      Conc.bind (protect_prev f t s2 h) (fun op =>
      match op with None => Ret DFuel | Some pp =>
        Act a_ld_head (fun r =>
          if negb (Nat.eqb (vn r) h) then deq_loop f t s0 s1 s2 f0 f1
          else if Nat.eqb tl h then Ret (DEmpty f0 f1)
          else
            let fix_and_retry :=
              Conc.bind (fix_list f t f0 f1 tl h) (fun x =>
                match x with None => Ret DFuel | Some _ => deq_loop f t s0 s1 s2 f1 f0 end) in
            match pp with
            | None => fix_and_retry
            | Some p =>
                Act (a_ld_next p) (fun r2 =>
                  if opt_eqb (vp r2) (Some h) then
                    Act (a_cas_head h p) (fun r3 =>
                      if vb r3 then Ret (DGot h p (vz r3) f0 f1) else deq_loop f t s0 s1 s2 f0 f1)
                  else fix_and_retry)
            end)
      end) end) end)
  end.

Definition retire {R} (cf : conf) (t h : nat) (p : prog R) : prog R :=
  if c_hp cf && negb (Nat.eqb h 0) then
    Act (touch KLd (obj_ret t)) (fun _ => Act (touch KSt (obj_ret t)) (fun _ => p))
  else p.

Definition clear3 {R} (t s0 s1 s2 : nat) (p : prog R) : prog R :=
  Act (touch KSt (obj_hz t s0)) (fun _ => clear2 t s1 s2 p).

(** [Some (r, f0, f1)]: r = Some v got v / None empty; [None] = out of fuel *)
Definition dequeue (cf : conf) (fuel : nat) (t s0 s1 s2 f0 f1 : nat) : prog (option (option Z * nat * nat)) :=
  Conc.bind (deq_loop fuel t s0 s1 s2 f0 f1) (fun d =>
    match d with
    | DFuel => Ret None
    | DEmpty g0 g1 => clear3 t s0 s1 s2 (Ret (Some (None, g0, g1)))
    | DGot h p v g0 g1 =>
        with_ic cf KFas (-1) (retire cf t h (clear3 t s0 s1 s2 (Ret (Some (Some v, g0, g1)))))
    end).

(** ** client programs *)
Inductive op := OEnq (v : Z) | ODeq.

(** the five top slots of the thread's free guard list *)
Record slots := mkSl { sl0 : nat; sl1 : nat; sl2 : nat; sl3 : nat; sl4 : nat }.
Definition slots0 : slots := mkSl 0 1 2 3 4.

Definition run_op (cf : conf) (fuel : nat) (t : nat) (sl : slots) (o : op) : prog (option slots) :=
  match o with
  | OEnq v =>
      Emit [EvCli "inv_enq" [v]]
        (Conc.bind (enqueue cf fuel t (sl0 sl) (sl1 sl) v) (fun ok =>
           if ok then Emit [EvCli "ret_enq" [1]] (Ret (Some (mkSl (sl1 sl) (sl0 sl) (sl2 sl) (sl3 sl) (sl4 sl))))
           else Emit [EvCli "outoffuel" []] (Ret None)))
  | ODeq =>
      Emit [EvCli "inv_deq" []]
        (Conc.bind (dequeue cf fuel t (sl0 sl) (sl1 sl) (sl2 sl) (sl3 sl) (sl4 sl)) (fun r =>
           match r with
           | Some (Some v, g0, g1) =>
               Emit [EvCli "ret_deq" [1; v]] (Ret (Some (mkSl (sl2 sl) (sl1 sl) (sl0 sl) g0 g1)))
           | Some (None, g0, g1) =>
               Emit [EvCli "ret_deq" [0; 0]] (Ret (Some (mkSl (sl2 sl) (sl1 sl) (sl0 sl) g0 g1)))
           | None => Emit [EvCli "outoffuel" []] (Ret None)
           end))
  end.

Fixpoint run_ops (cf : conf) (fuel : nat) (t : nat) (sl : slots) (os : list op) : prog unit :=
  match os with
  | [] => Ret tt
  | o :: r =>
      Conc.bind (run_op cf fuel t sl o) (fun x =>
        match x with Some sl' => run_ops cf fuel t sl' r | None => Ret tt end)
  end.

Definition thread_prog (cf : conf) (fuel : nat) (t : nat) (os : list op) : Conc.thread G V ev :=
  Act a_begin (fun _ => run_ops cf fuel t slots0 os).

Fixpoint mapi_from {A B} (f : nat -> A -> B) (i : nat) (l : list A) : list B :=
  match l with
  | [] => []
  | x :: r => f i x :: mapi_from f (S i) r
  end.

Definition init : G := mkG 0 0 (fun _ => None) (fun _ => None) (fun _ => 0) 1 0.

Definition init_cfg (cf : conf) (fuel : nat) (ths : list (list op)) : Conc.config G V ev :=
  Conc.Cfg init (mapi_from (thread_prog cf fuel) 0 ths) [].

Definition decode_op (o : list Z) : option op :=
  match o with
  | [1; v] => Some (OEnq v)
  | [2] => Some ODeq
  | _ => None
  end.

Fixpoint decode_ops (os : list (list Z)) : list op :=
  match os with
  | [] => []
  | o :: r => match decode_op o with Some x => x :: decode_ops r | None => decode_ops r end
  end.

Definition zbool (z : Z) : bool := negb (Z.eqb z 0).

(** cfg = [_; item counter; hp; loop fuel]  (same positions as LV.Model.MSQueue) *)
Definition run_case (cfg : list Z) (ths : list (list (list Z))) (sched : list nat) (fuel : nat)
  : list (nat * ev) * bool :=
  let cf := mkConf (zbool (nth 1 cfg 0)) (zbool (nth 2 cfg 1)) in
  let lfuel := Z.to_nat (nth 3 cfg 1000) in
  let r := Conc.run fuel 0 sched (init_cfg cf lfuel (map decode_ops ths)) in
  (Conc.trace (fst r), snd r).
