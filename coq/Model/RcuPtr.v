(** * Model of an RCU container client that hands out raw_ptr / exempt_ptr, on top of the general-purpose RCU core
      LV.Model.RcuGp (flavour general_instant).  One atomic access per [Act].

    C++ modelled (current tree):

    cds/urcu/raw_ptr.h            raw_ptr( value_type * p, reclaimed_enumerator&& e ): m_ptr( p ), m_Enum( move(e) )
                                  operator=( raw_ptr&& p ): m_ptr = p.m_ptr; m_Enum.combine( move( p.m_Enum ))
                                  release(): m_Enum.apply(); m_ptr = nullptr;            ~raw_ptr(): release()
    cds/intrusive/details/raw_ptr_disposer.h
                                  raw_ptr_disposer( Position& pos ): pReclaimedChain( pos.pDelChain ) { pos.pDelChain = nullptr; }
                                  apply(): if ( pReclaimedChain ) { assert( !gc::is_locked()); disposer()( pReclaimedChain ); ... }
    cds/urcu/exempt_ptr.h         release(): if ( !empty()) { assert( !rcu::is_locked()); rcu::retire_ptr<disposer>( m_pNode ); m_pNode = nullptr; }
                                  ~exempt_ptr(): release()
    cds/intrusive/michael_list_rcu.h  (the container whose discipline is modelled; lazy_list_rcu.h, skip_list_rcu.h
                                  (m_arrRetiredChain / dispose_deferred), ellen_bintree_rcu.h follow the same discipline)
      position::~position():      dispose_chain( pDelChain );
      dispose_chain( pChain ):    if ( pChain ) { assert( !gc::is_locked()); gc::batch_retire( f ); }     // f pops the chain
      link_to_remove_chain( pos, pDel ):  pDel->m_pDelChain = pos.pDelChain; pos.pDelChain = pDel;
      search():                   try_again: pCur = pPrev->load(); if ( !pCur ) return false; pNext = pCur->m_pNext.load();
                                  if ( pNext.bits()) {                      // logically deleted: help to unlink
                                      if ( pPrev->compare_exchange_weak( pCur, pNext.ptr()))
                                          if ( pNext.bits() == erase_mask ) link_to_remove_chain( pos, pCur.ptr());
                                      goto try_again; }
                                  ... return found
      unlink_node( pos, nMask ):  if ( pCur->m_pNext.CAS( next, next | nMask )) {                 // logical deletion
                                      if ( pPrev->CAS( cur, pNext )) { if ( nMask == erase_mask ) link_to_remove_chain( pos, pCur ); }
                                      else search( ... );                                          // slow path
                                      return true; }
                                  return false;
      erase_at():                 check_deadlock_policy::check();  for (;;) { { rcu_lock l; if ( !search ) return false;
                                      if ( !unlink_node( pos, erase_mask )) continue; }  return true; }      then ~position
      extract_at():               { rcu_lock l; for (;;) { if ( !search ) return nullptr;
                                      if ( !unlink_node( pos, extract_mask )) continue;  return pExtracted; } }  then ~position
      get_at():                   assert( gc::is_locked()); if ( search ) return raw_ptr( pCur, raw_ptr_disposer( pos ));
                                  return raw_ptr( raw_ptr_disposer( pos ));
      find_at():                  position pos; { rcu_lock l; if ( search ) f( *pCur ); }                       then ~position
      insert_at():                position pos; { rcu_lock l; loop: if ( search ) return false; if ( link_node ) return true; }  then ~position
    cds/urcu/details/gpi.h        batch_retire( Func e ): p = e(); if ( p.m_p ) { synchronize(); while ( p.m_p ) { pr = p; p = e(); pr.free(); } }
                                  retire_ptr( p ): synchronize(); p.free();
    cds/urcu/details/check_deadlock.h   check_deadlock_policy<RCU, rcu_throw_deadlock>::check(): if ( RCU::is_locked()) throw rcu_deadlock();

    What the code does when a pointer is released INSIDE a read-side section: raw_ptr::release / exempt_ptr::release /
    dispose_chain only [assert( !is_locked())], which is compiled out under -DNDEBUG; erase()/unlink() (not extract(),
    not release()) run check_deadlock_policy::check(), which throws with the default policy.  So under NDEBUG a release
    inside the lock calls batch_retire / retire_ptr: with general_instant that is synchronize(), whose flip_and_wait
    spins on the caller's own thread record forever (self-deadlock, [strict = false] below reproduces it); with the
    buffered flavours the pointers are only pushed into the buffer (harmless) unless the buffer is full, in which case
    push_buffer calls synchronize() and self-deadlocks in the same way.

    Abstractions (stated, not hidden):
    - the container is a ONE-SLOT Michael list: [pg_head] is the head pointer (0 = empty), the only node's m_pNext is
      always null, so only its mark bits [pg_mark p] (0, erase_mask = 1, extract_mask = 3) are state.  The
      re-validation loads of search() are dropped.  Node ids come from a never-reusing allocator [pg_next]
      (DESIGN 4); the node is created in the step of the successful link CAS.
    - thread-local objects (position::pDelChain, raw_ptr::m_Enum chain, raw_ptr::m_ptr, exempt_ptr::m_pNode) are
      values of the thread's program, not shared state.
    - client contract: get()/deref of raw_ptr only inside a section (m_ptr is forgotten when the outermost section
      is left: "the node returned can be reclaimed"); insert/find/erase/extract only outside (nested use would run
      ~position inside the lock); release outside.  With [strict = false] release is executed inside a section as
      the NDEBUG code does. *)
From Coq Require Import ZArith List String Bool Lia.
From LV Require Import Base.Conc Base.Events Model.RcuGp.
Import ListNotations.
Local Open Scope string_scope.
Local Open Scope list_scope.
Local Open Scope Z_scope.

(** ** shared state: the RCU core plus the container *)
Record PG := mkPG {
  pg_base : G;               (* LV.Model.RcuGp.G: thread records, control word, lock *)
  pg_head : Z;               (* m_pHead, 0 = nullptr *)
  pg_mark : Z -> Z;          (* mark bits of node p's m_pNext *)
  pg_next : Z                (* next fresh node id *)
}.

Definition pprog := Conc.prog PG V ev.
Definition pbind {A B} := @Conc.bind PG V ev A B.
Definition pact := PG -> PG * V * list ev.

(** an access of the RCU core executed on the extended state *)
Definition lift_act (f : act) : pact := fun g =>
  (mkPG (fst (fst (f (pg_base g)))) (pg_head g) (pg_mark g) (pg_next g), snd (fst (f (pg_base g))), snd (f (pg_base g))).

Fixpoint lift {R} (p : prog R) : pprog R :=
  match p with
  | Ret r => Ret r
  | Emit es k => Emit es (lift k)
  | Act f k => Act (lift_act f) (fun v => lift (k v))
  end.

Definition obj_phead : list Z := [20].
Definition obj_pmark (p : Z) : list Z := [21; p].
Definition obj_pnode (p : Z) : list Z := [22; p].

Definition set_head (g : PG) (x : Z) : PG := mkPG (pg_base g) x (pg_mark g) (pg_next g).
Definition set_mark (g : PG) (p x : Z) : PG :=
  mkPG (pg_base g) (pg_head g) (fun q => if q =? p then x else pg_mark g q) (pg_next g).

Definition a_ph_ld : pact := fun g => (g, VZ (pg_head g), acc KLd obj_phead true).
Definition a_pm_ld (p : Z) : pact := fun g => (g, VZ (pg_mark g p), acc KLd (obj_pmark p) true).
Definition a_pl_ld (p : Z) : pact := fun g => (g, VZ 0, acc KLd (obj_pnode p) true).

(** physical unlink  pPrev->CAS( cur, null ).  [m] = the mark bits the caller knows the node carries: with erase_mask
    the unlinking thread links the node to its position chain ("hold"), an extract-marked node stays with its extractor *)
Definition a_unlink (cur m : Z) : pact := fun g =>
  if pg_head g =? cur
  then (set_head g 0, VZ 1, [EvAcc KCas obj_phead true; EvCli (if m =? 1 then "hold" else "unlinked") [cur]])
  else (g, VZ 0, acc KCas obj_phead false).

(** logical deletion  pCur->m_pNext.CAS( (null,0), (null,mask) ).  With extract_mask the node now belongs to the caller ("hold") *)
Definition a_mark (cur mask : Z) : pact := fun g =>
  if pg_mark g cur =? 0
  then (set_mark g cur mask, VZ 1, [EvAcc KCas (obj_pmark cur) true; EvCli (if mask =? 3 then "hold" else "marked") [cur]])
  else (g, VZ 0, acc KCas (obj_pmark cur) false).

(** link_node: pPrev->CAS( null, pNode ) with a fresh node *)
Definition a_link : pact := fun g =>
  if pg_head g =? 0
  then (mkPG (pg_base g) (pg_next g) (pg_mark g) (pg_next g + 1), VZ (pg_next g),
        [EvAcc KCas obj_phead true; EvCli "linked" [pg_next g]])
  else (g, VZ 0, acc KCas obj_phead false).

(** ** search: [None] = out of fuel, [Some (found, chain)] with found = 0 for "not found" *)
Fixpoint search (fuel : nat) (ch : list Z) : pprog (option (Z * list Z)) :=
  match fuel with
  | O => Ret None
  | S f =>
      Act a_ph_ld (fun v =>
        let cur := vz v in
        if cur =? 0 then Ret (Some (0, ch))
        else Act (a_pm_ld cur) (fun m =>
          if vz m =? 0 then Ret (Some (cur, ch))
          else Act (a_unlink cur (vz m)) (fun ok =>
            if (vz ok =? 1) && (vz m =? 1) then search f (cur :: ch) else search f ch)))
  end.

(** unlink_node: [Some (done, chain)] *)
Definition unlink_node (fuel : nat) (cur mask : Z) (ch : list Z) : pprog (option (bool * list Z)) :=
  Act (a_mark cur mask) (fun ok =>
    if vz ok =? 0 then Ret (Some (false, ch))
    else Act (a_unlink cur mask) (fun ok2 =>
      if vz ok2 =? 1 then Ret (Some (true, if mask =? 1 then cur :: ch else ch))
      else pbind (search fuel ch) (fun r =>
        match r with
        | None => Ret None
        | Some (_, ch') => Ret (Some (true, ch'))
        end))).

(** one round of erase/extract under the lock: search, then unlink_node *)
Inductive rres := RNotFound (ch : list Z) | RDone (p : Z) (ch : list Z) | RRetry (ch : list Z) | RFuel.

Definition remove_try (fuel : nat) (mask : Z) (ch : list Z) : pprog rres :=
  pbind (search fuel ch) (fun r =>
    match r with
    | None => Ret RFuel
    | Some (cur, ch1) =>
        if cur =? 0 then Ret (RNotFound ch1)
        else pbind (unlink_node fuel cur mask ch1) (fun u =>
          match u with
          | None => Ret RFuel
          | Some (true, ch2) => Ret (RDone cur ch2)
          | Some (false, ch2) => Ret (RRetry ch2)
          end)
    end).

Definition p_rlock (m : nat) (d : nat) : pprog unit := lift (do_rlock m d).
Definition p_runlock (m : nat) (d : nat) : pprog unit := lift (do_runlock m d).

(** erase_at: the lock is taken in every round; result [Some (erased node or 0, chain)] *)
Fixpoint erase_loop (n fuel : nat) (m : nat) (ch : list Z) : pprog (option (Z * list Z)) :=
  match n with
  | O => Ret None
  | S n' =>
      pbind (p_rlock m O) (fun _ =>
      pbind (remove_try fuel 1 ch) (fun r =>
        match r with
        | RFuel => Ret None
        | RNotFound ch1 => pbind (p_runlock m 1) (fun _ => Ret (Some (0, ch1)))
        | RDone p ch1 => pbind (p_runlock m 1) (fun _ => Ret (Some (p, ch1)))
        | RRetry ch1 => pbind (p_runlock m 1) (fun _ => erase_loop n' fuel m ch1)
        end))
  end.

(** extract_at: one lock around the loop *)
Fixpoint extract_loop (n fuel : nat) (ch : list Z) : pprog (option (Z * list Z)) :=
  match n with
  | O => Ret None
  | S n' =>
      pbind (remove_try fuel 3 ch) (fun r =>
        match r with
        | RFuel => Ret None
        | RNotFound ch1 => Ret (Some (0, ch1))
        | RDone p ch1 => Ret (Some (p, ch1))
        | RRetry ch1 => extract_loop n' fuel ch1
        end)
  end.

(** insert_at_locked *)
Fixpoint insert_loop (n fuel : nat) (ch : list Z) : pprog (option (Z * list Z)) :=
  match n with
  | O => Ret None
  | S n' =>
      pbind (search fuel ch) (fun r =>
        match r with
        | None => Ret None
        | Some (cur, ch1) =>
            if cur =? 0 then Act a_link (fun v => if vz v =? 0 then insert_loop n' fuel ch1 else Ret (Some (vz v, ch1)))
            else Ret (Some (0, ch1))
        end)
  end.

(** ** batch_retire of general_instant / dispose_chain *)
Fixpoint emit_all {R} (name : string) (ps : list Z) (k : pprog R) : pprog R :=
  match ps with
  | [] => k
  | p :: r => Emit (cli name [p]) (emit_all name r k)
  end.

Definition do_batch (fuel : nat) (ps : list Z) : pprog bool :=
  match ps with
  | [] => Ret true
  | _ => emit_all "retire" ps (pbind (lift (gpi_synchronize 2 fuel)) (fun ok =>
           if ok then emit_all "dispose" ps (Ret true) else Ret false))
  end.

(** release() of a raw_ptr / exempt_ptr, ~position: "release p1 .. pn" marks the call and names the nodes handed over *)
Definition do_release (fuel : nat) (ps : list Z) : pprog bool :=
  match ps with
  | [] => Ret true
  | _ => Emit (cli "release" ps) (do_batch fuel ps)
  end.

(** ** client operations
      [1] attach  [2] detach  [3] rlock  [4] runlock          as in LV.Model.RcuGp
      [5]  insert     outside a section: { rcu_lock; insert_at_locked (fresh node) } ~position;  "ins p" (0 = key exists)
      [6]  find       outside: { rcu_lock; search; payload load; "touch p" } ~position
      [7]  get        inside a section: rp = c.get(): search, m_ptr = found, chain combined;  "rp_get p"
      [8]  deref      inside, m_ptr != null: payload load of *rp; "touch p"
      [9]  rp_release rp.release(): outside a section (inside: skipped if [strict], executed otherwise)
      [10] erase      outside (inside: check_deadlock_policy throws, skipped): erase_at; ~position; "erase p" (0 = not found)
      [11] extract    outside, exempt_ptr empty: xp = c.extract(); ~position; "xp_get p"
      [12] xderef     xp not empty: payload load of *xp; "xtouch p"
      [13] xp_release xp.release(): outside a section (inside: skipped if [strict], executed otherwise)
    A thread that reaches the end of its program leaves its sections, releases both pointers and detaches. *)
Inductive pop := PAttach | PDetach | PRLock | PRUnlock | PInsert | PFind | PGet | PDeref | PRpRelease | PErase | PExtract
               | PXDeref | PXRelease.

Record pst := mkP { s_rec : option nat; s_depth : nat; s_rpp : Z; s_rpc : list Z; s_xp : Z }.

Section Client.
  Variables (strict : bool) (fuel : nat).

  Definition op_insert (m : nat) (s : pst) : pprog (option pst) :=
    pbind (p_rlock m O) (fun _ =>
    pbind (insert_loop fuel fuel []) (fun r =>
      match r with
      | None => Ret None
      | Some (p, ch) =>
          pbind (p_runlock m 1) (fun _ => Emit (cli "ins" [p]) (
          pbind (do_release fuel ch) (fun ok => if ok then Ret (Some s) else Ret None)))
      end)).

  Definition op_find (m : nat) (s : pst) : pprog (option pst) :=
    pbind (p_rlock m O) (fun _ =>
    pbind (search fuel []) (fun r =>
      match r with
      | None => Ret None
      | Some (p, ch) =>
          pbind (if p =? 0 then Ret tt else Act (a_pl_ld p) (fun _ => Emit (cli "touch" [p]) (Ret tt))) (fun _ =>
          pbind (p_runlock m 1) (fun _ =>
          pbind (do_release fuel ch) (fun ok => if ok then Ret (Some s) else Ret None)))
      end)).

  Definition op_get (s : pst) : pprog (option pst) :=
    pbind (search fuel []) (fun r =>
      match r with
      | None => Ret None
      | Some (p, ch) => Emit (cli "rp_get" [p]) (Ret (Some (mkP (s_rec s) (s_depth s) p (ch ++ s_rpc s) (s_xp s))))
      end).

  Definition op_deref (s : pst) : pprog (option pst) :=
    Act (a_pl_ld (s_rpp s)) (fun _ => Emit (cli "touch" [s_rpp s]) (Ret (Some s))).

  Definition op_rp_release (s : pst) : pprog (option pst) :=
    pbind (do_release fuel (s_rpc s)) (fun ok =>
      if ok then Ret (Some (mkP (s_rec s) (s_depth s) 0 [] (s_xp s))) else Ret None).

  Definition op_erase (m : nat) (s : pst) : pprog (option pst) :=
    pbind (erase_loop fuel fuel m []) (fun r =>
      match r with
      | None => Ret None
      | Some (p, ch) => Emit (cli "erase" [p]) (pbind (do_release fuel ch) (fun ok => if ok then Ret (Some s) else Ret None))
      end).

  Definition op_extract (m : nat) (s : pst) : pprog (option pst) :=
    pbind (p_rlock m O) (fun _ =>
    pbind (extract_loop fuel fuel []) (fun r =>
      match r with
      | None => Ret None
      | Some (p, ch) =>
          pbind (p_runlock m 1) (fun _ => Emit (cli "xp_get" [p]) (
          pbind (do_release fuel ch) (fun ok =>
            if ok then Ret (Some (mkP (s_rec s) (s_depth s) (s_rpp s) (s_rpc s) p)) else Ret None)))
      end)).

  Definition op_xderef (s : pst) : pprog (option pst) :=
    Act (a_pl_ld (s_xp s)) (fun _ => Emit (cli "xtouch" [s_xp s]) (Ret (Some s))).

  Definition op_xp_release (s : pst) : pprog (option pst) :=
    pbind (do_release fuel [s_xp s]) (fun ok =>
      if ok then Ret (Some (mkP (s_rec s) (s_depth s) (s_rpp s) (s_rpc s) 0)) else Ret None).

  Definition outside (s : pst) : bool := Nat.eqb (s_depth s) O.

  Definition run_pop (t : nat) (s : pst) (o : pop) : pprog (option pst) :=
    match o with
    | PAttach =>
        match s_rec s with
        | Some _ => Ret (Some s)
        | None => pbind (lift (attach fuel t)) (fun r =>
            match r with
            | Some m => Emit (cli "attach" []) (Ret (Some (mkP (Some m) O (s_rpp s) (s_rpc s) (s_xp s))))
            | None => Ret None
            end)
        end
    | PDetach =>
        match s_rec s, s_depth s with
        | Some m, O => pbind (lift (detach m)) (fun _ =>
                         Emit (cli "detach" []) (Ret (Some (mkP None O (s_rpp s) (s_rpc s) (s_xp s)))))
        | _, _ => Ret (Some s)
        end
    | PRLock =>
        match s_rec s with
        | Some m => if depth_ok (s_depth s)
                    then pbind (p_rlock m (s_depth s)) (fun _ =>
                           Ret (Some (mkP (Some m) (S (s_depth s)) (s_rpp s) (s_rpc s) (s_xp s))))
                    else Ret (Some s)
        | None => Ret (Some s)
        end
    | PRUnlock =>
        match s_rec s, s_depth s with
        | Some m, S d => pbind (p_runlock m (S d)) (fun _ =>
                           Ret (Some (mkP (Some m) d (match d with O => 0 | _ => s_rpp s end) (s_rpc s) (s_xp s))))
        | _, _ => Ret (Some s)
        end
    | PInsert => match s_rec s with Some m => if outside s then op_insert m s else Ret (Some s) | None => Ret (Some s) end
    | PFind => match s_rec s with Some m => if outside s then op_find m s else Ret (Some s) | None => Ret (Some s) end
    | PGet => if outside s then Ret (Some s) else op_get s
    | PDeref => if outside s || (s_rpp s =? 0) then Ret (Some s) else op_deref s
    | PRpRelease => if outside s || negb strict then op_rp_release s else Ret (Some s)
    | PErase => match s_rec s with Some m => if outside s then op_erase m s else Ret (Some s) | None => Ret (Some s) end
    | PExtract => match s_rec s with
                  | Some m => if outside s && (s_xp s =? 0) then op_extract m s else Ret (Some s)
                  | None => Ret (Some s)
                  end
    | PXDeref => if s_xp s =? 0 then Ret (Some s) else op_xderef s
    | PXRelease => if s_xp s =? 0 then Ret (Some s)
                   else if outside s || negb strict then op_xp_release s else Ret (Some s)
    end.

  (** leaving all sections at the end of the program *)
  Fixpoint p_leave_all (m : nat) (d : nat) : pprog unit :=
    match d with
    | O => Ret tt
    | S d' => pbind (p_runlock m (S d')) (fun _ => p_leave_all m d')
    end.

  (** destructors of the two pointers, then detach *)
  Definition p_finish (s : pst) : pprog unit :=
    pbind (match s_rec s with Some m => p_leave_all m (s_depth s) | None => Ret tt end) (fun _ =>
    pbind (do_release fuel (s_rpc s)) (fun ok =>
      if ok then
        pbind (if s_xp s =? 0 then Ret true else do_release fuel [s_xp s]) (fun ok' =>
          if ok' then
            match s_rec s with
            | Some m => pbind (lift (detach m)) (fun _ => Emit (cli "detach" []) (Ret tt))
            | None => Ret tt
            end
          else Emit (cli "outoffuel" []) (Ret tt))
      else Emit (cli "outoffuel" []) (Ret tt))).

  Fixpoint run_pops (t : nat) (s : pst) (os : list pop) : pprog unit :=
    match os with
    | [] => p_finish s
    | o :: r => pbind (run_pop t s o) (fun s' =>
        match s' with
        | Some s'' => run_pops t s'' r
        | None => Emit (cli "outoffuel" []) (Ret tt)
        end)
  end.

  Definition pthread (t : nat) (os : list pop) : Conc.thread PG V ev :=
    Act (lift_act a_begin) (fun _ => run_pops t (mkP None O 0 [] 0) os).
End Client.

Definition pinit : PG := mkPG init 0 (fun _ => 0) 1.

Definition pinit_cfg (strict : bool) (fuel : nat) (ths : list (list pop)) : Conc.config PG V ev :=
  Conc.Cfg pinit (map (fun p => pthread strict fuel (fst p) (snd p)) (number O ths)) [].

(** ** entry point for computed examples / extraction *)
Definition decode_pop (o : list Z) : option pop :=
  match o with
  | [1] => Some PAttach | [2] => Some PDetach | [3] => Some PRLock | [4] => Some PRUnlock
  | [5] => Some PInsert | [6] => Some PFind | [7] => Some PGet | [8] => Some PDeref | [9] => Some PRpRelease
  | [10] => Some PErase | [11] => Some PExtract | [12] => Some PXDeref | [13] => Some PXRelease
  | _ => None
  end.

Fixpoint decode_pops (os : list (list Z)) : list pop :=
  match os with
  | [] => []
  | o :: r => match decode_pop o with Some x => x :: decode_pops r | None => decode_pops r end
  end.

(** cfg = [strict (0/1); spin fuel] *)
Definition run_case (cfg : list Z) (ths : list (list (list Z))) (sched : list nat) (fuel : nat)
  : list (nat * ev) * bool :=
  let strict := negb (nth 0 cfg 1 =? 0) in
  let sfuel := Z.to_nat (nth 1 cfg 200) in
  let r := Conc.run fuel 0 sched (pinit_cfg strict sfuel (map decode_pops ths)) in
  (Conc.trace (fst r), snd r).
