(** * Model of the general-purpose user-space RCU core of libcds, one atomic access per [Act].

    C++ modelled (current tree), in the order the atomics are executed:

    cds/urcu/details/base.h, thread_list<RCUtag>:
      alloc():   for ( pRec = m_pHead.load(); pRec; pRec = pRec->m_list.next_ ) {
                     thId = null; if ( !pRec->m_list.thread_id_.compare_exchange_strong( thId, cur )) continue;
                     return pRec; }
                 pRec = New( cur );                        // m_nAccessControl(0), thread_id_(cur): plain initialisation
                 pOldHead = m_pHead.load();
                 do { pRec->m_list.next_ = pOldHead; } while ( !m_pHead.compare_exchange_weak( pOldHead, pRec ));
      retire( pRec ):   pRec->m_list.thread_id_.store( null );
    src/thread_data.cpp + cds/threading/details/_common.h (what Manager::attachThread / detachThread execute when
    only one RCU singleton exists):
      ThreadData():  s_nLastUsedProcNo.fetch_add(1);    init(): m_pXRCU = singleton::attach_thread() = m_ThreadList.alloc()
      fini():        singleton::detach_thread( m_pXRCU ) = m_ThreadList.retire( pRec )
    cds/urcu/details/gp_decl.h:  gp_singleton(): m_nGlobalControl(1)
    cds/urcu/details/gp.h:
      access_lock():    tmp = pRec->m_nAccessControl.load();
                        if ( (tmp & c_nNestMask) == 0 ) pRec->m_nAccessControl.store( m_nGlobalControl.load());   // + fence
                        else                            pRec->m_nAccessControl.store( tmp + 1 );
      access_unlock():  tmp = pRec->m_nAccessControl.load();  pRec->m_nAccessControl.store( tmp - 1 );
      check_grace_period( pRec ):  v = pRec->m_nAccessControl.load();
                        return (v & c_nNestMask) && (( v ^ m_nGlobalControl.load()) & ~c_nNestMask );
      flip_and_wait():  m_nGlobalControl.fetch_xor( c_nControlBit );
                        for ( pRec = m_ThreadList.head(); pRec; pRec = pRec->m_list.next_ )
                            while ( pRec->m_list.thread_id_.load() != null && check_grace_period( pRec )) bkoff();
    cds/urcu/details/gpi.h (general_instant<Lock,Backoff>):
      synchronize():    std::unique_lock<lock_type> sl( m_Lock );  flip_and_wait();  flip_and_wait();
      retire_ptr( p ):  synchronize();  if ( p.m_p ) p.free();
    Lock = cds::sync::spin_lock<backoff::empty> (cds/sync/spinlock.h, the lock of property C22):
      lock():  while ( !( !m_spin.exchange(true))) { while ( m_spin.load()) ; }      unlock(): m_spin.store(false)

    Abstractions (stated, not hidden):
    - the record list is a Coq list of record numbers, head first.  [next_] is written only before the record is
      published by the head CAS and records are never unlinked, so the traversal from a loaded head visits exactly
      the list as it was at the load: the head load returns that list ([VL]).  The head CAS compares head pointers,
      i.e. the first record numbers.
    - [New] is not an atomic access; the fresh record is created inside the step of the following head load.
    - words are [Z] in [0, 2^32); +1, -1 wrap modulo 2^32; masks are [Z.land]/[Z.lxor] as in the C++.
    - [flips] (2 in the real code) is a parameter so that the one-flip variant can be refuted (non-vacuity).

    Client operations (what harness/C04/main.cpp executes on the real object), see [op]. *)
From Coq Require Import ZArith List String Bool Lia.
From LV Require Import Base.Conc Base.Events.
Import ListNotations.
Local Open Scope string_scope.
Local Open Scope Z_scope.

Definition two31 : Z := 2147483648.
Definition two32 : Z := 4294967296.
Definition c_nControlBit : Z := two31.
Definition c_nNestMask : Z := c_nControlBit - 1.
Definition not_nest_mask : Z := two32 - 1 - c_nNestMask.       (* ~c_nNestMask as uint32_t *)
Definition u32 (z : Z) : Z := z mod two32.
Definition nest (v : Z) : Z := Z.land v c_nNestMask.
(** check_grace_period on already loaded values *)
Definition phase_differs (v g : Z) : bool := negb (Z.land (Z.lxor v g) not_nest_mask =? 0).

(** ** shared state *)
Record G := mkG {
  g_ctl   : Z;                (* m_nGlobalControl *)
  g_list  : list nat;         (* m_ThreadList, record numbers, head first *)
  g_nrec  : nat;              (* records allocated so far; record numbers are 1.. *)
  g_tid   : nat -> Z;         (* thread_id_ of a record; 0 = c_NullThreadId *)
  g_acc   : nat -> Z;         (* m_nAccessControl of a record *)
  g_lock  : bool;             (* m_Lock.m_spin *)
  g_proc  : Z;                (* ThreadData::s_nLastUsedProcNo *)
  g_src   : Z;                (* harness variable: the published object, 0 = none *)
  (* fields of the buffered flavours (LV.Model.RcuBuf); nothing in this file touches them *)
  g_epoch : Z;                (* m_nCurEpoch *)
  g_buf   : list (Z * Z);     (* m_Buffer as a FIFO of (object, epoch), oldest first *)
  g_bcap  : nat;              (* number of entries the buffer can hold *)
  g_cap   : Z;                (* m_nCapacity *)
  g_cnt   : bool;             (* the buffer counts its items (size() is exact) / size() is always 0 *)
  (* signal_buffered (LV.Model.RcuSignal) *)
  g_mb    : nat -> bool;      (* m_bNeedMemBar of a record *)
  (* general_threaded (LV.Model.RcuThreaded): dispose_thread's mailbox *)
  g_task  : option Z;         (* m_pBuffer != nullptr, with m_nCurEpoch = the epoch handed over *)
  g_ready : bool;             (* m_bReady *)
  g_quit  : bool;             (* m_bQuit *)
  g_ndone : nat               (* general_threaded model: number of client threads that have terminated (what join observes) *)
}.

Inductive val := VZ (z : Z) | VL (l : list nat) | VP (r : option (Z * Z)).
Definition V := val.
Definition vz (v : V) : Z := match v with VZ z => z | _ => 0 end.
Definition vl (v : V) : list nat := match v with VL l => l | _ => [] end.
Definition vp (v : V) : option (Z * Z) := match v with VP r => r | _ => None end.

Definition prog := Conc.prog G V ev.
Definition bind {A B} := @Conc.bind G V ev A B.

Definition upd {A} (f : nat -> A) (m : nat) (x : A) : nat -> A := fun k => if Nat.eqb k m then x else f k.

Definition set_ctl (g : G) (x : Z) : G :=
  mkG x (g_list g) (g_nrec g) (g_tid g) (g_acc g) (g_lock g) (g_proc g) (g_src g) (g_epoch g) (g_buf g) (g_bcap g) (g_cap g) (g_cnt g) (g_mb g) (g_task g) (g_ready g) (g_quit g) (g_ndone g).
Definition set_list (g : G) (x : list nat) : G :=
  mkG (g_ctl g) x (g_nrec g) (g_tid g) (g_acc g) (g_lock g) (g_proc g) (g_src g) (g_epoch g) (g_buf g) (g_bcap g) (g_cap g) (g_cnt g) (g_mb g) (g_task g) (g_ready g) (g_quit g) (g_ndone g).
Definition set_nrec (g : G) (x : nat) : G :=
  mkG (g_ctl g) (g_list g) x (g_tid g) (g_acc g) (g_lock g) (g_proc g) (g_src g) (g_epoch g) (g_buf g) (g_bcap g) (g_cap g) (g_cnt g) (g_mb g) (g_task g) (g_ready g) (g_quit g) (g_ndone g).
Definition set_tid (g : G) (m : nat) (x : Z) : G :=
  mkG (g_ctl g) (g_list g) (g_nrec g) (upd (g_tid g) m x) (g_acc g) (g_lock g) (g_proc g) (g_src g) (g_epoch g) (g_buf g) (g_bcap g) (g_cap g) (g_cnt g) (g_mb g) (g_task g) (g_ready g) (g_quit g) (g_ndone g).
Definition set_acc (g : G) (m : nat) (x : Z) : G :=
  mkG (g_ctl g) (g_list g) (g_nrec g) (g_tid g) (upd (g_acc g) m x) (g_lock g) (g_proc g) (g_src g) (g_epoch g) (g_buf g) (g_bcap g) (g_cap g) (g_cnt g) (g_mb g) (g_task g) (g_ready g) (g_quit g) (g_ndone g).
Definition set_lock (g : G) (x : bool) : G :=
  mkG (g_ctl g) (g_list g) (g_nrec g) (g_tid g) (g_acc g) x (g_proc g) (g_src g) (g_epoch g) (g_buf g) (g_bcap g) (g_cap g) (g_cnt g) (g_mb g) (g_task g) (g_ready g) (g_quit g) (g_ndone g).
Definition set_proc (g : G) (x : Z) : G :=
  mkG (g_ctl g) (g_list g) (g_nrec g) (g_tid g) (g_acc g) (g_lock g) x (g_src g) (g_epoch g) (g_buf g) (g_bcap g) (g_cap g) (g_cnt g) (g_mb g) (g_task g) (g_ready g) (g_quit g) (g_ndone g).
Definition set_src (g : G) (x : Z) : G :=
  mkG (g_ctl g) (g_list g) (g_nrec g) (g_tid g) (g_acc g) (g_lock g) (g_proc g) x (g_epoch g) (g_buf g) (g_bcap g) (g_cap g) (g_cnt g) (g_mb g) (g_task g) (g_ready g) (g_quit g) (g_ndone g).
Definition set_epoch (g : G) (x : Z) : G :=
  mkG (g_ctl g) (g_list g) (g_nrec g) (g_tid g) (g_acc g) (g_lock g) (g_proc g) (g_src g) x (g_buf g) (g_bcap g) (g_cap g) (g_cnt g) (g_mb g) (g_task g) (g_ready g) (g_quit g) (g_ndone g).
Definition set_mb (g : G) (m : nat) (x : bool) : G :=
  mkG (g_ctl g) (g_list g) (g_nrec g) (g_tid g) (g_acc g) (g_lock g) (g_proc g) (g_src g) (g_epoch g) (g_buf g) (g_bcap g) (g_cap g) (g_cnt g) (upd (g_mb g) m x) (g_task g) (g_ready g) (g_quit g) (g_ndone g).
Definition set_mail (g : G) (task : option Z) (ready quit : bool) : G :=
  mkG (g_ctl g) (g_list g) (g_nrec g) (g_tid g) (g_acc g) (g_lock g) (g_proc g) (g_src g) (g_epoch g) (g_buf g) (g_bcap g) (g_cap g) (g_cnt g) (g_mb g) task ready quit (g_ndone g).
Definition set_ndone (g : G) (x : nat) : G :=
  mkG (g_ctl g) (g_list g) (g_nrec g) (g_tid g) (g_acc g) (g_lock g) (g_proc g) (g_src g) (g_epoch g) (g_buf g) (g_bcap g) (g_cap g) (g_cnt g) (g_mb g) (g_task g) (g_ready g) (g_quit g) x.
Definition set_buf (g : G) (x : list (Z * Z)) : G :=
  mkG (g_ctl g) (g_list g) (g_nrec g) (g_tid g) (g_acc g) (g_lock g) (g_proc g) (g_src g) (g_epoch g) x (g_bcap g) (g_cap g) (g_cnt g) (g_mb g) (g_task g) (g_ready g) (g_quit g) (g_ndone g).

(** symbolic addresses *)
Definition obj_head : list Z := [0].
Definition obj_tid (m : nat) : list Z := [1; Z.of_nat m].
Definition obj_acc (m : nat) : list Z := [2; Z.of_nat m].
Definition obj_ctl : list Z := [3].
Definition obj_lock : list Z := [4].
Definition obj_proc : list Z := [5].
Definition obj_src : list Z := [6].
Definition obj_payload (p : Z) : list Z := [10; p].

Definition act := G -> G * V * list ev.
Definition acc (k : akind) (o : list Z) (ok : bool) : list ev := [EvAcc k o ok].

Definition a_begin : act := fun g => (g, VZ 0, acc KBegin [] true).
Definition a_proc_faa : act := fun g => (set_proc g (g_proc g + 1), VZ (g_proc g), acc KFaa obj_proc true).
Definition a_head_ld : act := fun g => (g, VL (g_list g), acc KLd obj_head true).
(** thread_id_.compare_exchange_strong( null, me ) *)
Definition a_tid_cas (m : nat) (me : Z) : act := fun g =>
  if g_tid g m =? 0 then (set_tid g m me, VZ 1, acc KCas (obj_tid m) true)
  else (g, VZ 0, acc KCas (obj_tid m) false).
(** New( me ) followed by pOldHead = m_pHead.load(): the fresh record gets the next number *)
Definition a_new_head_ld (me : Z) : act := fun g =>
  let m := S (g_nrec g) in
  (set_nrec (set_acc (set_tid g m me) m 0) m, VL (m :: g_list g), acc KLd obj_head true).
Definition hd_id (l : list nat) : nat := match l with [] => O | m :: _ => m end.
(** m_pHead.compare_exchange_weak( pOldHead, pRec ); on failure pOldHead is reloaded *)
Definition a_head_cas (m : nat) (old : list nat) : act := fun g =>
  if Nat.eqb (hd_id (g_list g)) (hd_id old) then (set_list g (m :: g_list g), VZ 1, acc KCas obj_head true)
  else (g, VL (g_list g), acc KCas obj_head false).
Definition a_tid_st (m : nat) (x : Z) : act := fun g => (set_tid g m x, VZ 0, acc KSt (obj_tid m) true).
Definition a_tid_ld (m : nat) : act := fun g => (g, VZ (g_tid g m), acc KLd (obj_tid m) true).
Definition a_acc_ld (m : nat) : act := fun g => (g, VZ (g_acc g m), acc KLd (obj_acc m) true).
Definition a_acc_st (m : nat) (x : Z) : act := fun g => (set_acc g m x, VZ 0, acc KSt (obj_acc m) true).
Definition a_ctl_ld : act := fun g => (g, VZ (g_ctl g), acc KLd obj_ctl true).
Definition a_ctl_fxor : act := fun g => (set_ctl g (Z.lxor (g_ctl g) c_nControlBit), VZ (g_ctl g), acc KFxor obj_ctl true).
Definition a_lock_xchg : act := fun g => (set_lock g true, VZ (Z.b2z (g_lock g)), acc KXchg obj_lock true).
Definition a_lock_ld : act := fun g => (g, VZ (Z.b2z (g_lock g)), acc KLd obj_lock true).
Definition a_lock_st : act := fun g => (set_lock g false, VZ 0, acc KSt obj_lock true).
Definition a_src_st (x : Z) : act := fun g => (set_src g x, VZ 0, acc KSt obj_src true).
Definition a_src_ld : act := fun g => (g, VZ (g_src g), acc KLd obj_src true).
Definition a_payload_ld (p : Z) : act := fun g => (g, VZ 0, acc KLd (obj_payload p) true).

Definition cli (name : string) (args : list Z) : list ev := [EvCli name args].

(** ** thread_list::alloc *)
(** the reuse loop over the list loaded from the head: [Some m] = record m claimed *)
Fixpoint alloc_reuse (me : Z) (l : list nat) : prog (option nat) :=
  match l with
  | [] => Ret None
  | m :: r => Act (a_tid_cas m me) (fun v => if vz v =? 1 then Ret (Some m) else alloc_reuse me r)
  end.

(** the head CAS loop; [None] = out of fuel *)
Fixpoint alloc_push (fuel : nat) (m : nat) (old : list nat) : prog (option nat) :=
  match fuel with
  | O => Ret None
  | S f => Act (a_head_cas m old) (fun v => match v with VL cur => alloc_push f m cur | _ => Ret (Some m) end)
  end.

Definition tid_of (t : nat) : Z := Z.of_nat t + 1.

(** Manager::attachThread() of a thread that is not attached *)
Definition attach (fuel : nat) (t : nat) : prog (option nat) :=
  Act a_proc_faa (fun _ =>
  Act a_head_ld (fun v =>
  bind (alloc_reuse (tid_of t) (vl v)) (fun r =>
  match r with
  | Some m => Ret (Some m)
  | None =>
      Act (a_new_head_ld (tid_of t)) (fun v' =>
        match vl v' with
        | m :: old => alloc_push fuel m old
        | [] => Ret None
        end)
  end))).

Definition detach (m : nat) : prog unit := Act (a_tid_st m 0) (fun _ => Ret tt).

(** ** gp_thread_gc::access_lock / access_unlock; the result is the value stored *)
Definition access_lock (m : nat) : prog Z :=
  Act (a_acc_ld m) (fun v =>
    let tmp := vz v in
    if nest tmp =? 0 then Act a_ctl_ld (fun g => Act (a_acc_st m (vz g)) (fun _ => Ret (vz g)))
    else Act (a_acc_st m (u32 (tmp + 1))) (fun _ => Ret (u32 (tmp + 1)))).

Definition access_unlock (m : nat) : prog Z :=
  Act (a_acc_ld m) (fun v =>
    let tmp := vz v in Act (a_acc_st m (u32 (tmp - 1))) (fun _ => Ret (u32 (tmp - 1)))).

(** ** spin_lock::lock (TATAS), [false] = out of fuel *)
Fixpoint lock_outer (fuel : nat) : prog bool :=
  match fuel with
  | O => Ret false
  | S f => Act a_lock_xchg (fun old => if vz old =? 0 then Ret true else lock_inner f)
  end
with lock_inner (fuel : nat) : prog bool :=
  match fuel with
  | O => Ret false
  | S f => Act a_lock_ld (fun v => if vz v =? 0 then lock_outer f else lock_inner f)
  end.

Definition unlock : prog unit := Act a_lock_st (fun _ => Ret tt).

(** ** gp_singleton::flip_and_wait *)
(** the wait loop on one record: thread_id_ load, m_nAccessControl load, m_nGlobalControl load; [&&] short-circuits *)
Fixpoint wait_rec (fuel : nat) (m : nat) : prog bool :=
  match fuel with
  | O => Ret false
  | S f =>
      Act (a_tid_ld m) (fun x =>
        if vz x =? 0 then Ret true
        else Act (a_acc_ld m) (fun v =>
          if nest (vz v) =? 0 then Ret true
          else Act a_ctl_ld (fun g =>
            if phase_differs (vz v) (vz g) then wait_rec f m else Ret true)))
  end.

Fixpoint scan (fuel : nat) (l : list nat) : prog bool :=
  match l with
  | [] => Ret true
  | m :: r => bind (wait_rec fuel m) (fun ok => if ok then scan fuel r else Ret false)
  end.

Definition flip_and_wait (fuel : nat) : prog bool :=
  Act a_ctl_fxor (fun _ => Act a_head_ld (fun v => scan fuel (vl v))).

Fixpoint flips_and_wait (n : nat) (fuel : nat) : prog bool :=
  match n with
  | O => Ret true
  | S n' => bind (flip_and_wait fuel) (fun ok => if ok then flips_and_wait n' fuel else Ret false)
  end.

(** general_instant::synchronize with [flips] calls of flip_and_wait (2 in the real code) *)
Definition gpi_synchronize (flips fuel : nat) : prog bool :=
  bind (lock_outer fuel) (fun ok =>
    if ok then bind (flips_and_wait flips fuel) (fun ok' =>
      if ok' then bind unlock (fun _ => Ret true) else Ret false)
    else Ret false).

(** ** client operations
      [1]     attach        Manager::attachThread()                      (skipped if attached)
      [2]     detach        Manager::detachThread()                      (skipped unless attached and outside)
      [3]     rlock         access_lock();   "rlock d n"                 (skipped unless attached, d+1 < 2^31)
      [4]     runlock       "runlock d"; access_unlock(); "runlocked n"  (skipped unless inside)
      [5]     sync          "sync_begin"; synchronize(); "sync_end"      (skipped when inside a section)
      [6; p]  retire p      "retire p"; retire_ptr(p) = synchronize + "dispose p"   (skipped when inside)
      [7; p]  publish p     src.store(p)
      [8]     unpublish     src.store(0)
      [9]     touch         v = src.load(); if v: { obj[v].payload.load(); "touch v" }   (skipped outside a section)
    d = nesting depth kept by the client, n = (m_nAccessControl & c_nNestMask) as stored by the library.
    A thread that reaches the end of its program leaves its sections and detaches. *)
Inductive op := OAttach | ODetach | ORLock | ORUnlock | OSync | ORetire (p : Z) | OPublish (p : Z) | OUnpublish | OTouch.

Record lst := mkL { my_rec : option nat; my_depth : nat }.

Definition zn (n : nat) : Z := Z.of_nat n.

Definition do_rlock (m : nat) (d : nat) : prog unit :=
  bind (access_lock m) (fun w => Emit (cli "rlock" [zn (S d); nest w]) (Ret tt)).

Definition do_runlock (m : nat) (d : nat) : prog unit :=
  Emit (cli "runlock" [zn (pred d)]) (bind (access_unlock m) (fun w => Emit (cli "runlocked" [nest w]) (Ret tt))).

Definition do_sync (flips fuel : nat) : prog bool :=
  Emit (cli "sync_begin" []) (bind (gpi_synchronize flips fuel) (fun ok =>
    if ok then Emit (cli "sync_end" []) (Ret true) else Ret false)).

Definition do_retire (flips fuel : nat) (p : Z) : prog bool :=
  Emit (cli "retire" [p]) (bind (gpi_synchronize flips fuel) (fun ok =>
    if ok then Emit (cli "dispose" [p]) (Ret true) else Ret false)).

Definition do_touch : prog unit :=
  Act a_src_ld (fun v => if vz v =? 0 then Ret tt
                         else Act (a_payload_ld (vz v)) (fun _ => Emit (cli "touch" [vz v]) (Ret tt))).

(** the client keeps its nesting depth below 2^31 (the width of the nest field) *)
Definition depth_ok (d : nat) : bool := Z.of_nat d + 1 <? two31.

(** one operation: the new local state, [None] = a wait loop ran out of fuel (the thread stops) *)
Definition run_op (flips fuel : nat) (t : nat) (s : lst) (o : op) : prog (option lst) :=
  match o with
  | OAttach =>
      match my_rec s with
      | Some _ => Ret (Some s)
      | None => bind (attach fuel t) (fun r =>
          match r with
          | Some m => Emit (cli "attach" []) (Ret (Some (mkL (Some m) O)))
          | None => Ret None
          end)
      end
  | ODetach =>
      match my_rec s, my_depth s with
      | Some m, O => bind (detach m) (fun _ => Emit (cli "detach" []) (Ret (Some (mkL None O))))
      | _, _ => Ret (Some s)
      end
  | ORLock =>
      match my_rec s with
      | Some m => if depth_ok (my_depth s)
                  then bind (do_rlock m (my_depth s)) (fun _ => Ret (Some (mkL (Some m) (S (my_depth s)))))
                  else Ret (Some s)
      | None => Ret (Some s)
      end
  | ORUnlock =>
      match my_rec s, my_depth s with
      | Some m, S d => bind (do_runlock m (S d)) (fun _ => Ret (Some (mkL (Some m) d)))
      | _, _ => Ret (Some s)
      end
  | OSync =>
      match my_depth s with
      | O => bind (do_sync flips fuel) (fun ok => if ok then Ret (Some s) else Ret None)
      | _ => Ret (Some s)
      end
  | ORetire p =>
      match my_depth s with
      | O => bind (do_retire flips fuel p) (fun ok => if ok then Ret (Some s) else Ret None)
      | _ => Ret (Some s)
      end
  | OPublish p => Act (a_src_st p) (fun _ => Ret (Some s))
  | OUnpublish => Act (a_src_st 0) (fun _ => Ret (Some s))
  | OTouch => match my_depth s with
              | O => Ret (Some s)
              | _ => bind do_touch (fun _ => Ret (Some s))
              end
  end.

(** leaving all sections and detaching at the end of the program *)
Fixpoint leave_all (m : nat) (d : nat) : prog unit :=
  match d with
  | O => Ret tt
  | S d' => bind (do_runlock m (S d')) (fun _ => leave_all m d')
  end.

Definition finish (s : lst) : prog unit :=
  match my_rec s with
  | Some m => bind (leave_all m (my_depth s)) (fun _ => bind (detach m) (fun _ => Emit (cli "detach" []) (Ret tt)))
  | None => Ret tt
  end.

Fixpoint run_ops (flips fuel : nat) (t : nat) (s : lst) (os : list op) : prog unit :=
  match os with
  | [] => finish s
  | o :: r => bind (run_op flips fuel t s o) (fun s' =>
      match s' with
      | Some s'' => run_ops flips fuel t s'' r
      | None => Emit (cli "outoffuel" []) (Ret tt)
      end)
  end.

Definition thread_prog (flips fuel : nat) (t : nat) (os : list op) : Conc.thread G V ev :=
  Act a_begin (fun _ => run_ops flips fuel t (mkL None O) os).

Definition init : G := mkG 1 [] O (fun _ => 0) (fun _ => 0) false 0 0 0 [] O 0 false (fun _ => false) None false false O.

Fixpoint number {A} (n : nat) (l : list A) : list (nat * A) :=
  match l with [] => [] | x :: r => (n, x) :: number (S n) r end.

Definition init_cfg (flips fuel : nat) (ths : list (list op)) : Conc.config G V ev :=
  Conc.Cfg init (map (fun p => thread_prog flips fuel (fst p) (snd p)) (number O ths)) [].

(** ** entry point of the extracted driver *)
Definition decode_op (o : list Z) : option op :=
  match o with
  | [1] => Some OAttach
  | [2] => Some ODetach
  | [3] => Some ORLock
  | [4] => Some ORUnlock
  | [5] => Some OSync
  | [6; p] => Some (ORetire p)
  | [7; p] => Some (OPublish p)
  | [8] => Some OUnpublish
  | [9] => Some OTouch
  | _ => None
  end.

Fixpoint decode_ops (os : list (list Z)) : list op :=
  match os with
  | [] => []
  | o :: r => match decode_op o with Some x => x :: decode_ops r | None => decode_ops r end
  end.

(** cfg = [flips; spin fuel] *)
Definition run_case (cfg : list Z) (ths : list (list (list Z))) (sched : list nat) (fuel : nat)
  : list (nat * ev) * bool :=
  let flips := Z.to_nat (nth 0 cfg 2) in
  let sfuel := Z.to_nat (nth 1 cfg 2000) in
  let r := Conc.run fuel 0 sched (init_cfg flips sfuel (map decode_ops ths)) in
  (Conc.trace (fst r), snd r).
