(** Dispatcher for the extracted driver of C21: cfg[0] selects the free-list variant
    (0 FreeList, 1 TaggedFreeList, 2 CachedFreeList<FreeList,4>, 3 CachedFreeList<TaggedFreeList,4>). *)
From Coq Require Import ZArith List.
From LV Require Import Base.Conc Base.Events Model.FreeList Model.FreeListTagged Model.FreeListCached.
Import ListNotations.
Local Open Scope Z_scope.

Definition run_case (cfg : list Z) (ths : list (list (list Z))) (sched : list nat) (fuel : nat)
  : list (nat * ev) * bool :=
  match nth 0 cfg 0 with
  | 0 => FreeList.fl_run_case cfg ths sched fuel
  | 1 => FreeListTagged.trun_case cfg ths sched fuel
  | 2 => FreeListCached.crun_case_fl cfg ths sched fuel
  | 3 => FreeListCached.crun_case_tagged cfg ths sched fuel
  | _ => ([], true)
  end.
