(** * TreiberStack with empty() and clear(): the model LV.Model.Treiber (push / pop, unchanged and re-used)
      plus the two remaining public operations, one atomic access of the C++ code per [Act].

    C++ (current tree), cds/intrusive/treiber_stack.h, class TreiberStack (back_off = cds::backoff::empty,
    item_counter = empty_item_counter: reset() is no atomic; cds/container/treiber_stack.h forwards both calls):

      bool empty() const {
          return m_Top.load( memory_model::memory_order_relaxed ) == nullptr;            // [a_ld_top]
      }
      void clear() {
          back_off bkoff;
          node_type * pTop;
          while ( true ) {
              pTop = m_Top.load( memory_model::memory_order_relaxed );                   // [a_ld_top]
              if ( pTop == nullptr )
                  return;
              if ( m_Top.compare_exchange_weak( pTop, nullptr, acquire, relaxed )) {     // [a_cas_top (Some n) None]
                  m_ItemCounter.reset();
                  break;
              }
              bkoff();
          }
          while( pTop ) {
              node_type * p = pTop;
              pTop = p->m_pNext.load( memory_model::memory_order_relaxed );              // [a_ld_next p]
              clear_links( p );                           // p->m_pNext.store( nullptr ) // [a_st_next p None]
              gc::template retire<disposer>( node_traits::to_value_ptr( *p ));           // [a_ld_ret t p] [a_st_ret t]
          }                                               //   (retired_.push, as in pop_with; the disposer of the
      }                                                   //    container variant is node_deallocator)

    NOTE: clear() is NOT an exchange: it is a load followed by a compare-and-swap of the value just loaded against
    null, in a retry loop, and it takes NO hazard pointer (it never dereferences pTop before owning the chain).

    "Handed to the disposer" = passed to gc::retire<disposer>, i.e. appended to the calling thread's retired array
    ([retired g t], by [a_ld_ret]); as in LV.Model.Treiber the array never fills during a case, so scan() does
    not run.

    Client operations (ops [1; v] and [2] exactly as in LV.Model.Treiber, same events):
      [3]     empty     "inv_empty";  b = empty();  "ret_empty b"
      [4]     clear     "inv_clear";  clear();      "ret_clear"                                              *)
From Coq Require Import ZArith List String Bool Lia PeanoNat.
From LV Require Import Base.Conc Base.Events Base.Lin Spec.Specs Model.Treiber.
Import ListNotations.
Local Open Scope Z_scope.
Local Open Scope string_scope.

(** ** the sequential specification: LIFO stack with empty and clear (state: top first) *)
Inductive xop := XPush (x : Z) | XPop | XEmpty | XClear.

Definition is_nil {A} (l : list A) : bool := match l with [] => true | _ => false end.

Definition stackx_step (s : list Z) (o : xop) : list Z * res :=
  match o with
  | XPush x => (x :: s, RBool true)
  | XPop => match s with
            | [] => ([], RVal None)
            | x :: s' => (s', RVal (Some x))
            end
  | XEmpty => (s, RBool (is_nil s))
  | XClear => ([], RUnit)
  end.

Definition StackX : Spec := mkSpec [] stackx_step.

(** ** empty() *)
Definition is_null (p : ptr) : bool := match p with None => true | Some _ => false end.

Definition empty_prog : prog bool :=
  Act a_ld_top (fun r => Ret (is_null (ptr_of r))).

(** ** clear(): the load / CAS loop.  [None] = out of fuel, [Some None] = the stack was found empty,
       [Some (Some n)] = the chain starting at n was detached *)
Fixpoint clear_loop (fuel : nat) : prog (option ptr) :=
  match fuel with
  | O => Ret None
  | S f =>
      Act a_ld_top (fun r =>
        match ptr_of r with
        | None => Ret (Some None)
        | Some n =>
            Act (a_cas_top (Some n) None) (fun c =>
              match c with
              | VB true _ => Ret (Some (Some n))
              | _ => clear_loop f
              end)
        end)
  end.

(** the dispose walk over the detached chain; false = out of fuel *)
Fixpoint clear_walk (fuel : nat) (t : nat) (p : ptr) : prog bool :=
  match p with
  | None => Ret true
  | Some n =>
      match fuel with
      | O => Ret false
      | S f =>
          Act (a_ld_next n) (fun nx =>
          Act (a_st_next n None) (fun _ =>
          Act (a_ld_ret t n) (fun _ =>
          Act (a_st_ret t) (fun _ => clear_walk f t (ptr_of nx)))))
      end
  end.

Definition clear_prog (fuel : nat) (t : nat) : prog bool :=
  bind (clear_loop fuel) (fun r =>
    match r with
    | None => Ret false
    | Some p => clear_walk fuel t p
    end).

Inductive fop := FPush (v : Z) | FPop | FEmpty | FClear.

Definition zb (b : bool) : Z := if b then 1 else 0.

(** push / pop are the programs of LV.Model.Treiber, events included *)
Definition run_fop (fuel : nat) (t k : nat) (o : fop) : prog bool :=
  match o with
  | FPush v => run_op fuel t k (OPush v)
  | FPop => run_op fuel t k OPop
  | FEmpty =>
      Emit [EvCli "inv_empty" []]
        (bind empty_prog (fun b => Emit [EvCli "ret_empty" [zb b]] (Ret true)))
  | FClear =>
      Emit [EvCli "inv_clear" []]
        (bind (clear_prog fuel t) (fun ok =>
           if ok then Emit [EvCli "ret_clear" []] (Ret true)
           else Emit [EvCli "outoffuel" []] (Ret false)))
  end.

Fixpoint run_fops (fuel : nat) (t k : nat) (os : list fop) : prog unit :=
  match os with
  | [] => Ret tt
  | o :: r => bind (run_fop fuel t k o) (fun ok => if ok then run_fops fuel t (S k) r else Ret tt)
  end.

Definition fthread_prog (fuel : nat) (t : nat) (os : list fop) : Conc.thread G V ev :=
  Act a_begin (fun _ => run_fops fuel t 0 os).

Fixpoint fthread_progs (fuel : nat) (t : nat) (ths : list (list fop)) : list (Conc.thread G V ev) :=
  match ths with
  | [] => []
  | os :: r => fthread_prog fuel t os :: fthread_progs fuel (S t) r
  end.

Definition finit_cfg (fuel : nat) (ths : list (list fop)) : Conc.config G V ev :=
  Conc.Cfg init (fthread_progs fuel 0 ths) [].

(** ** entry point for the extracted driver *)
Definition decode_fop (o : list Z) : option fop :=
  match o with
  | [1; v] => Some (FPush v)
  | [2] => Some FPop
  | [3] => Some FEmpty
  | [4] => Some FClear
  | _ => None
  end.

Fixpoint decode_fops (os : list (list Z)) : list fop :=
  match os with
  | [] => []
  | o :: r => match decode_fop o with Some x => x :: decode_fops r | None => decode_fops r end
  end.

(** ** the verified linearizability checker for [StackX] behind the same driver.
       A history is passed as ONE "thread" whose "operations" are its events:
         [1; t; 1; v] inv push v   [1; t; 2] inv pop   [1; t; 3] inv empty   [1; t; 4] inv clear
         [2; t; 0; b] res bool b   [2; t; 1] res none  [2; t; 2; v] res some v   [2; t; 3] res unit
       and the verdict comes back as the single client event "lin b" (LinProofs.lincheck_sound / _complete). *)
Definition decode_hev (e : list Z) : option (hev StackX) :=
  match e with
  | [1; t; 1; v] => Some (@HInv StackX (Z.to_nat t) (XPush v))
  | [1; t; 2] => Some (@HInv StackX (Z.to_nat t) XPop)
  | [1; t; 3] => Some (@HInv StackX (Z.to_nat t) XEmpty)
  | [1; t; 4] => Some (@HInv StackX (Z.to_nat t) XClear)
  | [2; t; 0; b] => Some (@HRes StackX (Z.to_nat t) (RBool (negb (Z.eqb b 0))))
  | [2; t; 1] => Some (@HRes StackX (Z.to_nat t) (RVal None))
  | [2; t; 2; v] => Some (@HRes StackX (Z.to_nat t) (RVal (Some v)))
  | [2; t; 3] => Some (@HRes StackX (Z.to_nat t) RUnit)
  | _ => None
  end.

Fixpoint decode_hist (es : list (list Z)) : history StackX :=
  match es with
  | [] => []
  | e :: r => match decode_hev e with Some x => x :: decode_hist r | None => decode_hist r end
  end.

Definition lin_case (ths : list (list (list Z))) : list (nat * ev) * bool :=
  ([(O, EvCli "lin" [zb (lincheck StackX (decode_hist (List.concat ths)))])], true).

(** cfg = [variant (ignored by the model, except 99 = decide a history, see [lin_case]); loop fuel] *)
Definition run_case (cfg : list Z) (ths : list (list (list Z))) (sched : list nat) (fuel : nat)
  : list (nat * ev) * bool :=
  if Z.eqb (nth 0 cfg 0) 99 then lin_case ths else
  let lfuel := Z.to_nat (nth 1 cfg 1000) in
  let r := Conc.run fuel 0 sched (finit_cfg lfuel (map decode_fops ths)) in
  (Conc.trace (fst r), snd r).
