(** * Model of cds::intrusive::FreeList (cds/intrusive/free_list.h), one atomic access per [Act].

    C++ (current tree), statement by statement in the order the atomics are executed:

      static constexpr uint32_t c_RefsMask = 0x7FFFFFFF, c_ShouldBeOnFreeList = 0x80000000;
      struct node { atomic<uint32_t> m_freeListRefs; atomic<node*> m_freeListNext; };
      atomic<node*> m_Head;

      void put( node* pNode ) {
          if ( pNode->m_freeListRefs.fetch_add( c_ShouldBeOnFreeList ) == 0 )          // faa refs
              add_knowing_refcount_is_zero( pNode );
      }

      node* get() {
          auto head = m_Head.load();                                                    // ld head
          while ( head != nullptr ) {
              auto prevHead = head;
              auto refs = head->m_freeListRefs.load();                                  // ld refs
              if ( (refs & c_RefsMask) == 0
                   || !head->m_freeListRefs.compare_exchange_strong( refs, refs + 1 )) // cas refs (short-circuit)
              {   head = m_Head.load(); continue; }                                     // ld head
              node* next = head->m_freeListNext.load();                                 // ld next
              if ( m_Head.compare_exchange_strong( head, next )) {                      // cas head (failure: head := current)
                  head->m_freeListRefs.fetch_sub( 2 );                                  // fas refs
                  return head;
              }
              refs = prevHead->m_freeListRefs.fetch_sub( 1 );                           // fas refs
              if ( refs == c_ShouldBeOnFreeList + 1 )
                  add_knowing_refcount_is_zero( prevHead );
          }
          return nullptr;
      }

      void add_knowing_refcount_is_zero( node* pNode ) {
          node* head = m_Head.load();                                                   // ld head
          while ( true ) {
              pNode->m_freeListNext.store( head );                                      // st next
              pNode->m_freeListRefs.store( 1 );                                         // st refs
              if ( !m_Head.compare_exchange_strong( head, pNode )) {                    // cas head (failure: head := current)
                  if ( pNode->m_freeListRefs.fetch_add( c_ShouldBeOnFreeList - 1 ) == 1 ) // faa refs
                      continue;
              }
              return;
          }
      }

    (the [assert] inside get() is compiled out: harnesses are built with -DNDEBUG.)

    [m_freeListRefs] is a uint32_t: the model keeps it in [Z] and wraps every arithmetic result with
    [u32] (mod 2^32), so an overflow of the 31-bit count into the flag bit, or a second fetch_add of the
    flag, behaves as in C++.

    Nodes are the numbers 1..nnodes of a fixed array owned by the harness (nothing is freed during a
    case); 0 is nullptr.

    Client operations (what harness/C21/main.cpp executes on the real list); every thread carries a
    thread-local list [held] of the nodes it currently holds:
      [1]     get     "inv_get";  p = get();  "ret_get <id or -1>";  held := held ++ [p]
      [2; k]  put k   n := k-th element of held (operation skipped with "skip" if there is none);
                      "inv_put <id>";  put(n);  "ret_put";  held := held without its k-th element
    so a thread puts only nodes it holds (the client discipline of a free list). *)
From Coq Require Import ZArith List String Bool Lia PeanoNat.
From LV Require Import Base.Conc Base.Events.
Import ListNotations.
Local Open Scope Z_scope.
Local Open Scope string_scope.

Definition FLAG : Z := 2147483648.          (* c_ShouldBeOnFreeList = 0x80000000; c_RefsMask = FLAG - 1 *)
Definition u32 (x : Z) : Z := x mod 4294967296.

(** shared state *)
Record G := mkG { head : nat; refs : nat -> Z; next : nat -> nat }.

(** value returned by an access: a node id (pointer loads / CAS on pointers) and a 32-bit word *)
Definition V : Type := (nat * Z)%type.
Definition vnode (v : V) : nat := fst v.
Definition vword (v : V) : Z := snd v.

Definition prog := Conc.prog G V ev.

Definition set_head (g : G) (h : nat) : G := mkG h (refs g) (next g).
Definition set_refs (g : G) (n : nat) (r : Z) : G :=
  mkG (head g) (fun x => if Nat.eqb x n then r else refs g x) (next g).
Definition set_next (g : G) (n : nat) (h : nat) : G :=
  mkG (head g) (refs g) (fun x => if Nat.eqb x n then h else next g x).

Definition obj_head : list Z := [0].
Definition obj_refs (n : nat) : list Z := [1; Z.of_nat n].
Definition obj_next (n : nat) : list Z := [2; Z.of_nat n].

Definition act := G -> G * V * list ev.

Definition a_begin : act := fun g => (g, (O, 0), [EvAcc KBegin [] true]).
Definition a_ld_head : act := fun g => (g, (head g, 0), [EvAcc KLd obj_head true]).
Definition a_ld_refs (n : nat) : act := fun g => (g, (O, refs g n), [EvAcc KLd (obj_refs n) true]).
Definition a_ld_next (n : nat) : act := fun g => (g, (next g n, 0), [EvAcc KLd (obj_next n) true]).
Definition a_st_next (n h : nat) : act := fun g => (set_next g n h, (O, 0), [EvAcc KSt (obj_next n) true]).
Definition a_st_refs (n : nat) (r : Z) : act := fun g => (set_refs g n r, (O, 0), [EvAcc KSt (obj_refs n) true]).
(** compare_exchange_strong: returns the value read; success iff it equals [e] *)
Definition a_cas_refs (n : nat) (e d : Z) : act := fun g =>
  if Z.eqb (refs g n) e then (set_refs g n d, (O, refs g n), [EvAcc KCas (obj_refs n) true])
  else (g, (O, refs g n), [EvAcc KCas (obj_refs n) false]).
Definition a_cas_head (e d : nat) : act := fun g =>
  if Nat.eqb (head g) e then (set_head g d, (head g, 0), [EvAcc KCas obj_head true])
  else (g, (head g, 0), [EvAcc KCas obj_head false]).
Definition a_faa_refs (n : nat) (k : Z) : act := fun g =>
  (set_refs g n (u32 (refs g n + k)), (O, refs g n), [EvAcc KFaa (obj_refs n) true]).
Definition a_fas_refs (n : nat) (k : Z) : act := fun g =>
  (set_refs g n (u32 (refs g n - k)), (O, refs g n), [EvAcc KFas (obj_refs n) true]).

(** add_knowing_refcount_is_zero: the loop after the initial head load; [false] = out of fuel *)
Fixpoint add_loop (fuel : nat) (n h : nat) : prog bool :=
  match fuel with
  | O => Ret false
  | S f =>
      Act (a_st_next n h) (fun _ =>
      Act (a_st_refs n 1) (fun _ =>
      Act (a_cas_head h n) (fun v =>
        if Nat.eqb (vnode v) h then Ret true
        else Act (a_faa_refs n (FLAG - 1)) (fun w =>
               if Z.eqb (vword w) 1 then add_loop f n (vnode v) else Ret true))))
  end.

Definition add_knowing (fuel : nat) (n : nat) : prog bool :=
  Act a_ld_head (fun v => add_loop fuel n (vnode v)).

Definition put (fuel : nat) (n : nat) : prog bool :=
  Act (a_faa_refs n FLAG) (fun w =>
    if Z.eqb (vword w) 0 then add_knowing fuel n else Ret true).

(** the while loop of get(); [Some 0] = nullptr, [None] = out of fuel *)
Fixpoint get_loop (fuel : nat) (h : nat) : prog (option nat) :=
  match fuel with
  | O => Ret None
  | S f =>
      if Nat.eqb h 0 then Ret (Some O) else
      Act (a_ld_refs h) (fun v =>
        let r := vword v in
        if Z.eqb (r mod FLAG) 0 then Act a_ld_head (fun v => get_loop f (vnode v))
        else
          Act (a_cas_refs h r (u32 (r + 1))) (fun v =>
            if negb (Z.eqb (vword v) r) then Act a_ld_head (fun v => get_loop f (vnode v))
            else
              Act (a_ld_next h) (fun v =>
                let nx := vnode v in
                Act (a_cas_head h nx) (fun v =>
                  if Nat.eqb (vnode v) h then
                    Act (a_fas_refs h 2) (fun _ => Ret (Some h))
                  else
                    Act (a_fas_refs h 1) (fun w =>
                      if Z.eqb (vword w) (FLAG + 1) then
                        Conc.bind (add_knowing f h) (fun ok =>
                          if ok then get_loop f (vnode v) else Ret None)
                      else get_loop f (vnode v))))))
  end.

Definition get (fuel : nat) : prog (option nat) :=
  Act a_ld_head (fun v => get_loop fuel (vnode v)).

(** ** client programs *)
Inductive op := OGet | OPut (k : nat).

Fixpoint remove_nth {A} (k : nat) (l : list A) : list A :=
  match l, k with
  | [], _ => []
  | _ :: r, O => r
  | x :: r, S k' => x :: remove_nth k' r
  end.

Definition zn (n : nat) : list Z := [Z.of_nat n].

Fixpoint run_ops (fuel : nat) (os : list op) (held : list nat) : prog unit :=
  match os with
  | [] => Ret tt
  | OGet :: r =>
      Emit [EvCli "inv_get" []]
        (Conc.bind (get fuel) (fun res =>
           match res with
           | Some O => Emit [EvCli "ret_get" [-1]] (run_ops fuel r held)
           | Some n => Emit [EvCli "ret_get" (zn n)] (run_ops fuel r (held ++ [n]))
           | None => Emit [EvCli "outoffuel" []] (Ret tt)
           end))
  | OPut k :: r =>
      match nth_error held k with
      | None => Emit [EvCli "skip" []] (run_ops fuel r held)
      | Some n =>
          Emit [EvCli "inv_put" (zn n)]
            (Conc.bind (put fuel n) (fun ok =>
               if ok then Emit [EvCli "ret_put" []] (run_ops fuel r (remove_nth k held))
               else Emit [EvCli "outoffuel" []] (Ret tt)))
      end
  end.

Definition thread_prog (fuel : nat) (os : list op) (held : list nat) : Conc.thread G V ev :=
  Act a_begin (fun _ => run_ops fuel os held).

(** initial state: nodes 1..k were put one after the other by the set-up code (so head = k,
    next i = i-1, refs i = 1); every other node has refs = 0, next = nullptr *)
Definition init (k : nat) : G :=
  mkG k (fun n => if (Nat.leb 1 n && Nat.leb n k)%bool then 1 else 0)
        (fun n => if (Nat.leb 1 n && Nat.leb n k)%bool then Nat.pred n else O).

(** the same for nodes lo..k (used by the cached list, whose set-up keeps node 1 in the cache) *)
Definition init_range (lo k : nat) : G :=
  mkG (if Nat.leb lo k then k else O)
      (fun n => if (Nat.leb lo n && Nat.leb n k)%bool then 1 else 0)
      (fun n => if (Nat.leb (S lo) n && Nat.leb n k)%bool then Nat.pred n else O).

(** [ths]: for each thread its operations and the nodes it holds initially *)
Definition init_cfg (fuel k : nat) (ths : list (list op * list nat)) : Conc.config G V ev :=
  Conc.Cfg (init k) (map (fun th => thread_prog fuel (fst th) (snd th)) ths) [].

(** ** entry point for the extracted driver.
    cfg = [variant (0 here); loop fuel; nnodes; k = nodes initially on the list; owner of node k+1; ...;
    owner of node nnodes]  (owner = index of the thread that holds the node initially) *)
Definition decode_op (o : list Z) : option op :=
  match o with
  | [1] => Some OGet
  | [2; k] => Some (OPut (Z.to_nat k))
  | _ => None
  end.

Fixpoint decode_ops (os : list (list Z)) : list op :=
  match os with
  | [] => []
  | o :: r => match decode_op o with Some x => x :: decode_ops r | None => decode_ops r end
  end.

(** nodes initially held by thread [t]: those j in k+1..nnodes whose owner entry is t, ascending *)
Fixpoint held_of (owners : list Z) (j : nat) (t : nat) : list nat :=
  match owners with
  | [] => []
  | o :: r => if Z.eqb o (Z.of_nat t) then j :: held_of r (S j) t else held_of r (S j) t
  end.

Definition decode_threads (k : nat) (owners : list Z) (ths : list (list (list Z))) : list (list op * list nat) :=
  map (fun p => (decode_ops (snd p), held_of owners (S k) (fst p))) (combine (seq 0 (List.length ths)) ths).

Definition fl_run_case (cfg : list Z) (ths : list (list (list Z))) (sched : list nat) (fuel : nat)
  : list (nat * ev) * bool :=
  let lfuel := Z.to_nat (nth 1 cfg 100) in
  let k := Z.to_nat (nth 3 cfg 0) in
  let owners := skipn 4 cfg in
  let r := Conc.run fuel 0 sched (init_cfg lfuel k (decode_threads k owners ths)) in
  (Conc.trace (fst r), snd r).
