(** * Model of cds::container::TreiberStack<cds::gc::HP, int> WITH elimination back-off,
      one atomic access of the C++ code per [Act].

    push / pop / Guard::protect / retire are those of LV.Model.Treiber (see the C++ quoted there); the
    difference is what happens after a failed CAS on m_Top:
      push:  if ( bkoff.backoff( op, m_stat )) return true;        // op.idOp = op_push, op.pVal = &val
      pop:   if ( bkoff.backoff( op, m_stat )) return op.pVal;     // op.idOp = op_pop,  op.pVal = nullptr
                                                                   // then ~Guard, f( p->m_value ), retire_node( p )

    C++ (current tree), cds/intrusive/treiber_stack.h, details::elimination_backoff<true, T, Traits>:

      bool backoff( operation_desc& op, Stat& stat ) {
          elimination_backoff_type bkoff;
          op.nStatus.store( op_waiting, relaxed );                                      // [a_st_status]
          elimination_rec * myRec = cds::algo::elimination::init_record<elimination_storage>( op );   // TLS, plain
          collision_array_record& slot = m_Elimination.collisions[ slot_index() ];      // randEngine() & (cap-1) or % cap
          {
              slot.lock.lock();                                                         // [lock_outer / lock_inner]
              elimination_rec * himRec = slot.pRec;                                     // plain, under the lock
              if ( himRec ) {
                  operation_desc * himOp = static_cast<operation_desc *>( himRec->pOp );
                  if ( himOp->idOp != op.idOp ) {
                      if ( op.idOp == treiber_stack::op_push ) himOp->pVal = op.pVal;   // plain
                      else                                     op.pVal = himOp->pVal;   // plain
                      slot.pRec = nullptr;                                              // plain
                      himOp->nStatus.store( op_collided, release );                     // [a_after_lock], collision branch
                      slot.lock.unlock();                                               // [a_unlock]
                      cds::algo::elimination::clear_record<elimination_storage>();
                      stat.onActiveCollision( op.idOp );
                      return true;
                  }
              }
              slot.pRec = myRec;                                                        // plain
              slot.lock.unlock();                                                       // [a_after_lock], publish branch
          }
          // Wait for colliding operation
          bkoff( [&op]() -> bool { return op.nStatus.load( acquire ) != op_waiting; } ); // [wait_loop]: delay back-off,
                                                          // for ( i = 0; i < timeout; i += 2 ) { if ( pr()) return true; sleep }
                                                          // harness: delay_of<5, ns>, i.e. at most [nwait] = 3 polls
          {
              slot_scoped_lock l( slot.lock );                                          // [lock_outer / lock_inner]
              if ( slot.pRec == myRec ) slot.pRec = nullptr;                            // plain
          }                                                                             // [a_withdraw] (the unlock store)
          bool bCollided = op.nStatus.load( relaxed ) == op_collided;                   // [a_ld_status]
          cds::algo::elimination::clear_record<elimination_storage>();
          return bCollided;
      }
    cds/sync/spinlock.h, spin_lock<Backoff> (cds::sync::spin):
      try_lock():  bCurrent = m_spin.exchange( true );  return !bCurrent;
      lock():      while ( !try_lock()) { while ( m_spin.load()) backoff(); }
      unlock():    m_spin.store( false );

    The random engine is the harness' deterministic one: thread t receives the values of its list [rl t]
    cyclically; the model gets the same lists as data.  Slot index = value mod capacity (for the power-of-two
    buffers the code computes value & (capacity-1), which is the same number).

    Operation descriptors live on the stack of push()/pop(): the descriptor of the k-th operation of thread t is
    the object (t,k) (the harness makes the event log forget stack addresses between operations).
    TLS elimination records are identified with their owner thread; a slot holds (thread, operation index).

    Memory: nodes are never reused (hypothesis smr_safe, see LV.Model.Treiber). *)
From Coq Require Import ZArith List String Bool Lia PeanoNat.
From LV Require Import Base.Conc Base.Events Model.Treiber.
Import ListNotations.
Local Open Scope Z_scope.
Local Open Scope string_scope.

Definition nwait : nat := 3.

Record G := mkG {
  top : ptr;
  next : node -> ptr;
  val : node -> Z;
  hp : nat -> ptr;
  retired : nat -> list node;
  d_push : nat -> bool;            (* op.idOp of the current descriptor of thread t (true = op_push) *)
  d_val : nat -> ptr;              (* op.pVal *)
  d_stat : nat -> nat;             (* op.nStatus: 0 op_free, 1 op_waiting, 2 op_collided *)
  slot_rec : nat -> option (nat * nat);   (* collisions[i].pRec: the thread (and its operation) published there *)
  slot_lock : nat -> bool;         (* collisions[i].lock *)
  rpos : nat -> nat                (* how many random numbers thread t has drawn (thread-local) *)
}.

Inductive V := VU | VP (p : ptr) | VB (ok : bool) (p : ptr) | VN (n : nat) | VPZ (p : ptr) (z : Z)
             | VC (collided : bool).

Definition prog := Conc.prog G V ev.

Definition updf {A} (f : nat -> A) (t : nat) (x : A) : nat -> A := fun u => if Nat.eqb u t then x else f u.

Definition set_top (g : G) (p : ptr) : G :=
  mkG p (next g) (val g) (hp g) (retired g) (d_push g) (d_val g) (d_stat g) (slot_rec g) (slot_lock g) (rpos g).
Definition set_next (g : G) (n : node) (p : ptr) : G :=
  mkG (top g) (fun x => if node_eqb x n then p else next g x) (val g) (hp g) (retired g)
      (d_push g) (d_val g) (d_stat g) (slot_rec g) (slot_lock g) (rpos g).
Definition set_val (g : G) (n : node) (v : Z) : G :=
  mkG (top g) (next g) (fun x => if node_eqb x n then v else val g x) (hp g) (retired g)
      (d_push g) (d_val g) (d_stat g) (slot_rec g) (slot_lock g) (rpos g).
Definition set_hp (g : G) (t : nat) (p : ptr) : G :=
  mkG (top g) (next g) (val g) (updf (hp g) t p) (retired g)
      (d_push g) (d_val g) (d_stat g) (slot_rec g) (slot_lock g) (rpos g).
Definition add_retired (g : G) (t : nat) (n : node) : G :=
  mkG (top g) (next g) (val g) (hp g) (updf (retired g) t (n :: retired g t))
      (d_push g) (d_val g) (d_stat g) (slot_rec g) (slot_lock g) (rpos g).
Definition set_desc (g : G) (t : nat) (isp : bool) (pv : ptr) (st : nat) : G :=
  mkG (top g) (next g) (val g) (hp g) (retired g)
      (updf (d_push g) t isp) (updf (d_val g) t pv) (updf (d_stat g) t st) (slot_rec g) (slot_lock g) (rpos g).
Definition set_dval (g : G) (t : nat) (pv : ptr) : G :=
  mkG (top g) (next g) (val g) (hp g) (retired g)
      (d_push g) (updf (d_val g) t pv) (d_stat g) (slot_rec g) (slot_lock g) (rpos g).
Definition set_dstat (g : G) (t : nat) (st : nat) : G :=
  mkG (top g) (next g) (val g) (hp g) (retired g)
      (d_push g) (d_val g) (updf (d_stat g) t st) (slot_rec g) (slot_lock g) (rpos g).
Definition set_slot_rec (g : G) (i : nat) (r : option (nat * nat)) : G :=
  mkG (top g) (next g) (val g) (hp g) (retired g)
      (d_push g) (d_val g) (d_stat g) (updf (slot_rec g) i r) (slot_lock g) (rpos g).
Definition set_slot_lock (g : G) (i : nat) (b : bool) : G :=
  mkG (top g) (next g) (val g) (hp g) (retired g)
      (d_push g) (d_val g) (d_stat g) (slot_rec g) (updf (slot_lock g) i b) (rpos g).
Definition inc_rpos (g : G) (t : nat) : G :=
  mkG (top g) (next g) (val g) (hp g) (retired g)
      (d_push g) (d_val g) (d_stat g) (slot_rec g) (slot_lock g) (updf (rpos g) t (S (rpos g t))).

Definition zn (n : nat) : Z := Z.of_nat n.
Definition obj_top : list Z := [0].
Definition obj_next (n : node) : list Z := [1; zn (fst n); zn (snd n)].
Definition obj_hp (t : nat) : list Z := [2; zn t].
Definition obj_sync (t : nat) : list Z := [3; zn t].
Definition obj_ret (t : nat) : list Z := [4; zn t].
Definition obj_status (t k : nat) : list Z := [5; zn t; zn k].
Definition obj_lock (i : nat) : list Z := [6; zn i].

Definition act := G -> G * V * list ev.

Definition a_begin : act := fun g => (g, VU, [EvAcc KBegin [] true]).
Definition a_node_init (n : node) (v : Z) : act :=
  fun g => (set_val (set_next g n None) n v, VU, [EvAcc KSt (obj_next n) true]).
Definition a_ld_top : act := fun g => (g, VP (top g), [EvAcc KLd obj_top true]).
Definition a_st_next (n : node) (p : ptr) : act :=
  fun g => (set_next g n p, VU, [EvAcc KSt (obj_next n) true]).
Definition a_ld_next (n : node) : act := fun g => (g, VP (next g n), [EvAcc KLd (obj_next n) true]).
Definition a_cas_top (exp new : ptr) : act :=
  fun g => if ptr_eqb (top g) exp
           then (set_top g new, VB true exp, [EvAcc KCas obj_top true])
           else (g, VB false (top g), [EvAcc KCas obj_top false]).
Definition a_st_hp (t : nat) (p : ptr) : act :=
  fun g => (set_hp g t p, VU, [EvAcc KSt (obj_hp t) true]).
Definition a_st_hp_rd (t : nat) (n : node) : act :=
  fun g => (set_hp g t None, VPZ (Some n) (val g n), [EvAcc KSt (obj_hp t) true]).
(** ~Guard after an eliminated pop: `return op.pVal`, then the plain read of that node's value *)
Definition a_st_hp_rd_elim (t : nat) : act :=
  fun g => (set_hp g t None,
            VPZ (d_val g t) (match d_val g t with Some n => val g n | None => 0 end),
            [EvAcc KSt (obj_hp t) true]).
Definition a_faa_sync (t : nat) : act := fun g => (g, VU, [EvAcc KFaa (obj_sync t) true]).
Definition a_ld_ret (t : nat) (p : ptr) : act :=
  fun g => (match p with Some n => add_retired g t n | None => g end, VU, [EvAcc KLd (obj_ret t) true]).
Definition a_st_ret (t : nat) : act := fun g => (g, VU, [EvAcc KSt (obj_ret t) true]).

(** *** elimination *)
Definition draw (rl : list nat) (pos : nat) (cap : nat) : nat :=
  match rl with
  | [] => 0%nat
  | _ => Nat.modulo (nth (Nat.modulo pos (List.length rl)) rl 0%nat) cap
  end.

(** op.nStatus.store( op_waiting ); the descriptor fields (idOp, pVal) were set when push/pop began and the
    slot number is drawn right after: both are thread-local and are recorded here *)
Definition a_st_status (t k : nat) (isp : bool) (pv : ptr) (rl : list nat) (cap : nat) : act :=
  fun g => (inc_rpos (set_desc g t isp pv 1) t, VN (draw rl (rpos g t) cap), [EvAcc KSt (obj_status t k) true]).

Definition a_xchg_lock (i : nat) : act :=
  fun g => (set_slot_lock g i true, VB (slot_lock g i) None, [EvAcc KXchg (obj_lock i) true]).
Definition a_ld_lock (i : nat) : act :=
  fun g => (g, VB (slot_lock g i) None, [EvAcc KLd (obj_lock i) true]).

(** first access after the slot lock was acquired: either the collision (store of op_collided into the partner's
    descriptor, preceded by the plain copy of pVal and slot.pRec = nullptr) or the publication of the own record
    (slot.pRec = myRec, then the unlock store) *)
Definition a_after_lock (t k : nat) (i : nat) : act :=
  fun g =>
    match slot_rec g i with
    | Some (u, ku) =>
        if Bool.eqb (d_push g u) (d_push g t)
        then (set_slot_lock (set_slot_rec g i (Some (t, k))) i false, VC false, [EvAcc KSt (obj_lock i) true])
        else
          let g1 := if d_push g t then set_dval g u (d_val g t) else set_dval g t (d_val g u) in
          (set_dstat (set_slot_rec g1 i None) u 2, VC true, [EvAcc KSt (obj_status u ku) true])
    | None => (set_slot_lock (set_slot_rec g i (Some (t, k))) i false, VC false, [EvAcc KSt (obj_lock i) true])
    end.

Definition a_unlock (i : nat) : act :=
  fun g => (set_slot_lock g i false, VU, [EvAcc KSt (obj_lock i) true]).

Definition a_ld_status (t k : nat) : act :=
  fun g => (g, VN (d_stat g t), [EvAcc KLd (obj_status t k) true]).

Definition own_rec (r : option (nat * nat)) (t k : nat) : bool :=
  match r with Some (u, ku) => Nat.eqb u t && Nat.eqb ku k | None => false end.

(** withdrawal under the lock, then the unlock store *)
Definition a_withdraw (t k : nat) (i : nat) : act :=
  fun g =>
    let g1 := if own_rec (slot_rec g i) t k then set_slot_rec g i None else g in
    (set_slot_lock g1 i false, VU, [EvAcc KSt (obj_lock i) true]).

Definition ptr_of (v : V) : ptr := match v with VP p => p | VB _ p => p | VPZ p _ => p | _ => None end.
Definition nat_of (v : V) : nat := match v with VN n => n | _ => 0 end.
Definition bool_of (v : V) : bool := match v with VB b _ => b | VC b => b | _ => false end.
Definition z_of (v : V) : Z := match v with VPZ _ z => z | _ => 0 end.

(** spin_lock::lock(); [false] = out of fuel *)
Fixpoint lock_outer (fuel : nat) (i : nat) : prog bool :=
  match fuel with
  | O => Ret false
  | S f => Act (a_xchg_lock i) (fun old => if bool_of old then lock_inner f i else Ret true)
  end
with lock_inner (fuel : nat) (i : nat) : prog bool :=
  match fuel with
  | O => Ret false
  | S f => Act (a_ld_lock i) (fun v => if bool_of v then lock_inner f i else lock_outer f i)
  end.

Fixpoint wait_loop (n : nat) (t k : nat) : prog unit :=
  match n with
  | O => Ret tt
  | S m => Act (a_ld_status t k) (fun v => if Nat.eqb (nat_of v) 1 then wait_loop m t k else Ret tt)
  end.

(** elimination_backoff<true>::backoff: [None] = out of fuel, [Some b] = bCollided *)
Definition backoff (fuel : nat) (t k : nat) (isp : bool) (pv : ptr) (rl : list nat) (cap : nat) : prog (option bool) :=
  Act (a_st_status t k isp pv rl cap) (fun iv =>
    let i := nat_of iv in
    bind (lock_outer fuel i) (fun got =>
      if got then
        Act (a_after_lock t k i) (fun c =>
          if bool_of c then Act (a_unlock i) (fun _ => Ret (Some true))
          else
            bind (wait_loop nwait t k) (fun _ =>
            bind (lock_outer fuel i) (fun got2 =>
              if got2 then
                Act (a_withdraw t k i) (fun _ =>
                Act (a_ld_status t k) (fun s => Ret (Some (Nat.eqb (nat_of s) 2))))
              else Ret None)))
      else Ret None)).

(** ** push *)
Fixpoint push_loop (fuel : nat) (t k : nat) (rl : list nat) (cap : nat) (n : node) (tp : ptr) : prog bool :=
  match fuel with
  | O => Ret false
  | S f =>
      Act (a_st_next n tp) (fun _ =>
      Act (a_cas_top tp (Some n)) (fun r =>
        match r with
        | VB true _ => Ret true
        | other =>
            bind (backoff f t k true (Some n) rl cap) (fun c =>
              match c with
              | Some true => Ret true
              | Some false => push_loop f t k rl cap n (ptr_of other)
              | None => Ret false
              end)
        end))
  end.

Definition push (fuel : nat) (t k : nat) (rl : list nat) (cap : nat) (v : Z) : prog bool :=
  Act (a_node_init (t, k) v) (fun _ =>
  Act a_ld_top (fun r => push_loop fuel t k rl cap (t, k) (ptr_of r))).

(** ** Guard::protect *)
Fixpoint protect_loop (fuel : nat) (t : nat) (pCur : ptr) : prog (option ptr) :=
  match fuel with
  | O => Ret None
  | S f =>
      Act (a_st_hp t pCur) (fun _ =>
      Act (a_faa_sync t) (fun _ =>
      Act a_ld_top (fun r =>
        if ptr_eqb pCur (ptr_of r) then Ret (Some (ptr_of r)) else protect_loop f t (ptr_of r))))
  end.

Definition protect (fuel : nat) (t : nat) : prog (option ptr) :=
  Act a_ld_top (fun r => protect_loop fuel t (ptr_of r)).

(** ** pop *)
Inductive pop_res := PopFuel | PopEmpty | Popped (v : Z).

(** pop_with after base_class::pop() returned the node [x] carries: value read, retire *)
Definition finish_pop (t : nat) (x : V) : prog pop_res :=
  Act (a_ld_ret t (ptr_of x)) (fun _ =>
  Act (a_st_ret t) (fun _ => Ret (Popped (z_of x)))).

Fixpoint pop_loop (fuel : nat) (t k : nat) (rl : list nat) (cap : nat) : prog pop_res :=
  match fuel with
  | O => Ret PopFuel
  | S f =>
      bind (protect f t) (fun r =>
        match r with
        | None => Ret PopFuel
        | Some None => Act (a_st_hp t None) (fun _ => Ret PopEmpty)
        | Some (Some n) =>
            Act (a_ld_next n) (fun nx =>
            Act (a_cas_top (Some n) (ptr_of nx)) (fun r =>
              match r with
              | VB true _ =>
                  Act (a_st_next n None) (fun _ =>
                  Act (a_st_hp_rd t n) (fun x => finish_pop t x))
              | _ =>
                  bind (backoff f t k false None rl cap) (fun c =>
                    match c with
                    | Some true => Act (a_st_hp_rd_elim t) (fun x => finish_pop t x)
                    | Some false => pop_loop f t k rl cap
                    | None => Ret PopFuel
                    end)
              end))
        end)
  end.

Inductive op := OPush (v : Z) | OPop.

Definition run_op (fuel : nat) (t k : nat) (rl : list nat) (cap : nat) (o : op) : prog bool :=
  match o with
  | OPush v =>
      Emit [EvCli "inv_push" [v]]
        (bind (push fuel t k rl cap v) (fun ok =>
           if ok then Emit [EvCli "ret_push" [1]] (Ret true)
           else Emit [EvCli "outoffuel" []] (Ret false)))
  | OPop =>
      Emit [EvCli "inv_pop" []]
        (bind (pop_loop fuel t k rl cap) (fun r =>
           match r with
           | Popped v => Emit [EvCli "ret_pop" [1; v]] (Ret true)
           | PopEmpty => Emit [EvCli "ret_pop" [0; 0]] (Ret true)
           | PopFuel => Emit [EvCli "outoffuel" []] (Ret false)
           end))
  end.

Fixpoint run_ops (fuel : nat) (t k : nat) (rl : list nat) (cap : nat) (os : list op) : prog unit :=
  match os with
  | [] => Ret tt
  | o :: r => bind (run_op fuel t k rl cap o) (fun ok => if ok then run_ops fuel t (S k) rl cap r else Ret tt)
  end.

Definition thread_prog (fuel : nat) (cap : nat) (t : nat) (rl : list nat) (os : list op) : Conc.thread G V ev :=
  Act a_begin (fun _ => run_ops fuel t 0 rl cap os).

(** threads = list of (random list, operations) *)
Fixpoint thread_progs (fuel : nat) (cap : nat) (t : nat) (ths : list (list nat * list op)) : list (Conc.thread G V ev) :=
  match ths with
  | [] => []
  | (rl, os) :: r => thread_prog fuel cap t rl os :: thread_progs fuel cap (S t) r
  end.

Definition init : G :=
  mkG None (fun _ => None) (fun _ => 0) (fun _ => None) (fun _ => [])
      (fun _ => false) (fun _ => None) (fun _ => O) (fun _ => None) (fun _ => false) (fun _ => O).

Definition init_cfg (fuel cap : nat) (ths : list (list nat * list op)) : Conc.config G V ev :=
  Conc.Cfg init (thread_progs fuel cap 0 ths) [].

(** ** entry point for the extracted driver *)
Definition decode_op (o : list Z) : option op :=
  match o with
  | [1; v] => Some (OPush v)
  | [2] => Some OPop
  | _ => None
  end.

Fixpoint decode_ops (os : list (list Z)) : list op :=
  match os with
  | [] => []
  | o :: r => match decode_op o with Some x => x :: decode_ops r | None => decode_ops r end
  end.

Fixpoint attach_rnd (L : nat) (rnd : list Z) (ths : list (list (list Z))) : list (list nat * list op) :=
  match ths with
  | [] => []
  | os :: r => (map Z.to_nat (firstn L rnd), decode_ops os) :: attach_rnd L (skipn L rnd) r
  end.

(** cfg = [family; loop fuel; elimination; capacity; buffer kind; L; r(0,0) .. r(0,L-1); r(1,0) ..] *)
Definition run_case (cfg : list Z) (ths : list (list (list Z))) (sched : list nat) (fuel : nat)
  : list (nat * ev) * bool :=
  let lfuel := Z.to_nat (nth 1 cfg 1000) in
  let cap := Z.to_nat (nth 3 cfg 4) in
  let L := Z.to_nat (nth 5 cfg 0) in
  let r := Conc.run fuel 0 sched (init_cfg lfuel cap (attach_rnd L (skipn 6 cfg) ths)) in
  (Conc.trace (fst r), snd r).
