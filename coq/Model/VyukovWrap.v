(** * The Vyukov queue model with the position counters allowed to wrap (companion of LV.Model.Vyukov).

    LV.Model.Vyukov already performs every size_t operation modulo 2^64 ([uadd u64], [usub u64], the mask) and
    computes  dif = static_cast<intptr_t>(seq) - static_cast<intptr_t>(pos)  as the CHECKED signed subtraction
    [ssub i64 (cast i64 seq) (cast i64 pos)] whose overflow is the outcome [UB].  Two things keep that model away
    from a wrap of the counters: its initial state is the constructor's (positions 0), and its theorems assume
    fewer than 2^62 enqueue claims.  This file removes both without copying the programs:

    - the loops of enqueue_with / dequeue_with / front / empty are re-stated ONCE, generic in the function [dif]
      that computes the signed difference ([enq_loop_g] ...); instantiated with [Vyukov.sdif] they ARE the
      programs of LV.Model.Vyukov (LV.Proofs.VyukovWrapArith.gen_is_strict, by reflexivity);
    - [sdw] is the two's complement reading of the same C++ expression: the signed subtraction wraps modulo 2^64
      into the signed range (what g++/clang emit for it on every target: one [sub]; what -fwrapv guarantees).
      The programs with [difw] never produce [UB];
    - [init_at q s] is the state of a queue through which [s] items have passed (every enqueue and dequeue
      complete): m_posEnqueue = m_posDequeue = s mod 2^64 and cell i holds the sequence number of the unique
      position of [s, s+capacity) that maps to it, reduced modulo 2^64.  [init_at q 0] is the constructor's
      state (on the cells of the ring).  Starting near 2^63 / 2^64 puts a run across the sign change / the wrap.

    Strict reading (C++ standard): the signed subtraction overflows as soon as the two operands lie on different
    sides of 2^63, e.g. seq = 2^63 - 1 and pos + 1 = 2^63 in dequeue on an EMPTY queue whose positions have
    reached 2^63 - 1: undefined behaviour after 2^63 - 1 items, in a single thread
    (LV.Proofs.VyukovWrapThm.vyukov_strict_signed_overflow_at_2_63).  Writing the expression as
    static_cast<intptr_t>(seq - pos) would be well defined. *)
From Coq Require Import ZArith List String Bool Lia.
From LV Require Import Base.Conc Base.Events Base.CInt Model.Vyukov.
Import ListNotations.
Local Open Scope Z_scope.
Local Open Scope string_scope.

Section Gen.
  (** static_cast<intptr_t>(a) - static_cast<intptr_t>(b);  None = undefined behaviour *)
  Variable dif : Z -> Z -> option Z.

  Fixpoint enq_loop_g (q : qcfg) (fuel : nat) (v pos : Z) : prog (outcome bool) :=
    match fuel with
    | O => Ret OutOfFuel
    | S f =>
        let idx := Z.land pos (qmask q) in
        Act (a_ld_seq idx) (fun r =>                                              (* E2 *)
          match dif (vz r) pos with
          | None => Ret UB
          | Some d =>
              if (d =? 0)%Z then
                Act (a_cas_posE pos (uadd u64 pos 1) idx v) (fun c =>             (* E3 *)
                  if vok c then enq_finish q idx pos
                  else enq_loop_g q f v (vz c))
              else if (d <? 0)%Z then
                Act a_ld_posD (fun d' =>                                          (* E4 *)
                  if (usub u64 pos (vz d') =? qcap q)%Z then Ret (Done false)
                  else Act a_ld_posE (fun p => enq_loop_g q f v (vz p)))          (* E5 *)
              else
                Act a_ld_posE (fun p => enq_loop_g q f v (vz p))                  (* E5 *)
          end)
    end.

  Definition enqueue_g (q : qcfg) (fuel : nat) (v : Z) : prog (outcome bool) :=
    Act a_ld_posE (fun p => enq_loop_g q fuel v (vz p)).                          (* E1 *)

  Fixpoint deq_loop_g (q : qcfg) (fuel : nat) (pos : Z) : prog (outcome (option Z)) :=
    match fuel with
    | O => Ret OutOfFuel
    | S f =>
        let idx := Z.land pos (qmask q) in
        Act (a_ld_seq idx) (fun r =>                                              (* D2 *)
          match dif (vz r) (uadd u64 pos 1) with
          | None => Ret UB
          | Some d =>
              if (d =? 0)%Z then
                Act (a_cas_posD pos (uadd u64 pos 1) idx) (fun c =>               (* D3 *)
                  if vok c then deq_finish q idx pos (vdata c)
                  else deq_loop_g q f (vz c))
              else if (d <? 0)%Z then
                Act a_ld_posE (fun e =>                                           (* D4 *)
                  if (usub u64 pos (vz e) =? 0)%Z then Ret (Done None)
                  else Act a_ld_posD (fun p => deq_loop_g q f (vz p)))            (* D5 *)
              else
                Act a_ld_posD (fun p => deq_loop_g q f (vz p))                    (* D5 *)
          end)
    end.

  Definition dequeue_g (q : qcfg) (fuel : nat) : prog (outcome (option Z)) :=
    Act a_ld_posD (fun p => deq_loop_g q fuel (vz p)).                            (* D1 *)

  Fixpoint front_loop_g (q : qcfg) (fuel : nat) (pos : Z) : prog (outcome (option Z)) :=
    match fuel with
    | O => Ret OutOfFuel
    | S f =>
        let idx := Z.land pos (qmask q) in
        Act (a_ld_seq idx) (fun r =>
          match dif (vz r) (uadd u64 pos 1) with
          | None => Ret UB
          | Some d =>
              if (d =? 0)%Z then Ret (Done (Some (vdata r)))
              else if (d <? 0)%Z then
                Act a_ld_posE (fun e =>
                  if (usub u64 pos (vz e) =? 0)%Z then Ret (Done None)
                  else Act a_ld_posD (fun p => front_loop_g q f (vz p)))
              else
                Act a_ld_posD (fun p => front_loop_g q f (vz p))
          end)
    end.

  Definition front_g (q : qcfg) (fuel : nat) : prog (outcome (option Z)) :=
    Act a_ld_posD (fun p => front_loop_g q fuel (vz p)).

  Fixpoint empty_loop_g (q : qcfg) (fuel : nat) (pos : Z) : prog (outcome bool) :=
    match fuel with
    | O => Ret OutOfFuel
    | S f =>
        let idx := Z.land pos (qmask q) in
        Act (a_ld_seq idx) (fun r =>
          match dif (vz r) (uadd u64 pos 1) with
          | None => Ret UB
          | Some d =>
              if (d =? 0)%Z then Ret (Done false)
              else if (d <? 0)%Z then
                Act a_ld_posE (fun e =>
                  if (usub u64 pos (vz e) =? 0)%Z then Ret (Done true)
                  else Act a_ld_posD (fun p => empty_loop_g q f (vz p)))
              else
                Act a_ld_posD (fun p => empty_loop_g q f (vz p))
          end)
    end.

  Definition empty_g (q : qcfg) (fuel : nat) : prog (outcome bool) :=
    Act a_ld_posD (fun p => empty_loop_g q fuel (vz p)).

  (** client operations: the events of LV.Model.Vyukov.run_op *)
  Definition run_op_g (q : qcfg) (fuel : nat) (o : op) : prog bool :=
    match o with
    | OEnq v =>
        Emit [EvCli "inv_enq" [v]]
          (bind (enqueue_g q fuel v) (fun r => finish r (fun b => Emit [EvCli "ret_enq" [b2z b]] (Ret true))))
    | ODeq =>
        Emit [EvCli "inv_deq" []]
          (bind (dequeue_g q fuel) (fun r => finish r (fun x =>
             match x with
             | Some v => Emit [EvCli "ret_deq" [1; v]] (Ret true)
             | None => Emit [EvCli "ret_deq" [0; 0]] (Ret true)
             end)))
    | OFront =>
        Emit [EvCli "inv_front" []]
          (bind (front_g q fuel) (fun r => finish r (fun x =>
             match x with
             | Some v => Emit [EvCli "ret_front" [1; v]] (Ret true)
             | None => Emit [EvCli "ret_front" [0; 0]] (Ret true)
             end)))
    | OPop =>
        Emit [EvCli "inv_pop" []]
          (bind (dequeue_g q fuel) (fun r => finish r (fun x =>
             match x with
             | Some _ => Emit [EvCli "ret_pop" [1]] (Ret true)
             | None => Emit [EvCli "ret_pop" [0]] (Ret true)
             end)))
    | OEmpty =>
        Emit [EvCli "inv_empty" []]
          (bind (empty_g q fuel) (fun r => finish r (fun b => Emit [EvCli "ret_empty" [b2z b]] (Ret true))))
    | OSize =>
        Emit [EvCli "inv_size" []]
          (bind (size q) (fun n => Emit [EvCli "ret_size" [n]] (Ret true)))
    end.

  Fixpoint run_ops_g (q : qcfg) (fuel : nat) (os : list op) : prog unit :=
    match os with
    | [] => Ret tt
    | o :: r => bind (run_op_g q fuel o) (fun ok => if ok then run_ops_g q fuel r else Ret tt)
    end.

  Definition thread_prog_g (q : qcfg) (fuel : nat) (os : list op) : Conc.thread G V ev :=
    Act a_begin (fun _ => run_ops_g q fuel os).
End Gen.

(** the signed difference as two's complement arithmetic computes it *)
Definition sdw (a b : Z) : Z := wrap i64 (cast i64 a - cast i64 b).
Definition difw (a b : Z) : option Z := Some (sdw a b).

Definition m64 : Z := 2 ^ 64.

(** a queue through which [s] items have passed *)
Definition init_at (q : qcfg) (s : Z) : G :=
  mkG (s mod m64) (s mod m64) (fun i => (s + (i - s) mod qcap q) mod m64) (fun _ => 0) 0.

(** wrapping semantics, started at [s] *)
Definition init_cfg_at (q : qcfg) (s : Z) (fuel : nat) (ths : list (list op)) : Conc.config G V ev :=
  Conc.Cfg (init_at q s) (map (thread_prog_g difw q fuel) ths) [].

(** strict (C++ standard) semantics, started at [s] *)
Definition init_cfg_strict_at (q : qcfg) (s : Z) (fuel : nat) (ths : list (list op)) : Conc.config G V ev :=
  Conc.Cfg (init_at q s) (map (thread_prog_g sdif q fuel) ths) [].

(** entry point for the extracted driver (ocaml/conc_main.ml reads OCaml ints, so the start position comes in
    two halves): cfg = [capacity; variant; item counter; loop fuel; start div 2^32; start mod 2^32] *)
Definition run_case (cfg : list Z) (ths : list (list (list Z))) (sched : list nat) (fuel : nat)
  : list (nat * ev) * bool :=
  let q := mkQ (nth 0 cfg 2) (Z.eqb (nth 2 cfg 0) 1) in
  let lfuel := Z.to_nat (nth 3 cfg 4000) in
  let s := nth 4 cfg 0 * 2 ^ 32 + nth 5 cfg 0 in
  let r := Conc.run fuel 0 sched (init_cfg_at q s lfuel (map decode_ops ths)) in
  (Conc.trace (fst r), snd r).
