(** * Model of cds::intrusive::FeldmanHashSet<cds::gc::HP, T, Traits> at step grain
      (cds/intrusive/impl/feldman_hashset.h, cds/intrusive/details/feldman_hashset_base.h),
      one atomic access of the C++ code per [Act], hazard-pointer guard traffic included.

    Instantiation modelled (harness/C14/step_feldman.cpp): 32-bit hash (cds::algo::number_splitter), bitwise hash
    comparison, item_counter = atomicity::item_counter, stat = empty_stat, back_off = backoff::empty (no atomics).

    C++ (current tree):
      traverse_data( hash, set )   splitter( hash ); pArr = head; nSlot = splitter.cut( head_bits ); nHeight = 1
      number_splitter::cut( c )    r = ( number >> shift ) & ( 2^c - 1 ); shift += c       eos(): shift >= 32     bit_offset(): shift
      traverse( pos ):  while ( true ) {
          node_ptr slot = pos.pArr->nodes[pos.nSlot].load( acquire );                                     // [a_ld]
          if ( slot.bits() == flag_array_node ) { pos.nSlot = pos.splitter.cut( array_bits ); pos.pArr = to_array( slot.ptr()); ++pos.nHeight; }
          else if ( slot.bits() == flag_array_converting ) { bkoff(); }                                  // re-read
          else return slot; }
      gc::Guard::protect( a, f ) (erase, find):  pCur = a.load( relaxed ); do { pRet = pCur; assign( f( pCur )); pCur = a.load( acquire ); } while ( pRet != pCur );
                                   assign(p) = hazard store + sync fetch_add                             // [a_ld] ([a_gst] [a_sync] [a_ld])+
      insert( val, f ):  GuardArray<2> guards; guards.assign( 1, &val );                                 // [a_gst_new] [a_sync]
          while ( true ) { slot = traverse( pos );
            if ( guards.protect( 0, pos.pArr->nodes[pos.nSlot], ptr ) != slot ) { /* slot changed - retry */ }
            else if ( slot.ptr()) {
                if ( cmp( hash, hash_accessor()( *slot.ptr())) == 0 ) return false;
                if ( !pos.splitter.eos()) expand_slot( pos, slot ); else return false; }
            else { node_ptr pNull;
                if ( pos.pArr->nodes[pos.nSlot].compare_exchange_strong( pNull, node_ptr( &val ), release, relaxed )) {   // [a_cas]
                    f( val ); ++m_ItemCounter; return true; } } }                                         // [a_cnt]
          ~GuardArray: guard 0 cleared, guard 1 cleared                                                   // [a_gst] [a_gst]
      expand_slot( pParent, idxParent, current, nOffset ):
          pArr = alloc_array_node( pParent, idxParent );
          if ( !slot.compare_exchange_strong( cur, cur | flag_array_converting, release, relaxed )) { free_array_node( pArr ); return false; }   // [a_cas_conv]
          idx = hash_splitter( hash( *current.ptr()), nOffset ).cut( array_bits );
          pArr->nodes[idx].store( current, release );                                                     // [a_st]
          cur = cur | flag_array_converting;
          CDS_VERIFY( slot.compare_exchange_strong( cur, node_ptr( to_node( pArr ), flag_array_node ), release, relaxed ));                       // [a_cas]
      do_update( val, f, bInsert ): as insert; an item with the same hash is replaced:
                if ( slot.ptr() == &val ) return (true,false);           (never: val is a fresh item)
                if ( slot CAS( slot -> &val )) { f( val, slot.ptr()); gc::retire<disposer>( slot.ptr()); return (true,false); }   // [a_cas] [a_rld] [a_rst]
                continue;
              other hash: bInsert ? ( !eos ? expand_slot : return (false,false)) : return (false,false)
              empty: bInsert ? ( CAS( null -> &val ) ? ( f, ++m_ItemCounter, return (true,true)) : retry ) : return (false,false)
      do_erase( hash, guard, pred ): Guard guard;  while ( true ) { slot = traverse( pos );
            if ( guard.protect( ... ) != slot ) { }
            else if ( slot.ptr()) { if ( cmp( hash, hash( *slot.ptr())) == 0 && pred( *slot.ptr())) {
                    if ( slot CAS( slot -> nullptr )) { gc::retire<disposer>( slot.ptr()); --m_ItemCounter; return slot.ptr(); }   // [a_cas] [a_rld] [a_rst] [a_cnt]
                    continue; }
                  return nullptr; }
            else return nullptr; }                                   ~Guard: cleared                          // [a_gst]
      search( hash, guard ):  while ( true ) { slot = traverse( pos ); if ( guard.protect( ... ) != slot ) continue;
            else if ( slot.ptr() && cmp( hash, hash( *slot.ptr())) == 0 ) return slot.ptr(); return nullptr; }
      gc::retire: thread-local retired array, current_ cell pointer is an atomic: load + store               // [a_rld] [a_rst]
                  (the harness sizes the array so that no scan happens inside a case)
    Hazard-pointer slots of a thread: a thread-local free list; Guard takes the head and puts it back, GuardArray<2> takes
    two (guards[0] = head) and returns them so that they come back swapped: local flag [gs].

    Client operations ([code; key]):  1 insert   3 update(insert allowed)   4 update(no insert)   7 erase   13 contains.
    Pointers: items are numbered 1,2,.. in allocation order (0 = nullptr); array nodes 0 (head),1,2,..  No proofs here. *)
From Coq Require Import ZArith NArith List String Bool Arith PeanoNat.
From LV Require Import Base.Conc Base.Events.
Import ListNotations.
Local Open Scope string_scope.

Set Implicit Arguments.

(** a slot value: pointer + flag bits (0 data / empty, 1 converting, 2 array node) *)
Record slot := mkSlot { sptr : nat; sbits : nat }.
Definition snull : slot := mkSlot 0 0.
Definition slot_eqb (a b : slot) : bool := Nat.eqb (sptr a) (sptr b) && Nat.eqb (sbits a) (sbits b).

Record G := mkG {
  arr : nat -> nat -> slot;      (* array node -> index -> slot *)
  narr : nat;                    (* next array node id (0 = head) *)
  nitem : nat;                   (* last item id handed out *)
  ikey : nat -> nat;             (* item -> key *)
  count : Z }.

(** value returned by an access: the slot read, the key of the item it points to, success flag, fresh id *)
Record V := mkV { vslot : slot; vkey : nat; vok : bool; vid : nat }.
Definition v0 : V := mkV snull 0 false 0.

Section Params.
  (** configuration: head bits, array bits, hash width, hash table (key -> hash) *)
  Variables (hbits abits W : nat) (hs : list N).

  Definition hash (k : nat) : N := nth k hs 0%N.
  (** number_splitter::cut at bit offset [off]: [c] bits of [h] *)
  Definition cut (h : N) (off c : nat) : nat := N.to_nat ((h / 2 ^ N.of_nat off) mod 2 ^ N.of_nat c)%N.
  Definition bits_of (a : nat) : nat := if Nat.eqb a 0 then hbits else abits.

  Definition prog := Conc.prog G V ev.
  Definition act := G -> G * V * list ev.

  Definition obj_slot (a i : nat) : list Z := [1%Z; Z.of_nat a; Z.of_nat i].
  Definition obj_guard (t s : nat) : list Z := [2%Z; Z.of_nat t; Z.of_nat s].
  Definition obj_sync (t : nat) : list Z := [3%Z; Z.of_nat t].
  Definition obj_retired (t : nat) : list Z := [4%Z; Z.of_nat t].
  Definition obj_count : list Z := [5%Z].

  Definition set_slot (f : nat -> nat -> slot) (a i : nat) (s : slot) : nat -> nat -> slot :=
    fun a' i' => if Nat.eqb a' a && Nat.eqb i' i then s else f a' i'.

  Definition a_begin : act := fun g => (g, v0, [EvAcc KBegin [] true]).
  Definition a_ld (a i : nat) : act :=
    fun g => let s := arr g a i in (g, mkV s (ikey g (sptr s)) true 0, [EvAcc KLd (obj_slot a i) true]).
  (** plain CAS on a slot *)
  Definition a_cas (a i : nat) (e n : slot) : act :=
    fun g => if slot_eqb (arr g a i) e
             then (mkG (set_slot (arr g) a i n) (narr g) (nitem g) (ikey g) (count g), mkV e 0 true 0, [EvAcc KCas (obj_slot a i) true])
             else (g, mkV (arr g a i) 0 false 0, [EvAcc KCas (obj_slot a i) false]).
  (** first CAS of expand_slot: data -> converting; on success the array node allocated just before becomes visible to the model *)
  Definition a_cas_conv (a i : nat) (e : slot) : act :=
    fun g => if slot_eqb (arr g a i) e
             then (mkG (set_slot (arr g) a i (mkSlot (sptr e) 1)) (S (narr g)) (nitem g) (ikey g) (count g),
                   mkV e 0 true (narr g), [EvAcc KCas (obj_slot a i) true])
             else (g, mkV (arr g a i) 0 false 0, [EvAcc KCas (obj_slot a i) false]).
  Definition a_st (a i : nat) (s : slot) : act :=
    fun g => (mkG (set_slot (arr g) a i s) (narr g) (nitem g) (ikey g) (count g), v0, [EvAcc KSt (obj_slot a i) true]).
  Definition a_nop (k : akind) (o : list Z) : act := fun g => (g, v0, [EvAcc k o true]).
  Definition a_gst (t s : nat) : act := a_nop KSt (obj_guard t s).
  (** guards.assign( 1, &val ): the new item gets its identity here *)
  Definition a_gst_new (t s k : nat) : act :=
    fun g => let id := S (nitem g) in
             (mkG (arr g) (narr g) id (fun x => if Nat.eqb x id then k else ikey g x) (count g), mkV snull 0 true id,
              [EvAcc KSt (obj_guard t s) true]).
  Definition a_sync (t : nat) : act := a_nop KFaa (obj_sync t).
  Definition a_rld (t : nat) : act := a_nop KLd (obj_retired t).
  Definition a_rst (t : nat) : act := a_nop KSt (obj_retired t).
  Definition a_cnt (k : akind) (d : Z) : act :=
    fun g => (mkG (arr g) (narr g) (nitem g) (ikey g) (count g + d), v0, [EvAcc k obj_count true]).

  Notation "x <- p ;; q" := (Conc.bind p (fun x => q)) (at level 61, p at next level, right associativity).

  (** position of a traversal: array node, slot index, bits of the hash consumed so far (splitter.bit_offset()) *)
  Record pos := mkPos { parr : nat; pidx : nat; poff : nat }.

  Definition start (h : N) : pos := mkPos 0 (cut h 0 hbits) hbits.

  (** traverse: [None] = out of fuel *)
  Fixpoint traverse (fuel : nat) (h : N) (p : pos) : prog (option (pos * V)) :=
    match fuel with
    | O => Ret None
    | S f =>
        Act (a_ld (parr p) (pidx p)) (fun v =>
          if Nat.eqb (sbits (vslot v)) 2 then
            traverse f h (mkPos (sptr (vslot v)) (cut h (poff p) abits) (poff p + abits))
          else if Nat.eqb (sbits (vslot v)) 1 then traverse f h p
          else Ret (Some (p, v)))
    end.

  (** Guard::protect on a slot, hazard slot [s] of thread [t] *)
  Fixpoint protect_loop (fuel : nat) (t s : nat) (p : pos) (cur : V) : prog (option V) :=
    match fuel with
    | O => Ret None
    | S f =>
        Act (a_gst t s) (fun _ => Act (a_sync t) (fun _ => Act (a_ld (parr p) (pidx p)) (fun v =>
          if slot_eqb (vslot v) (vslot cur) then Ret (Some v) else protect_loop f t s p v)))
    end.
  Definition protect (fuel : nat) (t s : nat) (p : pos) : prog (option V) :=
    Act (a_ld (parr p) (pidx p)) (fun v => protect_loop fuel t s p v).

  (** GuardArray::protect( idx, a, f ):  do { assign( idx, f( pRet = a.load( relaxed ))); } while ( pRet != a.load( acquire )); return pRet; *)
  Fixpoint protect_arr (fuel : nat) (t s : nat) (p : pos) : prog (option V) :=
    match fuel with
    | O => Ret None
    | S f =>
        Act (a_ld (parr p) (pidx p)) (fun cur => Act (a_gst t s) (fun _ => Act (a_sync t) (fun _ => Act (a_ld (parr p) (pidx p)) (fun v =>
          if slot_eqb (vslot v) (vslot cur) then Ret (Some cur) else protect_arr f t s p))))
    end.

  Definition retire (t : nat) : prog unit := Act (a_rld t) (fun _ => Act (a_rst t) (fun _ => Ret tt)).

  (** expand_slot; result: whether the first CAS succeeded (the C++ caller ignores it and loops) *)
  Definition expand_slot (p : pos) (cur : V) : prog bool :=
    Act (a_cas_conv (parr p) (pidx p) (vslot cur)) (fun v =>
      if vok v then
        let n := vid v in
        Act (a_st n (cut (hash (vkey cur)) (poff p) abits) (vslot cur)) (fun _ =>
        Act (a_cas (parr p) (pidx p) (mkSlot (sptr (vslot cur)) 1) (mkSlot n 2)) (fun _ => Ret true))
      else Ret false).

  Definition zb (b : bool) : Z := if b then 1%Z else 0%Z.
  Definition ev_inv (code k : nat) : ev := EvCli "inv" [Z.of_nat code; Z.of_nat k].
  Definition ev_ret (a b : bool) : ev := EvCli "ret" [zb a; zb b].

  (** outcome of an operation: [None] = fuel exhausted *)
  Definition out := option (bool * bool).

  (** insert / update loop. [g0] protects the slot content, [g1] the new item [id]. *)
  Fixpoint upd_loop (fuel sf : nat) (is_update allow : bool) (t g0 : nat) (k id : nat) (p : pos) : prog out :=
    match fuel with
    | O => Ret None
    | S f =>
        r <- traverse sf (hash k) p ;;
        match r with
        | None => Ret None
        | Some (p', v) =>
            pr <- protect_arr sf t g0 p' ;;
            match pr with
            | None => Ret None
            | Some v' =>
                if negb (slot_eqb (vslot v') (vslot v)) then upd_loop f sf is_update allow t g0 k id p'
                else if negb (Nat.eqb (sptr (vslot v)) 0) then
                  if N.eqb (hash (vkey v')) (hash k) then
                    if is_update then
                      Act (a_cas (parr p') (pidx p') (vslot v) (mkSlot id 0)) (fun c =>
                        if vok c then _ <- retire t ;; Ret (Some (true, false))
                        else upd_loop f sf is_update allow t g0 k id p')
                    else Ret (Some (false, false))
                  else if allow then
                    if Nat.ltb (poff p') W then _ <- expand_slot p' v' ;; upd_loop f sf is_update allow t g0 k id p'
                    else Ret (Some (false, false))
                  else Ret (Some (false, false))
                else if allow then
                  Act (a_cas (parr p') (pidx p') snull (mkSlot id 0)) (fun c =>
                    if vok c then Act (a_cnt KFaa 1) (fun _ => Ret (Some (true, true)))
                    else upd_loop f sf is_update allow t g0 k id p')
                else Ret (Some (false, false))
            end
        end
    end.

  Fixpoint erase_loop (fuel sf : nat) (t g0 : nat) (k : nat) (p : pos) : prog out :=
    match fuel with
    | O => Ret None
    | S f =>
        r <- traverse sf (hash k) p ;;
        match r with
        | None => Ret None
        | Some (p', v) =>
            pr <- protect sf t g0 p' ;;
            match pr with
            | None => Ret None
            | Some v' =>
                if negb (slot_eqb (vslot v') (vslot v)) then erase_loop f sf t g0 k p'
                else if negb (Nat.eqb (sptr (vslot v)) 0) then
                  if N.eqb (hash (vkey v')) (hash k) then
                    Act (a_cas (parr p') (pidx p') (vslot v) snull) (fun c =>
                      if vok c then _ <- retire t ;; Act (a_cnt KFas (-1)) (fun _ => Ret (Some (true, false)))
                      else erase_loop f sf t g0 k p')
                  else Ret (Some (false, false))
                else Ret (Some (false, false))
            end
        end
    end.

  Fixpoint find_loop (fuel sf : nat) (t g0 : nat) (k : nat) (p : pos) : prog out :=
    match fuel with
    | O => Ret None
    | S f =>
        r <- traverse sf (hash k) p ;;
        match r with
        | None => Ret None
        | Some (p', v) =>
            pr <- protect sf t g0 p' ;;
            match pr with
            | None => Ret None
            | Some v' =>
                if negb (slot_eqb (vslot v') (vslot v)) then find_loop f sf t g0 k p'
                else Ret (Some (negb (Nat.eqb (sptr (vslot v)) 0) && N.eqb (hash (vkey v')) (hash k), false))
            end
        end
    end.

  Definition give_up : prog (option bool) := Emit [EvCli "outoffuel" []] (Ret None).

  (** one client operation; local state [gs]: which of the two hazard slots is at the head of the thread's free list *)
  Definition run_op (fuel : nat) (t : nat) (o : list Z) (gs : bool) : prog (option bool) :=
    let a := if gs then 1 else 0 in
    let b := if gs then 0 else 1 in
    match o with
    | [code; kz] =>
        let k := Z.to_nat kz in
        let c := Z.to_nat code in
        if Nat.eqb c 1 || Nat.eqb c 3 || Nat.eqb c 4 then
          Emit [ev_inv c k]
            (Act (a_gst_new t b k) (fun nv => Act (a_sync t) (fun _ =>
               r <- upd_loop fuel fuel (negb (Nat.eqb c 1)) (negb (Nat.eqb c 4)) t a k (vid nv) (start (hash k)) ;;
               match r with
               | None => give_up
               | Some (x, y) => Act (a_gst t a) (fun _ => Act (a_gst t b) (fun _ =>
                                  Emit [ev_ret x (y && negb (Nat.eqb c 1))] (Ret (Some (negb gs)))))   (* insert returns one bool *)
               end)))
        else if Nat.eqb c 7 then
          Emit [ev_inv c k]
            (r <- erase_loop fuel fuel t a k (start (hash k)) ;;
             match r with
             | None => give_up
             | Some (x, y) => Act (a_gst t a) (fun _ => Emit [ev_ret x y] (Ret (Some gs)))
             end)
        else
          Emit [ev_inv c k]
            (r <- find_loop fuel fuel t a k (start (hash k)) ;;
             match r with
             | None => give_up
             | Some (x, y) => Act (a_gst t a) (fun _ => Emit [ev_ret x y] (Ret (Some gs)))
             end)
    | _ => Ret (Some gs)
    end.

  Fixpoint run_ops (fuel : nat) (t : nat) (os : list (list Z)) (gs : bool) : prog unit :=
    match os with
    | [] => Ret tt
    | o :: r => x <- run_op fuel t o gs ;; match x with Some gs' => run_ops fuel t r gs' | None => Ret tt end
    end.

  Definition thread_prog (fuel : nat) (t : nat) (os : list (list Z)) : Conc.thread G V ev :=
    Act a_begin (fun _ => run_ops fuel t os false).

  Definition init : G := mkG (fun _ _ => snull) 1 0 (fun _ => 0) 0%Z.

  Fixpoint thread_progs (fuel : nat) (t : nat) (ths : list (list (list Z))) : list (Conc.thread G V ev) :=
    match ths with
    | [] => []
    | os :: r => thread_prog fuel t os :: thread_progs fuel (S t) r
    end.

  Definition init_cfg (fuel : nat) (ths : list (list (list Z))) : Conc.config G V ev :=
    Conc.Cfg init (thread_progs fuel 0 ths) [].
End Params.

(** ** entry point for the extracted driver.  cfg = [loop fuel; head bits; array bits; hash of key 0; hash of key 1; ...]
       (the constructor of the real set raises head bits to 4 and array bits to 2: the check passes legal values) *)
Definition run_case (cfg : list Z) (ths : list (list (list Z))) (sched : list nat) (fuel : nat)
  : list (nat * ev) * bool :=
  let lf := Z.to_nat (nth 0 cfg 50%Z) in
  let hb := Z.to_nat (nth 1 cfg 4%Z) in
  let ab := Z.to_nat (nth 2 cfg 2%Z) in
  let hs := map Z.to_N (skipn 3 cfg) in
  let r := Conc.run fuel 0 sched (init_cfg hb ab 32 hs lf ths) in
  (Conc.trace (fst r), snd r).
