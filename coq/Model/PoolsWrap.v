(** * The pool models of LV.Model.Pools with the position counters of the underlying Vyukov queue allowed to wrap
      (companion of LV.Model.Pools, built on LV.Model.VyukovWrap).

    LV.Model.Pools runs the pools (cds/memory/vyukov_queue_pool.h: vyukov_queue_pool kind 0, lazy_vyukov_queue_pool
    kind 1, bounded_vyukov_queue_pool kind 2) over the queue programs of LV.Model.Vyukov, whose signed difference
    static_cast<intptr_t>(seq) - static_cast<intptr_t>(pos)  is the CHECKED subtraction, from the constructor's
    state (positions 0); its theorems assume that the position counters do not wrap.  This file removes both
    restrictions without copying the programs:

    - push_loop / bounded_retry / allocate / deallocate / run_pop / run_pops / pool_thread are re-stated ONCE,
      generic in the function [dif] that computes the signed difference (through [enqueue_g dif] / [dequeue_g dif]
      of LV.Model.VyukovWrap).  Instantiated with [Vyukov.sdif] they ARE the programs of LV.Model.Pools
      (LV.Proofs.PoolsWrapSafe.pool_gen_is_strict, by reflexivity); instantiated with [difw] (two's complement)
      they are the wrapped pools and never take the UB exit.
    - [pool_init_at c s] is the state of a pool through whose queue [s] items have passed and which (kinds 0 and 2,
      which preallocate) currently holds the [cap] preallocated objects at the positions s .. s+cap-1:
      m_posDequeue = s mod 2^64, m_posEnqueue = (s + cap) mod 2^64 (lazy pool: s mod 2^64), the cell of position
      s + i holds object i + 1 and the sequence number (s + i + 1) mod 2^64 (published); in the lazy pool every cell
      is free for the position of [s, s+cap) that maps to it.  [pool_init_at c 0] agrees with the constructor's
      state [Pools.pool_init c] on the cells of the ring.  Starting near 2^64 puts a run across the wrap. *)
From Coq Require Import ZArith List String Bool Lia.
From LV Require Import Base.Conc Base.Events Base.CInt Model.Vyukov Model.VyukovWrap Model.Pools.
Import ListNotations.
Local Open Scope Z_scope.
Local Open Scope string_scope.

Section Gen.
  (** static_cast<intptr_t>(a) - static_cast<intptr_t>(b);  None = undefined behaviour *)
  Variable dif : Z -> Z -> option Z.

  (** while ( !m_Queue.push( *p )) bkoff(); *)
  Fixpoint push_loop_g (c : pcfg) (fuel lfuel : nat) (p : Z) : prog (outcome unit) :=
    match lfuel with
    | O => Ret OutOfFuel
    | S f =>
        bind (enqueue_g dif (pq c) fuel p) (fun r =>
          match r with
          | Done true => Ret (Done tt)
          | Done false => Emit [] (push_loop_g c fuel f p)
          | OutOfFuel => Ret OutOfFuel
          | UB => Ret UB
          end)
    end.

  (** bounded pool: while ( m_Queue.size()) { p = m_Queue.pop(); if (p) goto ok; }  throw bad_alloc *)
  Fixpoint bounded_retry_g (c : pcfg) (fuel lfuel : nat) : prog (outcome (option Z)) :=
    match lfuel with
    | O => Ret OutOfFuel
    | S f =>
        Act a_ld_cnt (fun n =>
          if (vz n =? 0)%Z then Ret (Done None)
          else Emit [] (bind (dequeue_g dif (pq c) fuel) (fun r =>
                 match r with
                 | Done (Some p) => Ret (Done (Some p))
                 | Done None => bounded_retry_g c fuel f
                 | OutOfFuel => Ret OutOfFuel
                 | UB => Ret UB
                 end)))
    end.

  Definition allocate_g (c : pcfg) (fuel : nat) (t idx : nat) (held : list Z) : prog pres :=
    Emit [EvCli "inv_alloc" []]
      (bind (dequeue_g dif (pq c) fuel) (fun r =>
         match r with
         | Done (Some p) => Emit [EvCli "ret_alloc" [p]] (Ret (true, (held ++ [p])%list))
         | Done None =>
             if (pkind c =? 2)%Z then
               bind (bounded_retry_g c fuel fuel) (fun r2 =>
                 match r2 with
                 | Done (Some p) => Emit [EvCli "ret_alloc" [p]] (Ret (true, (held ++ [p])%list))
                 | Done None => Emit [EvCli "ret_alloc" [0]] (Ret (true, held))        (* std::bad_alloc *)
                 | OutOfFuel => stop "outoffuel" held
                 | UB => stop "ub" held
                 end)
             else Emit [EvCli "ret_alloc" [hid c t idx]] (Ret (true, (held ++ [hid c t idx])%list))
         | OutOfFuel => stop "outoffuel" held
         | UB => stop "ub" held
         end)).

  Definition deallocate_g (c : pcfg) (fuel : nat) (p : Z) (held' : list Z) : prog pres :=
    if (pkind c =? 1)%Z then
      Emit [EvCli "inv_dealloc" [p]]
        (bind (enqueue_g dif (pq c) fuel p) (fun r =>
           match r with
           | Done true => Emit [EvCli "ret_dealloc" []] (Ret (true, held'))
           | Done false => Emit [EvCli "free" [p]; EvCli "ret_dealloc" []] (Ret (true, held'))
           | OutOfFuel => stop "outoffuel" held'
           | UB => stop "ub" held'
           end))
    else if (pkind c =? 0)%Z && negb (from_pool c p) then
      Emit [EvCli "inv_dealloc" [p]; EvCli "free" [p]; EvCli "ret_dealloc" []] (Ret (true, held'))
    else
      Emit [EvCli "inv_dealloc" [p]]
        (bind (push_loop_g c fuel fuel p) (fun r =>
           match r with
           | Done _ => Emit [EvCli "ret_dealloc" []] (Ret (true, held'))
           | OutOfFuel => stop "outoffuel" held'
           | UB => stop "ub" held'
           end)).

  Definition run_pop_g (c : pcfg) (fuel : nat) (t idx : nat) (held : list Z) (o : pop) : prog pres :=
    match o with
    | PAlloc => allocate_g c fuel t idx held
    | PDealloc i =>
        match held with
        | [] => Ret (true, held)
        | _ :: _ =>
            let n := Nat.modulo i (List.length held) in
            match nth_error held n with
            | Some p => deallocate_g c fuel p (remove_nth n held)
            | None => Ret (true, held)
            end
        end
    end.

  Fixpoint run_pops_g (c : pcfg) (fuel : nat) (t idx : nat) (held : list Z) (os : list pop) : prog unit :=
    match os with
    | [] => Ret tt
    | o :: r => bind (run_pop_g c fuel t idx held o)
                     (fun x => if fst x then run_pops_g c fuel t (S idx) (snd x) r else Ret tt)
    end.

  Definition pool_thread_g (c : pcfg) (fuel : nat) (t : nat) (os : list pop) : Conc.thread G V ev :=
    Act a_begin (fun _ => run_pops_g c fuel t 0 [] os).

  (** any start state *)
  Definition pool_cfg_from_g (g0 : G) (kind cap : Z) (fuel : nat) (ths : list (list pop)) : Conc.config G V ev :=
    let c := mkP kind cap (List.length ths) in
    Conc.Cfg g0 (map_idx (pool_thread_g c fuel) 0 ths) [].
End Gen.

(** a pool through whose queue [s] items have passed; kinds 0 and 2 hold the preallocated objects 1..cap at the
    positions s .. s+cap-1 *)
Definition pool_init_at (c : pcfg) (s : Z) : G :=
  if Z.eqb (pkind c) 1 then init_at (pq c) s
  else mkG ((s + pcap c) mod m64) (s mod m64)
           (fun i => (s + (i - s) mod pcap c + 1) mod m64)
           (fun i => (i - s) mod pcap c + 1)
           (if Z.eqb (pkind c) 2 then pcap c else 0).

(** wrapping semantics, any start state *)
Definition pool_cfg_from (g0 : G) (kind cap : Z) (fuel : nat) (ths : list (list pop)) : Conc.config G V ev :=
  pool_cfg_from_g difw g0 kind cap fuel ths.

(** wrapping semantics, started at [s] *)
Definition pool_cfg_at (kind cap : Z) (s : Z) (fuel : nat) (ths : list (list pop)) : Conc.config G V ev :=
  pool_cfg_from (pool_init_at (mkP kind cap (List.length ths)) s) kind cap fuel ths.

(** wrapping semantics, started in the constructor's state *)
Definition pool_cfg_w (kind cap : Z) (fuel : nat) (ths : list (list pop)) : Conc.config G V ev :=
  pool_cfg_from (pool_init (mkP kind cap (List.length ths))) kind cap fuel ths.

(** entry point for an extracted driver: cfg = [capacity; kind; (ignored); loop fuel; start position] *)
Definition run_case_at (cfg : list Z) (ths : list (list (list Z))) (sched : list nat) (fuel : nat)
  : list (nat * ev) * bool :=
  let lfuel := Z.to_nat (nth 3 cfg 400) in
  let r := Conc.run fuel 0 sched (pool_cfg_at (nth 1 cfg 0) (nth 0 cfg 2) (nth 4 cfg 0) lfuel (map decode_pops ths)) in
  (Conc.trace (fst r), snd r).
