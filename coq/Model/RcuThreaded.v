(** * Model of cds::urcu::general_threaded (cds/urcu/details/gpt.h) with its reclamation thread (cds/urcu/dispose_thread.h).

    C++ modelled (current tree):
      general_threaded( n ):  m_Buffer( n > 1 ? n : 2 ), m_nCurEpoch( 1 ), m_nCapacity( n );  Construct starts the thread
      retire_ptr( p ):     push_buffer( epoch_retired_ptr( p, m_nCurEpoch.load()));
      batch_retire:        nEpoch = m_nCurEpoch.load(); for each p: push_buffer( epoch_retired_ptr( p, nEpoch ));
      push_buffer( p ):    bPushed = m_Buffer.push( p );
                           if ( !bPushed || m_Buffer.size() >= capacity()) { synchronize(); if ( !bPushed ) p.free(); return true; }
      synchronize():       nPrevEpoch = m_nCurEpoch.fetch_add( 1 );             // BEFORE the lock
                           { unique_lock sl( m_Lock ); flip_and_wait(); flip_and_wait(); }    // the CALLER runs the grace period
                           m_DisposerThread.dispose( m_Buffer, nPrevEpoch, false );
      dispose_thread::dispose( buf, nCurEpoch, false ):
                           { lock( m_Mutex ); while ( !m_bReady ) m_cvReady.wait(); m_bReady = false; m_nCurEpoch = nCurEpoch; m_pBuffer = &buf; }
                           m_cvDataReady.notify_one();
      dispose_thread::execute() (the reclamation thread):
                           while ( !bQuit ) { { lock; m_bReady = true; } m_cvReady.notify_one();
                               { lock; while ( m_pBuffer == nullptr ) m_cvDataReady.wait(); m_bReady = false; bQuit = m_bQuit;
                                 nCurEpoch = m_nCurEpoch; m_pBuffer = nullptr; }
                               dispose_buffer( pBuffer, nCurEpoch ); }
      dispose_buffer( buf, nCurEpoch ):  while (( p = buf.front()) != nullptr ) { if ( p->m_nEpoch <= nCurEpoch ) { p->free(); buf.pop_front(); } else break; }
      Destruct():          m_DisposerThread.stop( m_Buffer, max ) = as dispose with m_bQuit = true, then join.

    MODELLING ASSUMPTIONS (this flavour cannot run under the deterministic scheduler; no step correspondence, the tie to the
    code is the real-thread exploration of checks/C05.py):
    - std::mutex + condition variables are collapsed into ATOMIC hand-offs: "wait until m_bReady, then post the task" is one
      atomic test-and-post ([a_post], retried while it fails), "wait until m_pBuffer != nullptr, then take the task" is one
      atomic test-and-take ([a_take], retried while it fails), "m_bReady = true" is one store.  Blocking = retrying with fuel.
    - the reclamation thread is thread number n (after the n client threads) of the model; the thread that destroys the
      singleton is thread n+1; "join" of the client threads is modelled by a counter [g_ndone] that a client increments as
      its last step and that the destroying thread polls (thread termination as observed by join).
    - the buffer (VyukovMPSCCycleQueue) is the abstract bounded FIFO of LV.Model.RcuBuf; front() / pop_front() of the
      single consumer are two steps, the object is freed in between, as in the code.
    - Lock = spin lock as in LV.Model.RcuGp; m_nCurEpoch unbounded. *)
From Coq Require Import ZArith List String Bool Lia.
From LV Require Import Base.Conc Base.Events Model.RcuGp Model.RcuBuf.
Import ListNotations.
Local Open Scope string_scope.
Local Open Scope list_scope.
Local Open Scope Z_scope.

Definition obj_mail : list Z := [11; 0].
Definition obj_ready : list Z := [11; 1].
Definition obj_bfront : list Z := [8; 3].
Definition obj_bpopf : list Z := [8; 4].
Definition obj_join : list Z := [12].

Definition max_epoch : Z := 18446744073709551615.

(** dispose() / stop(): atomic "wait for m_bReady, post" *)
Definition a_post (n : Z) (quit : bool) : act := fun g =>
  if g_ready g then (set_mail g (Some n) false (quit || g_quit g), VZ 1, acc KCas obj_mail true)
  else (g, VZ 0, acc KCas obj_mail false).
Definition a_set_ready : act := fun g => (set_mail g (g_task g) true (g_quit g), VZ 0, acc KSt obj_ready true).
(** execute(): atomic "wait for m_pBuffer, take"; the result is (epoch, quit) *)
Definition a_take : act := fun g =>
  match g_task g with
  | Some n => (set_mail g None false (g_quit g), VP (Some (n, Z.b2z (g_quit g))), acc KCas obj_mail true)
  | None => (g, VP None, acc KCas obj_mail false)
  end.
Definition a_buf_front : act := fun g =>
  match g_buf g with
  | [] => (g, VP None, acc KLd obj_bfront false)
  | x :: _ => (g, VP (Some x), acc KLd obj_bfront true)
  end.
Definition a_buf_popfront : act := fun g => (set_buf g (tl (g_buf g)), VZ 0, acc KCas obj_bpopf true).
Definition a_done_inc : act := fun g => (set_ndone g (S (g_ndone g)), VZ 0, acc KFaa obj_join true).
Definition a_join (n : nat) : act := fun g => (g, VZ (if Nat.eqb (g_ndone g) n then 1 else 0), acc KLd obj_join true).

Section Gpt.
  Variables (sfuel : nat) (cap : Z) (cnt : bool).

  Fixpoint handoff (fuel : nat) (n : Z) (quit : bool) : prog bool :=
    match fuel with
    | O => Ret false
    | S f => Act (a_post n quit) (fun v => if vz v =? 1 then Ret true else handoff f n quit)
    end.

  (** general_threaded::synchronize: the caller runs the grace period, then hands the epoch to the reclamation thread *)
  Definition synchronize_t : prog bool :=
    Act a_epoch_faa (fun n =>
      bind (lock_outer sfuel) (fun ok =>
        if ok then bind (flips_and_wait 2 sfuel) (fun ok' =>
          if ok' then bind unlock (fun _ => handoff sfuel (vz n) false) else Ret false)
        else Ret false)).

  Definition push_buffer_t (p e : Z) : prog bool :=
    Act (a_buf_push p e) (fun v =>
      if vz v =? 1
      then size_reached cap cnt (fun full => if full then synchronize_t else Ret true)
      else bind synchronize_t (fun ok => if ok then Emit (cli "dispose" [p]) (Ret true) else Ret false)).

  Fixpoint push_all_t (e : Z) (ps : list Z) : prog bool :=
    match ps with
    | [] => Ret true
    | p :: r => bind (push_buffer_t p e) (fun ok => if ok then push_all_t e r else Ret false)
    end.

  Definition gpt_sync : prog bool :=
    Emit (cli "sync_begin" []) (bind synchronize_t (fun ok => if ok then Emit (cli "sync_end" []) (Ret true) else Ret false)).

  Definition gpt_retire (ps : list Z) (tail : list ev) : prog bool :=
    emit_retires ps (Act a_epoch_ld (fun e => bind (push_all_t (vz e) ps) (fun ok =>
      if ok then Emit tail (Ret true) else Ret false))).

  Definition run_top (t : nat) (s : lst) (o : bop) : prog (option lst) :=
    match o with
    | BCore OSync =>
        match my_depth s with
        | O => bind gpt_sync (fun ok => if ok then Ret (Some s) else Ret None)
        | _ => Ret (Some s)
        end
    | BCore (ORetire p) =>
        match my_depth s with
        | O => bind (gpt_retire [p] []) (fun ok => if ok then Ret (Some s) else Ret None)
        | _ => Ret (Some s)
        end
    | BCore o' => run_op 2 sfuel t s o'
    | BBatch ps =>
        match my_depth s, ps with
        | O, _ :: _ => bind (gpt_retire ps (cli "batch_end" [])) (fun ok => if ok then Ret (Some s) else Ret None)
        | _, _ => Ret (Some s)
        end
    end.

  (** a client thread: its operations, "done", and its termination as join sees it *)
  Fixpoint run_tops (t : nat) (s : lst) (os : list bop) : prog unit :=
    match os with
    | [] => bind (finish s) (fun _ => Emit (cli "done" []) (Act a_done_inc (fun _ => Ret tt)))
    | o :: r => bind (run_top t s o) (fun s' =>
        match s' with
        | Some s'' => run_tops t s'' r
        | None => Emit (cli "outoffuel" []) (Ret tt)
        end)
    end.

  Definition tthread_prog (t : nat) (os : list bop) : Conc.thread G V ev :=
    Act a_begin (fun _ => run_tops t (mkL None O) os).

  (** ** the reclamation thread *)
  (** dispose_buffer.  With m_bQuit the epoch handed over is the maximal uint64 and every entry qualifies; epochs are
      unbounded in the model, so the model tests the quit flag [q] it took together with the epoch instead of comparing
      with 2^64 - 1. *)
  Fixpoint drain (fuel : nat) (n : Z) (q : bool) : prog bool :=
    match fuel with
    | O => Ret false
    | S f => Act a_buf_front (fun v =>
        match vp v with
        | None => Ret true
        | Some (p, e) => if (e <=? n) || q then Emit (cli "dispose" [p]) (Act a_buf_popfront (fun _ => drain f n q)) else Ret true
        end)
    end.

  Fixpoint take_task (fuel : nat) : prog (option (Z * Z)) :=
    match fuel with
    | O => Ret None
    | S f => Act a_take (fun v => match vp v with Some x => Ret (Some x) | None => take_task f end)
    end.

  (** [dfuel] rounds of execute()'s loop; "ddone" when the thread leaves the loop because m_bQuit was set *)
  Fixpoint disposer (rounds : nat) (fuel : nat) : Conc.thread G V ev :=
    match rounds with
    | O => Ret tt
    | S r =>
        Act a_set_ready (fun _ =>
          bind (take_task fuel) (fun x =>
            match x with
            | None => Ret tt
            | Some (n, q) => bind (drain fuel n (negb (q =? 0))) (fun ok =>
                if ok then (if q =? 0 then disposer r fuel else Emit (cli "ddone" []) (Ret tt)) else Ret tt)
            end))
    end.

  (** Destruct by the thread that owns the singleton: join the [n] clients, stop the reclamation thread *)
  Fixpoint join_clients (fuel : nat) (n : nat) : prog bool :=
    match fuel with
    | O => Ret false
    | S f => Act (a_join n) (fun v => if vz v =? 1 then Ret true else join_clients f n)
    end.

  Definition destructor (fuel : nat) (n : nat) : Conc.thread G V ev :=
    bind (join_clients fuel n) (fun ok =>
      if ok then bind (handoff fuel max_epoch true) (fun ok' => if ok' then Emit (cli "stop" []) (Ret tt) else Ret tt)
      else Ret tt).
End Gpt.

Definition tinit (cap : Z) (cnt : bool) : G :=
  mkG 1 [] O (fun _ => 0) (fun _ => 0) false 0 0 1 [] (buffer_cells cap) cap cnt (fun _ => false) None false false O.

(** threads 0 .. n-1: clients; n: reclamation thread; n+1: destructor *)
Definition tinit_cfg (sfuel rounds : nat) (cap : Z) (cnt : bool) (ths : list (list bop)) : Conc.config G V ev :=
  Conc.Cfg (tinit cap cnt)
           (map (fun p => tthread_prog sfuel cap cnt (fst p) (snd p)) (number O ths)
            ++ [disposer rounds sfuel; destructor sfuel (List.length ths)]) [].

(** cfg = [spin fuel; capacity; counting; rounds of the reclamation thread] *)
Definition run_case (cfg : list Z) (ths : list (list (list Z))) (sched : list nat) (fuel : nat)
  : list (nat * ev) * bool :=
  let sfuel := Z.to_nat (nth 0 cfg 2000) in
  let cap := nth 1 cfg 2 in
  let cnt := negb (nth 2 cfg 0 =? 0) in
  let rounds := Z.to_nat (nth 3 cfg 50) in
  let r := Conc.run fuel 0 sched (tinit_cfg sfuel rounds cap cnt (map decode_bops ths)) in
  (Conc.trace (fst r), snd r).
