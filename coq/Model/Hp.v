(** * Model of cds::gc::hp (Hazard Pointer SMR): basic_smr + thread_data, one atomic access per [Act].

    Modelled C++ (current tree; /repo/src/hp.cpp, /repo/cds/gc/hp.h, /repo/cds/gc/details/hp_common.h,
    /repo/cds/gc/details/retired_ptr.h), in the order the atomics are executed under -DNDEBUG:

    basic_smr::basic_smr(H,P,R,scan)   hazard_ptr_count_ = H==0 ? 8 : H;  max_thread_count_ = P==0 ? 100 : P;
                                       max_retired_ptr_count_ = R < H*P ? 2*H*P : R        (calc_retired_size)
    generic_smr::attach_thread         if (!getTLS()) setTLS( alloc_thread_data() )
    basic_smr::alloc_thread_data       for (hprec = thread_list_.load(); hprec; hprec = hprec->next_) {
                                           if (!hprec->owner_rec_.compare_exchange_strong( null, hprec )) continue;
                                           hprec->free_.store( false );  return hprec; }
                                       hprec = create_thread_data();  hprec->owner_rec_.store( hprec );
                                       pOldHead = thread_list_.load();
                                       do hprec->next_ = pOldHead; while (!thread_list_.compare_exchange_weak( pOldHead, hprec ));
    Guard::protect( toGuard )          pCur = toGuard.load(); do { pRet = pCur; assign( pCur ); pCur = toGuard.load(); } while (pRet != pCur);
    Guard::assign( T* p )              guard_->set( p ) [hp_.store];  tls()->sync() [sync_.fetch_add(1)]
    Guard::assign( nullptr ) / clear   guard_->clear() [hp_.store( nullptr )]
    Guard::copy( src )                 assign( src.get_native() [hp_.load] )
    HP::retire( p, func )              if (!rec->retired_.push( retired_ptr( p, func ))) instance().scan( rec );
    retired_array::push                cur = current_.load(); *cur = p; current_.store( cur + 1 ); return cur + 1 < last_;
    basic_smr::scan( rec )             rec->sync() [sync_.fetch_add(1)];  (this->*scan_func_)( rec )
    basic_smr::classic_scan            pNode = thread_list_.load();
                                       while (pNode) { if (pNode->owner_rec_.load() != nullptr)
                                                           for (i = 0; i < H; ++i) { hptr = pNode->hazards_[i].get() [hp_.load]; if (hptr) plist.push_back( hptr ); }
                                                       pNode = pNode->next_; }
                                       std::sort( plist );
                                       first_retired = retired.first(); last_retired = retired.last() [current_.load];
                                       for (it = first_retired; it != last_retired; ++it)
                                           if (std::binary_search( plist, it->m_p )) { *insert_pos = *it; ++insert_pos; } else it->free();
                                       retired.reset( insert_pos - first_retired ) [current_.store]
    basic_smr::inplace_scan            last_retired = retired_.last() [current_.load];  if (first == last) return;
                                       if (some it->m_n & 1) { classic_scan( pRec ); return; }
                                       std::sort( first_retired, last_retired );
                                       pNode = thread_list_.load();
                                       while (pNode) { if (pNode->owner_rec_.load() != nullptr)
                                                           for (hp in pNode->hazards_) { hptr = hp->get() [hp_.load];
                                                               if (hptr) { it = lower_bound( first, last, hptr ); if (it != last && it->m_p == hptr) it->m_n |= 1; } }
                                                       pNode = pNode->next_; }
                                       for (it ...) if (it->m_n & 1) { clear mark; *insert_pos++ = *it; } else it->free();
                                       retired_.reset( nDeferred ) [current_.store]
    basic_smr::help_scan( pThis )      for (hprec = thread_list_.load(); hprec; hprec = hprec->next_) {
                                           if (hprec == pThis) continue;
                                           if (hprec->free_.load()) continue;
                                           curOwner = hprec->owner_rec_.load();
                                           if (curOwner == nullptr) { if (!hprec->owner_rec_.compare_exchange_strong( curOwner, hprec )) continue; } else continue;
                                           src_first = src.first(); src_last = src.last() [hprec current_.load];
                                           for (; src_first != src_last; ++src_first) if (!dest.push( *src_first )) scan( pThis );
                                           src.interthread_clear() [current_.exchange( first )];
                                           hprec->free_.store( true );  hprec->owner_rec_.store( nullptr );
                                           scan( pThis ); }
    generic_smr::detach_thread         setTLS( nullptr );  free_thread_data( rec, true )
    basic_smr::free_thread_data        pRec->hazards_.clear() [H x hp_.store( nullptr )];  scan( pRec );
                                       if (callHelpScan) help_scan( pRec );  pRec->owner_rec_.store( nullptr );
    basic_smr::destruct( true )        detach_all_thread(): for (hprec = thread_list_.load(); hprec; hprec = pNext) { pNext = hprec->next_;
                                           if (hprec->owner_rec_.load() != nullptr) free_thread_data( hprec, false ); }
                                       ~basic_smr(): pHead = thread_list_.load(); thread_list_.store( nullptr );
                                           for (hprec ...) { for (cur in [arr.first(), arr.last() [current_.load])) cur->free();
                                                             arr.reset( 0 ) [current_.store]; hprec->free_.store( true ); destroy_thread_data( hprec ); }

    Abstractions (stated, not hidden):
    - [thread_list_] is a grow-only list pushed at the head whose [next_] fields are written only before the
      publishing CAS: the model keeps the list itself ([g_list], head first); the head load returns the list
      (the later non-atomic [next_] reads are reads of immutable memory), the CAS compares heads.
    - [owner_rec_] holds null or the record itself: a boolean.
    - the retired array is the list of cells below [current_] ([r_ret]); the [current_] load returns that list
      (the cells are thread-private plain memory read after the load), the [current_] store writes the list the
      owner computed locally.  [retired_array::push] beyond the capacity is undefined behaviour in C++ (writes past
      the block); the model emits the client event "overflow p" and drops the entry.
    - [std::sort] / [lower_bound] / [binary_search]: insertion sort, first-position search, membership.
    - pointers are [Z]: parity and order are those of the real addresses (object n of the harness lives at
      arena+n, arena 64-byte aligned); null is 0.
    - [sync_] carries no information (sequential consistency).

    Events.  [EvAcc] for every atomic access (objects: [0] thread_list_, [1;r] owner_rec_, [2;r] free_,
    [3;r;j] hazards_[j].hp_, [4;r] retired_.current_, [5;r] sync_, [6;k] client source k).  Client events as
    printed by harness/C01/main.cpp.  GHOST events (name starts with "g_", emitted in the same atomic step as the
    access they describe, not printed by the harness, filtered by checks/C01.py before the comparison):
      g_slot [r;j;v]     the store of v into slot j of record r
      g_scan_begin [r]   the sync_.fetch_add that opens basic_smr::scan( r )
      g_scan_end (r :: kept)   its return, with the retired cells it left in the array
      g_att [r] / g_det [r]    the thread became attached to / detached from record r (after the successful CAS of
                               alloc_thread_data, before the releasing store of free_thread_data)
      g_ld [k;v]               a load of client source k read v;   g_src [k;v;old]   an exchange wrote v, unlinked old
    They make "slot (r,j) held v at every step between s and d" and "the scan that began at s" predicates on the
    trace. *)
From Coq Require Import ZArith List String Bool Lia PeanoNat.
From LV Require Import Base.Conc Base.Events.
Import ListNotations.
Local Open Scope string_scope.
Local Open Scope list_scope.
Local Open Scope Z_scope.

(** ** configuration *)
Record cfgT := mkCfg { cH : nat; cP : nat; cR : nat; cInplace : bool; cNsrc : nat; cFuel : nat }.

(** ** shared state *)
Record rec := mkRec { r_owner : bool; r_free : bool; r_slots : nat -> Z; r_ret : list Z }.
Record G := mkG { g_list : list nat; g_recs : list rec; g_srcs : nat -> Z }.

Inductive V := VU | VB (b : bool) | VZ (z : Z) | VN (n : nat) | VL (l : list Z) | VR (l : list nat) | VCas (ok : bool) (l : list nat).
Definition vB v := match v with VB b => b | VCas b _ => b | _ => false end.
Definition vZ v := match v with VZ z => z | _ => 0 end.
Definition vN v := match v with VN n => n | _ => O end.
Definition vL v := match v with VL l => l | _ => [] end.
Definition vR v := match v with VR l => l | VCas _ l => l | _ => [] end.

Definition prog := Conc.prog G V ev.
Definition action := G -> G * V * list ev.

Definition init (c : cfgT) : G := mkG [] [] (fun _ => 0).

Definition new_rec : rec := mkRec true false (fun _ => 0) [].
Definition dead_rec : rec := mkRec false true (fun _ => 0) [].

Definition get_rec (g : G) (r : nat) : rec := nth r (g_recs g) dead_rec.

Fixpoint upd_nth {A} (l : list A) (n : nat) (f : A -> A) : list A :=
  match l, n with
  | [], _ => []
  | x :: l', O => f x :: l'
  | x :: l', S n' => x :: upd_nth l' n' f
  end.

Definition upd_rec (g : G) (r : nat) (f : rec -> rec) : G :=
  mkG (g_list g) (upd_nth (g_recs g) r f) (g_srcs g).

Definition gslot (g : G) (r j : nat) : Z := r_slots (get_rec g r) j.

Definition set_owner b (x : rec) := mkRec b (r_free x) (r_slots x) (r_ret x).
Definition set_free b (x : rec) := mkRec (r_owner x) b (r_slots x) (r_ret x).
Definition set_slot j v (x : rec) := mkRec (r_owner x) (r_free x) (fun i => if Nat.eqb i j then v else r_slots x i) (r_ret x).
Definition set_ret l (x : rec) := mkRec (r_owner x) (r_free x) (r_slots x) l.

(** ** symbolic addresses *)
Definition zn (n : nat) : Z := Z.of_nat n.
Definition obj_head : list Z := [0].
Definition obj_owner (r : nat) : list Z := [1; zn r].
Definition obj_free (r : nat) : list Z := [2; zn r].
Definition obj_slot (r j : nat) : list Z := [3; zn r; zn j].
Definition obj_cur (r : nat) : list Z := [4; zn r].
Definition obj_sync (r : nat) : list Z := [5; zn r].
Definition obj_src (k : nat) : list Z := [6; zn k].

(** ** atomic accesses *)
Definition a_begin : action := fun g => (g, VU, [EvAcc KBegin [] true]).

Definition a_ld_head : action := fun g => (g, VR (g_list g), [EvAcc KLd obj_head true]).
Definition a_st_head_null : action := fun g => (mkG [] (g_recs g) (g_srcs g), VU, [EvAcc KSt obj_head true]).
Definition same_head (a b : list nat) : bool :=
  match a, b with
  | [], [] => true
  | x :: _, y :: _ => Nat.eqb x y
  | _, _ => false
  end.
(** thread_list_.compare_exchange( pOldHead, hprec ) with hprec->next_ = pOldHead *)
Definition a_cas_head (exp : list nat) (r : nat) : action := fun g =>
  if same_head exp (g_list g)
  then (mkG (r :: g_list g) (g_recs g) (g_srcs g), VCas true (g_list g), [EvAcc KCas obj_head true])
  else (g, VCas false (g_list g), [EvAcc KCas obj_head false]).

(** create_thread_data() + hprec->owner_rec_.store( hprec ): first access to the new record *)
Definition a_new_rec : action := fun g =>
  let r := List.length (g_recs g) in
  (mkG (g_list g) (g_recs g ++ [new_rec]) (g_srcs g), VN r, [EvAcc KSt (obj_owner r) true]).

Definition a_cas_owner (r : nat) : action := fun g =>
  if r_owner (get_rec g r)
  then (g, VB false, [EvAcc KCas (obj_owner r) false])
  else (upd_rec g r (set_owner true), VB true, [EvAcc KCas (obj_owner r) true]).
Definition a_ld_owner (r : nat) : action := fun g => (g, VB (r_owner (get_rec g r)), [EvAcc KLd (obj_owner r) true]).
Definition a_st_owner (r : nat) (b : bool) : action := fun g =>
  (upd_rec g r (set_owner b), VU, [EvAcc KSt (obj_owner r) true]).
Definition a_ld_free (r : nat) : action := fun g => (g, VB (r_free (get_rec g r)), [EvAcc KLd (obj_free r) true]).
Definition a_st_free (r : nat) (b : bool) : action := fun g =>
  (upd_rec g r (set_free b), VU, [EvAcc KSt (obj_free r) true]).

Definition a_ld_slot (r j : nat) : action := fun g => (g, VZ (gslot g r j), [EvAcc KLd (obj_slot r j) true]).
Definition a_st_slot (r j : nat) (v : Z) : action := fun g =>
  (upd_rec g r (set_slot j v), VU, [EvAcc KSt (obj_slot r j) true; EvCli "g_slot" [zn r; zn j; v]]).

Definition a_faa_sync (r : nat) : action := fun g => (g, VU, [EvAcc KFaa (obj_sync r) true]).
(** the fetch_add that opens basic_smr::scan *)
Definition a_faa_scan (r : nat) : action := fun g =>
  (g, VU, [EvAcc KFaa (obj_sync r) true; EvCli "g_scan_begin" [zn r]]).

Definition a_ld_cur (r : nat) : action := fun g => (g, VL (r_ret (get_rec g r)), [EvAcc KLd (obj_cur r) true]).
Definition a_st_cur (r : nat) (l : list Z) : action := fun g =>
  (upd_rec g r (set_ret l), VU, [EvAcc KSt (obj_cur r) true]).
Definition a_xchg_cur (r : nat) : action := fun g =>
  (upd_rec g r (set_ret []), VU, [EvAcc KXchg (obj_cur r) true]).

(** client sources: the load reports what it read, the exchange what it wrote and what it unlinked (ghost events
    g_ld / g_src); the client event "unlinked old" is part of the exchange step (the harness prints it right after) *)
Definition a_ld_src (k : nat) : action := fun g =>
  (g, VZ (g_srcs g k), [EvAcc KLd (obj_src k) true; EvCli "g_ld" [zn k; g_srcs g k]]).
Definition a_xchg_src (k : nat) (v : Z) : action := fun g =>
  (mkG (g_list g) (g_recs g) (fun i => if Nat.eqb i k then v else g_srcs g i), VZ (g_srcs g k),
   [EvAcc KXchg (obj_src k) true; EvCli "g_src" [zn k; v; g_srcs g k]; EvCli "unlinked" [g_srcs g k]]).

(** ** local computation: std::sort, binary_search, lower_bound + mark *)
Fixpoint insert_sorted (x : Z) (l : list Z) : list Z :=
  match l with
  | [] => [x]
  | y :: l' => if x <=? y then x :: l else y :: insert_sorted x l'
  end.
Fixpoint sortZ (l : list Z) : list Z :=
  match l with [] => [] | x :: l' => insert_sorted x (sortZ l') end.

Fixpoint memZ (x : Z) (l : list Z) : bool :=
  match l with [] => false | y :: l' => if x =? y then true else memZ x l' end.

(** [it = lower_bound( sorted array, v ); if (it != last && it->m_p == v) it->m_n |= 1] on an array of
    (pointer, mark) cells sorted by pointer *)
Fixpoint mark_first (v : Z) (cells : list (Z * bool)) : list (Z * bool) :=
  match cells with
  | [] => []
  | (x, m) :: tl =>
      if x =? v then (x, true) :: tl
      else if v <? x then cells
      else (x, m) :: mark_first v tl
  end.

Definition ev_dispose (p : Z) : ev := EvCli "dispose" [p].

Section Programs.
  Variable c : cfgT.
  Let H := cH c.
  Let R := cR c.

  (** *** alloc_thread_data *)
  Fixpoint reuse_loop (l : list nat) : prog (option nat) :=
    match l with
    | [] => Ret None
    | r :: l' =>
        Act (a_cas_owner r) (fun v =>
          if vB v then Emit [EvCli "g_att" [zn r]] (Act (a_st_free r false) (fun _ => Ret (Some r))) else reuse_loop l')
    end.

  Fixpoint push_loop (fuel : nat) (r : nat) (exp : list nat) : prog bool :=
    match fuel with
    | O => Ret false
    | S f => Act (a_cas_head exp r) (fun v => if vB v then Emit [EvCli "g_att" [zn r]] (Ret true) else push_loop f r (vR v))
    end.

  (** [None] = fuel exhausted in the head CAS loop *)
  Definition alloc_thread_data : prog (option nat) :=
    Act a_ld_head (fun v =>
      bind (reuse_loop (vR v)) (fun o =>
        match o with
        | Some r => Ret (Some r)
        | None =>
            Act a_new_rec (fun v1 =>
              let r := vN v1 in
              Act a_ld_head (fun v2 =>
                bind (push_loop (cFuel c) r (vR v2)) (fun ok => Ret (if ok then Some r else None))))
        end)).

  (** *** guards *)
  Definition assign (r j : nat) (p : Z) : prog unit :=
    Act (a_st_slot r j p) (fun _ => Act (a_faa_sync r) (fun _ => Ret tt)).
  Definition clear (r j : nat) : prog unit := Act (a_st_slot r j 0) (fun _ => Ret tt).

  Fixpoint protect_loop (fuel : nat) (r j k : nat) (pcur : Z) : prog (option Z) :=
    match fuel with
    | O => Ret None
    | S f =>
        Act (a_st_slot r j pcur) (fun _ =>
          Act (a_faa_sync r) (fun _ =>
            Act (a_ld_src k) (fun v =>
              if vZ v =? pcur then Ret (Some pcur) else protect_loop f r j k (vZ v))))
    end.
  Definition protect (r j k : nat) : prog (option Z) :=
    Act (a_ld_src k) (fun v => protect_loop (cFuel c) r j k (vZ v)).

  Definition copy (r j i : nat) : prog Z :=
    Act (a_ld_slot r i) (fun v => bind (assign r j (vZ v)) (fun _ => Ret (vZ v))).

  (** *** stage 1 of both scans: walk the record list, load owner, load the H slots.
          [sel] = which non-null hazard values are recorded (classic: all; in-place: irrelevant, see below) *)
  Fixpoint slots_loop (r' : nat) (js : list nat) (acc : list Z) : prog (list Z) :=
    match js with
    | [] => Ret acc
    | j :: js' =>
        Act (a_ld_slot r' j) (fun v => slots_loop r' js' (if vZ v =? 0 then acc else acc ++ [vZ v]))
    end.
  Fixpoint recs_loop (l : list nat) (acc : list Z) : prog (list Z) :=
    match l with
    | [] => Ret acc
    | r' :: l' =>
        Act (a_ld_owner r') (fun v =>
          if vB v then bind (slots_loop r' (seq 0 H) acc) (fun acc' => recs_loop l' acc')
          else recs_loop l' acc)
    end.

  (** stage 2 of classic_scan on the retired cells [l] with hazard list [plist] *)
  Definition classic_kept (plist l : list Z) : list Z := filter (fun p => memZ p plist) l.
  Definition classic_freed (plist l : list Z) : list Z := filter (fun p => negb (memZ p plist)) l.

  (** returns the cells kept *)
  Definition classic_scan (r : nat) : prog (list Z) :=
    Act a_ld_head (fun v =>
      bind (recs_loop (vR v) []) (fun plist =>
        Act (a_ld_cur r) (fun v2 =>
          let l := vL v2 in
          Emit (map ev_dispose (classic_freed plist l))
            (Act (a_st_cur r (classic_kept plist l)) (fun _ => Ret (classic_kept plist l)))))).

  (** in-place: the hazard values seen, in order, are applied to the sorted array with lower_bound + mark *)
  Definition unmarked (l : list Z) : list (Z * bool) := map (fun p => (p, false)) l.
  Definition apply_marks (hs : list Z) (cells : list (Z * bool)) : list (Z * bool) :=
    fold_left (fun cs h => mark_first h cs) hs cells.
  Definition inplace_kept (cells : list (Z * bool)) : list Z := map fst (filter snd cells).
  Definition inplace_freed (cells : list (Z * bool)) : list Z := map fst (filter (fun x => negb (snd x)) cells).

  Definition inplace_scan (r : nat) : prog (list Z) :=
    Act (a_ld_cur r) (fun v0 =>
      let l := vL v0 in
      match l with
      | [] => Ret []
      | _ :: _ =>
          if existsb Z.odd l then classic_scan r
          else
            let sl := sortZ l in
            Act a_ld_head (fun v =>
              bind (recs_loop (vR v) []) (fun hs =>
                let cells := apply_marks hs (unmarked sl) in
                Emit (map ev_dispose (inplace_freed cells))
                  (Act (a_st_cur r (inplace_kept cells)) (fun _ => Ret (inplace_kept cells)))))
      end).

  Definition scan (r : nat) : prog unit :=
    Act (a_faa_scan r) (fun _ =>
      bind (if cInplace c then inplace_scan r else classic_scan r) (fun kept =>
        Emit [EvCli "g_scan_end" (zn r :: kept)] (Ret tt))).

  (** *** retired_array::push; [None] = past the capacity (undefined behaviour in C++) *)
  Definition push (r : nat) (p : Z) : prog (option bool) :=
    Act (a_ld_cur r) (fun v =>
      let l := vL v in
      if (R <=? List.length l)%nat then Emit [EvCli "overflow" [p]] (Ret None)
      else Act (a_st_cur r (l ++ [p])) (fun _ => Ret (Some (S (List.length l) <? R)%nat))).

  Definition retire (r : nat) (p : Z) : prog unit :=
    bind (push r p) (fun o =>
      match o with
      | Some false => scan r
      | _ => Ret tt
      end).

  (** *** help_scan *)
  Fixpoint move_loop (r : nat) (src : list Z) : prog unit :=
    match src with
    | [] => Ret tt
    | x :: tl =>
        bind (push r x) (fun o =>
          match o with
          | Some false => bind (scan r) (fun _ => move_loop r tl)
          | _ => move_loop r tl
          end)
    end.

  Fixpoint help_loop (r : nat) (l : list nat) : prog unit :=
    match l with
    | [] => Ret tt
    | h :: l' =>
        if Nat.eqb h r then help_loop r l'
        else
          Act (a_ld_free h) (fun v =>
            if vB v then help_loop r l'
            else
              Act (a_ld_owner h) (fun v1 =>
                if vB v1 then help_loop r l'
                else
                  Act (a_cas_owner h) (fun v2 =>
                    if negb (vB v2) then help_loop r l'
                    else
                      Act (a_ld_cur h) (fun v3 =>
                        bind (move_loop r (vL v3)) (fun _ =>
                          Act (a_xchg_cur h) (fun _ =>
                            Act (a_st_free h true) (fun _ =>
                              Act (a_st_owner h false) (fun _ =>
                                bind (scan r) (fun _ => help_loop r l')))))))))
    end.

  Definition help_scan (r : nat) : prog unit := Act a_ld_head (fun v => help_loop r (vR v)).

  (** *** free_thread_data *)
  Fixpoint clear_loop (r : nat) (js : list nat) : prog unit :=
    match js with
    | [] => Ret tt
    | j :: js' => Act (a_st_slot r j 0) (fun _ => clear_loop r js')
    end.

  Definition free_thread_data (r : nat) (help : bool) : prog unit :=
    bind (clear_loop r (seq 0 H)) (fun _ =>
      bind (scan r) (fun _ =>
        bind (if help then help_scan r else Ret tt) (fun _ =>
          Emit [EvCli "g_det" [zn r]] (Act (a_st_owner r false) (fun _ => Ret tt))))).

  (** *** destruct( true ) = detach_all_thread + ~basic_smr, executed by one thread after the workers stopped *)
  Fixpoint detach_all_loop (l : list nat) : prog unit :=
    match l with
    | [] => Ret tt
    | h :: l' =>
        Act (a_ld_owner h) (fun v =>
          if vB v then bind (free_thread_data h false) (fun _ => detach_all_loop l') else detach_all_loop l')
    end.
  Fixpoint dtor_loop (l : list nat) : prog unit :=
    match l with
    | [] => Ret tt
    | h :: l' =>
        Act (a_ld_cur h) (fun v =>
          Emit (map ev_dispose (vL v))
            (Act (a_st_cur h []) (fun _ => Act (a_st_free h true) (fun _ => dtor_loop l'))))
    end.
  Definition destruct_prog : prog unit :=
    Act a_ld_head (fun v =>
      bind (detach_all_loop (vR v)) (fun _ =>
        Act a_ld_head (fun v1 =>
          Act a_st_head_null (fun _ => dtor_loop (vR v1))))).

  (** ** client operations (the same decoding and the same events as harness/C01/main.cpp) *)
  Inductive op :=
  | OAttach | ODetach
  | OProtect (j k : nat) | OAssign (j : nat) (o : Z) | OClear (j : nat)
  | OPublish (k : nat) (o : Z) | ORetire (o : Z) | OScan | OTouch (j : nat) | OCopy (j i : nat).

  (** thread-local state: the record the thread is attached to, and what the client knows its guards hold *)
  Record local := mkLocal { l_rec : option nat; l_gv : nat -> Z }.
  Definition local0 : local := mkLocal None (fun _ => 0).
  Definition set_gv (lo : local) (j : nat) (v : Z) : local :=
    mkLocal (l_rec lo) (fun i => if Nat.eqb i j then v else l_gv lo i).

  Definition cli (name : string) (args : list Z) : ev := EvCli name args.
  Definition ARENA : Z := 4096.

  Definition op_valid (o : op) : bool :=
    match o with
    | OProtect j k => (j <? H)%nat && (k <? cNsrc c)%nat
    | OAssign j _ | OClear j | OTouch j => (j <? H)%nat
    | OCopy j i => (j <? H)%nat && (i <? H)%nat
    | OPublish k _ => (k <? cNsrc c)%nat
    | _ => true
    end.

  (** [None]: a fuelled loop ran out of fuel; the thread stops (never happens in the harness) *)
  Definition run_op (lo : local) (o : op) : prog (option local) :=
    match o with
    | OAttach =>
        Emit [cli "attach" []]
          (match l_rec lo with
           | Some _ => Emit [cli "attached" []] (Ret (Some lo))
           | None =>
               bind alloc_thread_data (fun x =>
                 match x with
                 | Some r => Emit [cli "attached" []] (Ret (Some (mkLocal (Some r) (fun _ => 0))))
                 | None => Emit [cli "outoffuel" []] (Ret None)
                 end)
           end)
    | _ =>
        match l_rec lo with
        | None => Emit [cli "skip" []] (Ret (Some lo))
        | Some r =>
            if negb (op_valid o) then Emit [cli "skip" []] (Ret (Some lo))
            else
              match o with
              | OAttach => Ret (Some lo)
              | ODetach =>
                  Emit [cli "detach" []]
                    (bind (free_thread_data r true) (fun _ =>
                       Emit [cli "detached" []] (Ret (Some local0))))
              | OProtect j k =>
                  Emit [cli "protect" [zn j; zn k]]
                    (bind (protect r j k) (fun x =>
                       match x with
                       | Some p => Emit [cli "protected" [zn j; p]] (Ret (Some (set_gv lo j p)))
                       | None => Emit [cli "outoffuel" []] (Ret None)
                       end))
              | OAssign j o =>
                  Emit [cli "assign" [zn j; o]]
                    (bind (if o =? 0 then clear r j else assign r j o) (fun _ =>
                       Emit [cli "assigned" []] (Ret (Some (set_gv lo j o)))))
              | OClear j =>
                  Emit [cli "clear" [zn j]]
                    (bind (clear r j) (fun _ => Emit [cli "cleared" []] (Ret (Some (set_gv lo j 0)))))
              | OPublish k o =>
                  Emit [cli "publish" [zn k; o]]
                    (Act (a_xchg_src k o) (fun v =>
                       let old := vZ v in
                       if old =? 0 then Ret (Some lo)
                       else Emit [cli "retire" [old]]
                              (bind (retire r old) (fun _ => Emit [cli "retired" []] (Ret (Some lo))))))
              | ORetire o =>
                  if (o <=? 0) || (ARENA <=? o) then Emit [cli "skip" []] (Ret (Some lo))
                  else Emit [cli "retire" [o]]
                         (bind (retire r o) (fun _ => Emit [cli "retired" []] (Ret (Some lo))))
              | OScan =>
                  Emit [cli "scan" []] (bind (scan r) (fun _ => Emit [cli "scanned" []] (Ret (Some lo))))
              | OTouch j => Emit [cli "touch" [zn j; l_gv lo j]] (Ret (Some lo))
              | OCopy j i =>
                  Emit [cli "copy" [zn j; zn i]]
                    (bind (copy r j i) (fun _ => Emit [cli "copied" []] (Ret (Some (set_gv lo j (l_gv lo i))))))
              end
        end
    end.

  Fixpoint run_ops (lo : local) (os : list op) : prog unit :=
    match os with
    | [] => Ret tt
    | o :: rest =>
        bind (run_op lo o) (fun x => match x with Some lo' => run_ops lo' rest | None => Ret tt end)
    end.

  Definition thread_prog (os : list op) : Conc.thread G V ev :=
    Act a_begin (fun _ => run_ops local0 os).

  Definition init_cfg (ths : list (list op)) : Conc.config G V ev :=
    Conc.Cfg (init c) (map thread_prog ths) [].
End Programs.

(** ** sequential execution of one program (used for the destruction of the singleton) *)
Fixpoint run_seq {A} (p : prog A) (g : G) : G * list ev * A :=
  match p with
  | Ret a => (g, [], a)
  | Emit es k => let '(g', es', a) := run_seq k g in (g', es ++ es', a)
  | Act f k =>
      let '(g1, v, es) := f g in
      let '(g', es', a) := run_seq (k v) g1 in (g', es ++ es', a)
  end.

Definition destroy (c : cfgT) (g : G) : G * list ev :=
  let '(g', es, _) := run_seq (destruct_prog c) g in (g', es).

(** ** entry point for the extracted driver *)
Definition norm_cfg (cfg : list Z) : cfgT :=
  let h0 := Z.to_nat (nth 0 cfg 2) in
  let p0 := Z.to_nat (nth 1 cfg 2) in
  let r0 := Z.to_nat (nth 2 cfg 8) in
  let h := match h0 with O => 8%nat | _ => h0 end in
  let p := match p0 with O => 100%nat | _ => p0 end in
  let r := if (r0 <? h * p)%nat then (2 * (h * p))%nat else r0 in
  mkCfg h p r (negb (nth 3 cfg 0 =? 0)) (Z.to_nat (nth 4 cfg 2)) (Z.to_nat (nth 5 cfg 64)).

Definition nat_arg (z : Z) : nat := if z <? 0 then 1000000%nat else Z.to_nat z.

Definition decode_op (o : list Z) : option op :=
  match o with
  | [1] => Some OAttach
  | [2] => Some ODetach
  | [3; j; k] => Some (OProtect (nat_arg j) (nat_arg k))
  | [4; j; x] => Some (OAssign (nat_arg j) x)
  | [5; j] => Some (OClear (nat_arg j))
  | [6; k; x] => Some (OPublish (nat_arg k) x)
  | [7; x] => Some (ORetire x)
  | [8] => Some OScan
  | [9; j] => Some (OTouch (nat_arg j))
  | [10; j; i] => Some (OCopy (nat_arg j) (nat_arg i))
  | _ => None
  end.

Fixpoint decode_ops (os : list (list Z)) : list op :=
  match os with
  | [] => []
  | o :: r => match decode_op o with Some x => x :: decode_ops r | None => decode_ops r end
  end.

Definition is_acc (e : ev) : bool := match e with EvAcc _ _ _ => true | _ => false end.

(** cfg = [H; P; R; scan (0 classic, 1 in-place); number of sources; fuel of the protect / push loops].
    After the workers finished the singleton is destroyed by "thread" n (= number of workers); only the client
    events of the destruction are reported (the harness runs it unscheduled on the main thread). *)
Definition run_case (cfg : list Z) (ths : list (list (list Z))) (sched : list nat) (fuel : nat)
  : list (nat * ev) * bool :=
  let c := norm_cfg cfg in
  let r := Conc.run fuel 0 sched (init_cfg c (map decode_ops ths)) in
  let tr := Conc.trace (fst r) in
  if snd r then
    let '(_, es) := destroy c (Conc.shared (fst r)) in
    (tr ++ Conc.tag (List.length ths) (filter (fun e => negb (is_acc e)) es), true)
  else (tr, false).
