(** * FeldmanPath — hash addressing of cds::intrusive::FeldmanHashSet (C28).  Executable model only, no proofs.

    What is GENERATED (coq/Gen/Gen_feldman.v, tools/cxx2v/units_C28.json, from cds/algo/split_bitstring.h):
    [is_correct], [eos], [cut], [bit_offset] of the hash splitters FeldmanHashSet selects:
    number_splitter<short|unsigned short|int|unsigned|long|unsigned long>, split_bitstring<T,N,unsigned>,
    byte_splitter<T,N,unsigned>.

    What is HAND-WRITTEN here, because cxx2v cannot take it (it does not translate functions returning a struct by
    value, struct locals, constructors, or calls through an object other than [this]):

    (1) [metrics_make] — cds/intrusive/details/feldman_hashset_base.h, feldman_hashset::details::metrics::make,
        written statement by statement with the CInt operations the translator would have produced:

          static metrics make(size_t head_bits, size_t array_bits, size_t hash_size )
          {
              size_t const hash_bits = hash_size * 8;
              if (array_bits < 2)  array_bits = 2;
              if (head_bits < 4)   head_bits = 4;
              if (head_bits > hash_bits)  head_bits = hash_bits;
              if ((hash_bits - head_bits) % array_bits != 0)
                  head_bits += (hash_bits - head_bits) % array_bits;
              assert((hash_bits - head_bits) % array_bits == 0);
              metrics m;
              m.head_node_size_log = head_bits;   m.head_node_size = size_t(1) << head_bits;
              m.array_node_size_log = array_bits; m.array_node_size = size_t(1) << array_bits;
              return m;
          }
        checks/C28.py compares it with the compiled function on EVERY (head_bits, array_bits, hash_size) of the
        property's quantifier (and beyond) on every run.

    (2) the splitter constructors ([sp_init]: splitter( hash ); [sp_init_at]: splitter( hash, nBitOffset )):
          number_splitter( n ) : number_( n ), shift_( 0 )
          number_splitter( n, off ) : number_( n ), shift_( static_cast<unsigned>( off ))
          split_bitstring( h ) : cur_( &h ), offset_( 0 ), first_( cur_ ), last_( cur_ + c_bitstring_size )
          split_bitstring( h, off ) : cur_( &h + off / 8 ), offset_( off % 8 ), first_( &h ), last_( first_ + size )
          byte_splitter( h ) / ( h, off ) : the same without offset_
        the hash object is the byte memory [mem] of the generated code, [&h] is index 0.

    (3) the level arithmetic of multilevel_array::traverse_data::reset / traverse / FeldmanHashSet::insert
        ([path]):
          reset:    splitter.reset(); nSlot = splitter.cut( metrics().head_node_size_log );
          traverse: (slot is an array node)  nSlot = splitter.cut( metrics().array_node_size_log );
          insert:   slot holds another hash:  if ( !pos.splitter.eos()) expand_slot( pos, slot ); else return false;
          expand_slot: idx = hash_splitter( hash( *current ), pos.splitter.bit_offset()).cut( array_node_size_log )
        [path] is the sequence of (slot, eos-after-that-cut) a hash would follow if every slot on its way were an
        array node: cut the head bits, then array bits until eos.  [expand_slots] recomputes every slot below the
        head the way expand_slot does (fresh splitter positioned at bit_offset()).
        The accepted configurations are those for which the constructor's two assertions hold:
          assert( hash_splitter::is_correct( head_node_size_log )); assert( hash_splitter::is_correct( array_node_size_log ));

    (4) [landing]: where the data nodes are after a sequence of inserts into an empty set, as a function of the
        paths only (depth of a hash = 1 + the longest common path prefix with another present hash), and the result
        of each insert (false for a hash already present, false when the depth exceeds the path: "eos reached on a
        different hash").  Compared with the real container by checks/C28.py (tree walk + level statistics). *)

Require Import ZArith List Bool.
Require Import LV.Base.CInt.
Require LV.Gen.Gen_feldman.
Import ListNotations.
Local Open Scope Z_scope.
Local Open Scope cint_scope.

(** ** (1) metrics::make *)

Record metrics := mk_metrics {
  head_node_size : Z; head_node_size_log : Z; array_node_size : Z; array_node_size_log : Z }.

Definition metrics_make (head_bits array_bits hash_size : Z) : option metrics :=
  let hash_bits := umul u64 hash_size 8 in
  array_bits <- (
    if c_lt array_bits 2 then
      let array_bits := 2 in
      Some array_bits
    else
      Some array_bits
  ) ;;
  head_bits <- (
    if c_lt head_bits 4 then
      let head_bits := 4 in
      Some head_bits
    else
      Some head_bits
  ) ;;
  head_bits <- (
    if c_gt head_bits hash_bits then
      let head_bits := hash_bits in
      Some head_bits
    else
      Some head_bits
  ) ;;
  t1 <- c_rem u64 (usub u64 hash_bits head_bits) array_bits ;;
  head_bits <- (
    if c_ne t1 0 then
      t2 <- c_rem u64 (usub u64 hash_bits head_bits) array_bits ;;
      let head_bits := uadd u64 head_bits t2 in
      Some head_bits
    else
      Some head_bits
  ) ;;
  t3 <- c_shl u64 1 head_bits ;;
  t4 <- c_shl u64 1 array_bits ;;
  Some (mk_metrics t3 head_bits t4 array_bits).

(** ** (2) the splitter interface: generated functions + hand-written constructors *)

Record splitter (H S : Type) := mk_splitter {
  sp_size : Z;                                   (* c_hash_size in bytes *)
  sp_init : H -> S;                              (* hash_splitter( hash )            *)
  sp_init_at : H -> Z -> S;                      (* hash_splitter( hash, nBitOffset ) *)
  sp_is_correct : Z -> option bool;              (* GENERATED *)
  sp_eos : H -> S -> option bool;                (* GENERATED *)
  sp_cut : H -> S -> Z -> option (Z * S);        (* GENERATED *)
  sp_bit_offset : H -> S -> option Z;            (* GENERATED *)
  sp_heqb : H -> H -> bool                       (* hash_comparator == 0 (bitwise_compare) *)
}.
Arguments sp_size {H S}. Arguments sp_init {H S}. Arguments sp_init_at {H S}. Arguments sp_is_correct {H S}.
Arguments sp_eos {H S}. Arguments sp_cut {H S}. Arguments sp_bit_offset {H S}. Arguments sp_heqb {H S}.

Module G := LV.Gen.Gen_feldman.

Definition ns_i16_splitter : splitter Z G.ns_i16 :=
  mk_splitter Z G.ns_i16 2 (fun n => G.mk_ns_i16 n 0) (fun n off => G.mk_ns_i16 n (cast u32 off))
    G.ns_i16_is_correct (fun _ => G.ns_i16_eos) (fun _ => G.ns_i16_cut) (fun _ => G.ns_i16_bit_offset) Z.eqb.
Definition ns_u16_splitter : splitter Z G.ns_u16 :=
  mk_splitter Z G.ns_u16 2 (fun n => G.mk_ns_u16 n 0) (fun n off => G.mk_ns_u16 n (cast u32 off))
    G.ns_u16_is_correct (fun _ => G.ns_u16_eos) (fun _ => G.ns_u16_cut) (fun _ => G.ns_u16_bit_offset) Z.eqb.
Definition ns_i32_splitter : splitter Z G.ns_i32 :=
  mk_splitter Z G.ns_i32 4 (fun n => G.mk_ns_i32 n 0) (fun n off => G.mk_ns_i32 n (cast u32 off))
    G.ns_i32_is_correct (fun _ => G.ns_i32_eos) (fun _ => G.ns_i32_cut) (fun _ => G.ns_i32_bit_offset) Z.eqb.
Definition ns_u32_splitter : splitter Z G.ns_u32 :=
  mk_splitter Z G.ns_u32 4 (fun n => G.mk_ns_u32 n 0) (fun n off => G.mk_ns_u32 n (cast u32 off))
    G.ns_u32_is_correct (fun _ => G.ns_u32_eos) (fun _ => G.ns_u32_cut) (fun _ => G.ns_u32_bit_offset) Z.eqb.
Definition ns_i64_splitter : splitter Z G.ns_i64 :=
  mk_splitter Z G.ns_i64 8 (fun n => G.mk_ns_i64 n 0) (fun n off => G.mk_ns_i64 n (cast u32 off))
    G.ns_i64_is_correct (fun _ => G.ns_i64_eos) (fun _ => G.ns_i64_cut) (fun _ => G.ns_i64_bit_offset) Z.eqb.
Definition ns_u64_splitter : splitter Z G.ns_u64 :=
  mk_splitter Z G.ns_u64 8 (fun n => G.mk_ns_u64 n 0) (fun n off => G.mk_ns_u64 n (cast u32 off))
    G.ns_u64_is_correct (fun _ => G.ns_u64_eos) (fun _ => G.ns_u64_cut) (fun _ => G.ns_u64_bit_offset) Z.eqb.

Fixpoint bytes_eqb (a b : list Z) : bool :=
  match a, b with
  | [], [] => true
  | x :: a', y :: b' => (x =? y) && bytes_eqb a' b'
  | _, _ => false
  end.

(** split_bitstring< T, N, unsigned > on an N-byte hash object [mem] ([fuel] bounds the loop of [cut]; every
    theorem holds for every fuel above 64). *)
Definition sb_splitter (fuel : nat) (N : Z) : splitter (list Z) G.sb :=
  mk_splitter (list Z) G.sb N
    (fun _ => G.mk_sb 0 0 0 N)
    (fun _ off => G.mk_sb (off / 8) (off mod 8) 0 N)
    G.sb_is_correct G.sb_eos (G.sb_cut fuel) G.sb_bit_offset bytes_eqb.

(** byte_splitter< T, N, unsigned > *)
Definition bs_splitter (fuel : nat) (N : Z) : splitter (list Z) G.bs :=
  mk_splitter (list Z) G.bs N
    (fun _ => G.mk_bs 0 0 N)
    (fun _ off => G.mk_bs (off / 8) 0 N)
    G.bs_is_correct G.bs_eos (G.bs_cut fuel) G.bs_bit_offset bytes_eqb.

(** ** (3) level arithmetic *)

Section Path.
  Context {H S : Type} (sp : splitter H S).

  (** the constructor's assertions *)
  Definition accepted (m : metrics) : option bool :=
    a <- sp_is_correct sp (head_node_size_log m) ;;
    b <- sp_is_correct sp (array_node_size_log m) ;;
    Some (a && b).

  (** traverse: while the slot is an array node, cut array bits; insert stops expanding at eos *)
  Fixpoint descend (lv : nat) (h : H) (s : S) (abits : Z) : option (list (Z * bool)) :=
    match lv with
    | O => None
    | Datatypes.S lv' =>
      e <- sp_eos sp h s ;;
      if e then Some []
      else
        '(slot, s') <- sp_cut sp h s abits ;;
        e' <- sp_eos sp h s' ;;
        r <- descend lv' h s' abits ;;
        Some ((slot, e') :: r)
    end.

  Definition path (lv : nat) (m : metrics) (h : H) : option (list (Z * bool)) :=
    '(slot, s) <- sp_cut sp h (sp_init sp h) (head_node_size_log m) ;;
    e <- sp_eos sp h s ;;
    r <- descend lv h s (array_node_size_log m) ;;
    Some ((slot, e) :: r).

  Definition slots (p : list (Z * bool)) : list Z := map fst p.

  (** expand_slot's index for the array node below level k (k cuts made so far), k = 1, 2, ... *)
  Fixpoint expand_from (lv : nat) (h : H) (s : S) (abits : Z) : option (list Z) :=
    match lv with
    | O => None
    | Datatypes.S lv' =>
      e <- sp_eos sp h s ;;
      if e then Some []
      else
        off <- sp_bit_offset sp h s ;;
        '(idx, _) <- sp_cut sp h (sp_init_at sp h off) abits ;;
        '(_, s') <- sp_cut sp h s abits ;;
        r <- expand_from lv' h s' abits ;;
        Some (idx :: r)
    end.

  Definition expand_slots (lv : nat) (m : metrics) (h : H) : option (list Z) :=
    '(_, s) <- sp_cut sp h (sp_init sp h) (head_node_size_log m) ;;
    expand_from lv h s (array_node_size_log m).
End Path.

(** ** (4) where inserted hashes land *)

Fixpoint cpl (a b : list Z) : nat :=
  match a, b with
  | x :: a', y :: b' => if x =? y then Datatypes.S (cpl a' b') else O
  | _, _ => O
  end.

Definition depth_among (p : list Z) (others : list (list Z)) : nat :=
  Datatypes.S (fold_right (fun q acc => Nat.max (cpl p q) acc) O others).

Section Landing.
  Context {H S : Type} (sp : splitter H S).

  (** one insert into the set holding [present] (hash, slot path): result of insert and the new contents *)
  Definition insert1 (lv : nat) (m : metrics) (present : list (H * list Z)) (h : H)
    : option (bool * list (H * list Z)) :=
    p <- path sp lv m h ;;
    let p := slots p in
    if existsb (fun e => sp_heqb sp (fst e) h) present then Some (false, present)
    else if Nat.leb (depth_among p (map snd present)) (length p) then Some (true, present ++ [(h, p)])
    else Some (false, present).            (* eos reached on a slot holding another hash *)

  Fixpoint inserts (lv : nat) (m : metrics) (present : list (H * list Z)) (hs : list H)
    : option (list bool * list (H * list Z)) :=
    match hs with
    | [] => Some ([], present)
    | h :: hs' =>
      '(r, present') <- insert1 lv m present h ;;
      '(rs, fin) <- inserts lv m present' hs' ;;
      Some (r :: rs, fin)
    end.

  Fixpoint others_of {A} (i : nat) (l : list A) : list A :=
    match l, i with
    | [], _ => []
    | _ :: l', O => l'
    | x :: l', Datatypes.S i' => x :: others_of i' l'
    end.

  (** final position of every present hash: the first [depth] slots of its path *)
  Definition landing (fin : list (H * list Z)) : list (H * list Z) :=
    let ps := map snd fin in
    map (fun ie => let '(i, (h, p)) := ie in (h, firstn (depth_among p (others_of i ps)) p))
        (combine (seq 0 (length fin)) fin).

  Definition run_set (lv : nat) (m : metrics) (hs : list H) : option (list bool * list (H * list Z)) :=
    '(rs, fin) <- inserts lv m [] hs ;;
    Some (rs, landing fin).
End Landing.
