(** * Model of cds::algo::flat_combining::kernel (cds/algo/flat_combining/kernel.h, defs.h, wait_strategy.h),
      one atomic access per [Act], in the order the C++ executes them (-DNDEBUG: asserts are compiled out).

    Traits modelled: lock_type = cds::sync::spin (try_lock = one exchange(true), unlock = store(false)),
    wait_strategy::backoff<> (prepare / wait / notify / wakeup perform no atomic access: the requester spins
    on its request word), stat = empty_stat, any allocator.

    C++ (current tree), quoted in execution order:

    publication_record()            nState.store( inactive )                    -- the only atomic access of `New()`
    acquire_record()                pRec = m_pThreadRec.get();
       if ( !pRec )                   pRec = New();  m_pThreadRec.reset( pRec );
                                      p = m_pAllocatedHead->pNextAllocated.load();
                                      do pRec->pNextAllocated.store( p );
                                      while ( !m_pAllocatedHead->pNextAllocated.compare_exchange_weak( p, pRec ));
                                      publish( pRec );
       else if ( pRec->nState.load() != active )  publish( pRec );
    publish( pRec )                 pRec->nAge.store( m_nCount.load());  pRec->nState.store( active );
                                    if ( m_pHead != pRec ) { p = m_pHead->pNext.load();
                                      if ( p != pRec ) do pRec->pNext.store( p );
                                                       while ( !m_pHead->pNext.compare_exchange_weak( p, pRec )); }
    republish( pRec )               if ( pRec->nState.load() != active ) publish( pRec );
    combine / batch_combine         pRec->nRequest.store( nOpId );  try_combining / try_batch_combining
    try_[batch_]combining           if ( m_Mutex.try_lock()) { republish( pRec ); [batch_]combining( owner ); unlock }
                                    else if ( !wait_for_combining( pRec )) { republish( pRec ); [batch_]combining( owner ); unlock }
    wait_for_combining( pRec )      while ( pRec->op() != req_Response ) { republish( pRec );  wait();
                                      if ( m_Mutex.try_lock()) {
                                        if ( pRec->op() == req_Response ) { m_Mutex.unlock(); break; }
                                        return false; } }
                                    return true;
    combining( owner )              nCurAge = m_nCount.fetch_add( 1 ) + 1;
                                    for ( nPass < m_nCombinePassCount ) if ( combining_pass()) ++nUseful;
                                                                         else if ( ++nEmpty > nUseful ) break;
                                    if (( nCurAge & m_nCompactFactor ) == 0 ) compact_list( nCurAge );
    combining_pass( owner, age )    for ( p = m_pHead; p; p = p->pNext.load())
                                      if ( p->nState.load() == active && p->op() >= req_Operation ) {
                                        p->nAge.store( age );  owner.fc_apply( p );  operation_done( *p ); }
    operation_done( rec )           rec.nRequest.store( req_Response );
    batch_combining( owner )        nCurAge = m_nCount.fetch_add( 1 ) + 1;
                                    for ( nPass < m_nCombinePassCount ) owner.fc_process( begin(), end());
                                    combining_pass( owner, nCurAge );
                                    if (( nCurAge & m_nCompactFactor ) == 0 ) compact_list( nCurAge );
    iterator( p ) / operator++      skip_inactive: while ( m_pRec && ( m_pRec->nState.load() != active
                                                        || m_pRec->op() < req_Operation )) m_pRec = m_pRec->pNext.load();
    compact_list( nCurAge )         loop 1 over pNext from m_pHead->pNext:  active and nAge + mask < nCurAge:
                                      CAS-unlink, nState.store( inactive );   removed: CAS-unlink (failure: restart)
                                    loop 2 over pNextAllocated from m_pAllocatedHead->pNextAllocated:
                                      removed && !is_published( p ): CAS-unlink, free_publication_record( p )
                                    is_published( pRec ): for ( p = m_pHead->pNext.load(); p; p = p->pNext.load())
                                                            if ( p == pRec ) return true;
                                    (a failed compare_exchange_strong writes the observed value into `p`)
    tls_cleanup( pRec )             pRec->nState.store( removed )              -- thread exit
    release_record( pRec )          pRec->nRequest.store( req_EmptyRecord )

    m_pHead = m_pAllocatedHead = the record created by the constructor (record 0 here, owned by the thread
    that built the container, state inactive until that thread publishes it); both pointers never change.

    The container callbacks are Section parameters:
      [capply c op arg]  = fc_apply: new container state and the response written into the record;
      [pvisit p c r op tid arg] = the body of the fc_process loop for the record the iterator points at:
                           new loop-local state (itPrev ...), new container state and the list of
                           (record, response) pairs for which operation_done is called, in call order.
    fc_apply reads the request word once (`switch ( pRec->op())`), fc_process reads it once per visited
    record (`it->op( acquire )`); the container work is local computation attached to that load.

    Client-visible events (emitted by harness/C23/main.cpp at the same points):
      inv <op> <arg>                 before acquire_record
      lock / unlock                  by the lock_type trait wrapper: after a successful try_lock / before unlock
      exec <owner tid> <op> <arg> <response...>   when the container executes a request
      free                           in the allocator's deallocate, called by free_publication_record
      ret <response...>              after release_record
    Model-only events (stripped by checks/C23.py before the comparison, counted as monitors):
      uaf                            after an access to a record that was freed
      lost                           at release_record when the request word is not req_Response
                                     (the compiled-out `assert( pRec->is_done())` of the containers)

    Freed records are zero-filled (the harness allocator does the same with the memory it quarantines). *)
From Coq Require Import ZArith List String Bool Lia PeanoNat.
From LV Require Import Base.Conc Base.Events.
Import ListNotations.
Local Open Scope string_scope.
Local Open Scope list_scope.

Set Implicit Arguments.

Inductive fld := FReq | FState | FAge | FNext | FNextA.

Definition fld_code (f : fld) : Z :=
  match f with FReq => 0 | FState => 1 | FAge => 2 | FNext => 3 | FNextA => 4 end%Z.

(** request words and record states (defs.h) *)
Definition req_Empty := 0.
Definition req_Response := 1.
Definition req_Operation := 2.
Definition st_inactive := 0.
Definition st_active := 1.
Definition st_removed := 2.

Section Kernel.
  Variable C : Type.                  (* sequential container *)
  Variable Rs : Type.                 (* response written into the record *)
  Variable rs0 : Rs.
  Variable rs_enc : Rs -> list Z.
  Variable capply : C -> nat -> Z -> C * Rs.
  Variable P : Type.                  (* loop-local state of fc_process *)
  Variable pinit : P.
  Variable pvisit : P -> C -> nat -> nat -> nat -> Z -> P * C * list (nat * Rs).
  (** [chk = true]: the current tree (commit 5412e9d: loop 2 of compact_list frees a removed record only when
      is_published( p ) is false); [chk = false]: the code before that commit (kept for the refutation witness
      and the regression case corpus/C23/uaf_exit_between_compact_loops.json) *)
  Variable chk : bool.

  (** pointers are encoded as naturals: 0 = nullptr, S r = record r *)
  Record rec := mkRec {
    r_req : nat; r_state : nat; r_age : nat; r_next : nat; r_nexta : nat;
    r_tid : nat; r_arg : Z; r_res : Rs; r_freed : bool }.

  Definition rec0 : rec := mkRec 0 0 0 0 0 0 0%Z rs0 false.
  Definition rec_poison : rec := mkRec 0 0 0 0 0 0 0%Z rs0 true.

  Record G := mkG { g_count : nat; g_lock : bool; g_recs : nat -> rec; g_nrec : nat; g_cont : C }.

  Inductive V := VN (n : nat) | VV (p : P) (comps : list (nat * Rs)) | VR (rs : Rs).
  Definition vn (v : V) : nat := match v with VN n => n | _ => 0 end.

  Definition prog := Conc.prog G V ev.

  Definition get_fld (x : rec) (f : fld) : nat :=
    match f with FReq => r_req x | FState => r_state x | FAge => r_age x | FNext => r_next x | FNextA => r_nexta x end.
  Definition set_fld (x : rec) (f : fld) (v : nat) : rec :=
    match f with
    | FReq => mkRec v (r_state x) (r_age x) (r_next x) (r_nexta x) (r_tid x) (r_arg x) (r_res x) (r_freed x)
    | FState => mkRec (r_req x) v (r_age x) (r_next x) (r_nexta x) (r_tid x) (r_arg x) (r_res x) (r_freed x)
    | FAge => mkRec (r_req x) (r_state x) v (r_next x) (r_nexta x) (r_tid x) (r_arg x) (r_res x) (r_freed x)
    | FNext => mkRec (r_req x) (r_state x) (r_age x) v (r_nexta x) (r_tid x) (r_arg x) (r_res x) (r_freed x)
    | FNextA => mkRec (r_req x) (r_state x) (r_age x) (r_next x) v (r_tid x) (r_arg x) (r_res x) (r_freed x)
    end.
  Definition set_res (x : rec) (rs : Rs) : rec :=
    mkRec (r_req x) (r_state x) (r_age x) (r_next x) (r_nexta x) (r_tid x) (r_arg x) rs (r_freed x).
  Definition set_request (x : rec) (op tid : nat) (arg : Z) : rec :=
    mkRec op (r_state x) (r_age x) (r_next x) (r_nexta x) tid arg (r_res x) (r_freed x).

  Definition upd_rec (g : G) (r : nat) (x : rec) : G :=
    mkG (g_count g) (g_lock g) (fun i => if Nat.eqb i r then x else g_recs g i) (g_nrec g) (g_cont g).
  Definition set_cont (g : G) (c : C) : G := mkG (g_count g) (g_lock g) (g_recs g) (g_nrec g) c.
  Definition set_lock (g : G) (b : bool) : G := mkG (g_count g) b (g_recs g) (g_nrec g) (g_cont g).
  Definition set_count (g : G) (n : nat) : G := mkG n (g_lock g) (g_recs g) (g_nrec g) (g_cont g).

  Definition obj_count : list Z := [0%Z].
  Definition obj_lock : list Z := [1%Z].
  Definition obj_fld (r : nat) (f : fld) : list Z := [2%Z; Z.of_nat r; fld_code f].

  (** an access to record [r]: the access event, plus the model-only marker when [r] was freed *)
  Definition acc (g : G) (k : akind) (r : nat) (f : fld) (ok : bool) : list ev :=
    EvAcc k (obj_fld r f) ok :: (if r_freed (g_recs g r) then [EvCli "uaf" []] else []).

  Definition a_begin : G -> G * V * list ev := fun g => (g, VN 0, [EvAcc KBegin [] true]).
  Definition a_ld (r : nat) (f : fld) : G -> G * V * list ev :=
    fun g => (g, VN (get_fld (g_recs g r) f), acc g KLd r f true).
  Definition a_st (r : nat) (f : fld) (v : nat) : G -> G * V * list ev :=
    fun g => (upd_rec g r (set_fld (g_recs g r) f v), VN 0, acc g KSt r f true).
  (** compare_exchange: returns the observed value; success iff it equals [exp] *)
  Definition a_cas (r : nat) (f : fld) (exp des : nat) : G -> G * V * list ev :=
    fun g => let old := get_fld (g_recs g r) f in
             if Nat.eqb old exp then (upd_rec g r (set_fld (g_recs g r) f des), VN old, acc g KCas r f true)
             else (g, VN old, acc g KCas r f false).
  (** loop 2 of compact_list: CAS on pPrev->pNextAllocated; on success [victim] is freed in the same step *)
  Definition a_cas_free (r : nat) (exp des victim : nat) : G -> G * V * list ev :=
    fun g => let old := get_fld (g_recs g r) FNextA in
             if Nat.eqb old exp then
               (upd_rec (upd_rec g r (set_fld (g_recs g r) FNextA des)) victim rec_poison, VN old,
                acc g KCas r FNextA true ++ [EvCli "free" []])
             else (g, VN old, acc g KCas r FNextA false).
  (** New(): fresh record, constructor stores nState = inactive *)
  Definition a_new : G -> G * V * list ev :=
    fun g => let r := g_nrec g in
             (mkG (g_count g) (g_lock g) (fun i => if Nat.eqb i r then rec0 else g_recs g i) (S r) (g_cont g),
              VN r, [EvAcc KSt (obj_fld r FState) true]).
  (** the requester fills its record (plain writes) and stores the request word *)
  Definition a_request (r op tid : nat) (arg : Z) : G -> G * V * list ev :=
    fun g => (upd_rec g r (set_request (g_recs g r) op tid arg), VN 0, acc g KSt r FReq true).
  (** release_record; the response fields are read by the requester around it (plain reads).
      The containers state `assert( pRec->is_done())` just before (compiled out under -DNDEBUG): the model-only
      event "lost" marks a release of a record whose request word is not req_Response. *)
  Definition a_release (r : nat) : G -> G * V * list ev :=
    fun g => (upd_rec g r (set_fld (g_recs g r) FReq req_Empty), VR (r_res (g_recs g r)),
              acc g KSt r FReq true ++
              (if Nat.eqb (r_req (g_recs g r)) req_Response then [] else [EvCli "lost" []])).
  Definition a_ldcount : G -> G * V * list ev := fun g => (g, VN (g_count g), [EvAcc KLd obj_count true]).
  Definition a_faacount : G -> G * V * list ev :=
    fun g => (set_count g (S (g_count g)), VN (g_count g), [EvAcc KFaa obj_count true]).
  Definition a_xchg : G -> G * V * list ev :=
    fun g => (set_lock g true, VN (if g_lock g then 1 else 0), [EvAcc KXchg obj_lock true]).
  Definition a_unlock : G -> G * V * list ev := fun g => (set_lock g false, VN 0, [EvAcc KSt obj_lock true]).

  Definition ev_exec (x : rec) (rs : Rs) : ev :=
    EvCli "exec" ([Z.of_nat (r_tid x); Z.of_nat (r_req x); r_arg x] ++ rs_enc rs).

  (** fc_apply( p ): `switch ( pRec->op())` + the sequential operation + the response written into the record *)
  Definition a_apply (r : nat) : G -> G * V * list ev :=
    fun g => let x := g_recs g r in
             let '(c', rs) := capply (g_cont g) (r_req x) (r_arg x) in
             (set_cont (upd_rec g r (set_res x rs)) c', VN (r_req x), acc g KLd r FReq true ++ [ev_exec x rs]).

  (** responses written by one iteration of fc_process (collide writes the pop's destination) *)
  Fixpoint write_comps (g : G) (comps : list (nat * Rs)) : G * list ev :=
    match comps with
    | [] => (g, [])
    | (q, rs) :: rest =>
        let x := g_recs g q in
        let '(g', es) := write_comps (upd_rec g q (set_res x rs)) rest in
        (g', ev_exec x rs :: es)
    end.

  (** fc_process loop body at record [r]: `it->op( acquire )` + the container's decision *)
  Definition a_visit (p : P) (r : nat) : G -> G * V * list ev :=
    fun g => let x := g_recs g r in
             let '(p', c', comps) := pvisit p (g_cont g) r (r_req x) (r_tid x) (r_arg x) in
             let '(g', es) := write_comps g comps in
             (set_cont g' c', VV p' comps, acc g KLd r FReq true ++ es).

  (** ** programs; [None] = a loop ran out of fuel *)
  Definition ret {A} (x : A) : prog (option A) := Ret (Some x).
  Definition fail {A} : prog (option A) := Ret None.
  Definition obind {A B} (p : prog (option A)) (q : A -> prog (option B)) : prog (option B) :=
    Conc.bind p (fun o => match o with Some x => q x | None => Ret None end).

  Definition head : nat := 0.          (* m_pHead = m_pAllocatedHead = record 0 *)

  (** do pRec->[f].store( p ) while ( !head->[f].compare_exchange_weak( p, pRec )) *)
  Fixpoint push_loop (fuel : nat) (f : fld) (r p : nat) : prog (option unit) :=
    match fuel with
    | O => fail
    | S fu => Act (a_st r f p) (fun _ =>
              Act (a_cas head f p (S r)) (fun v => if Nat.eqb (vn v) p then ret tt else push_loop fu f r (vn v)))
    end.

  Definition publish (fuel r : nat) : prog (option unit) :=
    Act a_ldcount (fun c =>
    Act (a_st r FAge (vn c)) (fun _ =>
    Act (a_st r FState st_active) (fun _ =>
    if Nat.eqb r head then ret tt else
    Act (a_ld head FNext) (fun p =>
    if Nat.eqb (vn p) (S r) then ret tt else push_loop fuel FNext r (vn p))))).

  Definition republish (fuel r : nat) : prog (option unit) :=
    Act (a_ld r FState) (fun s => if Nat.eqb (vn s) st_active then ret tt else publish fuel r).

  Definition acquire_record (fuel : nat) (my : option nat) : prog (option nat) :=
    match my with
    | None =>
        Act a_new (fun v => let r := vn v in
        Act (a_ld head FNextA) (fun p =>
        obind (push_loop fuel FNextA r (vn p)) (fun _ =>
        obind (publish fuel r) (fun _ => ret r))))
    | Some r =>
        Act (a_ld r FState) (fun s =>
        if Nat.eqb (vn s) st_active then ret r else obind (publish fuel r) (fun _ => ret r))
    end.

  (** combining_pass from pointer [p]; [b] = bOpDone *)
  Fixpoint cpass (fuel age p : nat) (b : bool) : prog (option bool) :=
    match fuel with
    | O => fail
    | S fu =>
        match p with
        | O => ret b
        | S r =>
            Act (a_ld r FState) (fun s =>
            if Nat.eqb (vn s) st_active then
              Act (a_ld r FReq) (fun q =>
              if Nat.leb req_Operation (vn q) then
                Act (a_st r FAge age) (fun _ =>
                Act (a_apply r) (fun _ =>
                Act (a_st r FReq req_Response) (fun _ =>
                Act (a_ld r FNext) (fun n => cpass fu age (vn n) true))))
              else Act (a_ld r FNext) (fun n => cpass fu age (vn n) b))
            else Act (a_ld r FNext) (fun n => cpass fu age (vn n) b))
        end
    end.

  (** the pass loop of combining(): [n] passes left *)
  Fixpoint passes (fuel age n nEmpty nUseful : nat) : prog (option unit) :=
    match n with
    | O => ret tt
    | S n' =>
        obind (cpass fuel age (S head) false) (fun b =>
        if b then passes fuel age n' nEmpty (S nUseful)
        else if Nat.ltb nUseful (S nEmpty) then ret tt
        else passes fuel age n' (S nEmpty) nUseful)
    end.

  (** kernel::iterator::skip_inactive *)
  Fixpoint skip_inactive (fuel p : nat) : prog (option nat) :=
    match fuel with
    | O => fail
    | S fu =>
        match p with
        | O => ret 0
        | S r =>
            Act (a_ld r FState) (fun s =>
            if Nat.eqb (vn s) st_active then
              Act (a_ld r FReq) (fun q =>
              if Nat.leb req_Operation (vn q) then ret (S r)
              else Act (a_ld r FNext) (fun n => skip_inactive fu (vn n)))
            else Act (a_ld r FNext) (fun n => skip_inactive fu (vn n)))
        end
    end.

  (** operation_done for the records completed by one fc_process iteration, in call order *)
  Fixpoint dones {A} (comps : list (nat * Rs)) (k : prog A) : prog A :=
    match comps with
    | [] => k
    | (q, _) :: rest => Act (a_st q FReq req_Response) (fun _ => dones rest k)
    end.

  (** for ( it = begin(); it != end(); ++it ) body *)
  Fixpoint process_walk (fuel it : nat) (p : P) : prog (option unit) :=
    match fuel with
    | O => fail
    | S fu =>
        match it with
        | O => ret tt
        | S r =>
            Act (a_visit p r) (fun v =>
            match v with
            | VV p' comps =>
                dones comps (
                Act (a_ld r FNext) (fun n =>
                obind (skip_inactive fuel (vn n)) (fun it' => process_walk fu it' p')))
            | _ => fail
            end)
        end
    end.

  Definition fc_process (fuel : nat) : prog (option unit) :=
    obind (skip_inactive fuel (S head)) (fun it => process_walk fuel it pinit).

  Fixpoint process_passes (fuel n : nat) : prog (option unit) :=
    match n with
    | O => ret tt
    | S n' => obind (fc_process fuel) (fun _ => process_passes fuel n')
    end.

  (** is_published( pRec ): for ( p = m_pHead->pNext.load(); p; p = p->pNext.load()) if ( p == pRec ) return true; *)
  Fixpoint is_published (fuel r p : nat) : prog (option bool) :=
    match fuel with
    | O => fail
    | S fu =>
        match p with
        | O => ret false
        | S q => if Nat.eqb q r then ret true else Act (a_ld q FNext) (fun n => is_published fu r (vn n))
        end
    end.

  (** compact_list: loop 2 (allocated list); [pp] = pPrev (a record), [p] = current pointer *)
  Fixpoint compact2 (fuel pp p : nat) : prog (option unit) :=
    match fuel with
    | O => fail
    | S fu =>
        match p with
        | O => ret tt
        | S r =>
            Act (a_ld r FState) (fun s =>
            if Nat.eqb (vn s) st_removed then
              obind (if chk then Act (a_ld head FNext) (fun h => is_published fuel r (vn h)) else ret false) (fun pub =>
              if pub then Act (a_ld r FNextA) (fun n => compact2 fu r (vn n))
              else
              Act (a_ld r FNextA) (fun nx =>
              Act (a_cas_free pp (S r) (vn nx) r) (fun v =>
              if Nat.eqb (vn v) (S r) then compact2 fu pp (vn nx)
              else match vn v with                      (* failed CAS wrote the observed value into p *)
                   | O => fail
                   | S r' => Act (a_ld r' FNextA) (fun n => compact2 fu r' (vn n))
                   end)))
            else Act (a_ld r FNextA) (fun n => compact2 fu r (vn n)))
        end
    end.

  (** compact_list: loop 1 (publication list).  Result [true] = finished, [false] = `goto try_again` *)
  Fixpoint compact1 (fuel age mask pp p : nat) : prog (option bool) :=
    match fuel with
    | O => fail
    | S fu =>
        match p with
        | O => ret true
        | S r =>
            Act (a_ld r FState) (fun s =>
            if Nat.eqb (vn s) st_active then
              Act (a_ld r FAge) (fun a =>
              if Nat.ltb (vn a + mask) age then
                Act (a_ld r FNext) (fun nx =>
                Act (a_cas pp FNext (S r) (vn nx)) (fun v =>
                if Nat.eqb (vn v) (S r) then
                  Act (a_st r FState st_inactive) (fun _ => compact1 fu age mask pp (vn nx))
                else match vn v with
                     | O => fail
                     | S r' => Act (a_ld r' FNext) (fun n => compact1 fu age mask r' (vn n))
                     end))
              else Act (a_ld r FNext) (fun n => compact1 fu age mask r (vn n)))
            else if Nat.eqb (vn s) st_removed then
              Act (a_ld r FNext) (fun nx =>
              Act (a_cas pp FNext (S r) (vn nx)) (fun v =>
              if Nat.eqb (vn v) (S r) then compact1 fu age mask pp (vn nx) else ret false))
            else Act (a_ld r FNext) (fun n => compact1 fu age mask r (vn n)))
        end
    end.

  Fixpoint compact_list (tries fuel age mask : nat) : prog (option unit) :=
    match tries with
    | O => fail
    | S tr =>
        Act (a_ld head FNext) (fun p =>
        obind (compact1 fuel age mask head (vn p)) (fun fin =>
        if fin then Act (a_ld head FNextA) (fun q => compact2 fuel head (vn q))
        else compact_list tr fuel age mask))
    end.

  (** [batch] selects batch_combining.  The caller holds the lock. *)
  Definition combining (fuel mask npass : nat) (batch : bool) : prog (option unit) :=
    Act a_faacount (fun c => let age := S (vn c) in
    obind (if batch then obind (process_passes fuel npass) (fun _ =>
                         obind (cpass fuel age (S head) false) (fun _ => ret tt))
           else passes fuel age npass 0 0) (fun _ =>
    if Nat.eqb (Nat.land age mask) 0 then compact_list fuel fuel age mask else ret tt)).

  Definition as_combiner (fuel mask npass : nat) (batch : bool) (r : nat) : prog (option unit) :=
    Emit [EvCli "lock" []] (
    obind (republish fuel r) (fun _ =>
    obind (combining fuel mask npass batch) (fun _ =>
    Emit [EvCli "unlock" []] (Act a_unlock (fun _ => ret tt))))).

  (** result: [true] = the request was served by another combiner, [false] = this thread holds the lock *)
  Fixpoint wait_for_combining (fuel pfuel r : nat) : prog (option bool) :=
    match fuel with
    | O => fail
    | S fu =>
        Act (a_ld r FReq) (fun q =>
        if Nat.eqb (vn q) req_Response then ret true else
        obind (republish pfuel r) (fun _ =>
        Act a_xchg (fun o =>
        if Nat.eqb (vn o) 0 then
          Emit [EvCli "lock" []] (
          Act (a_ld r FReq) (fun q' =>
          if Nat.eqb (vn q') req_Response then
            Emit [EvCli "unlock" []] (Act a_unlock (fun _ => ret true))
          else ret false))
        else wait_for_combining fu pfuel r)))
    end.

  Definition try_combining (fuel mask npass : nat) (batch : bool) (r : nat) : prog (option unit) :=
    Act a_xchg (fun o =>
    if Nat.eqb (vn o) 0 then as_combiner fuel mask npass batch r
    else obind (wait_for_combining fuel fuel r) (fun served =>
         if served then ret tt
         else obind (republish fuel r) (fun _ =>
              obind (combining fuel mask npass batch) (fun _ =>
              Emit [EvCli "unlock" []] (Act a_unlock (fun _ => ret tt)))))).

  (** one container operation: request word [op] (>= req_Operation), argument [arg] *)
  Definition request (fuel mask npass : nat) (batch : bool) (t : nat) (my : option nat) (op : nat) (arg : Z)
    : prog (option nat) :=
    Emit [EvCli "inv" [Z.of_nat op; arg]] (
    obind (acquire_record fuel my) (fun r =>
    Act (a_request r op t arg) (fun _ =>
    obind (try_combining fuel mask npass batch r) (fun _ =>
    Act (a_release r) (fun v =>
    Emit [EvCli "ret" (match v with VR rs => rs_enc rs | _ => [] end)] (ret r)))))).

  (** thread exit: boost::thread_specific_ptr calls tls_cleanup on the thread's record *)
  Definition thread_exit (my : option nat) : prog (option unit) :=
    match my with
    | None => ret tt
    | Some r => Act (a_st r FState st_removed) (fun _ => ret tt)
    end.

  Inductive cop := CReq (batch : bool) (op : nat) (arg : Z) | CExit.

  Fixpoint run_ops (fuel mask npass t : nat) (my : option nat) (os : list cop) : prog (option unit) :=
    match os with
    | [] => thread_exit my
    | CReq batch op arg :: rest =>
        obind (request fuel mask npass batch t my op arg) (fun r => run_ops fuel mask npass t (Some r) rest)
    | CExit :: rest => obind (thread_exit my) (fun _ => run_ops fuel mask npass t None rest)
    end.

  Definition thread_prog (fuel mask npass t : nat) (os : list cop) : Conc.thread G V ev :=
    Act a_begin (fun _ =>
    Conc.bind (run_ops fuel mask npass t None os) (fun o =>
    match o with Some _ => Ret tt | None => Emit [EvCli "outoffuel" []] (Ret tt) end)).

  (** the constructor: record 0 allocated (state inactive), both heads point to it *)
  Definition init (c0 : C) : G := mkG 0 false (fun _ => rec0) 1 c0.

  Fixpoint thread_progs (fuel mask npass t : nat) (ths : list (list cop)) : list (Conc.thread G V ev) :=
    match ths with
    | [] => []
    | os :: rest => thread_prog fuel mask npass t os :: thread_progs fuel mask npass (S t) rest
    end.

  Definition init_cfg (fuel mask npass : nat) (c0 : C) (ths : list (list cop)) : Conc.config G V ev :=
    Conc.Cfg (init c0) (thread_progs fuel mask npass 0 ths) [].

End Kernel.

(** m_nCompactFactor = ceil2( nCompactFactor ) - 1 (cds/algo/int_algo.h: ceil2(0) = ceil2(1) = 1) *)
Definition compact_mask (cf : nat) : nat := Nat.pow 2 (Nat.log2_up cf) - 1.

(** ** the counting container of harness/C23/main.cpp
    state: execution counter per request id;  fc_apply increments the counter of the request and returns it;
    fc_process pairs up consecutive op_pair requests (shape of FCDeque::fc_process / collide). *)
Definition op_single := 2.
Definition op_pair := 3.

Definition cnt_state := Z -> nat.
Definition cnt_apply (c : cnt_state) (op : nat) (arg : Z) : cnt_state * nat :=
  ((fun x => if Z.eqb x arg then S (c arg) else c x), S (c arg)).

(** loop-local state: itPrev = the earlier op_pair record with its request id *)
Definition cnt_P := option (nat * Z).
Definition cnt_visit (p : cnt_P) (c : cnt_state) (r op tid : nat) (arg : Z)
  : cnt_P * cnt_state * list (nat * nat) :=
  if Nat.eqb op op_pair then
    match p with
    | Some (q, qarg) =>
        if Nat.eqb q r then (p, c, []) else
        let '(c1, n1) := cnt_apply c op_pair qarg in
        let '(c2, n2) := cnt_apply c1 op_pair arg in
        (None, c2, [(q, n1); (r, n2)])
    | None => (Some (r, arg), c, [])
    end
  else (p, c, []).

Definition cnt_enc (n : nat) : list Z := [Z.of_nat n].

Definition decode_cop (o : list Z) : option cop :=
  match o with
  | [1; rid] => Some (CReq false op_single rid)
  | [2; rid] => Some (CReq true op_pair rid)
  | [3] => Some CExit
  | _ => None
  end%Z.

Fixpoint decode_cops (os : list (list Z)) : list cop :=
  match os with
  | [] => []
  | o :: r => match decode_cop o with Some x => x :: decode_cops r | None => decode_cops r end
  end.

(** cfg = [compact factor; combine pass count; loop fuel; 0 = compact_list without the is_published test] *)
Definition run_case (cfg : list Z) (ths : list (list (list Z))) (sched : list nat) (fuel : nat)
  : list (nat * ev) * bool :=
  let cf := Z.to_nat (nth 0 cfg 1%Z) in
  let pc := Z.to_nat (nth 1 cfg 1%Z) in
  let lfuel := Z.to_nat (nth 2 cfg 400%Z) in
  let chk := negb (Z.eqb (nth 3 cfg 1%Z) 0) in
  let r := Conc.run fuel 0 sched
             (init_cfg 0 cnt_enc cnt_apply (None : cnt_P) cnt_visit chk lfuel (compact_mask cf) pc
                       (fun _ => 0) (map decode_cops ths)) in
  (Conc.trace (fst r), snd r).
