(** * Model of the thread-safe iterator of cds::intrusive::IterableList<cds::gc::HP, T, Traits> at step grain, on top of
      LV.Model.IterList (same shared state, same accesses; cds/intrusive/impl/iterable_list.h: class iterator_type,
      begin(), end(), erase_at( iterator const& )).  One atomic access of the C++ code per [Act].

    C++ (current tree, after fe3f87a):
      class iterator_type { node_type* m_pNode; gc::Guard m_Guard; }            // m_Guard: one hazard slot, the "data guard"
      void next() {
          for ( node_type* p = m_pNode->next.load( relaxed ); p != m_pNode; p = p->next.load( relaxed )) {       // [a_ldn]
              m_pNode = p;
              if ( m_Guard.protect( p->data, []( marked_data_ptr ptr ) { return ptr.ptr(); }).ptr())            // [protect]
                  return;
          }
          m_Guard.clear();                                                                                       // [a_gst]
      }
      explicit iterator_type( node_type* pNode ) : m_pNode( pNode )
      {   if ( !m_Guard.protect( pNode->data, []( marked_data_ptr p ) { return p.ptr(); }).ptr()) next(); }     // [protect]
      value_type* data() const { return m_Guard.template get<value_type>(); }                                    // [a_gld]
      operator*, operator->: data();   operator++: next();   operator== / !=: m_pNode == i.m_pNode (no access)
      iterator begin() { return iterator( &m_Head ); }       iterator end() { return iterator( &m_Tail ); }
      bool erase_at( iterator const& iter ) {
          for (;;) {
              marked_data_ptr val( iter.data());                                                                  // [a_gld]
              if ( iter.m_pNode->data.compare_exchange_strong( val, marked_data_ptr(), acquire, relaxed )) {      // [a_casd_v]
                  --m_ItemCounter;  retire_data( val.ptr());  return true; }                                      // [cnt_dec] [retire]
              // a concurrent insertion of a neighbour key marks the data pointer temporarily: try again
              if ( val.ptr() != iter.data() || val.bits() == 0 ) return false;                                    // [a_gld]
          }
      }
    The tail's next points to the tail, so next() stops there: the loop condition p != m_pNode fails, the guard is cleared and
    m_pNode stays &m_Tail; end() is the same walk started at &m_Tail.  Guard::protect is the loop of LV.Model.IterList.protect
    (load; { hazard store; sync fetch_add; load } until two consecutive loads agree, mark bit included), the hazard slot
    receives ptr.ptr().  ~Guard() clears the slot [a_gst] and returns it to the thread's free list.

    Client operation of the step harness (harness/C19/iterlist_main.cpp) in addition to those of LV.Model.IterList:
      [20; k]   { auto it = l.begin(); auto e = l.end();
                  while ( it != e ) { item* p = &*it;  visit;  if ( p->key == k ) erased = l.erase_at( it );  ++it; } }
    Events: "visit key id 0" (id = the model's item id [IterList.item_id], the harness numbers the items the same way; the
    third argument is the disposed flag the harness reads through the guarded pointer), "erased r".
    The iterator [it] holds the first free hazard slot of the thread, [e] the second; both are released at the end of the
    block in reverse order of construction.  No proofs in this file. *)
From Coq Require Import ZArith List String Bool Lia PeanoNat.
From LV Require Import Base.Conc Base.Events Model.IterList.
Import ListNotations.
Local Open Scope Z_scope.
Local Open Scope string_scope.

Notation "x <- p ;; q" := (Conc.bind p (fun x => q)) (at level 61, p at next level, right associativity).

(** compare_exchange_strong( val, nullptr ) on a data cell, expected value ( ei, unmarked ); the result carries the value
    read ([vptr], [vmark]) and [vkey] = 1 on success, 0 on failure *)
Definition a_casd_v (n ei : nat) : act :=
  fun g => let (i, m) := ndata g n in
    if Nat.eqb i ei && negb m
    then (mkG (nnext g) (updf (ndata g) n (0%nat, false)) (ikey g) (nalloc g) (count g),
          mkV i m 1, [EvAcc KCas (obj_data n) true])
    else (g, mkV i m 0, [EvAcc KCas (obj_data n) false]).

(** iterator state between two calls: ( m_pNode, value held by the guard ) - [vptr] = 0: the guard is clear *)
Definition itst := (nat * V)%type.

(** next() of an iterator at node [cur] with guard slot [s] *)
Fixpoint it_next (fuel sf : nat) (t s : nat) (cur : nat) : prog (option itst) :=
  match fuel with
  | O => Ret None
  | S f =>
      Act (a_ldn cur) (fun vp =>
        let p := vptr vp in
        if Nat.eqb p cur then _ <- clear_guard t s ;; Ret (Some (cur, v0))
        else
          ov <- protect sf t s p ;;
          match ov with
          | None => Ret None
          | Some v => if negb (Nat.eqb (vptr v) 0) then Ret (Some (p, v)) else it_next f sf t s p
          end)
  end.

(** iterator_type( pNode ) *)
Definition it_ctor (fuel sf : nat) (t s : nat) (node : nat) : prog (option itst) :=
  ov <- protect sf t s node ;;
  match ov with
  | None => Ret None
  | Some v => if negb (Nat.eqb (vptr v) 0) then Ret (Some (node, v)) else it_next fuel sf t s node
  end.

(** erase_at( iter ) for an iterator at node [n] whose guard [s] holds item [x] *)
Fixpoint erase_at_loop (fuel : nat) (ic : bool) (t s : nat) (n x : nat) : prog (option bool) :=
  match fuel with
  | O => Ret None
  | S f =>
      Act (a_gld t s) (fun _ =>
        Act (a_casd_v n x) (fun r =>
          if Z.eqb (vkey r) 1 then _ <- cnt_dec ic ;; _ <- retire t ;; Ret (Some true)
          else
            Act (a_gld t s) (fun _ =>
              if negb (Nat.eqb (vptr r) x) || negb (vmark r) then Ret (Some false)
              else erase_at_loop f ic t s n x)))
  end.

Definition ev_visit (k : Z) (x : nat) : ev := EvCli "visit" [k; Z.of_nat x; 0].
Definition ev_erased (b : bool) : ev := EvCli "erased" [zb b].

(** what the client does with the current element: dereference, "visit", erase_at when the key is [kdel] *)
Definition visit_elem (sf : nat) (ic : bool) (t s : nat) (kdel : Z) (cur : nat) (v : V) : prog (option unit) :=
  Act (a_gld t s) (fun _ =>
    Emit [ev_visit (vkey v) (vptr v)]
      (if Z.eqb (vkey v) kdel then
         e <- erase_at_loop sf ic t s cur (vptr v) ;;
         match e with
         | None => Ret None
         | Some b => Emit [ev_erased b] (Ret (Some tt))
         end
       else Ret (Some tt))).

(** while ( it != e ) { ...; ++it; } *)
Fixpoint iter_loop (fuel sf : nat) (ic : bool) (t s : nat) (kdel : Z) (ecur : nat) (cur : nat) (v : V) : prog (option unit) :=
  match fuel with
  | O => Ret None
  | S f =>
      if Nat.eqb cur ecur then Ret (Some tt)
      else
        e <- visit_elem sf ic t s kdel cur v ;;
        match e with
        | None => Ret None
        | Some _ =>
            r <- it_next sf sf t s cur ;;
            match r with
            | None => Ret None
            | Some (cur', v') => iter_loop f sf ic t s kdel ecur cur' v'
            end
        end
  end.

(** the block of operation 20: [s] = guard of [it], [s2] = guard of [e] *)
Definition iter_body (fuel sf : nat) (ic : bool) (t : nat) (kdel : Z) (s s2 : nat) : prog (option unit) :=
  b <- it_ctor sf sf t s HEAD ;;
  match b with
  | None => Ret None
  | Some (cur, v) =>
      e <- it_ctor sf sf t s2 TAIL ;;
      match e with
      | None => Ret None
      | Some (ecur, _) =>
          r <- iter_loop fuel sf ic t s kdel ecur cur v ;;
          match r with
          | None => Ret None
          | Some _ => _ <- clear_guard t s2 ;; _ <- clear_guard t s ;; Ret (Some tt)
          end
      end
  end.

(** the iteration after its invocation event, up to and including the response *)
Definition iter_op (fuel sf : nat) (ic : bool) (t : nat) (kdel : Z) (ls : lstate) : prog (out lstate) :=
  let s := fst (pop (fst (fst ls))) in
  let s2 := fst (pop (snd (pop (fst (fst ls))))) in
  r <- iter_body fuel sf ic t kdel s s2 ;;
  match r with
  | None => give_up
  | Some _ => Emit [ev_ret 1 0] (Ret (Some ls))
  end.

Definition run_opI (fuel sf : nat) (ic : bool) (t : nat) (o : list Z) (ls : lstate) : prog (out lstate) :=
  if Z.eqb (nth 0 o 0) 20 then Emit [ev_inv o] (iter_op fuel sf ic t (nth 1 o 0) ls)
  else run_op fuel sf ic t o ls.

Definition after_op (rest : lstate -> prog unit) (x : out lstate) : prog unit :=
  match x with
  | None => Ret tt
  | Some ls' => rest ls'
  end.

Fixpoint run_opsI (fuel sf : nat) (ic : bool) (t : nat) (os : list (list Z)) (ls : lstate) : prog unit :=
  match os with
  | [] => Ret tt
  | o :: r => x <- run_opI fuel sf ic t o ls ;; after_op (run_opsI fuel sf ic t r) x
  end.

Definition thread_progI (fuel sf : nat) (ic : bool) (t : nat) (os : list (list Z)) : Conc.thread G V ev :=
  Act a_begin (fun _ => run_opsI fuel sf ic t os init_ls).

Fixpoint thread_progsI (fuel sf : nat) (ic : bool) (t : nat) (ths : list (list (list Z))) : list (Conc.thread G V ev) :=
  match ths with
  | [] => []
  | os :: r => thread_progI fuel sf ic t os :: thread_progsI fuel sf ic (S t) r
  end.

Definition init_cfgI (fuel sf : nat) (ic : bool) (ths : list (list (list Z))) : Conc.config G V ev :=
  Conc.Cfg init (thread_progsI fuel sf ic 0 ths) [].

(** cfg = [variant id (bit 1: item counter on); mode; max steps] as for LV.Model.IterList.run_case *)
Definition run_case (cfg : list Z) (ths : list (list (list Z))) (sched : list nat) (fuel : nat)
  : list (nat * ev) * bool :=
  let ic := Z.odd (Z.div (nth 0 cfg 0) 2) in
  let r := Conc.run fuel 0 sched (init_cfgI 64 400 ic ths) in
  (Conc.trace (fst r), snd r).
