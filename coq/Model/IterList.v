(** * Model of cds::intrusive::IterableList<cds::gc::HP, T, Traits> (cds/intrusive/impl/iterable_list.h),
      one atomic access of the C++ code per [Act], hazard-pointer guard traffic included.

    C++ (current tree).  A node has two atomic cells, [next] and [data] (marked pointer to the user's item; LSB set =
    "a neighbour is being linked, do not touch").  Nodes are never unlinked; erasing stores null into [data], inserting
    re-uses a node whose data is null or links a new node.  m_Head / m_Tail are member nodes, the tail's next points to
    itself.  back_off = default (no atomics), stat = empty_stat, item_counter off (variant 40) / on (variant 43).

      node( value_type* pVal ) { next.store( nullptr ); data.store( marked_data_ptr( pVal )); }       // [a_new_next][a_new_data]
      search( pHead, val, pos, cmp ):                                        (position: one gc::Guard [pos.guard])
          pPrev = pHead;
          while ( true ) {
              pCur = pPrev->next.load();                                                               // [a_ldn]
              if ( pCur == pCur->next.load()) { pos = (pPrev, pCur, nullptr); return false; }          // [a_ldn]  end of list
              pVal = pos.guard.protect( pCur->data, ptr ).ptr();                                       // [protect]
              if ( pVal ) { nCmp = cmp( *pVal, val ); if ( nCmp >= 0 ) { pos = (pPrev, pCur, pVal); return nCmp == 0; } }
              pPrev = pCur;
          }
      inserting_search: the same with  pPrevVal = pPrev->data.load().ptr()  first                     // [a_ldd]
          (insert_position: [pos.guard], then [pos.prevGuard]) and, when advancing,
              pPrev = pCur; pPrevVal = pVal; pos.prevGuard.copy( pos.guard );                          // [copy_guard]
      find_prev( pHead, val ): gc::Guard guard; the loop of search with that guard; returns pPrev; ~Guard   // [clear_guard]
      link_data( pVal, pos, pHead ):
          valCur( pos.pFound );
          if ( !pCur->data.CAS( valCur, valCur | 1 )) return false;                                    // [a_casd]
          valPrev( pos.pPrevVal );
          if ( !pPrev->data.CAS( valPrev, valPrev | 1 )) { pCur->data.store( valCur ); return false; } // [a_casd] [a_std]
          if ( pPrev->next.load() != pCur ) { pPrev->data.store( valPrev ); pCur->data.store( valCur ); return false; }   // [a_ldn] [a_std][a_std]
          if ( pPrevVal == nullptr )          // ABA check for a null prev
              if ( find_prev( pHead, *pVal ) != pPrev ) { restore both; return false; }
          if ( pPrev != pHead && pPrevVal == nullptr ) {                    // re-use pPrev
              bool r = pPrev->data.CAS( valPrev | 1, marked_data_ptr( pVal ));                         // [a_casd]   LP of insert
              pCur->data.store( valCur );                                                              // [a_std]
              if ( r ) return true;
          } else {                                                          // new node between pPrev and pCur
              pNode = alloc_node( pVal );  pNode->next.store( pCur );                                  // [a_new_next][a_new_data][a_stn]
              bool r = pPrev->next.CAS( pCur, pNode );                                                 // [a_casn]   LP of insert
              pPrev->data.store( valPrev ); pCur->data.store( valCur );                                // [a_std][a_std]
              if ( r ) return true;
              delete_node( pNode );
          }
          return false;
      unlink_data( pos ): if ( pCur->data.CAS( pFound, null )) { retire_data( pFound ); return true; } return false;   // [a_casd]  LP of erase; [retire]
      insert_at:   insert_position pos; [gc::Guard guard; guard.assign( &val );]  (functor variant only)
                   while (true) { if ( inserting_search(..)) return false;
                                  if ( link_data( &val, pos, pHead )) { [f( val );] ++m_ItemCounter; return true; } }
      update_at:   insert_position pos; gc::Guard guard; guard.assign( &val );
                   while (true) { if ( inserting_search(..)) {
                                      if ( pCur->data.CAS( pFound, &val )) {                           // [a_casd]  the item is replaced
                                          if ( pFound != &val ) { retire_data( pFound ); func( val, pFound ); }
                                          return (true,false); } }
                                  else { if ( !bInsert ) return (false,false);
                                         if ( link_data( &val, pos, pHead )) { func( val, nullptr ); ++m_ItemCounter; return (true,true); } } }
      unlink_at:   position pos; while ( search(..)) { if ( pFound == &val ) { if ( unlink_data( pos )) { --m_ItemCounter; return true; } } else break; } return false;
      erase_at:    position pos; while ( search(..)) { if ( unlink_data( pos )) { f( *pFound ); --m_ItemCounter; return true; } } return false;
      extract_at:  position pos; while ( search(..)) { if ( unlink_data( pos )) { --m_ItemCounter; return guarded_ptr( std::move( pos.guard )); } } return guarded_ptr();
      find_at / get_at: position pos; search(..) [f(..)] [guarded_ptr( std::move( pos.guard ))]

    cds/gc/hp.h, class Guard: Guard() pops one hazard slot from the thread's free list (no atomic); ~Guard() clears it [a_gst]
    and pushes it back; assign( p ) = hazard store + sync_.fetch_add [a_gst][a_sync]; copy( src ) = guard load + assign;
    protect( toGuard, f ): pCur = toGuard.load(); do { pRet = pCur; assign( f( pCur )); pCur = toGuard.load(); } while ( pRet != pCur );
    Members are destroyed in reverse order of construction: the local guard of update/insert(f) first, then
    pos.prevGuard, then pos.guard.  gc::HP::retire = load + store of the retired cursor [retire]; no scan runs inside a case.

    MEMORY SAFETY IS A HYPOTHESIS ([smr_safe], DESIGN 4): node ids and item ids are never reused (the harness gives the
    list an allocator that never reuses memory: a node deleted after a failed link CAS is not handed out again).
    Node ids: 1 = m_Head, 2 = m_Tail, fresh ones from the shared counter [nalloc] at the node constructor's first store.
    Item ids are thread-local names (tid, sequence number) encoded as [S (t + 64 * seq)]: the harness creates the item
    (a plain struct) at the start of the call without any atomic access.  Keys are immutable: an item's key is recorded
    in [ikey] by the access that first stores the item pointer into a data cell, and every value read from a data
    cell carries the key of the item it points to.

    Client operations and events as in LV.Model.MichaelList (harness/C13/list_ops.h); for this list the harness records
    the thread's own item after every update that returned first = true (the item is in the list in both cases). *)
From Coq Require Import ZArith List String Bool Lia PeanoNat.
From LV Require Import Base.Conc Base.Events.
Import ListNotations.
Local Open Scope Z_scope.
Local Open Scope string_scope.

Record G := mkG {
  nnext : nat -> nat;                 (* next cell of a node *)
  ndata : nat -> nat * bool;          (* data cell of a node: item id (0 = null), mark bit *)
  ikey : nat -> Z;                    (* key of an item *)
  nalloc : nat;                       (* node ids 1 .. nalloc are allocated *)
  count : Z
}.

Record V := mkV { vptr : nat; vmark : bool; vkey : Z }.
Definition v0 : V := mkV 0 false 0.
Definition vok (b : bool) : V := mkV 0 b 0.

Definition prog := Conc.prog G V ev.
Definition HEAD : nat := 1%nat.
Definition TAIL : nat := 2%nat.

Definition updf {A} (f : nat -> A) (n : nat) (x : A) : nat -> A := fun m => if Nat.eqb m n then x else f m.

Definition obj_next (n : nat) : list Z := [1; Z.of_nat n].
Definition obj_data (n : nat) : list Z := [7; Z.of_nat n].
Definition obj_guard (t s : nat) : list Z := [2; Z.of_nat t; Z.of_nat s].
Definition obj_sync (t : nat) : list Z := [3; Z.of_nat t].
Definition obj_retired (t : nat) : list Z := [4; Z.of_nat t].
Definition obj_count : list Z := [5].

Definition act := G -> G * V * list ev.
Definition a_begin : act := fun g => (g, v0, [EvAcc KBegin [] true]).

Definition a_ldn (n : nat) : act :=
  fun g => (g, mkV (nnext g n) false 0, [EvAcc KLd (obj_next n) true]).
Definition a_ldd (n : nat) : act :=
  fun g => let (i, m) := ndata g n in (g, mkV i m (ikey g i), [EvAcc KLd (obj_data n) true]).
Definition a_stn (n p : nat) : act :=
  fun g => (mkG (updf (nnext g) n p) (ndata g) (ikey g) (nalloc g) (count g), v0, [EvAcc KSt (obj_next n) true]).
(** store to a data cell; [ko = Some k]: item [i] is new, its key [k] is recorded *)
Definition set_key (g : G) (i : nat) (ko : option Z) : nat -> Z :=
  match ko with Some k => updf (ikey g) i k | None => ikey g end.
Definition a_std (n i : nat) (m : bool) (ko : option Z) : act :=
  fun g => (mkG (nnext g) (updf (ndata g) n (i, m)) (set_key g i ko) (nalloc g) (count g),
            v0, [EvAcc KSt (obj_data n) true]).
Definition a_casn (n ep np : nat) : act :=
  fun g => if Nat.eqb (nnext g n) ep
           then (mkG (updf (nnext g) n np) (ndata g) (ikey g) (nalloc g) (count g), vok true, [EvAcc KCas (obj_next n) true])
           else (g, vok false, [EvAcc KCas (obj_next n) false]).
Definition a_casd (n ei : nat) (em : bool) (ni : nat) (nm : bool) (ko : option Z) : act :=
  fun g => let (i, m) := ndata g n in
    if Nat.eqb i ei && Bool.eqb m em
    then (mkG (nnext g) (updf (ndata g) n (ni, nm)) (set_key g ni ko) (nalloc g) (count g),
          vok true, [EvAcc KCas (obj_data n) true])
    else (g, vok false, [EvAcc KCas (obj_data n) false]).
(** node constructor, first store: allocate id [S (nalloc g)], next := nullptr *)
Definition a_new_next : act :=
  fun g => let n := S (nalloc g) in
    (mkG (updf (nnext g) n 0%nat) (updf (ndata g) n (0%nat, false)) (ikey g) n (count g), mkV n false 0, [EvAcc KSt (obj_next n) true]).

Definition a_nop (k : akind) (o : list Z) : act := fun g => (g, v0, [EvAcc k o true]).
Definition a_gst (t s : nat) : act := a_nop KSt (obj_guard t s).
Definition a_gld (t s : nat) : act := a_nop KLd (obj_guard t s).
Definition a_sync (t : nat) : act := a_nop KFaa (obj_sync t).
Definition a_rld (t : nat) : act := a_nop KLd (obj_retired t).
Definition a_rst (t : nat) : act := a_nop KSt (obj_retired t).
Definition a_cnt (k : akind) (d : Z) : act :=
  fun g => (mkG (nnext g) (ndata g) (ikey g) (nalloc g) (count g + d), v0, [EvAcc k obj_count true]).

Notation "x <- p ;; q" := (Conc.bind p (fun x => q)) (at level 61, p at next level, right associativity).

Definition veqb (a b : V) : bool := Nat.eqb (vptr a) (vptr b) && Bool.eqb (vmark a) (vmark b).

(** ** hazard pointers *)
Definition assign_guard (t s : nat) : prog unit := Act (a_gst t s) (fun _ => Act (a_sync t) (fun _ => Ret tt)).
Definition copy_guard (t d s : nat) : prog unit := Act (a_gld t s) (fun _ => assign_guard t d).
Definition clear_guard (t s : nat) : prog unit := Act (a_gst t s) (fun _ => Ret tt).
Definition retire (t : nat) : prog unit := Act (a_rld t) (fun _ => Act (a_rst t) (fun _ => Ret tt)).
Definition use_guarded (t s : nat) : prog unit := Act (a_gld t s) (fun _ => Act (a_gld t s) (fun _ => Ret tt)).

(** Guard::protect on a data cell: the loop re-uses the last load *)
Fixpoint protect_loop (fuel : nat) (t s n : nat) (v : V) : prog (option V) :=
  match fuel with
  | O => Ret None
  | S f =>
      Act (a_gst t s) (fun _ => Act (a_sync t) (fun _ => Act (a_ldd n) (fun v' =>
        if veqb v v' then Ret (Some v') else protect_loop f t s n v')))
  end.
Definition protect (fuel : nat) (t s n : nat) : prog (option V) :=
  Act (a_ldd n) (fun v => protect_loop fuel t s n v).

Definition pop (fr : list nat) : nat * list nat :=
  match fr with a :: r => (a, r) | [] => (0%nat, []) end.

(** ** searches.  Result: (found, pPrev, pCur, pFound as V (item, _, key)); [pPrevVal] for the inserting variant *)
Record pos := mkPos { pprev : nat; pcur : nat; pfound : nat; pprevval : nat }.

(** [ins]: inserting_search (tracks pPrevVal and copies the guard into [pg]); otherwise search / find_prev *)
Fixpoint search_loop (fuel : nat) (t g pg : nat) (ins : bool) (k : Z) (pPrev pPrevVal : nat) : prog (option (bool * pos)) :=
  match fuel with
  | O => Ret None
  | S f =>
      Act (a_ldn pPrev) (fun vc =>
        let pCur := vptr vc in
        Act (a_ldn pCur) (fun vn =>
          if Nat.eqb pCur (vptr vn) then Ret (Some (false, mkPos pPrev pCur 0 pPrevVal))
          else
            ov <- protect f t g pCur ;;
            match ov with
            | None => Ret None
            | Some v =>
                if negb (Nat.eqb (vptr v) 0) && Z.leb k (vkey v)
                then Ret (Some (Z.eqb (vkey v) k, mkPos pPrev pCur (vptr v) pPrevVal))
                else if ins then (_ <- copy_guard t pg g ;; search_loop f t g pg ins k pCur (vptr v))
                else search_loop f t g pg ins k pCur (vptr v)
            end))
  end.

Definition search (fuel : nat) (t g : nat) (k : Z) : prog (option (bool * pos)) :=
  search_loop fuel t g 0 false k HEAD 0.
Definition inserting_search (fuel : nat) (t g pg : nat) (k : Z) : prog (option (bool * pos)) :=
  Act (a_ldd HEAD) (fun v => search_loop fuel t g pg true k HEAD (vptr v)).
(** find_prev: own guard, returns pPrev *)
Definition find_prev (fuel : nat) (t : nat) (fr : list nat) (k : Z) : prog (option nat) :=
  let (g, _) := pop fr in
  r <- search_loop fuel t g 0 false k HEAD 0 ;;
  match r with
  | None => Ret None
  | Some (_, p) => _ <- clear_guard t g ;; Ret (Some (pprev p))
  end.

(** link_data; [it] = the new item with key [k]; [kf] / [kp] = keys of pFound / pPrevVal (for the restoring stores) *)
Definition link_data (fuel : nat) (t : nat) (fr : list nat) (it : nat) (k : Z) (p : pos) : prog (option bool) :=
  let pPrev := pprev p in let pCur := pcur p in
  Act (a_casd pCur (pfound p) false (pfound p) true None) (fun r1 =>
    if negb (vmark r1) then Ret (Some false)
    else
      Act (a_casd pPrev (pprevval p) false (pprevval p) true None) (fun r2 =>
        if negb (vmark r2) then Act (a_std pCur (pfound p) false None) (fun _ => Ret (Some false))
        else
          let restore := Act (a_std pPrev (pprevval p) false None) (fun _ => Act (a_std pCur (pfound p) false None) (fun _ => Ret (Some false))) in
          Act (a_ldn pPrev) (fun vn =>
            if negb (Nat.eqb (vptr vn) pCur) then restore
            else
              let continue :=
                if negb (Nat.eqb pPrev HEAD) && Nat.eqb (pprevval p) 0 then
                  Act (a_casd pPrev 0 true it false (Some k)) (fun r3 =>
                    Act (a_std pCur (pfound p) false None) (fun _ => Ret (Some (vmark r3))))
                else
                  Act a_new_next (fun nv =>
                    let n := vptr nv in
                    Act (a_std n it false (Some k)) (fun _ =>
                      Act (a_stn n pCur) (fun _ =>
                        Act (a_casn pPrev pCur n) (fun r3 =>
                          Act (a_std pPrev (pprevval p) false None) (fun _ =>
                            Act (a_std pCur (pfound p) false None) (fun _ => Ret (Some (vmark r3)))))))) in
              if Nat.eqb (pprevval p) 0 then
                fp <- find_prev fuel t fr k ;;
                match fp with
                | None => Ret None
                | Some q => if Nat.eqb q pPrev then continue else restore
                end
              else continue))).

Definition unlink_data (t : nat) (p : pos) : prog bool :=
  Act (a_casd (pcur p) (pfound p) false 0 false None) (fun r =>
    if vmark r then (_ <- retire t ;; Ret true) else Ret false).

Definition ev_inv (o : list Z) : ev := EvCli "inv" [nth 0 o 0; nth 1 o 0; nth 2 o 0; nth 3 o 0].
Definition ev_fn (code flag k : Z) : ev := EvCli "fn" [code; flag; k].
Definition ev_ret (a b : Z) : ev := EvCli "ret" [a; b].
Definition zb (b : bool) : Z := if b then 1 else 0.
Definition cnt_inc (ic : bool) : prog unit := if ic then Act (a_cnt KFaa 1) (fun _ => Ret tt) else Ret tt.
Definition cnt_dec (ic : bool) : prog unit := if ic then Act (a_cnt KFas (-1)) (fun _ => Ret tt) else Ret tt.
Definition out (A : Type) := option A.

(** insert_at (1 / 2); [g], [pg] = pos.guard, pos.prevGuard; [fr] = free list during the loop (for find_prev) *)
Fixpoint insert_loop (fuel sf : nat) (ic withf : bool) (t g pg : nat) (fr : list nat) (it : nat) (k : Z) : prog (out bool) :=
  match fuel with
  | O => Ret None
  | S f =>
      r <- inserting_search sf t g pg k ;;
      match r with
      | None => Ret None
      | Some (true, _) => Ret (Some false)
      | Some (false, p) =>
          l <- link_data sf t fr it k p ;;
          match l with
          | None => Ret None
          | Some true =>
              if withf then Emit [ev_fn 2 1 k] (_ <- cnt_inc ic ;; Ret (Some true))
              else _ <- cnt_inc ic ;; Ret (Some true)
          | Some false => insert_loop f sf ic withf t g pg fr it k
          end
      end
  end.

Fixpoint update_loop (fuel sf : nat) (ic allow : bool) (t g pg : nat) (fr : list nat) (it : nat) (k : Z) : prog (out (bool * bool)) :=
  match fuel with
  | O => Ret None
  | S f =>
      r <- inserting_search sf t g pg k ;;
      match r with
      | None => Ret None
      | Some (true, p) =>
          Act (a_casd (pcur p) (pfound p) false it false (Some k)) (fun rc =>
            if vmark rc then
              if Nat.eqb (pfound p) it then Ret (Some (true, false))
              else _ <- retire t ;; Emit [ev_fn 3 0 k] (Ret (Some (true, false)))
            else update_loop f sf ic allow t g pg fr it k)
      | Some (false, p) =>
          if negb allow then Ret (Some (false, false))
          else
            l <- link_data sf t fr it k p ;;
            match l with
            | None => Ret None
            | Some true => Emit [ev_fn 3 1 k] (_ <- cnt_inc ic ;; Ret (Some (true, true)))
            | Some false => update_loop f sf ic allow t g pg fr it k
            end
      end
  end.

(** erase_at (4 / 5), unlink_at (6: only the item [mine]), extract_at (7) *)
Fixpoint erase_loop (fuel sf : nat) (ic : bool) (code : Z) (mine : nat) (t g : nat) (k : Z) : prog (out bool) :=
  match fuel with
  | O => Ret None
  | S f =>
      r <- search sf t g k ;;
      match r with
      | None => Ret None
      | Some (false, _) => Ret (Some false)
      | Some (true, p) =>
          if Z.eqb code 6 && negb (Nat.eqb (pfound p) mine) then Ret (Some false)
          else
            ok <- unlink_data t p ;;
            if ok then
              (if Z.eqb code 5 then Emit [ev_fn 5 1 k] (_ <- cnt_dec ic ;; Ret (Some true))
               else _ <- cnt_dec ic ;; Ret (Some true))
            else erase_loop f sf ic code mine t g k
      end
  end.

Fixpoint own_find (k : Z) (l : list (Z * nat)) : nat :=
  match l with
  | [] => 0%nat
  | (k', n) :: r => if Z.eqb k k' then n else own_find k r
  end.
Definition own_set (k : Z) (n : nat) (l : list (Z * nat)) : list (Z * nat) :=
  (k, n) :: filter (fun kn => negb (Z.eqb k (fst kn))) l.
Definition own_del (k : Z) (l : list (Z * nat)) : list (Z * nat) :=
  filter (fun kn => negb (Z.eqb k (fst kn))) l.

(** thread-local state between operations: free list of guard slots, own items, number of items created *)
Definition lstate := (list nat * list (Z * nat) * nat)%type.
Definition give_up : prog (out lstate) := Emit [EvCli "outoffuel" []] (Ret None).
Definition item_id (t seq : nat) : nat := S (t + 64 * seq).

Definition run_op (fuel sf : nat) (ic : bool) (t : nat) (o : list Z) (ls : lstate) : prog (out lstate) :=
  let code := nth 0 o 0 in
  let k := nth 1 o 0 in
  let x := nth 2 o 0 in
  let '(fr, own, seq) := ls in
  if Z.leb 1 code && Z.leb code 10 then
    Emit [ev_inv o]
    (if Z.eqb code 1 || Z.eqb code 2 then
       let it := item_id t seq in
       let (g, fr1) := pop fr in let (pg, fr2) := pop fr1 in
       (if Z.eqb code 2 then
          let (lg, fr3) := pop fr2 in
          _ <- assign_guard t lg ;;
          r <- insert_loop fuel sf ic true t g pg fr3 it k ;;
          match r with
          | None => give_up
          | Some b =>
              _ <- clear_guard t lg ;; _ <- clear_guard t pg ;; _ <- clear_guard t g ;;
              Emit [ev_ret (zb b) 0] (Ret (Some (g :: pg :: lg :: fr3, if b then own_set k it own else own, S seq)))
          end
        else
          r <- insert_loop fuel sf ic false t g pg fr2 it k ;;
          match r with
          | None => give_up
          | Some b =>
              _ <- clear_guard t pg ;; _ <- clear_guard t g ;;
              Emit [ev_ret (zb b) 0] (Ret (Some (g :: pg :: fr2, if b then own_set k it own else own, S seq)))
          end)
     else if Z.eqb code 3 then
       let it := item_id t seq in
       let (g, fr1) := pop fr in let (pg, fr2) := pop fr1 in let (lg, fr3) := pop fr2 in
       _ <- assign_guard t lg ;;
       r <- update_loop fuel sf ic (Z.odd x) t g pg fr3 it k ;;
       match r with
       | None => give_up
       | Some (a, b) =>
           _ <- clear_guard t lg ;; _ <- clear_guard t pg ;; _ <- clear_guard t g ;;
           Emit [ev_ret (zb a) (zb b)] (Ret (Some (g :: pg :: lg :: fr3, if a then own_set k it own else own, S seq)))
       end
     else if Z.eqb code 4 || Z.eqb code 5 then
       let (g, fr1) := pop fr in
       r <- erase_loop fuel sf ic code 0 t g k ;;
       match r with
       | None => give_up
       | Some b => _ <- clear_guard t g ;; Emit [ev_ret (zb b) 0] (Ret (Some (g :: fr1, own, seq)))
       end
     else if Z.eqb code 6 then
       let mine := own_find k own in
       let m := if Nat.eqb mine 0 then item_id t seq else mine in
       let seq' := if Nat.eqb mine 0 then S seq else seq in
       let (g, fr1) := pop fr in
       r <- erase_loop fuel sf ic 6 m t g k ;;
       match r with
       | None => give_up
       | Some b =>
           _ <- clear_guard t g ;;
           Emit [ev_ret (zb b) (zb (negb (Nat.eqb mine 0)))] (Ret (Some (g :: fr1, if b then own_del k own else own, seq')))
       end
     else if Z.eqb code 7 then
       let (g, fr1) := pop fr in
       r <- erase_loop fuel sf ic 7 0 t g k ;;
       match r with
       | None => give_up
       | Some true =>
           _ <- use_guarded t g ;; _ <- clear_guard t g ;;
           Emit [ev_ret 1 (k + 1)] (Ret (Some (g :: fr1, own, seq)))
       | Some false =>
           _ <- clear_guard t g ;; Emit [ev_ret 0 0] (Ret (Some (g :: fr1, own, seq)))
       end
     else
       let (g, fr1) := pop fr in
       r <- search sf t g k ;;
       match r with
       | None => give_up
       | Some (found, _) =>
           if Z.eqb code 8 && found then
             _ <- use_guarded t g ;; _ <- clear_guard t g ;;
             Emit [ev_ret 1 (k + 1)] (Ret (Some (g :: fr1, own, seq)))
           else if Z.eqb code 10 && found then
             Emit [ev_fn 10 1 k] (_ <- clear_guard t g ;; Emit [ev_ret 1 0] (Ret (Some (g :: fr1, own, seq))))
           else
             _ <- clear_guard t g ;; Emit [ev_ret (zb found) 0] (Ret (Some (g :: fr1, own, seq)))
       end)
  else Ret (Some ls).

Fixpoint run_ops (fuel sf : nat) (ic : bool) (t : nat) (os : list (list Z)) (ls : lstate) : prog unit :=
  match os with
  | [] => Ret tt
  | o :: r =>
      x <- run_op fuel sf ic t o ls ;;
      match x with
      | None => Ret tt
      | Some ls' => run_ops fuel sf ic t r ls'
      end
  end.

Definition init_ls : lstate := (seq 0 16, [], 0%nat).
Definition thread_prog (fuel sf : nat) (ic : bool) (t : nat) (os : list (list Z)) : Conc.thread G V ev :=
  Act a_begin (fun _ => run_ops fuel sf ic t os init_ls).

(** empty list: m_Head.next = &m_Tail, m_Tail.next = &m_Tail, no data *)
Definition init : G := mkG (fun _ => TAIL) (fun _ => (0%nat, false)) (fun _ => 0) 2 0.

Fixpoint thread_progs (fuel sf : nat) (ic : bool) (t : nat) (ths : list (list (list Z))) : list (Conc.thread G V ev) :=
  match ths with
  | [] => []
  | os :: r => thread_prog fuel sf ic t os :: thread_progs fuel sf ic (S t) r
  end.
Definition init_cfg (fuel sf : nat) (ic : bool) (ths : list (list (list Z))) : Conc.config G V ev :=
  Conc.Cfg init (thread_progs fuel sf ic 0 ths) [].

(** cfg = [variant id (bit 1: item counter on); mode; max steps] *)
Definition run_case (cfg : list Z) (ths : list (list (list Z))) (sched : list nat) (fuel : nat)
  : list (nat * ev) * bool :=
  let ic := Z.odd (Z.div (nth 0 cfg 0) 2) in
  let r := Conc.run fuel 0 sched (init_cfg 64 400 ic ths) in
  (Conc.trace (fst r), snd r).
