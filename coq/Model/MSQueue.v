(** * Model of cds::container::MSQueue<GC,int> and cds::container::MoirQueue<GC,int> (GC = gc::HP or gc::DHP),
      i.e. the value wrapper (cds/container/msqueue.h, moir_queue.h) over cds::intrusive::MSQueue /
      MoirQueue (cds/intrusive/msqueue.h, moir_queue.h).  One atomic access per [Act].

    MEMORY SAFETY HYPOTHESIS ([smr_safe], DESIGN section 4): nodes are abstract ids handed out by a
    never-reusing allocator ([nalloc] only grows).  "A node is not recycled while a hazard pointer that
    was validated can still reach it" is the conclusion of the C01/C02 theorems about gc::HP / gc::DHP;
    this model ASSUMES it, and consequently the hazard-pointer slots, the per-thread [sync_] word and the
    retired array carry no information here: their accesses appear as events only, so that the trace can be
    compared step by step with the real code.

    C++ (current tree), cds/container/msqueue.h:
      bool enqueue( value_type const& val ) {
          scoped_node_ptr p( alloc_node(val));        // node ctor: m_pNext.store( nullptr )   [1 store]
          if ( base_class::enqueue( *p )) { p.release(); return true; } return false; }
      bool dequeue_with( Func f ) {
          typename base_class::dequeue_result res;    // GuardArray<2>: two slots from the thread's free list
          if ( base_class::do_dequeue( res )) {
              f( node_traits::to_value_ptr( *res.pNext )->m_value );      // value copied from pNext
              base_class::dispose_result( res );      // if ( pHead != &m_Dummy ) gc::retire( pHead )
              return true; }
          return false; }                             // ~GuardArray: clear slot 0, clear slot 1   [2 stores]

    cds/intrusive/msqueue.h:
      bool enqueue( value_type& val ) {
          typename gc::Guard guard;                   // one slot from the thread's free list
          while ( true ) {
              t = guard.protect( m_pTail, ... );      // pCur = ld; do { pRet = pCur; hp.store(pCur); sync_.fetch_add;
                                                      //                 pCur = ld } while ( pRet != pCur )
              node_type * pNext = t->m_pNext.load();
              if ( pNext != nullptr ) { m_pTail.compare_exchange_weak( t, pNext ); continue; }   // help
              node_type * tmp = nullptr;
              if ( t->m_pNext.compare_exchange_strong( tmp, pNew )) break;
              bkoff(); }
          ++m_ItemCounter;                            // fetch_add when atomicity::item_counter, nothing when empty
          m_pTail.compare_exchange_strong( t, pNew ); // result ignored
          return true; }                              // ~Guard: hp.store( nullptr )
      bool do_dequeue( dequeue_result& res ) {
          while ( true ) {
              h = res.guards.protect( 0, m_pHead, ... );      // do { hp0.store( pRet = ld ); sync_.fetch_add }
              pNext = res.guards.protect( 1, h->m_pNext, ...);//    while ( pRet != ld )
              if ( m_pHead.load() != h ) continue;
              if ( pNext == nullptr ) return false;           // empty queue
              node_type * t = m_pTail.load();
              if ( h == t ) { m_pTail.compare_exchange_strong( t, pNext ); continue; }   // help enqueue
              if ( m_pHead.compare_exchange_strong( h, pNext )) break;
              bkoff(); }
          --m_ItemCounter;
          res.pHead = h; res.pNext = pNext; return true; }

    cds/intrusive/moir_queue.h:
      bool do_dequeue( dequeue_result& res ) {
          while ( true ) {
              h = res.guards.protect( 0, m_pHead, ... );
              pNext = res.guards.protect( 1, h->m_pNext, ... );
              if ( pNext == nullptr ) return false;           // queue is empty
              if ( m_pHead.compare_exchange_strong( h, pNext )) {
                  node_type * t = m_pTail.load();
                  if ( h == t ) m_pTail.compare_exchange_strong( t, pNext );
                  break; }
              bkoff(); }
          --m_ItemCounter; res.pHead = h; res.pNext = pNext; return true; }

    cds/gc/hp.h, cds/gc/details/hp_common.h:
      Guard::assign(p) / GuardArray::assign(i,p):  hp.store( p ); tls()->sync()  [sync_.fetch_add( 1 )]
      HP::retire(p):  retired_.push: cur = current_.load(); *cur = p; current_.store( cur + 1 )   [ld, st]
                      (the retired array never fills during a case: the harness sizes it so)
      DHP::retire(p): push into the thread-local retired block, no atomic access while the block has room
      thread_hp_storage::alloc() takes the head of the thread's free guard list, free(guard_array) pushes
      slot 0 then slot 1 back: after a dequeue the two top slots of the list are swapped (tracked by [fl]).

    Client operations (what harness/C06/main.cpp executes on the real queue):
      [1; v]  enq v     events  inv_enq v ; ret_enq 1
      [2]     deq       events  inv_deq   ; ret_deq 1 v  |  ret_deq 0 0
    A thread whose operation runs out of loop fuel emits "outoffuel" and stops. *)
From Coq Require Import ZArith List String Bool Lia PeanoNat.
From LV Require Import Base.Conc Base.Events.
Import ListNotations.
Local Open Scope Z_scope.
Local Open Scope string_scope.

(** ** shared state *)
Record G := mkG {
  head : nat;                    (* m_pHead *)
  tail : nat;                    (* m_pTail *)
  nxt : nat -> option nat;       (* m_pNext of node n; None = nullptr *)
  val : nat -> Z;                (* m_value of node n (written before the node is published, then constant) *)
  nalloc : nat;                  (* never-reusing allocator: next fresh node id; node 0 = m_Dummy *)
  cnt : Z                        (* m_ItemCounter *)
}.

(** value returned by an atomic access to the thread *)
Inductive V := VU | VN (n : nat) | VP (p : option nat) | VB (b : bool) | VBZ (b : bool) (z : Z).
Definition vn (v : V) : nat := match v with VN n => n | _ => O end.
Definition vp (v : V) : option nat := match v with VP p => p | _ => None end.
Definition vb (v : V) : bool := match v with VB b => b | VBZ b _ => b | _ => false end.
Definition vz (v : V) : Z := match v with VBZ _ z => z | _ => 0 end.

Definition prog := Conc.prog G V ev.

(** configuration of the instantiation *)
Record conf := mkConf {
  c_moir : bool;                 (* MoirQueue::do_dequeue instead of MSQueue::do_dequeue *)
  c_ic : bool;                   (* atomicity::item_counter (an atomic) instead of empty_item_counter *)
  c_hp : bool                    (* gc::HP (retire touches the atomic cursor of the retired array); false: gc::DHP *)
}.

(** ** objects *)
Definition obj_head : list Z := [0].
Definition obj_tail : list Z := [1].
Definition obj_next (n : nat) : list Z := [2; Z.of_nat n].
Definition obj_hz (t s : nat) : list Z := [3; Z.of_nat t; Z.of_nat s].
Definition obj_sync (t : nat) : list Z := [4; Z.of_nat t].
Definition obj_ret (t : nat) : list Z := [5; Z.of_nat t].
Definition obj_cnt : list Z := [6].

Definition opt_eqb (a b : option nat) : bool :=
  match a, b with
  | Some x, Some y => Nat.eqb x y
  | None, None => true
  | _, _ => false
  end.

(** ** atomic accesses *)
Definition act := G -> G * V * list ev.

Definition a_begin : act := fun g => (g, VU, [EvAcc KBegin [] true]).
(** accesses to SMR-private words (hazard slot, sync_, retired cursor): no effect on the queue *)
Definition touch (k : akind) (o : list Z) : act := fun g => (g, VU, [EvAcc k o true]).

(** node construction: [alloc_node(val)]; the only atomic access is the store of nullptr to m_pNext *)
Definition a_alloc (v : Z) : act := fun g =>
  let n := nalloc g in
  (mkG (head g) (tail g) (fun x => if Nat.eqb x n then None else nxt g x)
       (fun x => if Nat.eqb x n then v else val g x) (S n) (cnt g),
   VN n, [EvAcc KSt (obj_next n) true]).

Definition a_ld_head : act := fun g => (g, VN (head g), [EvAcc KLd obj_head true]).
Definition a_ld_tail : act := fun g => (g, VN (tail g), [EvAcc KLd obj_tail true]).
Definition a_ld_next (h : nat) : act := fun g => (g, VP (nxt g h), [EvAcc KLd (obj_next h) true]).

Definition set_tail (g : G) (x : nat) : G := mkG (head g) x (nxt g) (val g) (nalloc g) (cnt g).
Definition set_head (g : G) (x : nat) : G := mkG x (tail g) (nxt g) (val g) (nalloc g) (cnt g).
Definition set_next (g : G) (h : nat) (p : option nat) : G :=
  mkG (head g) (tail g) (fun x => if Nat.eqb x h then p else nxt g x) (val g) (nalloc g) (cnt g).
Definition set_cnt (g : G) (c : Z) : G := mkG (head g) (tail g) (nxt g) (val g) (nalloc g) c.

(** m_pTail.compare_exchange( e, d ) *)
Definition a_cas_tail (e d : nat) : act := fun g =>
  if Nat.eqb (tail g) e then (set_tail g d, VB true, [EvAcc KCas obj_tail true])
  else (g, VB false, [EvAcc KCas obj_tail false]).
(** h->m_pNext.compare_exchange( nullptr, n ) *)
Definition a_cas_next (h n : nat) : act := fun g =>
  match nxt g h with
  | None => (set_next g h (Some n), VB true, [EvAcc KCas (obj_next h) true])
  | Some _ => (g, VB false, [EvAcc KCas (obj_next h) false])
  end.
(** m_pHead.compare_exchange( e, d ); on success the thread goes on to read d->m_value (not an atomic
    access; the value is constant once the node is published), returned here with the CAS *)
Definition a_cas_head (e d : nat) : act := fun g =>
  if Nat.eqb (head g) e then (set_head g d, VBZ true (val g d), [EvAcc KCas obj_head true])
  else (g, VBZ false 0, [EvAcc KCas obj_head false]).
Definition a_cnt (k : akind) (d : Z) : act := fun g => (set_cnt g (cnt g + d), VU, [EvAcc k obj_cnt true]).

(** ** hazard-pointer protect loops; result [None] = out of fuel *)

(** Guard::protect( m_pTail ) *)
Fixpoint protect_tail_loop (fuel : nat) (t s : nat) (pcur : nat) : prog (option nat) :=
  match fuel with
  | O => Ret None
  | S f =>
      Act (touch KSt (obj_hz t s)) (fun _ =>
      Act (touch KFaa (obj_sync t)) (fun _ =>
      Act a_ld_tail (fun r =>
        if Nat.eqb (vn r) pcur then Ret (Some pcur) else protect_tail_loop f t s (vn r))))
  end.
Definition protect_tail (fuel t s : nat) : prog (option nat) :=
  Act a_ld_tail (fun r => protect_tail_loop fuel t s (vn r)).

(** GuardArray::protect( 0, m_pHead ) *)
Fixpoint protect_head (fuel : nat) (t s : nat) : prog (option nat) :=
  match fuel with
  | O => Ret None
  | S f =>
      Act a_ld_head (fun r =>
      Act (touch KSt (obj_hz t s)) (fun _ =>
      Act (touch KFaa (obj_sync t)) (fun _ =>
      Act a_ld_head (fun r2 =>
        if Nat.eqb (vn r2) (vn r) then Ret (Some (vn r)) else protect_head f t s))))
  end.

(** GuardArray::protect( 1, h->m_pNext ) *)
Fixpoint protect_next (fuel : nat) (t s h : nat) : prog (option (option nat)) :=
  match fuel with
  | O => Ret None
  | S f =>
      Act (a_ld_next h) (fun r =>
      Act (touch KSt (obj_hz t s)) (fun _ =>
      Act (touch KFaa (obj_sync t)) (fun _ =>
      Act (a_ld_next h) (fun r2 =>
        if opt_eqb (vp r2) (vp r) then Ret (Some (vp r)) else protect_next f t s h))))
  end.

Definition with_ic {R} (cf : conf) (k : akind) (d : Z) (p : prog R) : prog R :=
  if c_ic cf then Act (a_cnt k d) (fun _ => p) else p.

(** ** intrusive::MSQueue::enqueue; [n] = the new node, [s] = the guard's slot; false = out of fuel *)
Fixpoint enq_loop (cf : conf) (fuel : nat) (t s n : nat) : prog bool :=
  match fuel with
  | O => Ret false
  | S f =>
      Conc.bind (protect_tail f t s) (fun ot =>
        match ot with
        | None => Ret false
        | Some tl =>
            Act (a_ld_next tl) (fun r =>
              match vp r with
              | Some nx => Act (a_cas_tail tl nx) (fun _ => enq_loop cf f t s n)
              | None =>
                  Act (a_cas_next tl n) (fun r2 =>
                    if vb r2 then
                      with_ic cf KFaa 1 (Act (a_cas_tail tl n) (fun _ => Ret true))
                    else enq_loop cf f t s n)
              end)
        end)
  end.

(** container::MSQueue::enqueue *)
Definition enqueue (cf : conf) (fuel : nat) (t s : nat) (v : Z) : prog bool :=
  Act (a_alloc v) (fun r =>
    Conc.bind (enq_loop cf fuel t s (vn r)) (fun ok =>
      if ok then Act (touch KSt (obj_hz t s)) (fun _ => Ret true) else Ret false)).

(** ** do_dequeue *)
Inductive dres := DFuel | DEmpty | DGot (h nx : nat) (v : Z).

Fixpoint deq_loop_ms (fuel : nat) (t s0 s1 : nat) : prog dres :=
  match fuel with
  | O => Ret DFuel
  | S f =>
      Conc.bind (protect_head f t s0) (fun oh =>
        match oh with
        | None => Ret DFuel
        | Some h =>
            Conc.bind (protect_next f t s1 h) (fun on =>
              match on with
              | None => Ret DFuel
              | Some pn =>
                  Act a_ld_head (fun r =>
                    if negb (Nat.eqb (vn r) h) then deq_loop_ms f t s0 s1
                    else match pn with
                         | None => Ret DEmpty
                         | Some nx =>
                             Act a_ld_tail (fun r2 =>
                               if Nat.eqb (vn r2) h then
                                 Act (a_cas_tail h nx) (fun _ => deq_loop_ms f t s0 s1)
                               else
                                 Act (a_cas_head h nx) (fun r3 =>
                                   if vb r3 then Ret (DGot h nx (vz r3)) else deq_loop_ms f t s0 s1))
                         end)
              end)
        end)
  end.

Fixpoint deq_loop_moir (fuel : nat) (t s0 s1 : nat) : prog dres :=
  match fuel with
  | O => Ret DFuel
  | S f =>
      Conc.bind (protect_head f t s0) (fun oh =>
        match oh with
        | None => Ret DFuel
        | Some h =>
            Conc.bind (protect_next f t s1 h) (fun on =>
              match on with
              | None => Ret DFuel
              | Some None => Ret DEmpty
              | Some (Some nx) =>
                  Act (a_cas_head h nx) (fun r3 =>
                    if vb r3 then
                      Act a_ld_tail (fun r2 =>
                        if Nat.eqb (vn r2) h then Act (a_cas_tail h nx) (fun _ => Ret (DGot h nx (vz r3)))
                        else Ret (DGot h nx (vz r3)))
                    else deq_loop_moir f t s0 s1)
              end)
        end)
  end.

Definition deq_loop (cf : conf) := if c_moir cf then deq_loop_moir else deq_loop_ms.

(** gc::retire( pHead ) unless pHead is the dummy member *)
Definition retire {R} (cf : conf) (t h : nat) (p : prog R) : prog R :=
  if c_hp cf && negb (Nat.eqb h 0) then
    Act (touch KLd (obj_ret t)) (fun _ => Act (touch KSt (obj_ret t)) (fun _ => p))
  else p.

Definition clear2 {R} (t s0 s1 : nat) (p : prog R) : prog R :=
  Act (touch KSt (obj_hz t s0)) (fun _ => Act (touch KSt (obj_hz t s1)) (fun _ => p)).

(** container::MSQueue::dequeue: [Some (Some v)] got v, [Some None] empty, [None] out of fuel *)
Definition dequeue (cf : conf) (fuel : nat) (t s0 s1 : nat) : prog (option (option Z)) :=
  Conc.bind (deq_loop cf fuel t s0 s1) (fun d =>
    match d with
    | DFuel => Ret None
    | DEmpty => clear2 t s0 s1 (Ret (Some None))
    | DGot h nx v => with_ic cf KFas (-1) (retire cf t h (clear2 t s0 s1 (Ret (Some (Some v)))))
    end).

(** ** client programs *)
Inductive op := OEnq (v : Z) | ODeq.

(** [fl]: the two top slots of the thread's free guard list are swapped *)
Definition slot0 (fl : bool) : nat := if fl then 1%nat else 0%nat.
Definition slot1 (fl : bool) : nat := if fl then 0%nat else 1%nat.

(** result: [Some fl'] = completed (new state of the free list), [None] = out of fuel *)
Definition run_op (cf : conf) (fuel : nat) (t : nat) (fl : bool) (o : op) : prog (option bool) :=
  match o with
  | OEnq v =>
      Emit [EvCli "inv_enq" [v]]
        (Conc.bind (enqueue cf fuel t (slot0 fl) v) (fun ok =>
           if ok then Emit [EvCli "ret_enq" [1]] (Ret (Some fl))
           else Emit [EvCli "outoffuel" []] (Ret None)))
  | ODeq =>
      Emit [EvCli "inv_deq" []]
        (Conc.bind (dequeue cf fuel t (slot0 fl) (slot1 fl)) (fun r =>
           match r with
           | Some (Some v) => Emit [EvCli "ret_deq" [1; v]] (Ret (Some (negb fl)))
           | Some None => Emit [EvCli "ret_deq" [0; 0]] (Ret (Some (negb fl)))
           | None => Emit [EvCli "outoffuel" []] (Ret None)
           end))
  end.

Fixpoint run_ops (cf : conf) (fuel : nat) (t : nat) (fl : bool) (os : list op) : prog unit :=
  match os with
  | [] => Ret tt
  | o :: r =>
      Conc.bind (run_op cf fuel t fl o) (fun x =>
        match x with Some fl' => run_ops cf fuel t fl' r | None => Ret tt end)
  end.

Definition thread_prog (cf : conf) (fuel : nat) (t : nat) (os : list op) : Conc.thread G V ev :=
  Act a_begin (fun _ => run_ops cf fuel t false os).

Fixpoint mapi_from {A B} (f : nat -> A -> B) (i : nat) (l : list A) : list B :=
  match l with
  | [] => []
  | x :: r => f i x :: mapi_from f (S i) r
  end.

(** empty queue: m_pHead = m_pTail = &m_Dummy (node 0), m_Dummy.m_pNext = nullptr *)
Definition init : G := mkG 0 0 (fun _ => None) (fun _ => 0) 1 0.

Definition init_cfg (cf : conf) (fuel : nat) (ths : list (list op)) : Conc.config G V ev :=
  Conc.Cfg init (mapi_from (thread_prog cf fuel) 0 ths) [].

(** ** entry point for the extracted driver *)
Definition decode_op (o : list Z) : option op :=
  match o with
  | [1; v] => Some (OEnq v)
  | [2] => Some ODeq
  | _ => None
  end.

Fixpoint decode_ops (os : list (list Z)) : list op :=
  match os with
  | [] => []
  | o :: r => match decode_op o with Some x => x :: decode_ops r | None => decode_ops r end
  end.

Definition zbool (z : Z) : bool := negb (Z.eqb z 0).

(** cfg = [moir; item counter; hp; loop fuel] *)
Definition run_case (cfg : list Z) (ths : list (list (list Z))) (sched : list nat) (fuel : nat)
  : list (nat * ev) * bool :=
  let cf := mkConf (zbool (nth 0 cfg 0)) (zbool (nth 1 cfg 0)) (zbool (nth 2 cfg 1)) in
  let lfuel := Z.to_nat (nth 3 cfg 1000) in
  let r := Conc.run fuel 0 sched (init_cfg cf lfuel (map decode_ops ths)) in
  (Conc.trace (fst r), snd r).
