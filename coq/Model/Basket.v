(** * Model of cds::container::BasketQueue<GC,int> (cds/container/basket_queue.h) over
      cds::intrusive::BasketQueue (cds/intrusive/basket_queue.h; Hoffman, Shalev, Shavit), GC = gc::HP / gc::DHP.
      One atomic access per [Act].

    MEMORY SAFETY HYPOTHESIS ([smr_safe], DESIGN section 4): never-reusing allocator, as in LV.Model.MSQueue;
    hazard slots, sync_ and the retired cursor appear as events only (loads of a hazard slot by its owner -
    [Guard::get_native], [GuardArray::get] - are events too).

    C++ (current tree), cds/intrusive/basket_queue.h; m_pNext is a marked pointer (bit 0 = "the node this
    pointer leads to is logically deleted"), m_pHead / m_pTail never carry a mark:

      node(): m_pNext.store( marked_ptr())                                                   [1 store]
      bool enqueue( value_type& val ) {
          typename gc::Guard guard;  typename gc::Guard gNext;
          while ( true ) {
              t = guard.protect( m_pTail, ... );
              marked_ptr pNext = t->m_pNext.load();
              if ( pNext.ptr() == nullptr ) {
                  pNew->m_pNext.store( marked_ptr());
                  if ( t->m_pNext.compare_exchange_weak( pNext, marked_ptr(pNew))) {
                      m_pTail.compare_exchange_strong( t, marked_ptr(pNew));          // result ignored
                      break; }
                  // Try adding to basket
              try_again:
                  pNext = gNext.protect( t->m_pNext, ... );
                  if ( m_pTail.load() == t && t->m_pNext.load() == pNext && !pNext.bits()) {
                      bkoff();
                      pNew->m_pNext.store( pNext );
                      if ( t->m_pNext.compare_exchange_weak( pNext, marked_ptr( pNew ))) break;
                      goto try_again; }
              }
              else {
                  // Tail is misplaced, advance it
                  typename gc::template GuardArray<2> g;
                  g.assign( 0, node_traits::to_value_ptr( pNext.ptr()));
                  if ( m_pTail.load() != t || t->m_pNext.load() != pNext ) { bkoff(); continue; }
                  marked_ptr p;  bool bTailOk = true;
                  while ( (p = pNext->m_pNext.load()).ptr() != nullptr ) {
                      bTailOk = m_pTail.load() == t;
                      if ( !bTailOk ) break;
                      g.assign( 1, node_traits::to_value_ptr( p.ptr()));
                      if ( pNext->m_pNext.load() != p ) continue;
                      pNext = p;
                      g.assign( 0, g.template get<value_type>( 1 )); }
                  if ( !bTailOk || !m_pTail.compare_exchange_weak( t, marked_ptr( pNext.ptr()))) ...stat only
              }
          }
          ++m_ItemCounter;  return true; }
      bool do_dequeue( dequeue_result& res, bool bDeque ) {          // res.guards: GuardArray<3>; bDeque = true here
          while ( true ) {
              h = res.guards.protect( 0, m_pHead, ... );
              t = res.guards.protect( 1, m_pTail, ... );
              pNext = res.guards.protect( 2, h->m_pNext, ... );
              if ( h == m_pHead.load()) {
                  if ( h.ptr() == t.ptr()) {
                      if ( !pNext.ptr()) return false;                                  // empty
                      {   typename gc::Guard g;
                          while ( pNext->m_pNext.load().ptr() && m_pTail.load() == t ) {
                              pNext = g.protect( pNext->m_pNext, ... );
                              res.guards.copy( 2, g ); } }                               // ld hp(g); hp2.store; faa
                      m_pTail.compare_exchange_weak( t, marked_ptr(pNext.ptr()));
                  }
                  else {
                      marked_ptr iter( h );  size_t hops = 0;  typename gc::Guard g;
                      while ( pNext.ptr() && pNext.bits() && iter.ptr() != t.ptr() && m_pHead.load() == h ) {
                          iter = pNext;
                          g.assign( res.guards.template get<value_type>(2));             // ld hp2; hp(g).store; faa
                          pNext = res.guards.protect( 2, pNext->m_pNext, ... );
                          ++hops; }
                      if ( m_pHead.load() != h ) continue;
                      if ( iter.ptr() == t.ptr()) free_chain( h, iter );
                      else {                                                            // bDeque
                          res.pNext = pNext.ptr();
                          if ( iter->m_pNext.compare_exchange_weak( pNext, marked_ptr( pNext.ptr(), 1 ))) {
                              if ( hops >= m_nMaxHops ) free_chain( h, pNext );          // m_nMaxHops = 3
                              break; } }
                  }
              }
              bkoff(); }
          --m_ItemCounter;  return true; }
      void free_chain( marked_ptr head, marked_ptr newHead ) {
          if ( m_pHead.compare_exchange_strong( head, marked_ptr(newHead.ptr()))) {
              typename gc::template GuardArray<2> guards;
              guards.assign( 0, node_traits::to_value_ptr(head.ptr()));
              while ( head.ptr() != newHead.ptr()) {
                  marked_ptr pNext = guards.protect( 1, head->m_pNext, ... );
                  dispose_node( head.ptr());                        // gc::retire unless it is the dummy member
                  guards.copy( 0, 1 );                              // ld hp1; hp0.store; faa
                  head = pNext; } } }
    cds/container/basket_queue.h: enqueue allocates the node; dequeue_with copies res.pNext's value.

    [res.pNext == nullptr] after a successful do_dequeue would be dereferenced by the caller; the model stops
    the thread just before the marking CAS in that case (outcome out-of-fuel), as it does for a null
    successor inside free_chain.  Neither was ever observed on the implementation.

    Guard slots: the thread's free guard list is a stack; [Guard] takes the top slot, [GuardArray<k>] the k top
    slots and pushes them back in index order.  The six top slots are tracked ([slots]).

    Client operations: [1; v] enq v: inv_enq v ; ret_enq 1       [2] deq: inv_deq ; ret_deq 1 v | ret_deq 0 0 *)
From Coq Require Import ZArith List String Bool Lia PeanoNat.
From LV Require Import Base.Conc Base.Events.
Import ListNotations.
Local Open Scope Z_scope.
Local Open Scope string_scope.

(** marked pointer *)
Definition mptr := (option nat * bool)%type.
Definition mnull : mptr := (None, false).

Record G := mkG {
  head : nat; tail : nat;
  nxt : nat -> mptr;
  val : nat -> Z;
  nalloc : nat;                   (* node 0 = m_Dummy *)
  cnt : Z
}.

Inductive V := VU | VN (n : nat) | VM (p : mptr) | VBZ (b : bool) (z : Z).
Definition vn (v : V) : nat := match v with VN n => n | _ => O end.
Definition vm (v : V) : mptr := match v with VM p => p | _ => mnull end.
Definition vb (v : V) : bool := match v with VBZ b _ => b | _ => false end.
Definition vz (v : V) : Z := match v with VBZ _ z => z | _ => 0 end.

Definition prog := Conc.prog G V ev.
Definition act := G -> G * V * list ev.

Record conf := mkConf { c_ic : bool; c_hp : bool }.

Definition obj_head : list Z := [0].
Definition obj_tail : list Z := [1].
Definition obj_next (n : nat) : list Z := [2; Z.of_nat n].
Definition obj_hz (t s : nat) : list Z := [3; Z.of_nat t; Z.of_nat s].
Definition obj_sync (t : nat) : list Z := [4; Z.of_nat t].
Definition obj_ret (t : nat) : list Z := [5; Z.of_nat t].
Definition obj_cnt : list Z := [6].

Definition opt_eqb (a b : option nat) : bool :=
  match a, b with
  | Some x, Some y => Nat.eqb x y
  | None, None => true
  | _, _ => false
  end.
Definition mp_eqb (a b : mptr) : bool := opt_eqb (fst a) (fst b) && Bool.eqb (snd a) (snd b).

Definition a_begin : act := fun g => (g, VU, [EvAcc KBegin [] true]).
Definition touch (k : akind) (o : list Z) : act := fun g => (g, VU, [EvAcc k o true]).

Definition upd (f : nat -> mptr) (n : nat) (p : mptr) : nat -> mptr :=
  fun x => if Nat.eqb x n then p else f x.

Definition set_next (g : G) (n : nat) (p : mptr) : G :=
  mkG (head g) (tail g) (upd (nxt g) n p) (val g) (nalloc g) (cnt g).
Definition set_tail (g : G) (x : nat) : G := mkG (head g) x (nxt g) (val g) (nalloc g) (cnt g).
Definition set_head (g : G) (x : nat) : G := mkG x (tail g) (nxt g) (val g) (nalloc g) (cnt g).
Definition set_cnt (g : G) (c : Z) : G := mkG (head g) (tail g) (nxt g) (val g) (nalloc g) c.

(** node construction (m_pNext := null); the node gets its identity here *)
Definition a_alloc (v : Z) : act := fun g =>
  let n := nalloc g in
  (mkG (head g) (tail g) (upd (nxt g) n mnull) (fun x => if Nat.eqb x n then v else val g x) (S n) (cnt g),
   VN n, [EvAcc KSt (obj_next n) true]).
Definition a_st_next (n : nat) (p : mptr) : act := fun g => (set_next g n p, VU, [EvAcc KSt (obj_next n) true]).
Definition a_ld_head : act := fun g => (g, VN (head g), [EvAcc KLd obj_head true]).
Definition a_ld_tail : act := fun g => (g, VN (tail g), [EvAcc KLd obj_tail true]).
Definition a_ld_next (n : nat) : act := fun g => (g, VM (nxt g n), [EvAcc KLd (obj_next n) true]).

Definition a_cas_tail (e d : nat) : act := fun g =>
  if Nat.eqb (tail g) e then (set_tail g d, VBZ true 0, [EvAcc KCas obj_tail true])
  else (g, VBZ false 0, [EvAcc KCas obj_tail false]).
Definition a_cas_head (e d : nat) : act := fun g =>
  if Nat.eqb (head g) e then (set_head g d, VBZ true 0, [EvAcc KCas obj_head true])
  else (g, VBZ false 0, [EvAcc KCas obj_head false]).
(** n->m_pNext.compare_exchange( e, d ) *)
Definition a_cas_next (n : nat) (e d : mptr) : act := fun g =>
  if mp_eqb (nxt g n) e then (set_next g n d, VBZ true 0, [EvAcc KCas (obj_next n) true])
  else (g, VBZ false 0, [EvAcc KCas (obj_next n) false]).
(** the marking CAS of dequeue: iter->m_pNext: (x, 0) -> (x, 1); on success the caller reads x's value *)
Definition a_cas_mark (n x : nat) (e : mptr) : act := fun g =>
  if mp_eqb (nxt g n) e then (set_next g n (Some x, true), VBZ true (val g x), [EvAcc KCas (obj_next n) true])
  else (g, VBZ false 0, [EvAcc KCas (obj_next n) false]).
Definition a_cnt (k : akind) (d : Z) : act := fun g => (set_cnt g (cnt g + d), VU, [EvAcc k obj_cnt true]).

(** hazard-slot traffic *)
Definition hp_assign {R} (t s : nat) (p : prog R) : prog R :=
  Act (touch KSt (obj_hz t s)) (fun _ => Act (touch KFaa (obj_sync t)) (fun _ => p)).
Definition hp_clear {R} (t s : nat) (p : prog R) : prog R := Act (touch KSt (obj_hz t s)) (fun _ => p).
(** assign( d, get( s )) *)
Definition hp_copy {R} (t d s : nat) (p : prog R) : prog R :=
  Act (touch KLd (obj_hz t s)) (fun _ => hp_assign t d p).

(** ** protect loops; [None] = out of fuel *)
(** GuardArray::protect( i, atomic<node*> ) *)
Fixpoint protect_n (fuel : nat) (t s : nat) (ld : act) : prog (option nat) :=
  match fuel with
  | O => Ret None
  | S f =>
      Act ld (fun r => hp_assign t s (
      Act ld (fun r2 => if Nat.eqb (vn r2) (vn r) then Ret (Some (vn r)) else protect_n f t s ld)))
  end.
(** GuardArray::protect( i, n->m_pNext ) *)
Fixpoint protect_m (fuel : nat) (t s n : nat) : prog (option mptr) :=
  match fuel with
  | O => Ret None
  | S f =>
      Act (a_ld_next n) (fun r => hp_assign t s (
      Act (a_ld_next n) (fun r2 => if mp_eqb (vm r2) (vm r) then Ret (Some (vm r)) else protect_m f t s n)))
  end.
(** Guard::protect: load once, then store / re-load until stable *)
Fixpoint gprotect_tail_loop (fuel : nat) (t s : nat) (pcur : nat) : prog (option nat) :=
  match fuel with
  | O => Ret None
  | S f => hp_assign t s (
      Act a_ld_tail (fun r => if Nat.eqb (vn r) pcur then Ret (Some pcur) else gprotect_tail_loop f t s (vn r)))
  end.
Definition gprotect_tail (fuel t s : nat) : prog (option nat) :=
  Act a_ld_tail (fun r => gprotect_tail_loop fuel t s (vn r)).
Fixpoint gprotect_m_loop (fuel : nat) (t s n : nat) (pcur : mptr) : prog (option mptr) :=
  match fuel with
  | O => Ret None
  | S f => hp_assign t s (
      Act (a_ld_next n) (fun r => if mp_eqb (vm r) pcur then Ret (Some pcur) else gprotect_m_loop f t s n (vm r)))
  end.
Definition gprotect_m (fuel t s n : nat) : prog (option mptr) :=
  Act (a_ld_next n) (fun r => gprotect_m_loop fuel t s n (vm r)).

Definition with_ic {R} (cf : conf) (k : akind) (d : Z) (p : prog R) : prog R :=
  if c_ic cf then Act (a_cnt k d) (fun _ => p) else p.

(** ** enqueue *)

(** try_again: [Some true] = linked into the basket, [Some false] = give up (outer loop), [None] = fuel *)
Fixpoint try_again (fuel : nat) (t s1 tl n : nat) : prog (option bool) :=
  match fuel with
  | O => Ret None
  | S f =>
      Conc.bind (gprotect_m f t s1 tl) (fun o =>
        match o with
        | None => Ret None
        | Some pn =>
            Act a_ld_tail (fun r =>
              if negb (Nat.eqb (vn r) tl) then Ret (Some false)
              else Act (a_ld_next tl) (fun r2 =>
                if mp_eqb (vm r2) pn && negb (snd pn) then
                  Act (a_st_next n pn) (fun _ =>
                  Act (a_cas_next tl pn (Some n, false)) (fun r3 =>
                    if vb r3 then Ret (Some true) else try_again f t s1 tl n))
                else Ret (Some false)))
        end)
  end.

(** the while loop that looks for the last node; result (bTailOk, pNext) *)
Fixpoint adv_loop (fuel : nat) (t c d tl pn : nat) : prog (option (bool * nat)) :=
  match fuel with
  | O => Ret None
  | S f =>
      Act (a_ld_next pn) (fun r =>
        match fst (vm r) with
        | None => Ret (Some (true, pn))
        | Some p =>
            Act a_ld_tail (fun r2 =>
              if negb (Nat.eqb (vn r2) tl) then Ret (Some (false, pn))
              else hp_assign t d (
                Act (a_ld_next pn) (fun r3 =>
                  if negb (mp_eqb (vm r3) (vm r)) then adv_loop f t c d tl pn
                  else hp_copy t c d (adv_loop f t c d tl p))))
        end)
  end.

(** result: [Some (c, d)] = enqueued, the two array slots in their final order; [None] = out of fuel *)
Fixpoint enq_loop (cf : conf) (fuel : nat) (t s0 s1 c d n : nat) : prog (option (nat * nat)) :=
  match fuel with
  | O => Ret None
  | S f =>
      Conc.bind (gprotect_tail f t s0) (fun ot =>
        match ot with
        | None => Ret None
        | Some tl =>
            Act (a_ld_next tl) (fun r =>
              match fst (vm r) with
              | None =>
                  Act (a_st_next n mnull) (fun _ =>
                  Act (a_cas_next tl (vm r) (Some n, false)) (fun r2 =>
                    if vb r2 then Act (a_cas_tail tl n) (fun _ => Ret (Some (c, d)))
                    else
                      Conc.bind (try_again f t s1 tl n) (fun x =>
                        match x with
                        | None => Ret None
                        | Some true => Ret (Some (c, d))
                        | Some false => enq_loop cf f t s0 s1 c d n
                        end)))
              | Some p0 =>
                  hp_assign t c (
                  Act a_ld_tail (fun r2 =>
                    if negb (Nat.eqb (vn r2) tl) then hp_clear t c (hp_clear t d (enq_loop cf f t s0 s1 d c n))
                    else Act (a_ld_next tl) (fun r3 =>
                      if negb (mp_eqb (vm r3) (vm r)) then hp_clear t c (hp_clear t d (enq_loop cf f t s0 s1 d c n))
                      else
                        Conc.bind (adv_loop f t c d tl p0) (fun x =>
                          match x with
                          | None => Ret None
                          | Some (true, pl) =>
                              Act (a_cas_tail tl pl) (fun _ => hp_clear t c (hp_clear t d (enq_loop cf f t s0 s1 d c n)))
                          | Some (false, _) => hp_clear t c (hp_clear t d (enq_loop cf f t s0 s1 d c n))
                          end))))
              end)
        end)
  end.

Definition enqueue (cf : conf) (fuel : nat) (t s0 s1 c d : nat) (v : Z) : prog (option (nat * nat)) :=
  Act (a_alloc v) (fun r =>
    Conc.bind (enq_loop cf fuel t s0 s1 c d (vn r)) (fun x =>
      match x with
      | None => Ret None
      | Some cd => with_ic cf KFaa 1 (hp_clear t s1 (hp_clear t s0 (Ret (Some cd))))
      end)).

(** ** free_chain; result: the two array slots in their final order, [None] = fuel / null successor *)
Definition retire {R} (cf : conf) (t h : nat) (p : prog R) : prog R :=
  if c_hp cf && negb (Nat.eqb h 0) then
    Act (touch KLd (obj_ret t)) (fun _ => Act (touch KSt (obj_ret t)) (fun _ => p))
  else p.

Fixpoint free_loop (cf : conf) (fuel : nat) (t a b : nat) (cur nh : nat) : prog (option unit) :=
  match fuel with
  | O => Ret None
  | S f =>
      if Nat.eqb cur nh then Ret (Some tt)
      else
        Conc.bind (protect_m f t b cur) (fun o =>
          match o with
          | None => Ret None
          | Some pn =>
              retire cf t cur (hp_copy t a b (
                match fst pn with
                | None => Ret None
                | Some x => free_loop cf f t a b x nh
                end))
          end)
  end.

Definition free_chain (cf : conf) (fuel : nat) (t a b : nat) (h nh : nat) : prog (option (nat * nat)) :=
  Act (a_cas_head h nh) (fun r =>
    if vb r then
      hp_assign t a (
        Conc.bind (free_loop cf fuel t a b h nh) (fun x =>
          match x with
          | None => Ret None
          | Some _ => hp_clear t a (hp_clear t b (Ret (Some (b, a))))
          end))
    else Ret (Some (a, b))).

(** ** do_dequeue *)

(** h == t and h->next != null: find the last node and move tail there *)
Fixpoint fixtail_loop (fuel : nat) (t s2 sg tl pn : nat) : prog (option nat) :=
  match fuel with
  | O => Ret None
  | S f =>
      Act (a_ld_next pn) (fun r =>
        match fst (vm r) with
        | None => Ret (Some pn)
        | Some _ =>
            Act a_ld_tail (fun r2 =>
              if negb (Nat.eqb (vn r2) tl) then Ret (Some pn)
              else
                Conc.bind (gprotect_m f t sg pn) (fun o =>
                  match o with
                  | None => Ret None
                  | Some q =>
                      hp_copy t s2 sg (
                        match fst q with
                        | None => Ret None               (* pNext became null: the next load dereferences it *)
                        | Some x => fixtail_loop f t s2 sg tl x
                        end)
                  end))
        end)
  end.

(** the hop loop; result (iter, pNext, hops) *)
Fixpoint hop_loop (fuel : nat) (t s2 sg h tl : nat) (iter : nat) (pn : mptr) (hops : nat)
  : prog (option (nat * mptr * nat)) :=
  match fuel with
  | O => Ret None
  | S f =>
      match fst pn with
      | Some x =>
          if snd pn && negb (Nat.eqb iter tl) then
            Act a_ld_head (fun r =>
              if negb (Nat.eqb (vn r) h) then Ret (Some (iter, pn, hops))
              else
                hp_copy t sg s2 (
                  Conc.bind (protect_m f t s2 x) (fun o =>
                    match o with
                    | None => Ret None
                    | Some q => hop_loop f t s2 sg h tl x q (S hops)
                    end)))
          else Ret (Some (iter, pn, hops))
      | None => Ret (Some (iter, pn, hops))
      end
  end.

(** result: DGot x v e f (e, f: the two slots free_chain uses, final order) *)
Inductive dres := DFuel | DEmpty (e f : nat) | DGot (x : nat) (v : Z) (e f : nat).

Fixpoint deq_loop (cf : conf) (fuel : nat) (t s0 s1 s2 sg e f : nat) : prog dres :=
  match fuel with
  | O => Ret DFuel
  | S fu =>
      Conc.bind (protect_n fu t s0 a_ld_head) (fun oh =>
      match oh with None => Ret DFuel | Some h =>
      Conc.bind (protect_n fu t s1 a_ld_tail) (fun ot =>
      match ot with None => Ret DFuel | Some tl =>
      Conc.bind (protect_m fu t s2 h) (fun on =>
      match on with None => Ret DFuel | Some pn =>
        Act a_ld_head (fun r =>
          if negb (Nat.eqb (vn r) h) then deq_loop cf fu t s0 s1 s2 sg e f
          else if Nat.eqb h tl then
            match fst pn with
            | None => Ret (DEmpty e f)
            | Some x =>
                Conc.bind (fixtail_loop fu t s2 sg tl x) (fun o =>
                  match o with
                  | None => Ret DFuel
                  | Some pl =>
                      hp_clear t sg (Act (a_cas_tail tl pl) (fun _ => deq_loop cf fu t s0 s1 s2 sg e f))
                  end)
            end
          else
            Conc.bind (hop_loop fu t s2 sg h tl h pn 0) (fun o =>
              match o with
              | None => Ret DFuel
              | Some (iter, pn', hops) =>
                  Act a_ld_head (fun r2 =>
                    if negb (Nat.eqb (vn r2) h) then hp_clear t sg (deq_loop cf fu t s0 s1 s2 sg e f)
                    else if Nat.eqb iter tl then
                      Conc.bind (free_chain cf fu t e f h iter) (fun y =>
                        match y with
                        | None => Ret DFuel
                        | Some (e', f') => hp_clear t sg (deq_loop cf fu t s0 s1 s2 sg e' f')
                        end)
                    else
                      match fst pn' with
                      | None => Ret DFuel            (* res.pNext = nullptr: see the header *)
                      | Some x =>
                          Act (a_cas_mark iter x pn') (fun r3 =>
                            if vb r3 then
                              if Nat.leb 3 hops then
                                Conc.bind (free_chain cf fu t e f h x) (fun y =>
                                  match y with
                                  | None => Ret DFuel
                                  | Some (e', f') => hp_clear t sg (Ret (DGot x (vz r3) e' f'))
                                  end)
                              else hp_clear t sg (Ret (DGot x (vz r3) e f))
                            else hp_clear t sg (deq_loop cf fu t s0 s1 s2 sg e f))
                      end)
              end))
      end) end) end)
  end.

Definition clear3 {R} (t s0 s1 s2 : nat) (p : prog R) : prog R :=
  hp_clear t s0 (hp_clear t s1 (hp_clear t s2 p)).

(** [Some (r, e, f)]: r = Some v got v / None empty; [None] = out of fuel *)
Definition dequeue (cf : conf) (fuel : nat) (t s0 s1 s2 sg e f : nat) : prog (option (option Z * nat * nat)) :=
  Conc.bind (deq_loop cf fuel t s0 s1 s2 sg e f) (fun d =>
    match d with
    | DFuel => Ret None
    | DEmpty e' f' => clear3 t s0 s1 s2 (Ret (Some (None, e', f')))
    | DGot x v e' f' => with_ic cf KFas (-1) (clear3 t s0 s1 s2 (Ret (Some (Some v, e', f'))))
    end).

(** ** client programs *)
Inductive op := OEnq (v : Z) | ODeq.

(** the six top slots of the thread's free guard list *)
Record slots := mkSl { sl0 : nat; sl1 : nat; sl2 : nat; sl3 : nat; sl4 : nat; sl5 : nat }.
Definition slots0 : slots := mkSl 0 1 2 3 4 5.

Definition run_op (cf : conf) (fuel : nat) (t : nat) (sl : slots) (o : op) : prog (option slots) :=
  match o with
  | OEnq v =>
      Emit [EvCli "inv_enq" [v]]
        (Conc.bind (enqueue cf fuel t (sl0 sl) (sl1 sl) (sl2 sl) (sl3 sl) v) (fun x =>
           match x with
           | Some (c, d) => Emit [EvCli "ret_enq" [1]] (Ret (Some (mkSl (sl0 sl) (sl1 sl) c d (sl4 sl) (sl5 sl))))
           | None => Emit [EvCli "outoffuel" []] (Ret None)
           end))
  | ODeq =>
      Emit [EvCli "inv_deq" []]
        (Conc.bind (dequeue cf fuel t (sl0 sl) (sl1 sl) (sl2 sl) (sl3 sl) (sl4 sl) (sl5 sl)) (fun r =>
           match r with
           | Some (Some v, e, f) =>
               Emit [EvCli "ret_deq" [1; v]] (Ret (Some (mkSl (sl2 sl) (sl1 sl) (sl0 sl) (sl3 sl) e f)))
           | Some (None, e, f) =>
               Emit [EvCli "ret_deq" [0; 0]] (Ret (Some (mkSl (sl2 sl) (sl1 sl) (sl0 sl) (sl3 sl) e f)))
           | None => Emit [EvCli "outoffuel" []] (Ret None)
           end))
  end.

Fixpoint run_ops (cf : conf) (fuel : nat) (t : nat) (sl : slots) (os : list op) : prog unit :=
  match os with
  | [] => Ret tt
  | o :: r =>
      Conc.bind (run_op cf fuel t sl o) (fun x =>
        match x with Some sl' => run_ops cf fuel t sl' r | None => Ret tt end)
  end.

Definition thread_prog (cf : conf) (fuel : nat) (t : nat) (os : list op) : Conc.thread G V ev :=
  Act a_begin (fun _ => run_ops cf fuel t slots0 os).

Fixpoint mapi_from {A B} (f : nat -> A -> B) (i : nat) (l : list A) : list B :=
  match l with
  | [] => []
  | x :: r => f i x :: mapi_from f (S i) r
  end.

Definition init : G := mkG 0 0 (fun _ => mnull) (fun _ => 0) 1 0.

Definition init_cfg (cf : conf) (fuel : nat) (ths : list (list op)) : Conc.config G V ev :=
  Conc.Cfg init (mapi_from (thread_prog cf fuel) 0 ths) [].

Definition decode_op (o : list Z) : option op :=
  match o with
  | [1; v] => Some (OEnq v)
  | [2] => Some ODeq
  | _ => None
  end.

Fixpoint decode_ops (os : list (list Z)) : list op :=
  match os with
  | [] => []
  | o :: r => match decode_op o with Some x => x :: decode_ops r | None => decode_ops r end
  end.

Definition zbool (z : Z) : bool := negb (Z.eqb z 0).

(** cfg = [_; item counter; hp; loop fuel]  (same positions as LV.Model.MSQueue) *)
Definition run_case (cfg : list Z) (ths : list (list (list Z))) (sched : list nat) (fuel : nat)
  : list (nat * ev) * bool :=
  let cf := mkConf (zbool (nth 1 cfg 0)) (zbool (nth 2 cfg 1)) in
  let lfuel := Z.to_nat (nth 3 cfg 1000) in
  let r := Conc.run fuel 0 sched (init_cfg cf lfuel (map decode_ops ths)) in
  (Conc.trace (fst r), snd r).
