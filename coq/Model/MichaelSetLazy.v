(** * Model of cds::intrusive::MichaelHashSet<cds::gc::HP, LazyList<HP,...>, Traits> (cds/intrusive/michael_set.h):
      the same class template as in LV.Model.MichaelSet, instantiated with the lock-based lazy list as bucket type:

        bucket_type& bucket( Q const& key ) { return m_Buckets[ hash_value( key ) ]; }      // hash( key ) & m_nHashBitmask
        bool insert( value_type& val )  { bool bRet = bucket( val ).insert( val ); if ( bRet ) ++m_ItemCounter; return bRet; }
        ... update / erase / unlink / extract / find / contains / get likewise

    The model is the PRODUCT (LV.Model.Product) of [nb] instances of the step-grain LazyList model LV.Model.LazyList
    (property C13, tied to cds/intrusive/impl/lazy_list.h by step correspondence): shared state = one list state (heap of
    nodes with their spin locks, allocator, item counter) per bucket, an operation runs the list program
    [LazyList.run_op] lifted to the bucket of its key.  Bucket selection is literally that of LV.Model.MichaelSet
    ([MichaelSet.bucket nb hs]).  Difference to the real class (as for LV.Model.MichaelSet): the real thread has ONE
    free list of hazard-pointer slots for all buckets, here each bucket keeps its own copy of that local bookkeeping
    (slot numbers only appear as object names of accesses that carry no modelled state); node ids are per bucket
    (each bucket has its own m_Head = 1 / m_Tail = 2, as each real bucket has its own head and tail members).
    No step correspondence of its own.  Operation codes and arguments: those of LazyList.run_op ([code; key; x; y]).
    No proofs in this file. *)
From Coq Require Import ZArith List Arith PeanoNat.
From LV Require Import Base.Conc Base.Events Model.LazyList Model.Product.
From LV Require Model.MichaelSet.
Import ListNotations.

Set Implicit Arguments.

Section MSL.
  (** number of buckets (a power of two in the real class), hash table key -> hash *)
  Variables (nb : nat) (hs : list Z).

  Definition bucket (k : Z) : nat := MichaelSet.bucket nb hs k.

  Definition GP := nat -> LazyList.G.
  Definition progP := Conc.prog GP LazyList.V (nat * ev).
  Definition lsmap := nat -> LazyList.lstate.

  Definition run_opP (fuel sf : nat) (ic : bool) (t : nat) (o : list Z) (lsm : lsmap) : progP (option lsmap) :=
    let b := bucket (nth 1 o 0%Z) in
    Conc.bind (lift b (LazyList.run_op fuel sf ic t o (lsm b)))
      (fun r => match r with Some ls' => Ret (Some (updf lsm b ls')) | None => Ret None end).

  Fixpoint run_opsP (fuel sf : nat) (ic : bool) (t : nat) (os : list (list Z)) (lsm : lsmap) : progP unit :=
    match os with
    | [] => Ret tt
    | o :: r => Conc.bind (run_opP fuel sf ic t o lsm) (fun x => match x with Some lsm' => run_opsP fuel sf ic t r lsm' | None => Ret tt end)
    end.

  Definition thread_progP (fuel sf : nat) (ic : bool) (t : nat) (os : list (list Z)) : Conc.thread GP LazyList.V (nat * ev) :=
    Conc.bind (lift 0 (Act LazyList.a_begin (fun _ => Ret tt))) (fun _ => run_opsP fuel sf ic t os (fun _ => LazyList.init_ls)).

  Definition initP : GP := fun _ => LazyList.init.

  Fixpoint thread_progsP (fuel sf : nat) (ic : bool) (t : nat) (ths : list (list (list Z))) : list (Conc.thread GP LazyList.V (nat * ev)) :=
    match ths with
    | [] => []
    | os :: r => thread_progP fuel sf ic t os :: thread_progsP fuel sf ic (S t) r
    end.

  Definition init_cfgP (fuel sf : nat) (ic : bool) (ths : list (list (list Z))) : Conc.config GP LazyList.V (nat * ev) :=
    Conc.Cfg initP (thread_progsP fuel sf ic 0 ths) [].
End MSL.
