(** * Model of cds::intrusive::MichaelList<cds::gc::HP, T, Traits> (cds/intrusive/impl/michael_list.h),
      one atomic access of the C++ code per [Act], hazard-pointer guard traffic included.

    C++ (current tree), class MichaelList, back_off = default (no atomics), stat = empty_stat (no atomics),
    item_counter = atomicity::empty_item_counter (cfg: variant 0) or atomicity::item_counter (variant 3):

      static bool link_node( node_type * pNode, position& pos ) {
          marked_node_ptr cur(pos.pCur);
          pNode->m_pNext.store( cur, release );                                               // [a_alloc_st / a_st_next]
          if ( pos.pPrev->compare_exchange_strong( cur, marked_node_ptr(pNode), release, relaxed ))    // [a_cas]  LP of insert
              return true;
          pNode->m_pNext.store( marked_node_ptr(), relaxed );                                 // [a_st_next n 0]
          return false;
      }
      static bool unlink_node( position& pos ) {
          marked_node_ptr next(pos.pNext, 0);
          if ( pos.pCur->m_pNext.compare_exchange_strong( next, marked_node_ptr(pos.pNext, 1), release, relaxed )) {  // mark CAS: LP of erase
              marked_node_ptr cur(pos.pCur);
              if ( pos.pPrev->compare_exchange_strong( cur, marked_node_ptr( pos.pNext ), acquire, relaxed ))         // physical CAS
                  retire_node( pos.pCur );                                                    // [retire]
              return true;
          }
          return false;
      }
      bool search( atomic_node_ptr& refHead, const Q& val, position& pos, Compare cmp ) {
      try_again:
          pPrev = &refHead;  pNext = nullptr;
          pCur = pos.guards.protect( guard_current_item, *pPrev, to_value_ptr );              // [protect]
          while ( true ) {
              if ( pCur.ptr() == nullptr ) { pos = (pPrev, nullptr, nullptr); return false; }
              pNext = pos.guards.protect( guard_next_item, pCur->m_pNext, to_value_ptr );     // [protect]
              if ( pPrev->load(acquire).all() != pCur.ptr()) { bkoff(); goto try_again; }     // [a_ld]  re-validation
              if ( pNext.bits() == 1 ) {                      // pCur is logically deleted: help to unlink it
                  marked_node_ptr cur( pCur.ptr());
                  if ( pPrev->compare_exchange_strong( cur, marked_node_ptr( pNext.ptr()), acquire, relaxed ))    // [a_cas]
                      retire_node( pCur.ptr());                                               // [retire]
                  else { bkoff(); goto try_again; }
              }
              else {
                  int nCmp = cmp( *to_value_ptr( pCur.ptr()), val );       // keys are immutable: local computation
                  if ( nCmp >= 0 ) { pos = (pPrev, pCur.ptr(), pNext.ptr()); return nCmp == 0; }
                  pPrev = &( pCur->m_pNext );
                  pos.guards.copy( guard_prev_item, guard_current_item );                     // [copy_guard]
              }
              pCur = pNext;
              pos.guards.copy( guard_current_item, guard_next_item );                         // [copy_guard]
          }
      }
      insert_at:   while (true) { if ( search(..)) return false;  if ( link_node( pNode, pos )) { ++m_ItemCounter; return true; } }
      insert_at(f):while (true) { if ( search(..)) return false;  typename gc::Guard guard; guard.assign( &val );
                                  if ( link_node( pNode, pos )) { f( val ); ++m_ItemCounter; return true; } }
      update_at:   while (true) { if ( search(..)) { if ( pos.pCur->m_pNext.load(acquire).bits()) { back_off()(); continue; }
                                                     func( false, *pos.pCur, val ); return (true,false); }
                                  else { if ( !bInsert ) return (false,false);
                                         typename gc::Guard guard; guard.assign( &val );
                                         if ( link_node( pNode, pos )) { ++m_ItemCounter; func( true, val, val ); return (true,true); } } }
      unlink_at:   while ( search(..)) { if ( to_value_ptr( pos.pCur ) == &val ) { if ( unlink_node( pos )) { --m_ItemCounter; return true; } else bkoff(); }
                                         else break; }   return false;
      erase_at:    while ( search(..)) { if ( unlink_node( pos )) { f( *pos.pCur ); --m_ItemCounter; return true; } else bkoff(); }  return false;
      extract_at:  while ( search(..)) { if ( unlink_node( pos )) { --m_ItemCounter; return guarded_ptr( pos.guards.release( guard_current_item )); } else bkoff(); }
                   return guarded_ptr();
      find_at:     if ( search(..)) { [f( *pos.pCur, val );] return true; }  return false;
      get_at:      if ( search(..)) return guarded_ptr( pos.guards.release( guard_current_item ));  return guarded_ptr();

    cds/gc/hp.h, GuardArray<3> (position::guards; slots guard_prev_item = 0, guard_current_item = 1, guard_next_item = 2):
      GuardArray()  : hazards_.alloc( guards_ )   takes the first three guards of the thread's free list (no atomic)
      ~GuardArray() : hazards_.free( guards_ )    for i = 0..2: if guards_[i] { guards_[i]->clear(); push on the free list }   // [a_gst] each
      protect( i, toGuard, f ): do { assign( i, f( pRet = toGuard.load(relaxed))); } while ( pRet != toGuard.load(acquire));  // [a_ld][a_gst][a_sync][a_ld]
      assign( i, p ): guards_.set( i, p ); tls()->sync();     // hazard store, then sync_.fetch_add(1)                          // [a_gst][a_sync]
      copy( d, s )  : assign( d, get_native( s ));            // guard load, hazard store, sync                                  // [a_gld][a_gst][a_sync]
    Guard:  Guard() pops one guard (no atomic);  assign(p) = [a_gst][a_sync];  ~Guard() = clear() [a_gst], push on the free list.
    guarded_ptr (extract / get): owns the released guard; its destructor clears it [a_gst] and pushes it on the free list.
      The harness (adapters.h smr_guarded) tests and dereferences a non-empty guarded_ptr: guard_->get() twice   // [a_gld][a_gld]
    gc::HP::retire<Disposer>( p ): retired_.push(): cur = current_.load(relaxed); *cur = p; current_.store( cur + 1 )    // [a_rld][a_rst]
      (the harness gives cds::gc::HP a retired capacity that is never reached inside a case: scan() does not run,
       nothing is freed or reused during a case)

    MEMORY SAFETY IS A HYPOTHESIS OF THIS MODEL (DESIGN 4, [smr_safe]): node ids come from a never-reusing allocator
    ([nalloc] only grows) and a retired node stays readable for ever.  That "no node is recycled while a validated guard
    can still reach it" is the conclusion of the C01 theorems for cds::gc::HP; the guard traffic is modelled here only so
    that the step correspondence sees every atomic access, it carries no state.

    A node id is allocated at the node's first atomic access (the m_pNext store of link_node): the harness allocates
    the item earlier, but nothing can observe it before that store.  Keys are immutable: every value [V] read from a
    pointer cell carries the key of the node it points to.

    Client operations (harness/C13/list_ops.h: [code; key; x; v]) and events  inv / fn / ret  exactly as the harness
    emits them (the harness' extra "sp" records are ignored by the comparison):
       1 insert  2 insert with functor  3 update (x bit 0 = bAllowInsert)  4 erase  5 erase with functor
       6 unlink (the item this thread linked last with that key; a never-linked item otherwise)
       7 extract  8 get  9 contains  10 find with functor                                                     *)
From Coq Require Import ZArith List String Bool Lia PeanoNat.
From LV Require Import Base.Conc Base.Events.
Import ListNotations.
Local Open Scope Z_scope.
Local Open Scope string_scope.

(** ** shared state *)
Record node := mkNode { nkey : Z; nnext : nat; nmark : bool }.
(** [heap n]: node with id n; ids 1 .. nalloc are allocated, pointer value 0 = nullptr.  The list head m_pHead is
    the m_pNext cell of the pseudo node 0 (never marked, never pointed to, its key is never read), so that every
    pointer cell of the list is "the next field of node n".  [count]: m_ItemCounter *)
Record G := mkG { heap : nat -> node; nalloc : nat; count : Z }.

(** value returned by an access: pointer, mark bit, key of the pointee; a CAS reports success in [vmark] *)
Record V := mkV { vptr : nat; vmark : bool; vkey : Z }.
Definition v0 : V := mkV 0 false 0.
Definition vok (b : bool) : V := mkV 0 b 0.

Definition prog := Conc.prog G V ev.

(** a pointer cell: the m_pNext of node [n]; [LHead] = m_pHead *)
Definition loc := nat.
Definition LHead : loc := 0%nat.
Definition LNext (n : nat) : loc := n.

Definition rd (g : G) (l : loc) : nat * bool := (nnext (heap g l), nmark (heap g l)).

Definition upd_heap (h : nat -> node) (n : nat) (x : node) : nat -> node :=
  fun m => if Nat.eqb m n then x else h m.

Definition wr (g : G) (l : loc) (p : nat) (m : bool) : G :=
  mkG (upd_heap (heap g) l (mkNode (nkey (heap g l)) p m)) (nalloc g) (count g).

Definition obj_loc (l : loc) : list Z := [1; Z.of_nat l].
Definition obj_guard (t s : nat) : list Z := [2; Z.of_nat t; Z.of_nat s].
Definition obj_sync (t : nat) : list Z := [3; Z.of_nat t].
Definition obj_retired (t : nat) : list Z := [4; Z.of_nat t].
Definition obj_count : list Z := [5].

Definition act := G -> G * V * list ev.

Definition a_begin : act := fun g => (g, v0, [EvAcc KBegin [] true]).

Definition a_ld (l : loc) : act :=
  fun g => let (p, m) := rd g l in (g, mkV p m (nkey (heap g p)), [EvAcc KLd (obj_loc l) true]).

(** compare_exchange_strong( expected = (ep, unmarked), desired = (np, nm) ): every CAS of the list expects an unmarked value *)
Definition a_cas (l : loc) (ep np : nat) (nm : bool) : act :=
  fun g => let (p, m) := rd g l in
    if Nat.eqb p ep && negb m then (wr g l np nm, vok true, [EvAcc KCas (obj_loc l) true])
    else (g, vok false, [EvAcc KCas (obj_loc l) false]).

(** first access of a fresh node: allocate id [S (nalloc g)] with key [k] and store its m_pNext *)
Definition a_alloc_st (k : Z) (p : nat) : act :=
  fun g => let n := S (nalloc g) in
    (mkG (upd_heap (heap g) n (mkNode k p false)) n (count g), mkV n false k, [EvAcc KSt (obj_loc (LNext n)) true]).

(** plain store to the m_pNext of the caller's own unlinked node *)
Definition a_st_next (n p : nat) : act :=
  fun g => (wr g (LNext n) p false, mkV n false (nkey (heap g n)), [EvAcc KSt (obj_loc (LNext n)) true]).

(** accesses that carry no modelled state: hazard slots, sync_, retired array cursor *)
Definition a_nop (k : akind) (o : list Z) : act := fun g => (g, v0, [EvAcc k o true]).
Definition a_gst (t s : nat) : act := a_nop KSt (obj_guard t s).
Definition a_gld (t s : nat) : act := a_nop KLd (obj_guard t s).
Definition a_sync (t : nat) : act := a_nop KFaa (obj_sync t).
Definition a_rld (t : nat) : act := a_nop KLd (obj_retired t).
Definition a_rst (t : nat) : act := a_nop KSt (obj_retired t).
Definition a_cnt (k : akind) (d : Z) : act :=
  fun g => (mkG (heap g) (nalloc g) (count g + d), v0, [EvAcc k obj_count true]).

Notation "x <- p ;; q" := (Conc.bind p (fun x => q)) (at level 61, p at next level, right associativity).

Definition veqb (a b : V) : bool := Nat.eqb (vptr a) (vptr b) && Bool.eqb (vmark a) (vmark b).

(** ** hazard-pointer plumbing (no modelled state; [fr] = the thread's free list of guard slots) *)
Fixpoint protect (fuel : nat) (t s : nat) (l : loc) : prog (option V) :=
  match fuel with
  | O => Ret None
  | S f =>
      Act (a_ld l) (fun v => Act (a_gst t s) (fun _ => Act (a_sync t) (fun _ => Act (a_ld l) (fun v' =>
        if veqb v v' then Ret (Some v) else protect f t s l))))
  end.

Definition assign_guard (t s : nat) : prog unit :=
  Act (a_gst t s) (fun _ => Act (a_sync t) (fun _ => Ret tt)).
Definition copy_guard (t d s : nat) : prog unit :=
  Act (a_gld t s) (fun _ => assign_guard t d).
Definition clear_guard (t s : nat) : prog unit := Act (a_gst t s) (fun _ => Ret tt).
Definition retire (t : nat) : prog unit :=
  Act (a_rld t) (fun _ => Act (a_rst t) (fun _ => Ret tt)).

(** the harness tests the returned guarded_ptr ( !gp : guard load ) and dereferences it ( *gp : guard load ) *)
Definition use_guarded (t s : nat) : prog unit :=
  Act (a_gld t s) (fun _ => Act (a_gld t s) (fun _ => Ret tt)).

(** GuardArray<3>: slots (guard_prev, guard_current, guard_next) *)
Definition alloc3 (fr : list nat) : (nat * nat * nat) * list nat :=
  match fr with
  | a :: b :: c :: r => ((a, b, c), r)
  | _ => ((0, 0, 0)%nat, fr)
  end.
Definition alloc1 (fr : list nat) : nat * list nat :=
  match fr with a :: r => (a, r) | [] => (0%nat, []) end.

(** ~GuardArray: clear and free the listed guards in array order; returns the new free list *)
Fixpoint free_guards (t : nat) (gs fr : list nat) : prog (list nat) :=
  match gs with
  | [] => Ret fr
  | s :: r => Act (a_gst t s) (fun _ => free_guards t r (s :: fr))
  end.

(** ** search *)
Record pos := mkPos { pprev : loc; pcur : nat; pnext : nat }.

(** [st = None]: at try_again; [Some (pPrev, pCur)]: at the head of the while loop *)
Fixpoint search (fuel : nat) (t g0 g1 g2 : nat) (k : Z) (st : option (loc * V)) : prog (option (bool * pos)) :=
  match fuel with
  | O => Ret None
  | S f =>
      match st with
      | None =>
          ov <- protect f t g1 LHead ;;
          match ov with
          | None => Ret None
          | Some v => search f t g0 g1 g2 k (Some (LHead, v))
          end
      | Some (pPrev, pCur) =>
          if Nat.eqb (vptr pCur) 0 then Ret (Some (false, mkPos pPrev 0 0))
          else
            ov <- protect f t g2 (LNext (vptr pCur)) ;;
            match ov with
            | None => Ret None
            | Some pNext =>
                Act (a_ld pPrev) (fun pv =>
                  if negb (Nat.eqb (vptr pv) (vptr pCur) && negb (vmark pv)) then search f t g0 g1 g2 k None
                  else if vmark pNext then
                    Act (a_cas pPrev (vptr pCur) (vptr pNext) false) (fun r =>
                      if vmark r then
                        _ <- retire t ;;
                        _ <- copy_guard t g1 g2 ;;
                        search f t g0 g1 g2 k (Some (pPrev, pNext))
                      else search f t g0 g1 g2 k None)
                  else if Z.leb k (vkey pCur) then
                    Ret (Some (Z.eqb (vkey pCur) k, mkPos pPrev (vptr pCur) (vptr pNext)))
                  else
                    _ <- copy_guard t g0 g1 ;;
                    _ <- copy_guard t g1 g2 ;;
                    search f t g0 g1 g2 k (Some (LNext (vptr pCur), pNext)))
            end
      end
  end.

(** ** link / unlink *)
(** [own]: the caller's node if it was allocated by an earlier attempt; returns (linked, node id) *)
Definition link_node (own : option nat) (k : Z) (p : pos) : prog (bool * nat) :=
  Act (match own with None => a_alloc_st k (pcur p) | Some n => a_st_next n (pcur p) end) (fun v =>
    let n := vptr v in
    Act (a_cas (pprev p) (pcur p) n false) (fun r =>
      if vmark r then Ret (true, n)
      else Act (a_st_next n 0) (fun _ => Ret (false, n)))).

Definition unlink_node (t : nat) (p : pos) : prog bool :=
  Act (a_cas (LNext (pcur p)) (pnext p) (pnext p) true) (fun r =>
    if vmark r then
      Act (a_cas (pprev p) (pcur p) (pnext p) false) (fun r2 =>
        if vmark r2 then (_ <- retire t ;; Ret true) else Ret true)
    else Ret false).

(** ** client-visible events *)
Definition ev_inv (o : list Z) : ev :=
  EvCli "inv" [nth 0 o 0; nth 1 o 0; nth 2 o 0; nth 3 o 0].
Definition ev_fn (code flag k : Z) : ev := EvCli "fn" [code; flag; k].
Definition ev_ret (a b : Z) : ev := EvCli "ret" [a; b].
Definition zb (b : bool) : Z := if b then 1 else 0.

Definition cnt_inc (ic : bool) : prog unit := if ic then Act (a_cnt KFaa 1) (fun _ => Ret tt) else Ret tt.
Definition cnt_dec (ic : bool) : prog unit := if ic then Act (a_cnt KFas (-1)) (fun _ => Ret tt) else Ret tt.

(** outcome of an operation body: [None] = out of fuel *)
Definition out (A : Type) := option A.

(** insert_at / insert_at with functor: returns (result, linked node) *)
Fixpoint insert_loop (fuel sf : nat) (ic withf : bool) (t g0 g1 g2 : nat) (k : Z) (fr : list nat) (own : option nat)
  : prog (out (bool * option nat)) :=
  match fuel with
  | O => Ret None
  | S f =>
      r <- search sf t g0 g1 g2 k None ;;
      match r with
      | None => Ret None
      | Some (true, _) => Ret (Some (false, None))
      | Some (false, p) =>
          if withf then
            let (g, fr') := alloc1 fr in
            _ <- assign_guard t g ;;
            ln <- link_node own k p ;;
            if fst ln then
              Emit [ev_fn 2 1 k] (_ <- cnt_inc ic ;; _ <- clear_guard t g ;; Ret (Some (true, Some (snd ln))))
            else
              _ <- clear_guard t g ;; insert_loop f sf ic withf t g0 g1 g2 k fr (Some (snd ln))
          else
            ln <- link_node own k p ;;
            if fst ln then _ <- cnt_inc ic ;; Ret (Some (true, Some (snd ln)))
            else insert_loop f sf ic withf t g0 g1 g2 k fr (Some (snd ln))
      end
  end.

(** update_at: returns ((first, second), linked node) *)
Fixpoint update_loop (fuel sf : nat) (ic allow : bool) (t g0 g1 g2 : nat) (k : Z) (fr : list nat) (own : option nat)
  : prog (out (bool * bool * option nat)) :=
  match fuel with
  | O => Ret None
  | S f =>
      r <- search sf t g0 g1 g2 k None ;;
      match r with
      | None => Ret None
      | Some (true, p) =>
          Act (a_ld (LNext (pcur p))) (fun v =>
            if vmark v then update_loop f sf ic allow t g0 g1 g2 k fr own
            else Emit [ev_fn 3 0 k] (Ret (Some (true, false, None))))
      | Some (false, p) =>
          if negb allow then Ret (Some (false, false, None))
          else
            let (g, fr') := alloc1 fr in
            _ <- assign_guard t g ;;
            ln <- link_node own k p ;;
            if fst ln then
              _ <- cnt_inc ic ;;
              Emit [ev_fn 3 1 k] (_ <- clear_guard t g ;; Ret (Some (true, true, Some (snd ln))))
            else
              _ <- clear_guard t g ;; update_loop f sf ic allow t g0 g1 g2 k fr (Some (snd ln))
      end
  end.

(** erase_at (code 4 / 5), unlink_at (code 6: [mine] = the caller's item, 0 = an item that was never linked),
    extract_at (code 7): returns true iff the node was marked by this call *)
Fixpoint erase_loop (fuel sf : nat) (ic : bool) (code : Z) (mine : nat) (t g0 g1 g2 : nat) (k : Z) : prog (out bool) :=
  match fuel with
  | O => Ret None
  | S f =>
      r <- search sf t g0 g1 g2 k None ;;
      match r with
      | None => Ret None
      | Some (false, _) => Ret (Some false)
      | Some (true, p) =>
          if Z.eqb code 6 && negb (Nat.eqb (pcur p) mine) then Ret (Some false)
          else
            ok <- unlink_node t p ;;
            if ok then
              (if Z.eqb code 5 then Emit [ev_fn 5 1 k] (_ <- cnt_dec ic ;; Ret (Some true))
               else _ <- cnt_dec ic ;; Ret (Some true))
            else erase_loop f sf ic code mine t g0 g1 g2 k
      end
  end.

(** the thread's own items: key -> node linked last by this thread *)
Fixpoint own_find (k : Z) (l : list (Z * nat)) : nat :=
  match l with
  | [] => 0%nat
  | (k', n) :: r => if Z.eqb k k' then n else own_find k r
  end.
Definition own_set (k : Z) (n : nat) (l : list (Z * nat)) : list (Z * nat) :=
  (k, n) :: filter (fun kn => negb (Z.eqb k (fst kn))) l.
Definition own_del (k : Z) (l : list (Z * nat)) : list (Z * nat) :=
  filter (fun kn => negb (Z.eqb k (fst kn))) l.

(** thread-local state between operations: free list of guard slots, own items *)
Definition lstate := (list nat * list (Z * nat))%type.

Definition give_up : prog (out lstate) := Emit [EvCli "outoffuel" []] (Ret None).

(** one client operation; [None] = out of fuel (the thread stops) *)
Definition run_op (fuel sf : nat) (ic : bool) (t : nat) (o : list Z) (ls : lstate) : prog (out lstate) :=
  let code := nth 0 o 0 in
  let k := nth 1 o 0 in
  let x := nth 2 o 0 in
  let '(fr, own) := ls in
  let '((g0, g1, g2), fr1) := alloc3 fr in
  if Z.leb 1 code && Z.leb code 10 then
    Emit [ev_inv o]
    (if (Z.eqb code 1) || (Z.eqb code 2) then
       r <- insert_loop fuel sf ic (Z.eqb code 2) t g0 g1 g2 k fr1 None ;;
       match r with
       | None => give_up
       | Some (b, on) =>
           fr2 <- free_guards t [g0; g1; g2] fr1 ;;
           Emit [ev_ret (zb b) 0] (Ret (Some (fr2, match on with Some n => own_set k n own | None => own end)))
       end
     else if Z.eqb code 3 then
       r <- update_loop fuel sf ic (Z.odd x) t g0 g1 g2 k fr1 None ;;
       match r with
       | None => give_up
       | Some (a, b, on) =>
           fr2 <- free_guards t [g0; g1; g2] fr1 ;;
           Emit [ev_ret (zb a) (zb b)] (Ret (Some (fr2, match on with Some n => own_set k n own | None => own end)))
       end
     else if (Z.eqb code 4) || (Z.eqb code 5) || (Z.eqb code 6) then
       let mine := own_find k own in
       r <- erase_loop fuel sf ic code mine t g0 g1 g2 k ;;
       match r with
       | None => give_up
       | Some b =>
           fr2 <- free_guards t [g0; g1; g2] fr1 ;;
           Emit [ev_ret (zb b) (if Z.eqb code 6 then zb (negb (Nat.eqb mine 0)) else 0)]
             (Ret (Some (fr2, if (Z.eqb code 6) && b then own_del k own else own)))
       end
     else if Z.eqb code 7 then
       r <- erase_loop fuel sf ic 7 0 t g0 g1 g2 k ;;
       match r with
       | None => give_up
       | Some true =>
           (* guarded_ptr took guard_current; ~position frees the other two, then ~guarded_ptr *)
           fr2 <- free_guards t [g0; g2] fr1 ;;
           _ <- use_guarded t g1 ;;
           fr3 <- free_guards t [g1] fr2 ;;
           Emit [ev_ret 1 (k + 1)] (Ret (Some (fr3, own)))
       | Some false =>
           fr2 <- free_guards t [g0; g1; g2] fr1 ;;
           Emit [ev_ret 0 0] (Ret (Some (fr2, own)))
       end
     else
       (* 8 get, 9 contains, 10 find with functor *)
       r <- search sf t g0 g1 g2 k None ;;
       match r with
       | None => give_up
       | Some (found, _) =>
           if (Z.eqb code 8) && found then
             fr2 <- free_guards t [g0; g2] fr1 ;;
             _ <- use_guarded t g1 ;;
             fr3 <- free_guards t [g1] fr2 ;;
             Emit [ev_ret 1 (k + 1)] (Ret (Some (fr3, own)))
           else if (Z.eqb code 10) && found then
             Emit [ev_fn 10 1 k]
               (fr2 <- free_guards t [g0; g1; g2] fr1 ;;
                Emit [ev_ret 1 0] (Ret (Some (fr2, own))))
           else
             fr2 <- free_guards t [g0; g1; g2] fr1 ;;
             Emit [ev_ret (zb found) 0] (Ret (Some (fr2, own)))
       end)
  else Ret (Some ls).

Fixpoint run_ops (fuel sf : nat) (ic : bool) (t : nat) (os : list (list Z)) (ls : lstate) : prog unit :=
  match os with
  | [] => Ret tt
  | o :: r =>
      x <- run_op fuel sf ic t o ls ;;
      match x with
      | None => Ret tt
      | Some ls' => run_ops fuel sf ic t r ls'
      end
  end.

Definition init_ls : lstate := (seq 0 16, []).

Definition thread_prog (fuel sf : nat) (ic : bool) (t : nat) (os : list (list Z)) : Conc.thread G V ev :=
  Act a_begin (fun _ => run_ops fuel sf ic t os init_ls).

Definition init : G := mkG (fun _ => mkNode 0 0 false) 0 0.

Fixpoint thread_progs (fuel sf : nat) (ic : bool) (t : nat) (ths : list (list (list Z))) : list (Conc.thread G V ev) :=
  match ths with
  | [] => []
  | os :: r => thread_prog fuel sf ic t os :: thread_progs fuel sf ic (S t) r
  end.

Definition init_cfg (fuel sf : nat) (ic : bool) (ths : list (list (list Z))) : Conc.config G V ev :=
  Conc.Cfg init (thread_progs fuel sf ic 0 ths) [].

(** ** entry point for the extracted driver.  cfg = [variant id (bit 1: item counter on); mode; max steps] *)
Definition run_case (cfg : list Z) (ths : list (list (list Z))) (sched : list nat) (fuel : nat)
  : list (nat * ev) * bool :=
  let ic := Z.odd (Z.div (nth 0 cfg 0) 2) in
  let r := Conc.run fuel 0 sched (init_cfg 64 400 ic ths) in
  (Conc.trace (fst r), snd r).
