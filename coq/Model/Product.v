(** * Product of [nb] independent instances of a Conc model (an array of containers selected by a function of the key).

    The shared state is a function from the instance index to the state of that instance; a program [p] of the instance model is
    run on instance [b] by [lift b p]: every access works on component [b] only, every event is tagged with [b].
    [projb b tr] is the trace instance [b] has seen.  Definitions only; the proof rule is lifted in Proofs/ProductProofs.v. *)
From Coq Require Import List Arith PeanoNat.
From LV Require Import Base.Conc.
Import ListNotations.

Set Implicit Arguments.

Section Product.
  Variables (G1 V E : Type).

  Definition updf {A} (f : nat -> A) (b : nat) (x : A) : nat -> A := fun b' => if Nat.eqb b' b then x else f b'.

  Definition lift_act (b : nat) (f : G1 -> G1 * V * list E) : (nat -> G1) -> (nat -> G1) * V * list (nat * E) :=
    fun g => let '(g1, v, es) := f (g b) in (updf g b g1, v, map (pair b) es).

  Fixpoint lift {R} (b : nat) (p : Conc.prog G1 V E R) : Conc.prog (nat -> G1) V (nat * E) R :=
    match p with
    | Ret r => Ret r
    | Emit es k => Emit (map (pair b) es) (lift b k)
    | Act f k => Act (lift_act b f) (fun v => lift b (k v))
    end.

  (** the events of instance [b] *)
  Fixpoint projb (b : nat) (tr : list (nat * (nat * E))) : list (nat * E) :=
    match tr with
    | [] => []
    | (t, (b', e)) :: r => if Nat.eqb b' b then (t, e) :: projb b r else projb b r
    end.
End Product.
