(** * Model of the mutex policies of cds::intrusive::StripedSet (cds/intrusive/striped_set/striping_policy.h)
      together with the table they guard, one atomic access per [Act].

    The bucket table is abstracted as one sequential set of items per bucket (every bucket adapter is
    checked observably against that); everything that is an [atomics::atomic] in the C++ is a field of [G]
    accessed by exactly one [Act] per access, in program order.  Non-atomic work (bucket operations, the
    copy of the [m_arrLocks] shared pointer, allocation of a new lock array / bucket table) is attached to
    the atomic access that precedes it, exactly as the deterministic scheduler of the harness runs it.

    C++ being modelled (current tree):

    striped_set::striping<Lock>            m_Locks : lock_array<Lock, pow2_select_policy>, never resized
      scoped_cell_lock( policy, nHash )    m_Locks.lock( nHash )  ==  m_arrLocks[ nHash & (L-1) ].lock()
      scoped_full_lock / scoped_resize_lock   m_Locks.lock_all() ... unlock_all(); success() == true
      resize( n )                          {}
      Lock = cds::sync::spin_lock<backoff::empty>:
        lock():   while ( !try_lock()) { while ( m_spin.load()) backoff(); }     try_lock(): !m_spin.exchange( true )
        unlock(): m_spin.store( false )

    striped_set::refinable<RecursiveLock, BackOff>
        m_arrLocks : shared_ptr<lock_array<RecursiveLock, trivial>>;  m_Owner : atomic<owner_t>;
        m_nCapacity : atomic<size_t>;  m_access : cds::sync::spin
      acquire( nHash ):
        while ( true ) {
            while ( true ) { who = m_Owner.load(); if ( !(who & 1) || (who >> 1) == me ) break; bkoff(); }
            { scoped_spinlock sl( m_access ); pLocks = m_arrLocks; }
            lock_type& lock = pLocks->at( nHash & ( pLocks->size() - 1 )); lock.lock();
            who = m_Owner.load();
            if (( !(who & 1) || (who >> 1) == me ) && m_arrLocks == pLocks ) return lock;
            lock.unlock();
        }
      acquire_resize():
        for ( nAttempts = 0; nAttempts < 32; ++nAttempts ) {
            owner_t ownNull = 0;
            if ( m_Owner.compare_exchange_strong( ownNull, (me << 1) | 1 )) {
                lock_array_ptr pOldLocks = m_arrLocks;
                for ( i = 0; i < pOldLocks->size(); ++i ) { lock& l = pOldLocks->at(i); while ( !l.try_lock()) bkoff(); l.unlock(); }
                return true;
            }
            else bkoff();
        }
        return false;
      release_resize():  m_Owner.store( 0 )
      resize( n ):  pNewArr = create_lock_array( n )   [ m_nCapacity.store( n ); new lock_array( n ) ];
                    scoped_spinlock sl( m_access ); m_arrLocks.swap( pNewArr );
      RecursiveLock = cds::sync::reentrant_spin_lock<uint32_t, backoff::empty>:
        lock():     if ( m_OwnerId.load() == tid ) m_spin.fetch_add( 1 );
                    else { while ( !m_spin.compare_exchange_weak( 0 -> 1 )) { while ( m_spin.load()) bkoff(); }  m_OwnerId.store( tid ); }
        try_lock(): if ( m_OwnerId.load() == tid ) { m_spin.fetch_add( 1 ); return true; }
                    if ( m_spin.compare_exchange_weak( 0 -> 1 )) { m_OwnerId.store( tid ); return true; } return false;
        unlock():   n = m_spin.load(); if ( n > 1 ) m_spin.store( n - 1 ); else { m_OwnerId.store( 0 ); m_spin.store( 0 ); }

    StripedSet (cds/intrusive/striped_set.h):
      bucket( nHash )      m_Buckets + ( nHash & m_nBucketMask.load())
      resize():            nOldCapacity = bucket_count();                      [ m_nBucketMask.load() + 1 ]
                           scoped_resize_lock al( m_MutexPolicy );
                           if ( al.success()) { if ( nOldCapacity != bucket_count()) return; internal_resize( nOldCapacity * 2 ); }
      internal_resize(n):  m_MutexPolicy.resize( n ); nOldCapacity = bucket_count(); pOldBuckets = m_Buckets;
                           alloc_bucket_table( n )   [ m_nBucketMask.store( n - 1 ); m_Buckets = new bucket[n] ];
                           for every item of every old bucket: bucket( m_Hash( item ))->move_item( ... )   [ one m_nBucketMask.load() each ]
                           free old table; m_ResizingPolicy.reset();

    [a & (2^e - 1)] is written [a mod 2^e]: capacities are powers of two (the C++ asserts it). *)
From Coq Require Import ZArith List String Bool Lia PeanoNat.
From LV Require Import Base.Conc Base.Events.
Import ListNotations.
Local Open Scope nat_scope.

(** ** hash-function table shared with harness/C16/c16.h [hfun] *)
Definition hfun (mode : nat) (k : nat) : nat :=
  match mode with
  | 0 => k
  | 1 => k + 1
  | 2 => 7 - k
  | 3 => Nat.div2 k
  | 4 => 3 * k + 1
  | 5 => 16 * k
  | 6 => 4 * k
  | 7 => 32 * k
  | _ => k
  end.

(** ** shared state *)
Definition item := (nat * nat)%type.          (* key, owner thread of the node object *)

Record G := mkG {
  spins : nat -> bool;             (* striping: m_Locks[i].m_spin                                   *)
  owner : nat;                     (* refinable: m_Owner, 0 or 2 * me + 1                           *)
  pcap : nat;                      (* refinable: m_nCapacity of the policy                          *)
  access : bool;                   (* refinable: m_access.m_spin                                    *)
  cur : nat;                       (* refinable: identity (generation) of the array m_arrLocks      *)
  ngen : nat;                      (* allocator: next lock-array generation                         *)
  gsize : nat -> nat;              (* size of lock array g                                          *)
  rspin : nat -> nat -> nat;       (* reentrant lock (g, i): m_spin                                 *)
  rown : nat -> nat -> nat;        (* reentrant lock (g, i): m_OwnerId, 0 = nobody, else me         *)
  mask : nat;                      (* m_nBucketMask                                                 *)
  count : nat;                     (* m_ItemCounter                                                 *)
  buckets : list (list item)       (* *m_Buckets: one sequential set per bucket                     *)
}.

(** the value an access hands to the continuation: the value read, the identity and the size of the current
    lock array (read non-atomically in the same step, e.g. under m_access), a list of items (contents of the old table when a resize starts) *)
Record V := mkV { vn : nat; vm : nat; vs : nat; vl : list item }.
Definition vnat (n : nat) : V := mkV n 0 0 [].

Definition prog := Conc.prog G V ev.

Definition upd1 {A} (f : nat -> A) (i : nat) (x : A) : nat -> A := fun j => if Nat.eqb j i then x else f j.
Definition upd2 {A} (f : nat -> nat -> A) (g i : nat) (x : A) : nat -> nat -> A :=
  fun g' j => if Nat.eqb g' g && Nat.eqb j i then x else f g' j.

Definition set_spins g f := mkG f (owner g) (pcap g) (access g) (cur g) (ngen g) (gsize g) (rspin g) (rown g) (mask g) (count g) (buckets g).
Definition set_owner g x := mkG (spins g) x (pcap g) (access g) (cur g) (ngen g) (gsize g) (rspin g) (rown g) (mask g) (count g) (buckets g).
Definition set_pcap g x := mkG (spins g) (owner g) x (access g) (cur g) (ngen g) (gsize g) (rspin g) (rown g) (mask g) (count g) (buckets g).
Definition set_access g x := mkG (spins g) (owner g) (pcap g) x (cur g) (ngen g) (gsize g) (rspin g) (rown g) (mask g) (count g) (buckets g).
Definition set_cur g x := mkG (spins g) (owner g) (pcap g) (access g) x (ngen g) (gsize g) (rspin g) (rown g) (mask g) (count g) (buckets g).
Definition set_gen g n f := mkG (spins g) (owner g) (pcap g) (access g) (cur g) n f (rspin g) (rown g) (mask g) (count g) (buckets g).
Definition set_rspin g f := mkG (spins g) (owner g) (pcap g) (access g) (cur g) (ngen g) (gsize g) f (rown g) (mask g) (count g) (buckets g).
Definition set_rown g f := mkG (spins g) (owner g) (pcap g) (access g) (cur g) (ngen g) (gsize g) (rspin g) f (mask g) (count g) (buckets g).
Definition set_mask g x := mkG (spins g) (owner g) (pcap g) (access g) (cur g) (ngen g) (gsize g) (rspin g) (rown g) x (count g) (buckets g).
Definition set_count g x := mkG (spins g) (owner g) (pcap g) (access g) (cur g) (ngen g) (gsize g) (rspin g) (rown g) (mask g) x (buckets g).
Definition set_buckets g x := mkG (spins g) (owner g) (pcap g) (access g) (cur g) (ngen g) (gsize g) (rspin g) (rown g) (mask g) (count g) x.

(** symbolic addresses *)
Definition zn (n : nat) : Z := Z.of_nat n.
Definition o_spin (i : nat) : list Z := [0; zn i]%Z.
Definition o_owner : list Z := [1]%Z.
Definition o_access : list Z := [2]%Z.
Definition o_pcap : list Z := [3]%Z.
Definition o_rspin (g i : nat) : list Z := [4; zn g; zn i]%Z.
Definition o_rown (g i : nat) : list Z := [5; zn g; zn i]%Z.
Definition o_mask : list Z := [6]%Z.
Definition o_count : list Z := [7]%Z.

Definition acc (k : akind) (o : list Z) : list ev := [EvAcc k o true].
Definition accb (k : akind) (o : list Z) (ok : bool) : list ev := [EvAcc k o ok].
Definition b2n (b : bool) : nat := if b then 1 else 0.

Definition action := G -> G * V * list ev.

Definition a_begin : action := fun g => (g, vnat 0, [EvAcc KBegin [] true]).

(** *** plain spin locks: a cell of the striping policy, or refinable's m_access *)
Inductive sl := SCell (i : nat) | SAccess.
Definition sl_get (g : G) (l : sl) : bool := match l with SCell i => spins g i | SAccess => access g end.
Definition sl_set (g : G) (l : sl) (b : bool) : G :=
  match l with SCell i => set_spins g (upd1 (spins g) i b) | SAccess => set_access g b end.
Definition sl_obj (l : sl) : list Z := match l with SCell i => o_spin i | SAccess => o_access end.

(** [m_spin.exchange( true )]; when it acquires m_access, the critical section's non-atomic work happens
    in the same step: the current lock-array identity is read, and ([swap = Some g']) replaced. *)
Definition a_sl_xchg (l : sl) (swap : option nat) : action := fun g =>
  let old := sl_get g l in
  let g1 := sl_set g l true in
  let g2 := match swap with Some g' => if old then g1 else set_cur g1 g' | None => g1 end in
  (g2, mkV (b2n old) (cur g) (gsize g (cur g)) [], acc KXchg (sl_obj l)).
Definition a_sl_ld (l : sl) : action := fun g => (g, vnat (b2n (sl_get g l)), acc KLd (sl_obj l)).
Definition a_sl_st (l : sl) : action := fun g => (sl_set g l false, vnat 0, acc KSt (sl_obj l)).

(** TATAS loop; [None] = fuel exhausted.  Returns identity and size of the lock array seen inside m_access. *)
Fixpoint sl_lock_outer (fuel : nat) (l : sl) (swap : option nat) : prog (option (nat * nat)) :=
  match fuel with
  | O => Ret None
  | S f => Act (a_sl_xchg l swap) (fun v => if Nat.eqb (vn v) 0 then Ret (Some (vm v, vs v)) else sl_lock_inner f l swap)
  end
with sl_lock_inner (fuel : nat) (l : sl) (swap : option nat) : prog (option (nat * nat)) :=
  match fuel with
  | O => Ret None
  | S f => Act (a_sl_ld l) (fun v => if Nat.eqb (vn v) 0 then sl_lock_outer f l swap else sl_lock_inner f l swap)
  end.
Definition sl_lock fuel l := sl_lock_outer fuel l None.
Definition sl_unlock (l : sl) : prog unit := Act (a_sl_st l) (fun _ => Ret tt).

Definition bindo {A B} (p : prog (option A)) (q : A -> prog (option B)) : prog (option B) :=
  Conc.bind p (fun r => match r with Some a => q a | None => Ret None end).
Definition thenu {B} (p : prog unit) (q : prog B) : prog B := Conc.bind p (fun _ => q).
Definition oret {A} (a : A) : prog (option A) := Ret (Some a).

(** *** reentrant spin lock (g, i), caller identity [me] (non-zero) *)
Definition a_rown_ld (g0 i : nat) : action := fun g => (g, vnat (rown g g0 i), acc KLd (o_rown g0 i)).
Definition a_rown_st (g0 i x : nat) : action := fun g => (set_rown g (upd2 (rown g) g0 i x), vnat 0, acc KSt (o_rown g0 i)).
Definition a_rspin_ld (g0 i : nat) : action := fun g => (g, vnat (rspin g g0 i), acc KLd (o_rspin g0 i)).
Definition a_rspin_st (g0 i x : nat) : action := fun g => (set_rspin g (upd2 (rspin g) g0 i x), vnat 0, acc KSt (o_rspin g0 i)).
Definition a_rspin_faa (g0 i : nat) : action := fun g =>
  (set_rspin g (upd2 (rspin g) g0 i (S (rspin g g0 i))), vnat (rspin g g0 i), acc KFaa (o_rspin g0 i)).
Definition a_rspin_cas (g0 i : nat) : action := fun g =>
  if Nat.eqb (rspin g g0 i) 0 then (set_rspin g (upd2 (rspin g) g0 i 1), vnat 1, accb KCas (o_rspin g0 i) true)
  else (g, vnat 0, accb KCas (o_rspin g0 i) false).

Fixpoint r_acq_outer (fuel g0 i : nat) : prog (option unit) :=
  match fuel with
  | O => Ret None
  | S f => Act (a_rspin_cas g0 i) (fun v => if Nat.eqb (vn v) 1 then oret tt else r_acq_inner f g0 i)
  end
with r_acq_inner (fuel g0 i : nat) : prog (option unit) :=
  match fuel with
  | O => Ret None
  | S f => Act (a_rspin_ld g0 i) (fun v => if Nat.eqb (vn v) 0 then r_acq_outer f g0 i else r_acq_inner f g0 i)
  end.

Definition r_lock (fuel me g0 i : nat) : prog (option unit) :=
  Act (a_rown_ld g0 i) (fun v =>
    if Nat.eqb (vn v) me then Act (a_rspin_faa g0 i) (fun _ => oret tt)
    else bindo (r_acq_outer fuel g0 i) (fun _ => Act (a_rown_st g0 i me) (fun _ => oret tt))).

Definition r_try_lock (me g0 i : nat) : prog bool :=
  Act (a_rown_ld g0 i) (fun v =>
    if Nat.eqb (vn v) me then Act (a_rspin_faa g0 i) (fun _ => Ret true)
    else Act (a_rspin_cas g0 i) (fun c =>
           if Nat.eqb (vn c) 1 then Act (a_rown_st g0 i me) (fun _ => Ret true) else Ret false)).

Definition r_unlock (g0 i : nat) : prog unit :=
  Act (a_rspin_ld g0 i) (fun v =>
    if Nat.ltb 1 (vn v) then Act (a_rspin_st g0 i (vn v - 1)) (fun _ => Ret tt)
    else Act (a_rown_st g0 i 0) (fun _ => Act (a_rspin_st g0 i 0) (fun _ => Ret tt))).

(** *** the two policies.  [nl] = size of the striping lock array (constant). *)
Inductive policy := Striping | Refinable.

(** what a thread remembers about the cell lock it holds *)
Inductive cell := CSpin (i : nat) | CRe (g0 i : nat).

Definition a_owner_ld : action := fun g => (g, mkV (owner g) (cur g) (gsize g (cur g)) [], acc KLd o_owner).
Definition a_owner_st0 : action := fun g => (set_owner g 0, vnat 0, acc KSt o_owner).
Definition a_owner_cas (me : nat) : action := fun g =>
  if Nat.eqb (owner g) 0 then (set_owner g (2 * me + 1), mkV 1 (cur g) (gsize g (cur g)) [], accb KCas o_owner true)
  else (g, vnat 0, accb KCas o_owner false).

(** [!(who & 1) || (who >> 1) == me] *)
Definition free_or_mine (who me : nat) : bool := Nat.even who || Nat.eqb (Nat.div2 who) me.

Fixpoint wait_owner (fuel me : nat) : prog (option unit) :=
  match fuel with
  | O => Ret None
  | S f => Act a_owner_ld (fun v => if free_or_mine (vn v) me then oret tt else wait_owner f me)
  end.

Fixpoint rf_acquire (fuel me h : nat) : prog (option cell) :=
  match fuel with
  | O => Ret None
  | S f =>
      bindo (wait_owner fuel me) (fun _ =>
      bindo (sl_lock fuel SAccess) (fun gs =>
      let g0 := fst gs in
      let i := h mod (snd gs) in
      thenu (sl_unlock SAccess)
      (bindo (r_lock fuel me g0 i) (fun _ =>
       Act a_owner_ld (fun v =>
         if free_or_mine (vn v) me && Nat.eqb (vm v) g0 then oret (CRe g0 i)
         else thenu (r_unlock g0 i) (rf_acquire f me h))))))
  end.

Definition cell_lock (p : policy) (fuel nl me h : nat) : prog (option cell) :=
  match p with
  | Striping => bindo (sl_lock fuel (SCell (h mod nl))) (fun _ => oret (CSpin (h mod nl)))
  | Refinable => rf_acquire fuel me h
  end.

Definition cell_unlock (c : cell) : prog unit :=
  match c with
  | CSpin i => sl_unlock (SCell i)
  | CRe g0 i => r_unlock g0 i
  end.

(** lock_all / unlock_all over the cells [i, i + n) of the striping array *)
Fixpoint lock_all (fuel n i : nat) : prog (option unit) :=
  match n with
  | O => oret tt
  | S n' => bindo (sl_lock fuel (SCell i)) (fun _ => lock_all fuel n' (S i))
  end.
Fixpoint unlock_all (n i : nat) : prog unit :=
  match n with
  | O => Ret tt
  | S n' => thenu (sl_unlock (SCell i)) (unlock_all n' (S i))
  end.

(** [while ( !lock.try_lock()) bkoff(); lock.unlock();] *)
Fixpoint rf_wait_free (fuel me g0 i : nat) : prog (option unit) :=
  match fuel with
  | O => Ret None
  | S f => Conc.bind (r_try_lock me g0 i) (fun ok => if ok then thenu (r_unlock g0 i) (oret tt) else rf_wait_free f me g0 i)
  end.
Fixpoint rf_wait_all (fuel me g0 n i : nat) : prog (option unit) :=
  match n with
  | O => oret tt
  | S n' => bindo (rf_wait_free fuel me g0 i) (fun _ => rf_wait_all fuel me g0 n' (S i))
  end.

Fixpoint rf_acquire_resize (fuel me attempts : nat) : prog (option bool) :=
  match attempts with
  | O => oret false
  | S a =>
      Act (a_owner_cas me) (fun v =>
        if Nat.eqb (vn v) 1 then
          bindo (rf_wait_all fuel me (vm v) (vs v) 0) (fun _ => oret true)
        else rf_acquire_resize fuel me a)
  end.

(** scoped_resize_lock: [Some true] = locked, [Some false] = refinable gave up after 32 attempts *)
Definition resize_lock (p : policy) (fuel nl me : nat) : prog (option bool) :=
  match p with
  | Striping => bindo (lock_all fuel nl 0) (fun _ => oret true)
  | Refinable => rf_acquire_resize fuel me 32
  end.
Definition resize_unlock (p : policy) (nl : nat) : prog unit :=
  match p with
  | Striping => unlock_all nl 0
  | Refinable => Act a_owner_st0 (fun _ => Ret tt)
  end.

(** m_MutexPolicy.resize( n ) *)
Definition a_pcap_st_alloc (n : nat) : action := fun g =>
  let g' := set_gen (set_pcap g n) (S (ngen g)) (upd1 (gsize g) (ngen g) n) in
  (g', mkV 0 (ngen g) n [], acc KSt o_pcap).
Definition policy_resize (p : policy) (fuel n : nat) : prog (option unit) :=
  match p with
  | Striping => oret tt
  | Refinable =>
      Act (a_pcap_st_alloc n) (fun v =>
        bindo (sl_lock_outer fuel SAccess (Some (vm v))) (fun _ => thenu (sl_unlock SAccess) (oret tt)))
  end.

(** *** the table *)
Definition key_of (x : item) : nat := fst x.
Definition bucket_has (k : nat) (b : list item) : bool := existsb (fun x => Nat.eqb (key_of x) k) b.
Definition bucket_get (k : nat) (b : list item) : option item := find (fun x => Nat.eqb (key_of x) k) b.
Definition bucket_del (k : nat) (b : list item) : list item := filter (fun x => negb (Nat.eqb (key_of x) k)) b.

Fixpoint set_nth_b (bs : list (list item)) (n : nat) (b : list item) : list (list item) :=
  match bs, n with
  | [], _ => []
  | _ :: r, O => b :: r
  | x :: r, S n' => x :: set_nth_b r n' b
  end.
Definition get_b (bs : list (list item)) (n : nat) : list item := nth n bs [].

Definition a_mask_ld : action := fun g => (g, vnat (mask g), acc KLd o_mask).
Definition a_count_faa : action := fun g => (set_count g (S (count g)), vnat (count g), acc KFaa o_count).
Definition a_count_fas : action := fun g => (set_count g (count g - 1), vnat (count g), acc KFas o_count).

(** [alloc_bucket_table( n )]: store the new mask, install an empty table; the old contents go to the resizer *)
Definition a_mask_st_alloc (n : nat) : action := fun g =>
  (set_buckets (set_mask g (n - 1)) (repeat [] n), mkV 0 0 0 (List.concat (buckets g)), acc KSt o_mask).

(** [bucket( m_Hash( *it ))->move_item( *pCur, it )]: one load of the mask, then the (sequential) insertion *)
Definition a_move (hm : nat) (x : item) : action := fun g =>
  let b := hfun hm (key_of x) mod S (mask g) in
  let old := get_b (buckets g) b in
  let new := if bucket_has (key_of x) old then old else x :: old in
  (set_buckets g (set_nth_b (buckets g) b new), vnat (mask g), acc KLd o_mask).

Fixpoint move_all (hm : nat) (xs : list item) : prog unit :=
  match xs with
  | [] => Ret tt
  | x :: r => Act (a_move hm x) (fun _ => move_all hm r)
  end.

Definition internal_resize (p : policy) (fuel hm n : nat) : prog (option unit) :=
  bindo (policy_resize p fuel n) (fun _ =>
    Act a_mask_ld (fun _ =>
      Act (a_mask_st_alloc n) (fun v => thenu (move_all hm (vl v)) (oret tt)))).

Definition resize (p : policy) (fuel nl hm me : nat) : prog (option unit) :=
  Act a_mask_ld (fun v0 =>
    let nold := S (vn v0) in
    bindo (resize_lock p fuel nl me) (fun ok =>
      if ok then
        Act a_mask_ld (fun v1 =>
          if Nat.eqb (S (vn v1)) nold then
            bindo (internal_resize p fuel hm (2 * nold)) (fun _ => thenu (resize_unlock p nl) (oret tt))
          else thenu (resize_unlock p nl) (oret tt))
      else oret tt)).
