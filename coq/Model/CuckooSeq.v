(** * Sequential model of cds::intrusive::CuckooSet (cds/intrusive/cuckoo_set.h), one thread.

    What is modelled, statement by statement (current tree; the locking is dropped: with one thread every
    scoped_cell_lock / scoped_cell_trylock / scoped_resize_lock of the recursive-mutex policies succeeds):

    bucket( nTable, nHash )      = m_BucketTable[nTable][ nHash & m_nBucketMask ]            -> [idx]
    contains_action::find        unordered: scan, stop at the first equal node, itPrev = the node before it
                                 (the LAST node if none is equal: insert_after(itPrev) appends at the tail);
                                 ordered (compare/less given): scan, stop at the first node >= val,
                                 found iff it is equal                                            -> [bfind]
    bucket_entry::insert_after   list: link after itPrev (head when itPrev is null); vector<N>: shift_up and
                                 store at the same index.  Both = insert at index (pos of itPrev)+1 -> [insert_at]
    bucket_entry::remove         unlink / shift_down                                            -> [remove_at]
    contains()                   first table i (0..k-1) whose bucket(i, hash_i(val)) holds val   -> [contains]
    insert( val )                while(true){ if contains -> false;
                                   for i: bucket(i).size() < m_nProbesetThreshold -> insert_after, ++count, true;
                                   for i: bucket(i).size() < m_nProbesetSize -> insert_after, ++count,
                                          arrHash := hashes of *bucket(i).begin(); goto do_relocate;
                                   resize(); }
                                 do_relocate: if(!relocate(nGoalTable, arrHash)) resize();  return true;
    relocate( nTable, goal )     for nRound < c_nRelocateLimit (= 2*arity-1):
                                   ref = bucket(nTable, goal[nTable]); if ref.size() < threshold return true;
                                   v = *ref.begin(); ref.remove(begin);
                                   for i = nTable+1 .. (cyclic, != nTable): bucket(i,hash_i(v)).size() < threshold
                                         -> insert_after(find position), return true;
                                   for i likewise: size() < m_nProbesetSize -> insert_after, nTable = i, goal = hashes(v),
                                         next round;
                                   ref.insert_after( iterator() (head), v ); return false;
                                 return false;
    resize()                     capacity *= 2; new empty tables; for nTable, for k < oldCapacity, for each node of
                                 the old probe set in iteration order:
                                   contains(arrPos, ...)   (only to compute the insert positions)
                                   for i: bucket(i).size() < threshold -> insert_after; goto do_next;
                                   for i: bucket(i).size() < m_nProbesetSize -> insert_after;
                                          arrHash := hashes of *bucket(i).begin(); relocate(i, arrHash); break;
                                   do_next:;          <- when neither loop finds room the node is linked NOWHERE
                                 free old tables.
    erase_( val )                contains -> remove, --count.
    size()                       m_ItemCounter (never adjusted by resize).

    list and vector<N> probe sets behave identically at this grain (the vector only adds the static bound N =
    m_nProbesetSize, which every insert_after above respects), so one model serves both; store_hash only caches
    the values of the hash functors in the node.  The hash functors are an arbitrary function
    [h : nat -> key -> N] (table number, key).  Capacities are powers of two ([lg] = log2 capacity; the
    constructor applies ceil2), so [nHash & mask] is [N.land (h i x) (N.ones lg)].

    Loops: relocate's round loop has the C++ bound; the insert/resize retry loop is fuelled and returns
    [OutOfFuel] (with a constant hash tuple and more than arity*probeset_size keys the C++ loop never ends:
    every retry doubles the tables and finds the same k full probe sets).  No proofs in this file. *)
From Coq Require Import List NArith Arith Bool.
Import ListNotations.

Definition key := N.
Definition bucket := list key.
Definition tables := list (list bucket).

(** arity, probe-set size, probe-set threshold (the EFFECTIVE one: the constructor replaces 0 by size-1),
    ordered probe sets (traits::compare / less) or unordered (traits::equal_to) *)
Record params := mkParams { p_k : nat; p_size : nat; p_thr : nat; p_ord : bool }.

Record tbl := mkTbl { lg : nat; tabs : tables; cnt : nat }.

Inductive outcome := Ok (r : bool) | OutOfFuel.

(** generic list helpers *)
Fixpoint upd {A} (n : nat) (f : A -> A) (l : list A) : list A :=
  match l with
  | [] => []
  | a :: l' => match n with O => f a :: l' | S n' => a :: upd n' f l' end
  end.

Definition getb (ts : tables) (i b : nat) : bucket := nth b (nth i ts []) [].
Definition setb (ts : tables) (i b : nat) (v : bucket) : tables := upd i (upd b (fun _ => v)) ts.
Definition elems (ts : tables) : list key := concat (map (@concat key) ts).

Definition insert_at (pos : nat) (b : bucket) (x : key) : bucket := firstn pos b ++ x :: skipn pos b.
Definition remove_at (pos : nat) (b : bucket) : bucket := firstn pos b ++ skipn (S pos) b.

(** contains_action<.., false>::find : (found, index where insert_after(pos.itPrev, .) would place a node) *)
Fixpoint bfind_unord (b : bucket) (x : key) : bool * nat :=
  match b with
  | [] => (false, O)
  | y :: b' => if N.eqb y x then (true, O) else let (f, p) := bfind_unord b' x in (f, S p)
  end.

(** contains_action<.., true>::find : stops at the first node with cmp(node, val) >= 0 *)
Fixpoint bfind_ord (b : bucket) (x : key) : bool * nat :=
  match b with
  | [] => (false, O)
  | y :: b' => if N.leb x y then (N.eqb y x, O) else let (f, p) := bfind_ord b' x in (f, S p)
  end.

Section Cuckoo.
  Variable h : nat -> key -> N.
  Variable P : params.

  Definition k := p_k P.
  Definition relocate_limit : nat := 2 * k - 1.

  Definition idx (lgc i : nat) (x : key) : nat := N.to_nat (N.land (h i x) (N.ones (N.of_nat lgc))).

  Definition bfind (b : bucket) (x : key) : bool * nat :=
    if p_ord P then bfind_ord b x else bfind_unord b x.

  (** insert_after( position found by contains_action::find ) in bucket( i, hash_i(v) ) *)
  Definition put (ts : tables) (lgc i : nat) (v : key) : tables :=
    let b := idx lgc i v in
    let bk := getb ts i b in
    setb ts i b (insert_at (snd (bfind bk v)) bk v).

  Definition bsize (ts : tables) (lgc i : nat) (v : key) : nat := length (getb ts i (idx lgc i v)).

  Definition below_thr (ts : tables) (lgc : nat) (v : key) (i : nat) : bool := bsize ts lgc i v <? p_thr P.
  Definition below_size (ts : tables) (lgc : nat) (v : key) (i : nat) : bool := bsize ts lgc i v <? p_size P.

  Definition contains (ts : tables) (lgc : nat) (x : key) : option nat :=
    List.find (fun i => fst (bfind (getb ts i (idx lgc i x)) x)) (seq 0 k).

  Definition cfind (t : tbl) (x : key) : bool :=
    match contains (tabs t) (lg t) x with Some _ => true | None => false end.

  (** tables visited by relocate after nTable: nTable+1, ..., cyclically, nTable excluded *)
  Definition others (nT : nat) : list nat := map (fun j => (nT + j) mod k) (seq 1 (k - 1)).

  Inductive rstep := RDone (ts : tables) (ok : bool) | RNext (ts : tables) (nT : nat) (g : key).

  (** one round of relocate; the goal hash array is represented by the key [g] whose hashes it holds *)
  Definition relocate_round (ts : tables) (lgc nT : nat) (g : key) : rstep :=
    let b := idx lgc nT g in
    let ref := getb ts nT b in
    if length ref <? p_thr P then RDone ts true
    else match ref with
         | [] => RDone ts false   (* not reachable: the bucket holds the node just inserted (C++: null deref) *)
         | v :: rest =>
           let ts1 := setb ts nT b rest in
           match List.find (below_thr ts1 lgc v) (others nT) with
           | Some i => RDone (put ts1 lgc i v) true
           | None =>
             match List.find (below_size ts1 lgc v) (others nT) with
             | Some i => RNext (put ts1 lgc i v) i v
             | None => RDone (setb ts1 nT b (v :: rest)) false
             end
           end
         end.

  Fixpoint relocate (rounds : nat) (ts : tables) (lgc nT : nat) (g : key) : tables * bool :=
    match rounds with
    | O => (ts, false)
    | S r => match relocate_round ts lgc nT g with
             | RDone ts' ok => (ts', ok)
             | RNext ts' i v => relocate r ts' lgc i v
             end
    end.

  (** body of resize()'s innermost loop for one node [e] of the old tables; the second component accumulates
      the nodes that reach [do_next] without having been linked anywhere *)
  Definition place (lgc : nat) (st : tables * list key) (e : key) : tables * list key :=
    let (ts, dropped) := st in
    match List.find (below_thr ts lgc e) (seq 0 k) with
    | Some i => (put ts lgc i e, dropped)
    | None =>
      match List.find (below_size ts lgc e) (seq 0 k) with
      | Some i =>
        let ts' := put ts lgc i e in
        let g := hd e (getb ts' i (idx lgc i e)) in
        (fst (relocate relocate_limit ts' lgc i g), dropped)
      | None => (ts, dropped ++ [e])
      end
    end.

  Definition empty_tables (lgc : nat) : tables := repeat (repeat [] (2 ^ lgc)) k.

  (** resize(): the new table and the list of nodes dropped through the fall-through *)
  Definition resize (t : tbl) : tbl * list key :=
    let lg' := S (lg t) in
    let r := fold_left (place lg') (elems (tabs t)) (empty_tables lg', []) in
    (mkTbl lg' (fst r) (cnt t), snd r).

  Definition init (lg0 : nat) : tbl := mkTbl lg0 (empty_tables lg0) 0.

  Fixpoint insert (fuel : nat) (t : tbl) (x : key) : outcome * tbl * list key :=
    match fuel with
    | O => (OutOfFuel, t, [])
    | S f =>
      if cfind t x then (Ok false, t, [])
      else
        match List.find (below_thr (tabs t) (lg t) x) (seq 0 k) with
        | Some i => (Ok true, mkTbl (lg t) (put (tabs t) (lg t) i x) (S (cnt t)), [])
        | None =>
          match List.find (below_size (tabs t) (lg t) x) (seq 0 k) with
          | Some i =>
            let ts' := put (tabs t) (lg t) i x in
            let g := hd x (getb ts' i (idx (lg t) i x)) in
            let r := relocate relocate_limit ts' (lg t) i g in
            let t' := mkTbl (lg t) (fst r) (S (cnt t)) in
            if snd r then (Ok true, t', [])
            else let (t'', dr) := resize t' in (Ok true, t'', dr)
          | None =>
            let (t1, dr) := resize t in
            match insert f t1 x with
            | (o, t2, dr2) => (o, t2, dr ++ dr2)
            end
          end
        end
    end.

  Definition erase (t : tbl) (x : key) : bool * tbl :=
    match contains (tabs t) (lg t) x with
    | Some i =>
      let b := idx (lg t) i x in
      let bk := getb (tabs t) i b in
      (true, mkTbl (lg t) (setb (tabs t) i b (remove_at (snd (bfind bk x)) bk)) (pred (cnt t)))
    | None => (false, t)
    end.

End Cuckoo.

(** ** Running: hash functors given as lookup tables, operations as (code, key): 1 insert, 2 erase, 3 find *)
Definition h_tab (ht : list (list N)) (i : nat) (x : key) : N := nth (N.to_nat x) (nth i ht []) 0%N.

(** per operation: result code (0 false, 1 true, 2 out of fuel, 3 capacity cap of the run reached), size(), log2
    bucket_count, nodes dropped by the resizes of this operation, keys of the universe [0..nkeys) now found, and
    the bucket tables.  An insert gets fuel [min fuel (lgcap + 1 - lg)]: the run never builds tables of more than
    2^(lgcap+2) buckets; the run stops at the first operation that ends with code 2 or 3. *)
Definition step_out : Type := (nat * nat * nat * list key * list key * tables)%type.

Definition universe (n : nat) : list key := map N.of_nat (seq 0 n).

Fixpoint run_ops (h : nat -> key -> N) (P : params) (fuel lgcap nkeys : nat) (t : tbl) (ops : list (nat * key))
  : list step_out :=
  match ops with
  | [] => []
  | (c, x) :: ops' =>
    let '(code, t', dr) :=
      match c with
      | 1 => let f := Nat.min fuel (S lgcap - lg t) in
             match insert h P f t x with
             | (Ok r, t', dr) => ((if r then 1 else 0), t', dr)
             | (OutOfFuel, t', dr) => ((if f <? fuel then 3 else 2), t', dr)
             end
      | 2 => let (r, t') := erase h P t x in ((if r then 1 else 0), t', [])
      | _ => ((if cfind h P t x then 1 else 0), t, [])
      end in
    (code, cnt t', lg t', dr, filter (cfind h P t') (universe nkeys), tabs t')
      :: (match code with 2 | 3 => [] | _ => run_ops h P fuel lgcap nkeys t' ops' end)
  end.

(** cfg = [arity; probe-set size; effective threshold; ordered(0/1); log2 initial capacity; fuel; lgcap] *)
Definition run_case (cfg : list nat) (ht : list (list N)) (ops : list (nat * key)) : list step_out :=
  match cfg with
  | [ka; ps; th; od; lg0; fuel; lgcap] =>
    let P := mkParams ka ps th (Nat.eqb od 1) in
    run_ops (h_tab ht) P fuel lgcap (length (nth 0 ht [])) (init P lg0) ops
  | _ => []
  end.
