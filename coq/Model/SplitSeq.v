(** * Sequential model of the growth path of cds::intrusive::SplitListSet (cds/intrusive/split_list.h).

    C++ (current tree), one thread:
      SplitListSet()        m_nBucketCountLog2 = 1; m_nMaxItemCount = 2 * load_factor; init(): dummy node of bucket 0
                            (hash 0) is inserted into the (empty) ordered list; m_Buckets.bucket( 0 ) = it.
      bucket_no( nHash )    nHash & (( size_t(1) << m_nBucketCountLog2 ) - 1 )
      parent_bucket( b )    b & ~( size_t(1) << MSBnz( b ))
      get_bucket( nHash )   b = bucket_no( nHash ); if m_Buckets.bucket( b ) == nullptr: init_bucket( b )
      init_bucket( b )      p = parent_bucket( b ); if bucket p is null: init_bucket( p ) (recursion);
                            allocate aux node with dummy_hash( b ) = reverse_bits( b ) & ~1;
                            m_List.insert_aux_node( pParentBucket, pBucket ): ordered insertion that STARTS at the
                            parent's dummy node;  m_Buckets.bucket( b, pBucket )
      insert( val )         pHead = get_bucket( hash( val )); node.m_nHash = regular_hash = reverse_bits( hash ) | 1;
                            if m_List.insert_at( pHead, val ): inc_item_count(); return true;  else false
      inc_item_count()      if ( ++m_ItemCounter <= m_nMaxItemCount ) return;
                            if ( 2^log2 < m_Buckets.capacity()) { m_nMaxItemCount = 2^(log2+1) * load_factor; ++log2; }
                            else m_nMaxItemCount = max;
      find / erase          pHead = get_bucket( hash ); search / unlink in m_List starting at pHead.
    Growth of the bucket table is ONLY the increment of m_nBucketCountLog2 (and lazily, later, the insertion of
    dummy nodes): the elements stay in the one ordered list.  List order: by (m_nHash, then key) — the
    comparator of the split list compares the split-order hashes first and the keys of two regular nodes with
    equal hashes second.

    [rso : key -> N] is the split-order hash of a regular node (reverse_bits( hash( key )) | 1), [dso : N -> N] the one of
    the dummy node of a bucket, [bh : key -> N] the hash functor; all three are arbitrary functions here (the
    theorems need nothing about bit reversal: that is C27's subject).  No proofs in this file. *)
From Coq Require Import List NArith Arith Bool.
From LV Require Import Model.CuckooSeq.   (* key *)
Import ListNotations.

Record snode := mkN { so : N; is_dummy : bool; skey : key }.

(** node order of the underlying ordered list: split-order hash first, key second (two regular nodes) *)
Definition node_lt (a b : snode) : bool :=
  N.ltb (so a) (so b) || (N.eqb (so a) (so b) && negb (is_dummy a) && negb (is_dummy b) && N.ltb (skey a) (skey b)).
Definition node_eq (a b : snode) : bool :=
  N.eqb (so a) (so b) && Bool.eqb (is_dummy a) (is_dummy b) && (is_dummy a || N.eqb (skey a) (skey b)).

(** ordered insertion from the current position: skip nodes smaller than [n]; refuse an equal node *)
Fixpoint ord_ins (l : list snode) (n : snode) : bool * list snode :=
  match l with
  | [] => (true, [n])
  | y :: l' => if node_lt y n then let (r, l'') := ord_ins l' n in (r, y :: l'')
               else if node_eq y n then (false, l) else (true, n :: l)
  end.

(** ordered insertion that starts at the dummy node with split-order hash [d] (insert_at( pHead, . )) *)
Fixpoint ins_from (l : list snode) (d : N) (n : snode) : bool * list snode :=
  match l with
  | [] => (false, [])          (* head dummy not in the list: not reachable *)
  | y :: l' => if is_dummy y && N.eqb (so y) d
               then let (r, l'') := ord_ins l' n in (r, y :: l'')
               else let (r, l'') := ins_from l' d n in (r, y :: l'')
  end.

Fixpoint ord_del (l : list snode) (n : snode) : bool * list snode :=
  match l with
  | [] => (false, [])
  | y :: l' => if node_lt y n then let (r, l'') := ord_del l' n in (r, y :: l'')
               else if node_eq y n then (true, l') else (false, l)
  end.

Fixpoint del_from (l : list snode) (d : N) (n : snode) : bool * list snode :=
  match l with
  | [] => (false, [])
  | y :: l' => if is_dummy y && N.eqb (so y) d
               then let (r, l'') := ord_del l' n in (r, y :: l'')
               else let (r, l'') := del_from l' d n in (r, y :: l'')
  end.

Fixpoint ord_mem (l : list snode) (n : snode) : bool :=
  match l with
  | [] => false
  | y :: l' => if node_lt y n then ord_mem l' n else node_eq y n
  end.

Fixpoint mem_from (l : list snode) (d : N) (n : snode) : bool :=
  match l with
  | [] => false
  | y :: l' => if is_dummy y && N.eqb (so y) d then ord_mem l' n else mem_from l' d n
  end.

(** the split list: ordered list, log2 of the bucket count, initialised buckets, item count, max item count
    (None = numeric_limits::max), capacity of the bucket table, load factor *)
Record split := mkSp { slist : list snode; blog : nat; binit : list N; sc : nat; smax : option nat; scap : nat; slf : nat }.

Definition regular_keys (l : list snode) : list key := map skey (filter (fun n => negb (is_dummy n)) l).

Section Split.
  Variable bh : key -> N.
  Variable rso : key -> N.
  Variable dso : N -> N.

  Definition bucket_no (t : split) (x : key) : N := N.land (bh x) (N.ones (N.of_nat (blog t))).
  Definition parent_bucket (b : N) : N := N.clearbit b (N.log2 b).

  Definition sp_init (cap lf : nat) : split :=
    mkSp [mkN 0%N true 0%N] 1 [0%N] 0 (Some (2 * lf)) cap lf.

  (** init_bucket; [fuel] bounds the recursion on the parent (parent_bucket( b ) < b) *)
  Fixpoint init_bucket (fuel : nat) (t : split) (b : N) : split :=
    if existsb (N.eqb b) (binit t) then t
    else match fuel with
         | O => t
         | S f =>
           let p := parent_bucket b in
           let t1 := init_bucket f t p in
           let (r, l') := ins_from (slist t1) (dso p) (mkN (dso b) true 0%N) in
           if r then mkSp l' (blog t1) (b :: binit t1) (sc t1) (smax t1) (scap t1) (slf t1) else t1
         end.

  Definition get_bucket (t : split) (x : key) : split * N :=
    let b := bucket_no t x in (init_bucket (S (N.size_nat b)) t b, b).

  (** the growth step of inc_item_count() *)
  Definition grow (t : split) : split :=
    if 2 ^ blog t <? scap t
    then mkSp (slist t) (S (blog t)) (binit t) (sc t) (Some (2 ^ S (blog t) * slf t)) (scap t) (slf t)
    else mkSp (slist t) (blog t) (binit t) (sc t) None (scap t) (slf t).

  Definition inc_item_count (t : split) : split :=
    let t' := mkSp (slist t) (blog t) (binit t) (S (sc t)) (smax t) (scap t) (slf t) in
    match smax t with
    | None => t'
    | Some m => if S (sc t) <=? m then t' else grow t'
    end.

  Definition sp_insert (t : split) (x : key) : bool * split :=
    let (t1, b) := get_bucket t x in
    let (r, l') := ins_from (slist t1) (dso b) (mkN (rso x) false x) in
    if r then (true, inc_item_count (mkSp l' (blog t1) (binit t1) (sc t1) (smax t1) (scap t1) (slf t1)))
    else (false, t1).

  Definition sp_erase (t : split) (x : key) : bool * split :=
    let (t1, b) := get_bucket t x in
    let (r, l') := del_from (slist t1) (dso b) (mkN (rso x) false x) in
    if r then (true, mkSp l' (blog t1) (binit t1) (pred (sc t1)) (smax t1) (scap t1) (slf t1))
    else (false, t1).

  Definition sp_find (t : split) (x : key) : bool * split :=
    let (t1, b) := get_bucket t x in (mem_from (slist t1) (dso b) (mkN (rso x) false x), t1).
End Split.
