(** * Models of the object pools of cds/memory/vyukov_queue_pool.h on top of LV.Model.Vyukov
      (the pools own a cds::intrusive::VyukovMPMCCycleQueue<T>, i.e. the Vyukov queue over T* ).

    C++ (current tree):

      vyukov_queue_pool (kind 0)   ctor: m_pFirst = allocate(capacity); push every object of [m_pFirst, m_pLast)
        allocate(1):   p = m_Queue.pop();  if (p) return new(p) T;           (pop = dequeue of the queue)
                       return cxx_allocator().New();                          (heap)
        deallocate(p): if (p) { if ( from_pool(p)) { p->~T(); while ( !m_Queue.push( *p )) bkoff(); }
                                else cxx_allocator().Delete(p); }             (from_pool: m_pFirst <= p < m_pLast)

      lazy_vyukov_queue_pool (kind 1)   ctor: empty queue
        allocate(1):   p = m_Queue.pop();  if (p) return new(p) T;  return cxx_allocator().New();
        deallocate(p): if (p) { p->~T(); if ( !m_Queue.push( *p )) std_allocator().deallocate(p, 1); }

      bounded_vyukov_queue_pool (kind 2)   queue with cds::atomicity::item_counter; ctor as kind 0
        allocate(1):   p = m_Queue.pop();
                       if (!p) { while ( m_Queue.size()) { p = m_Queue.pop(); if (p) goto ok; bkoff(); }
                                 throw std::bad_alloc(); }
                       ok: return p;
        deallocate(p): if (p) { while ( !m_Queue.push( *p )) bkoff(); }         (assert(from_pool(p)) is compiled out)

      pool_allocator<T, Accessor>::allocate(n) / deallocate(p, n) forward to Accessor()().allocate / deallocate.

    Objects are numbers: the preallocated objects are 1..cap (index in the block + 1), an object obtained from the
    heap by the [i]-th operation of thread [t] (of [N] threads) is cap + 1 + i*N + t (the harness numbers them the
    same way).  0 is the null pointer (bad_alloc).  Allocation from / release to the heap touches no shared
    variable of the pool.  A client thread only deallocates objects it holds: operation [PDealloc i] releases
    the (i mod n)-th of the n objects the thread currently holds (nothing if it holds none).
    [Emit []] is a ghost step (no event is printed): it marks the place where a failed push / pop is retried. *)
From Coq Require Import ZArith List String Bool Lia.
From LV Require Import Base.Conc Base.Events Base.CInt Model.Vyukov.
Import ListNotations.
Local Open Scope Z_scope.
Local Open Scope string_scope.

(** pool configuration: kind (0 vyukov_queue_pool, 1 lazy, 2 bounded), capacity, number of client threads *)
Record pcfg := mkP { pkind : Z; pcap : Z; pthreads : nat }.

Definition pq (c : pcfg) : qcfg := mkQ (pcap c) (Z.eqb (pkind c) 2).

Definition hid (c : pcfg) (t i : nat) : Z := pcap c + 1 + Z.of_nat i * Z.of_nat (pthreads c) + Z.of_nat t.

Definition from_pool (c : pcfg) (p : Z) : bool := (1 <=? p)%Z && (p <=? pcap c)%Z.

(** the state the constructor leaves behind: every preallocated object pushed once *)
Definition pool_init (c : pcfg) : G :=
  if Z.eqb (pkind c) 1 then Vyukov.init
  else mkG (pcap c) 0
           (fun i => if (0 <=? i)%Z && (i <? pcap c)%Z then i + 1 else i)
           (fun i => i + 1)
           (if Z.eqb (pkind c) 2 then pcap c else 0).

Inductive pop := PAlloc | PDealloc (i : nat).

(** result of one client operation: continue?, objects held afterwards *)
Definition pres := (bool * list Z)%type.

Definition stop (name : string) (held : list Z) : prog pres :=
  Emit [EvCli name []] (Ret (false, held)).

(** while ( !m_Queue.push( *p )) bkoff(); *)
Fixpoint push_loop (c : pcfg) (fuel lfuel : nat) (p : Z) : prog (outcome unit) :=
  match lfuel with
  | O => Ret OutOfFuel
  | S f =>
      bind (enqueue (pq c) fuel p) (fun r =>
        match r with
        | Done true => Ret (Done tt)
        | Done false => Emit [] (push_loop c fuel f p)
        | OutOfFuel => Ret OutOfFuel
        | UB => Ret UB
        end)
  end.

(** bounded pool: while ( m_Queue.size()) { p = m_Queue.pop(); if (p) goto ok; }  throw bad_alloc *)
Fixpoint bounded_retry (c : pcfg) (fuel lfuel : nat) : prog (outcome (option Z)) :=
  match lfuel with
  | O => Ret OutOfFuel
  | S f =>
      Act a_ld_cnt (fun n =>
        if (vz n =? 0)%Z then Ret (Done None)
        else Emit [] (bind (dequeue (pq c) fuel) (fun r =>
               match r with
               | Done (Some p) => Ret (Done (Some p))
               | Done None => bounded_retry c fuel f
               | OutOfFuel => Ret OutOfFuel
               | UB => Ret UB
               end)))
  end.

Definition remove_nth (n : nat) (l : list Z) : list Z := (firstn n l ++ skipn (S n) l)%list.

Definition allocate (c : pcfg) (fuel : nat) (t idx : nat) (held : list Z) : prog pres :=
  Emit [EvCli "inv_alloc" []]
    (bind (dequeue (pq c) fuel) (fun r =>
       match r with
       | Done (Some p) => Emit [EvCli "ret_alloc" [p]] (Ret (true, (held ++ [p])%list))
       | Done None =>
           if (pkind c =? 2)%Z then
             bind (bounded_retry c fuel fuel) (fun r2 =>
               match r2 with
               | Done (Some p) => Emit [EvCli "ret_alloc" [p]] (Ret (true, (held ++ [p])%list))
               | Done None => Emit [EvCli "ret_alloc" [0]] (Ret (true, held))        (* std::bad_alloc *)
               | OutOfFuel => stop "outoffuel" held
               | UB => stop "ub" held
               end)
           else Emit [EvCli "ret_alloc" [hid c t idx]] (Ret (true, (held ++ [hid c t idx])%list))
       | OutOfFuel => stop "outoffuel" held
       | UB => stop "ub" held
       end)).

Definition deallocate (c : pcfg) (fuel : nat) (p : Z) (held' : list Z) : prog pres :=
  if (pkind c =? 1)%Z then
    Emit [EvCli "inv_dealloc" [p]]
      (bind (enqueue (pq c) fuel p) (fun r =>
         match r with
         | Done true => Emit [EvCli "ret_dealloc" []] (Ret (true, held'))
         | Done false => Emit [EvCli "free" [p]; EvCli "ret_dealloc" []] (Ret (true, held'))
         | OutOfFuel => stop "outoffuel" held'
         | UB => stop "ub" held'
         end))
  else if (pkind c =? 0)%Z && negb (from_pool c p) then
    Emit [EvCli "inv_dealloc" [p]; EvCli "free" [p]; EvCli "ret_dealloc" []] (Ret (true, held'))
  else
    Emit [EvCli "inv_dealloc" [p]]
      (bind (push_loop c fuel fuel p) (fun r =>
         match r with
         | Done _ => Emit [EvCli "ret_dealloc" []] (Ret (true, held'))
         | OutOfFuel => stop "outoffuel" held'
         | UB => stop "ub" held'
         end)).

Definition run_pop (c : pcfg) (fuel : nat) (t idx : nat) (held : list Z) (o : pop) : prog pres :=
  match o with
  | PAlloc => allocate c fuel t idx held
  | PDealloc i =>
      match held with
      | [] => Ret (true, held)
      | _ :: _ =>
          let n := Nat.modulo i (List.length held) in
          match nth_error held n with
          | Some p => deallocate c fuel p (remove_nth n held)
          | None => Ret (true, held)
          end
      end
  end.

Fixpoint run_pops (c : pcfg) (fuel : nat) (t idx : nat) (held : list Z) (os : list pop) : prog unit :=
  match os with
  | [] => Ret tt
  | o :: r => bind (run_pop c fuel t idx held o)
                   (fun x => if fst x then run_pops c fuel t (S idx) (snd x) r else Ret tt)
  end.

Definition pool_thread (c : pcfg) (fuel : nat) (t : nat) (os : list pop) : Conc.thread G V ev :=
  Act a_begin (fun _ => run_pops c fuel t 0 [] os).

Fixpoint map_idx {A B} (f : nat -> A -> B) (n : nat) (l : list A) : list B :=
  match l with
  | [] => []
  | x :: r => f n x :: map_idx f (S n) r
  end.

Definition pool_cfg (kind cap : Z) (fuel : nat) (ths : list (list pop)) : Conc.config G V ev :=
  let c := mkP kind cap (List.length ths) in
  Conc.Cfg (pool_init c) (map_idx (pool_thread c fuel) 0 ths) [].

(** ** entry point for the extracted driver.  ops: [1] allocate, [2; i] deallocate the i-th held object *)
Definition decode_pop (o : list Z) : option pop :=
  match o with
  | [1] => Some PAlloc
  | [2; i] => Some (PDealloc (Z.to_nat i))
  | _ => None
  end.

Fixpoint decode_pops (os : list (list Z)) : list pop :=
  match os with
  | [] => []
  | o :: r => match decode_pop o with Some x => x :: decode_pops r | None => decode_pops r end
  end.

(** cfg = [capacity; kind; through pool_allocator (ignored by the model); loop fuel] *)
Definition run_case (cfg : list Z) (ths : list (list (list Z))) (sched : list nat) (fuel : nat)
  : list (nat * ev) * bool :=
  let lfuel := Z.to_nat (nth 3 cfg 400) in
  let r := Conc.run fuel 0 sched (pool_cfg (nth 1 cfg 0) (nth 0 cfg 2) lfuel (map decode_pops ths)) in
  (Conc.trace (fst r), snd r).
