(** * Model of cds::intrusive::SplitListSet<cds::gc::HP, MichaelList<HP,...>, Traits> at step grain
      (cds/intrusive/split_list.h, cds/intrusive/details/split_list_base.h), one atomic access of the C++ code per [Act].

    Instantiation modelled (harness/C14/step_splitlist.cpp): expandable_bucket_table with one segment (item count <= 1024),
    load factor 1, item_counter = atomicity::item_counter, stat = empty_stat, back_off = backoff::empty, free_list = FreeList,
    bit_reversal = lookup.  The ordered list is MichaelList<HP>; its search / link_node / unlink_node, with the
    hazard-pointer traffic, are taken from LV.Model.MichaelList (written for property C13) with two changes: the search
    starts from a bucket head cell instead of m_pHead, and keys are split-order keys.  [rev64] and the split-order
    arithmetic are defined here directly with Z bit operations (the translator unit Gen_splitlist of property C27 did
    not exist when this file was written).

    C++ (current tree):
      hash_value( val ) = m_HashFunctor( val )
      regular_hash( h ) = bit_reversal( h ) | 1            dummy_hash( b ) = bit_reversal( b ) & ~1
      bucket_no( h )    = h & (( 1 << m_nBucketCountLog2.load( relaxed )) - 1 )                           // [a_ld_log2]
      parent_bucket( b ) = b & ~( 1 << MSBnz( b ))
      expandable_bucket_table::bucket( n ):   pSegment = m_Segments[ n >> segsizelog2 ].load( acquire );         // [a_ld_seg]
                                              if ( !pSegment ) return nullptr;  return pSegment[ n & mask ].load( acquire );   // [a_ld_tab]
      bucket( n, pNode ):  if ( segment.load( relaxed ) == nullptr ) { allocate + CAS }                            // [a_ld_seg] (never null here: bucket 0 is set by the constructor)
                           segment.load( acquire )[ n & mask ].store( pNode, release );                           // [a_ld_seg] [a_st_tab]
      alloc_aux_node():    aux_segment = m_auxNodeList.load( acquire );                                            // [a_ld_auxlist]
                           if ( aux_segment->aux_node_count.load( acquire ) < nSegmentSize ) {                     // [a_ld_auxcnt]
                               idx = aux_segment->aux_node_count.fetch_add( 1, relaxed );                          // [a_faa_auxcnt]
                               if ( idx < nSegmentSize ) return new( segment() + idx ) aux_node_type(); }          // [a_new_aux]: free_list::node() stores m_freeListNext
                           ... free list / new segment: not reached with the segment sizes used (model: out of fuel)
      get_bucket( h ):     nBucket = bucket_no( h ); pHead = m_Buckets.bucket( nBucket ); if ( !pHead ) pHead = init_bucket( nBucket ); return pHead;
      init_bucket( nBucket ):
          nParent = parent_bucket( nBucket );
          pParentBucket = m_Buckets.bucket( nParent ); if ( !pParentBucket ) pParentBucket = init_bucket( nParent );
          pBucket = m_Buckets.bucket( nBucket );
          for ( ;; pBucket = m_Buckets.bucket( nBucket )) {
              if ( pBucket ) return pBucket;
              pBucket = alloc_aux_node( dummy_hash( nBucket ));
              if ( pBucket ) {
                  if ( m_List.insert_aux_node( pParentBucket, pBucket )) { m_Buckets.bucket( nBucket, pBucket ); return pBucket; }
                  free_aux_node( pBucket );        // FreeList::put, see [fl_put]
                  break; }
              bkoff(); }
          for ( pBucket = m_Buckets.bucket( nBucket ); pBucket == nullptr; pBucket = m_Buckets.bucket( nBucket )) bkoff();     // the loser waits for the winner
          return pBucket;
      insert( val ):  pHead = get_bucket( hash ); node->m_nHash = regular_hash( hash );
                      if ( m_List.insert_at( pHead, val )) { inc_item_count(); return true; } return false;
      erase_( key ):  pHead = get_bucket( hash ); if ( m_List.erase_at( pHead, sv, cmp )) { --m_ItemCounter; return true; } return false;
      find_( key ):   pHead = get_bucket( hash ); return m_List.find_at( pHead, sv, cmp );
      ordered_list_wrapper::insert_at( pHead, val ) { bucket_head_type h( pHead ); return base_class::insert_at( h, val ); }
          [h] is a local atomic cell initialised with the bucket's aux node: the search starts AT the aux node.  It lives in
          the caller's stack frame: one object per (thread, call site), [obj_hcell].
      inc_item_count():  nMaxCount = m_nMaxItemCount.load( relaxed );                                              // [a_ld_max]
                         if ( ++m_ItemCounter <= nMaxCount ) return;                                               // [a_cnt]
                         sz = m_nBucketCountLog2.load( relaxed ); nBucketCount = 1 << sz;                          // [a_ld_log2]
                         if ( nBucketCount < m_Buckets.capacity()) {
                             if ( nMaxCount < max_item_count( nBucketCount, nLoadFactor )) return;
                             m_nMaxItemCount.compare_exchange_strong( nMaxCount, max_item_count( nBucketCount << 1, nLoadFactor ));   // [a_cas_max]
                             m_nBucketCountLog2.compare_exchange_strong( sz, sz + 1 ); }                           // [a_cas_log2]
                         else m_nMaxItemCount.store( max );                                                        // [a_st_max]
      MichaelList (search, link_node, unlink_node, insert_at, erase_at, find_at, guards): see LV.Model.MichaelList.

    Client operations ([code; key]):  1 insert   7 erase   13 contains.   No proofs in this file. *)
From Coq Require Import ZArith List String Bool Arith PeanoNat.
From LV Require Import Base.Conc Base.Events.
Import ListNotations.
Local Open Scope string_scope.

Set Implicit Arguments.

(** ** split-order arithmetic (64-bit size_t) *)
Definition rev64 (x : Z) : Z :=
  fold_left (fun acc i => if Z.testbit x (Z.of_nat i) then Z.lor acc (Z.shiftl 1 (63 - Z.of_nat i)) else acc) (seq 0 64) 0%Z.
Definition regular_hash (h : Z) : Z := Z.lor (rev64 h) 1.
Definition dummy_hash (b : Z) : Z := Z.land (rev64 b) (Z.lnot 1).
(** position of an item in the ordered list: (split-order hash, key), keys < 256; aux nodes have key part 0 and an even hash *)
Definition okey (h k : Z) : Z := (regular_hash h * 256 + k)%Z.
Definition dkey (b : nat) : Z := (dummy_hash (Z.of_nat b) * 256)%Z.
Definition bucket_no (h : Z) (log2 : nat) : nat := Z.to_nat (Z.land h (Z.shiftl 1 (Z.of_nat log2) - 1)).
Definition parent_bucket (b : nat) : nat := Z.to_nat (Z.land (Z.of_nat b) (Z.lnot (Z.shiftl 1 (Z.log2 (Z.of_nat b))))).

(** ** shared state *)
Record node := mkNode { nkey : Z; nnext : nat; nmark : bool }.
Record G := mkG {
  heap : nat -> node;            (* list nodes (items and aux nodes); 0 = nullptr *)
  nalloc : nat;
  table : nat -> nat;            (* bucket table entry -> aux node *)
  log2 : nat;                    (* m_nBucketCountLog2 *)
  maxcnt : Z;                    (* m_nMaxItemCount; -1 = numeric_limits<size_t>::max() *)
  count : Z;                     (* m_ItemCounter *)
  auxcnt : nat;                  (* aux_node_count of the (single) aux segment *)
  flhead : nat                   (* FreeList head (the default free_list of this build: no double-width CAS) *)
}.

Record V := mkV { vptr : nat; vmark : bool; vkey : Z; vnum : Z }.
Definition v0 : V := mkV 0 false 0 0.
Definition vok (b : bool) : V := mkV 0 b 0 0.
Definition vn (z : Z) : V := mkV 0 false 0 z.

Section Params.
  (** configuration: capacity of the bucket table (= size of the aux segment), hash table (key -> hash) *)
  Variables (cap : nat) (hs : list Z).
  Definition hash (k : Z) : Z := nth (Z.to_nat k) hs 0%Z.

  Definition prog := Conc.prog G V ev.
  Definition act := G -> G * V * list ev.

  (** a pointer cell of the list: the m_pNext of node [n] *)
  Definition obj_next (n : nat) : list Z := [1%Z; Z.of_nat n].
  Definition obj_guard (t s : nat) : list Z := [2%Z; Z.of_nat t; Z.of_nat s].
  Definition obj_sync (t : nat) : list Z := [3%Z; Z.of_nat t].
  Definition obj_retired (t : nat) : list Z := [4%Z; Z.of_nat t].
  Definition obj_count : list Z := [5%Z].
  Definition obj_hcell (t site : nat) : list Z := [6%Z; Z.of_nat t; Z.of_nat site].
  Definition obj_flnext (n : nat) : list Z := [7%Z; Z.of_nat n].
  Definition obj_log2 : list Z := [8%Z].
  Definition obj_max : list Z := [9%Z].
  Definition obj_seg : list Z := [10%Z].
  Definition obj_tab (b : nat) : list Z := [11%Z; Z.of_nat b].
  Definition obj_auxlist : list Z := [12%Z].
  Definition obj_auxcnt : list Z := [13%Z].
  Definition obj_flhead : list Z := [14%Z].

  Definition upd_heap (h : nat -> node) (n : nat) (x : node) : nat -> node := fun m => if Nat.eqb m n then x else h m.
  Definition set_heap (g : G) (h : nat -> node) (na : nat) : G :=
    mkG h na (table g) (log2 g) (maxcnt g) (count g) (auxcnt g) (flhead g).

  (** where a search reads its "previous" pointer: the local head cell of the call site (holds the bucket's aux node, never
      changes) or the m_pNext of a node *)
  Inductive loc := LCell (t site aux : nat) | LNext (n : nat).
  Definition obj_loc (l : loc) : list Z := match l with LCell t s _ => obj_hcell t s | LNext n => obj_next n end.
  Definition rd (g : G) (l : loc) : nat * bool :=
    match l with LCell _ _ a => (a, false) | LNext n => (nnext (heap g n), nmark (heap g n)) end.

  Definition a_begin : act := fun g => (g, v0, [EvAcc KBegin [] true]).
  Definition a_ld (l : loc) : act :=
    fun g => let (p, m) := rd g l in (g, mkV p m (nkey (heap g p)) 0, [EvAcc KLd (obj_loc l) true]).
  (** compare_exchange_strong( expected = (ep, unmarked), desired = (np, nm) ) on the m_pNext of node [n] / a head cell *)
  Definition a_cas (l : loc) (ep np : nat) (nm : bool) : act :=
    fun g => let (p, m) := rd g l in
      if Nat.eqb p ep && negb m then
        (match l with
         | LNext n => set_heap g (upd_heap (heap g) n (mkNode (nkey (heap g n)) np nm)) (nalloc g)
         | LCell _ _ _ => g
         end, vok true, [EvAcc KCas (obj_loc l) true])
      else (g, vok false, [EvAcc KCas (obj_loc l) false]).
  (** first access of a fresh item node: allocate id with key [k] and store its m_pNext *)
  Definition a_alloc_st (k : Z) (p : nat) : act :=
    fun g => let n := S (nalloc g) in
      (set_heap g (upd_heap (heap g) n (mkNode k p false)) n, mkV n false k 0, [EvAcc KSt (obj_next n) true]).
  Definition a_st_next (n p : nat) : act :=
    fun g => (set_heap g (upd_heap (heap g) n (mkNode (nkey (heap g n)) p false)) (nalloc g), mkV n false (nkey (heap g n)) 0,
              [EvAcc KSt (obj_next n) true]).
  Definition a_nop (k : akind) (o : list Z) : act := fun g => (g, v0, [EvAcc k o true]).
  Definition a_gst (t s : nat) : act := a_nop KSt (obj_guard t s).
  Definition a_gld (t s : nat) : act := a_nop KLd (obj_guard t s).
  Definition a_sync (t : nat) : act := a_nop KFaa (obj_sync t).
  Definition a_rld (t : nat) : act := a_nop KLd (obj_retired t).
  Definition a_rst (t : nat) : act := a_nop KSt (obj_retired t).

  (** split-list level accesses *)
  Definition a_ld_log2 : act := fun g => (g, vn (Z.of_nat (log2 g)), [EvAcc KLd obj_log2 true]).
  Definition a_ld_seg : act := a_nop KLd obj_seg.
  Definition a_ld_tab (b : nat) : act := fun g => (g, mkV (table g b) false 0 0, [EvAcc KLd (obj_tab b) true]).
  Definition a_st_tab (b n : nat) : act :=
    fun g => (mkG (heap g) (nalloc g) (fun x => if Nat.eqb x b then n else table g x) (log2 g) (maxcnt g) (count g) (auxcnt g) (flhead g),
              v0, [EvAcc KSt (obj_tab b) true]).
  Definition a_ld_auxlist : act := a_nop KLd obj_auxlist.
  Definition a_ld_auxcnt : act := fun g => (g, vn (Z.of_nat (auxcnt g)), [EvAcc KLd obj_auxcnt true]).
  Definition a_faa_auxcnt : act :=
    fun g => (mkG (heap g) (nalloc g) (table g) (log2 g) (maxcnt g) (count g) (S (auxcnt g)) (flhead g),
              vn (Z.of_nat (auxcnt g)), [EvAcc KFaa obj_auxcnt true]).
  (** new( .. ) aux_node_type(): the free-list hook stores its m_freeListNext; the node gets its identity and dummy key here *)
  Definition a_new_aux (k : Z) : act :=
    fun g => let n := S (nalloc g) in
      (set_heap g (upd_heap (heap g) n (mkNode k 0 false)) n, mkV n false k 0, [EvAcc KSt (obj_flnext n) true]).
  Definition a_ld_max : act := fun g => (g, vn (maxcnt g), [EvAcc KLd obj_max true]).
  Definition a_cnt (k : akind) (d : Z) : act :=
    fun g => (mkG (heap g) (nalloc g) (table g) (log2 g) (maxcnt g) (count g + d)%Z (auxcnt g) (flhead g), vn (count g), [EvAcc k obj_count true]).
  Definition a_cas_max (e n : Z) : act :=
    fun g => if Z.eqb (maxcnt g) e
             then (mkG (heap g) (nalloc g) (table g) (log2 g) n (count g) (auxcnt g) (flhead g), vok true, [EvAcc KCas obj_max true])
             else (g, vok false, [EvAcc KCas obj_max false]).
  Definition a_st_max (n : Z) : act :=
    fun g => (mkG (heap g) (nalloc g) (table g) (log2 g) n (count g) (auxcnt g) (flhead g), v0, [EvAcc KSt obj_max true]).
  Definition a_cas_log2 (e : nat) : act :=
    fun g => if Nat.eqb (log2 g) e
             then (mkG (heap g) (nalloc g) (table g) (S e) (maxcnt g) (count g) (auxcnt g) (flhead g), vok true, [EvAcc KCas obj_log2 true])
             else (g, vok false, [EvAcc KCas obj_log2 false]).
  (** FreeList (cds/intrusive/free_list.h): m_freeListRefs / m_freeListNext of the node, m_Head *)
  Definition obj_flrefs (n : nat) : list Z := [15%Z; Z.of_nat n].
  Definition a_faa_refs (n : nat) : act := a_nop KFaa (obj_flrefs n).
  Definition a_st_refs (n : nat) : act := a_nop KSt (obj_flrefs n).
  Definition a_fl_ld : act := fun g => (g, mkV (flhead g) false 0 0, [EvAcc KLd obj_flhead true]).
  Definition a_st_flnext (n : nat) : act := a_nop KSt (obj_flnext n).
  Definition a_fl_cas (ep n : nat) : act :=
    fun g => if Nat.eqb (flhead g) ep
             then (mkG (heap g) (nalloc g) (table g) (log2 g) (maxcnt g) (count g) (auxcnt g) n, vok true, [EvAcc KCas obj_flhead true])
             else (g, mkV (flhead g) false 0 0, [EvAcc KCas obj_flhead false]).

  Notation "x <- p ;; q" := (Conc.bind p (fun x => q)) (at level 61, p at next level, right associativity).

  Definition veqb (a b : V) : bool := Nat.eqb (vptr a) (vptr b) && Bool.eqb (vmark a) (vmark b).

  (** ** hazard-pointer plumbing ([fr] = the thread's free list of guard slots), as in LV.Model.MichaelList *)
  Fixpoint protect (fuel : nat) (t s : nat) (l : loc) : prog (option V) :=
    match fuel with
    | O => Ret None
    | S f =>
        Act (a_ld l) (fun v => Act (a_gst t s) (fun _ => Act (a_sync t) (fun _ => Act (a_ld l) (fun v' =>
          if veqb v v' then Ret (Some v) else protect f t s l))))
    end.
  Definition assign_guard (t s : nat) : prog unit := Act (a_gst t s) (fun _ => Act (a_sync t) (fun _ => Ret tt)).
  Definition copy_guard (t d s : nat) : prog unit := Act (a_gld t s) (fun _ => assign_guard t d).
  Definition retire (t : nat) : prog unit := Act (a_rld t) (fun _ => Act (a_rst t) (fun _ => Ret tt)).
  Definition alloc3 (fr : list nat) : (nat * nat * nat) * list nat :=
    match fr with a :: b :: c :: r => ((a, b, c), r) | _ => ((0, 0, 0)%nat, fr) end.
  Fixpoint free_guards (t : nat) (gs fr : list nat) : prog (list nat) :=
    match gs with
    | [] => Ret fr
    | s :: r => Act (a_gst t s) (fun _ => free_guards t r (s :: fr))
    end.

  (** ** MichaelList::search from the head cell [hd] *)
  Record pos := mkPos { pprev : loc; pcur : nat; pnext : nat }.

  Fixpoint search (fuel : nat) (t g0 g1 g2 : nat) (hd : loc) (k : Z) (st : option (loc * V)) : prog (option (bool * pos)) :=
    match fuel with
    | O => Ret None
    | S f =>
        match st with
        | None =>
            ov <- protect f t g1 hd ;;
            match ov with
            | None => Ret None
            | Some v => search f t g0 g1 g2 hd k (Some (hd, v))
            end
        | Some (pPrev, pCur) =>
            if Nat.eqb (vptr pCur) 0 then Ret (Some (false, mkPos pPrev 0 0))
            else
              ov <- protect f t g2 (LNext (vptr pCur)) ;;
              match ov with
              | None => Ret None
              | Some pNext =>
                  Act (a_ld pPrev) (fun pv =>
                    if negb (Nat.eqb (vptr pv) (vptr pCur) && negb (vmark pv)) then search f t g0 g1 g2 hd k None
                    else if vmark pNext then
                      Act (a_cas pPrev (vptr pCur) (vptr pNext) false) (fun r =>
                        if vmark r then
                          _ <- retire t ;;
                          _ <- copy_guard t g1 g2 ;;
                          search f t g0 g1 g2 hd k (Some (pPrev, pNext))
                        else search f t g0 g1 g2 hd k None)
                    else if Z.leb k (vkey pCur) then
                      Ret (Some (Z.eqb (vkey pCur) k, mkPos pPrev (vptr pCur) (vptr pNext)))
                    else
                      _ <- copy_guard t g0 g1 ;;
                      _ <- copy_guard t g1 g2 ;;
                      search f t g0 g1 g2 hd k (Some (LNext (vptr pCur), pNext)))
              end
        end
    end.

  (** link_node: [own] = the node to link if it exists already (aux node, or an item allocated by an earlier attempt) *)
  Definition link_node (own : option nat) (k : Z) (p : pos) : prog (bool * nat) :=
    Act (match own with None => a_alloc_st k (pcur p) | Some n => a_st_next n (pcur p) end) (fun v =>
      let n := vptr v in
      Act (a_cas (pprev p) (pcur p) n false) (fun r =>
        if vmark r then Ret (true, n)
        else Act (a_st_next n 0) (fun _ => Ret (false, n)))).

  Definition unlink_node (t : nat) (p : pos) : prog bool :=
    Act (a_cas (LNext (pcur p)) (pnext p) (pnext p) true) (fun r =>
      if vmark r then
        Act (a_cas (pprev p) (pcur p) (pnext p) false) (fun r2 =>
          if vmark r2 then (_ <- retire t ;; Ret true) else Ret true)
      else Ret false).

  Definition out (A : Type) := option A.

  (** MichaelList::insert_at( head cell, val ) with its own position (GuardArray<3>) *)
  Fixpoint insert_loop (fuel sf : nat) (t g0 g1 g2 : nat) (hd : loc) (k : Z) (own : option nat) : prog (out bool) :=
    match fuel with
    | O => Ret None
    | S f =>
        r <- search sf t g0 g1 g2 hd k None ;;
        match r with
        | None => Ret None
        | Some (true, _) => Ret (Some false)
        | Some (false, p) =>
            ln <- link_node own k p ;;
            if fst ln then Ret (Some true) else insert_loop f sf t g0 g1 g2 hd k (Some (snd ln))
        end
    end.

  Definition list_insert (fuel : nat) (t site aux : nat) (k : Z) (own : option nat) (fr : list nat) : prog (out (bool * list nat)) :=
    let '((g0, g1, g2), fr1) := alloc3 fr in
    r <- insert_loop fuel fuel t g0 g1 g2 (LCell t site aux) k own ;;
    match r with
    | None => Ret None
    | Some b => fr2 <- free_guards t [g0; g1; g2] fr1 ;; Ret (Some (b, fr2))
    end.

  Fixpoint erase_loop (fuel sf : nat) (t g0 g1 g2 : nat) (hd : loc) (k : Z) : prog (out bool) :=
    match fuel with
    | O => Ret None
    | S f =>
        r <- search sf t g0 g1 g2 hd k None ;;
        match r with
        | None => Ret None
        | Some (false, _) => Ret (Some false)
        | Some (true, p) =>
            ok <- unlink_node t p ;;
            if ok then Ret (Some true) else erase_loop f sf t g0 g1 g2 hd k
        end
    end.

  Definition list_erase (fuel : nat) (t site aux : nat) (k : Z) (fr : list nat) : prog (out (bool * list nat)) :=
    let '((g0, g1, g2), fr1) := alloc3 fr in
    r <- erase_loop fuel fuel t g0 g1 g2 (LCell t site aux) k ;;
    match r with
    | None => Ret None
    | Some b => fr2 <- free_guards t [g0; g1; g2] fr1 ;; Ret (Some (b, fr2))
    end.

  Definition list_find (fuel : nat) (t site aux : nat) (k : Z) (fr : list nat) : prog (out (bool * list nat)) :=
    let '((g0, g1, g2), fr1) := alloc3 fr in
    r <- search fuel t g0 g1 g2 (LCell t site aux) k None ;;
    match r with
    | None => Ret None
    | Some (b, _) => fr2 <- free_guards t [g0; g1; g2] fr1 ;; Ret (Some (b, fr2))
    end.

  (** ** bucket table *)
  Definition bucket (b : nat) : prog nat := Act a_ld_seg (fun _ => Act (a_ld_tab b) (fun v => Ret (vptr v))).
  Definition set_bucket (b n : nat) : prog unit :=
    Act a_ld_seg (fun _ => Act a_ld_seg (fun _ => Act (a_st_tab b n) (fun _ => Ret tt))).

  (** the loser of the insert_aux_node race waits until the winner publishes the bucket *)
  Fixpoint wait_bucket (fuel : nat) (b : nat) : prog (out nat) :=
    match fuel with
    | O => Ret None
    | S f => p <- bucket b ;; if Nat.eqb p 0 then wait_bucket f b else Ret (Some p)
    end.

  (** FreeList::put( n ): refs.fetch_add( SHOULD_BE_ON_FREELIST ) == 0 (nobody else references a node that was never on the
      list), then add_knowing_refcount_is_zero: head = m_Head.load; loop { next.store( head ); refs.store( 1 );
      if ( m_Head.CAS( head, n )) return; if ( refs.fetch_add( SHOULD_BE_ON_FREELIST - 1 ) == 1 ) continue; } *)
  Fixpoint fl_put_loop (fuel : nat) (n : nat) (hp : nat) : prog (out unit) :=
    match fuel with
    | O => Ret None
    | S f =>
        Act (a_st_flnext n) (fun _ => Act (a_st_refs n) (fun _ => Act (a_fl_cas hp n) (fun r =>
          if vmark r then Ret (Some tt) else Act (a_faa_refs n) (fun _ => fl_put_loop f n (vptr r)))))
    end.
  Definition fl_put (fuel : nat) (n : nat) : prog (out unit) :=
    Act (a_faa_refs n) (fun _ => Act a_fl_ld (fun v => fl_put_loop fuel n (vptr v))).

  (** init_bucket; [fr]: the free list of hazard slots is threaded through (insert_aux_node has its own position) *)
  Fixpoint init_bucket (fuel : nat) (t : nat) (depth : nat) (b : nat) (fr : list nat) : prog (out (nat * list nat)) :=
    match fuel with
    | O => Ret None
    | S f =>
        let nParent := parent_bucket b in
        pp <- bucket nParent ;;
        rp <- (if Nat.eqb pp 0 then init_bucket f t (S depth) nParent fr else Ret (Some (pp, fr))) ;;
        match rp with
        | None => Ret None
        | Some (pParent, fr1) =>
            pb <- bucket b ;;
            if negb (Nat.eqb pb 0) then Ret (Some (pb, fr1))
            else
              Act a_ld_auxlist (fun _ => Act a_ld_auxcnt (fun c =>
                if Z.ltb (vnum c) (Z.of_nat cap) then
                  Act a_faa_auxcnt (fun i =>
                    if Z.ltb (vnum i) (Z.of_nat cap) then
                      Act (a_new_aux (dkey b)) (fun nv =>
                        let n := vptr nv in
                        r <- list_insert f t (3 + depth) pParent (dkey b) (Some n) fr1 ;;   (* a recursive call has its own frame, hence its own head cell *)
                        match r with
                        | None => Ret None
                        | Some (true, fr2) => _ <- set_bucket b n ;; Ret (Some (n, fr2))
                        | Some (false, fr2) =>
                            u <- fl_put f n ;;
                            match u with
                            | None => Ret None
                            | Some _ => w <- wait_bucket f b ;;
                                        match w with None => Ret None | Some p => Ret (Some (p, fr2)) end
                            end
                        end)
                    else Ret None)      (* aux segment exhausted: free list / new segment are not modelled *)
                else Ret None))
        end
    end.

  Definition get_bucket (fuel : nat) (t : nat) (h : Z) (fr : list nat) : prog (out (nat * list nat)) :=
    Act a_ld_log2 (fun v =>
      let b := bucket_no h (Z.to_nat (vnum v)) in
      p <- bucket b ;;
      if Nat.eqb p 0 then init_bucket fuel t 0 b fr else Ret (Some (p, fr))).

  Definition inc_item_count : prog unit :=
    Act a_ld_max (fun m =>
      Act (a_cnt KFaa 1) (fun c =>
        let nMax := vnum m in
        if (Z.eqb nMax (-1)) || Z.leb (vnum c + 1) nMax then Ret tt
        else Act a_ld_log2 (fun s =>
          let sz := Z.to_nat (vnum s) in
          let nb := Z.shiftl 1 (vnum s) in
          if Z.ltb nb (Z.of_nat cap) then
            if Z.ltb nMax nb then Ret tt
            else Act (a_cas_max nMax (2 * nb)%Z) (fun _ => Act (a_cas_log2 sz) (fun _ => Ret tt))
          else Act (a_st_max (-1)) (fun _ => Ret tt)))).

  Definition zb (b : bool) : Z := if b then 1%Z else 0%Z.
  Definition ev_inv (code k : Z) : ev := EvCli "inv" [code; k].
  Definition ev_ret (a : bool) : ev := EvCli "ret" [zb a; 0%Z].
  Definition give_up : prog (out (list nat)) := Emit [EvCli "outoffuel" []] (Ret None).

  Definition run_op (fuel : nat) (t : nat) (o : list Z) (fr : list nat) : prog (out (list nat)) :=
    match o with
    | [code; k] =>
        let h := hash k in
        Emit [ev_inv code k]
          (gb <- get_bucket fuel t h fr ;;
           match gb with
           | None => give_up
           | Some (pHead, fr1) =>
               if Z.eqb code 1 then
                 r <- list_insert fuel t 0 pHead (okey h k) None fr1 ;;
                 match r with
                 | None => give_up
                 | Some (true, fr2) => _ <- inc_item_count ;; Emit [ev_ret true] (Ret (Some fr2))
                 | Some (false, fr2) => Emit [ev_ret false] (Ret (Some fr2))
                 end
               else if Z.eqb code 7 then
                 r <- list_erase fuel t 2 pHead (okey h k) fr1 ;;
                 match r with
                 | None => give_up
                 | Some (true, fr2) => Act (a_cnt KFas (-1)) (fun _ => Emit [ev_ret true] (Ret (Some fr2)))
                 | Some (false, fr2) => Emit [ev_ret false] (Ret (Some fr2))
                 end
               else
                 r <- list_find fuel t 1 pHead (okey h k) fr1 ;;
                 match r with
                 | None => give_up
                 | Some (b, fr2) => Emit [ev_ret b] (Ret (Some fr2))
                 end
           end)
    | _ => Ret (Some fr)
    end.

  Fixpoint run_ops (fuel : nat) (t : nat) (os : list (list Z)) (fr : list nat) : prog unit :=
    match os with
    | [] => Ret tt
    | o :: r => x <- run_op fuel t o fr ;; match x with Some fr' => run_ops fuel t r fr' | None => Ret tt end
    end.

  Definition thread_prog (fuel : nat) (t : nat) (os : list (list Z)) : Conc.thread G V ev :=
    Act a_begin (fun _ => run_ops fuel t os (seq 0 16)).

  (** the constructor: bucket 0's aux node (id 1, dummy key 0) is the first node of the list; 2 buckets, max item count 2 *)
  Definition init : G :=
    mkG (fun n => if Nat.eqb n 1 then mkNode (dkey 0) 0 false else mkNode 0 0 false) 1
        (fun b => if Nat.eqb b 0 then 1 else 0) 1 2%Z 0%Z 1 0.

  Fixpoint thread_progs (fuel : nat) (t : nat) (ths : list (list (list Z))) : list (Conc.thread G V ev) :=
    match ths with
    | [] => []
    | os :: r => thread_prog fuel t os :: thread_progs fuel (S t) r
    end.

  Definition init_cfg (fuel : nat) (ths : list (list (list Z))) : Conc.config G V ev :=
    Conc.Cfg init (thread_progs fuel 0 ths) [].
End Params.

(** entry point for the extracted driver.  cfg = [loop fuel; capacity of the bucket table; hash of key 0; hash of key 1; ...] *)
Definition run_case (cfg : list Z) (ths : list (list (list Z))) (sched : list nat) (fuel : nat)
  : list (nat * ev) * bool :=
  let lf := Z.to_nat (nth 0 cfg 50%Z) in
  let cap := Z.to_nat (nth 1 cfg 8%Z) in
  let hs := skipn 2 cfg in
  let r := Conc.run fuel 0 sched (init_cfg cap hs lf ths) in
  (Conc.trace (fst r), snd r).
