(** * FcBatch: the sequential callbacks of the flat-combining containers as PURE functions.

    For every container: [X_apply] = fc_apply (one request applied to the sequential container),
    [X_visit] = the body of the `for ( it = itBegin; it != itEnd; ++it )` loop of fc_process with the
    loop-local iterator itPrev, [batch_run X_visit] = fc_process over the list of pending requests in
    publication-list order.  The functions have exactly the types LV.Model.FcKernel expects for its
    Section parameters [capply] / [pvisit], so the same text is what the kernel model executes.

    Request words (enum fc_operation of each container, first value = req_Operation = 2):
      FCDeque          op_push_front 2, op_push_front_move 3, op_push_back 4, op_push_back_move 5,
                       op_pop_front 6, op_pop_back 7, op_clear 8
      FCQueue          op_enq 2, op_enq_move 3, op_deq 4, op_clear 5
      FCStack          op_push 2, op_push_move 3, op_pop 4, op_clear 5, op_empty 6
      FCPriorityQueue  op_push 2, op_push_move 3, op_pop 4, op_clear 5
    The move variants differ only in how the C++ value is transferred; values are integers here.
    op_clear / op_empty are outside the sequential specifications of LV.Spec.Specs and are not part of the
    client programs of the theorems (fc_process ignores them: its switch has no such case).

    cds/container/fcdeque.h (current tree):

      fc_apply( pRec ):  switch ( pRec->op()) {
        op_push_front[_move]: m_Deque.push_front( *pRec->pValPush );
        op_push_back[_move]:  m_Deque.push_back( *pRec->pValPush );
        op_pop_front: pRec->bEmpty = m_Deque.empty(); if ( !pRec->bEmpty ) { *pRec->pValPop = m_Deque.front(); m_Deque.pop_front(); }
        op_pop_back:  pRec->bEmpty = m_Deque.empty(); if ( !pRec->bEmpty ) { *pRec->pValPop = m_Deque.back();  m_Deque.pop_back(); } }

      fc_process( itBegin, itEnd ):  for ( it = itBegin, itPrev = itEnd; it != itEnd; ++it ) switch ( it->op()) {
        op_push_front[_move]: if ( itPrev != itEnd && ( itPrev->op() == op_pop_front || ( m_Deque.empty() && itPrev->op() == op_pop_back )))
                                   { collide( *it, *itPrev ); itPrev = itEnd; } else itPrev = it;
        op_push_back[_move]:  if ( itPrev != itEnd && ( itPrev->op() == op_pop_back || ( m_Deque.empty() && itPrev->op() == op_pop_front )))
                                   { collide( *it, *itPrev ); itPrev = itEnd; } else itPrev = it;
        op_pop_front: if ( itPrev != itEnd ) {
                        if ( m_Deque.empty()) switch ( itPrev->op()) { op_push_back[_move]:  collide( *itPrev, *it ); itPrev = itEnd;  default: itPrev = it; }
                        else                  switch ( itPrev->op()) { op_push_front[_move]: collide( *itPrev, *it ); itPrev = itEnd;  default: itPrev = it; } }
                      else itPrev = it;
        op_pop_back:  the same with front and back exchanged }
      collide( recPush, recPop ): *recPop.pValPop = *recPush.pValPush; recPop.bEmpty = false;
                                  operation_done( recPush ); operation_done( recPop );

    cds/container/fcqueue.h:  fc_process: case op_enq, op_enq_move, op_deq:
        if ( m_Queue.empty()) { if ( itPrev != itEnd && collide( *itPrev, *it )) itPrev = itEnd; else itPrev = it; }
      collide( rec1, rec2 ): an enqueue and a dequeue (in either order) -> the dequeue receives the enqueued
        value, operation_done( enqueue record ); operation_done( dequeue record ); returns true; otherwise false.
    cds/container/fcstack.h:  fc_process: case op_push, op_push_move, op_pop:
        if ( itPrev != itEnd && collide( *itPrev, *it )) itPrev = itEnd; else itPrev = it;     (same collide)
    cds/container/fcpriority_queue.h: no fc_process (only kernel::combine is used). *)
From Coq Require Import ZArith List Bool PeanoNat.
From LV Require Import Base.Lin Spec.Specs.
Import ListNotations.

(** loop-local state of every fc_process: itPrev = (record, request word, argument) *)
Definition itprev := option (nat * nat * Z).

(** the responses of one iteration: (record, response) in operation_done order *)
Definition comps := list (nat * res).

(** fc_process over the pending requests (record, request word, owner thread, argument) in list order *)
Section Batch.
  Variables (C P R : Type).
  Variable visit : P -> C -> nat -> nat -> nat -> Z -> P * C * list (nat * R).
  Fixpoint batch_run (p : P) (c : C) (reqs : list (nat * nat * nat * Z)) : P * C * list (nat * R) :=
    match reqs with
    | [] => (p, c, [])
    | (r, op, tid, arg) :: rest =>
        let '(p1, c1, cs1) := visit p c r op tid arg in
        let '(p2, c2, cs2) := batch_run p1 c1 rest in
        (p2, c2, cs1 ++ cs2)
    end.
End Batch.
Arguments batch_run {C P R} visit p c reqs.

Definition is_nil {A} (l : list A) : bool := match l with [] => true | _ => false end.

(** ** FCDeque *)
Definition dq_push_front (op : nat) : bool := Nat.eqb op 2 || Nat.eqb op 3.
Definition dq_push_back (op : nat) : bool := Nat.eqb op 4 || Nat.eqb op 5.
Definition dq_pop_front (op : nat) : bool := Nat.eqb op 6.
Definition dq_pop_back (op : nat) : bool := Nat.eqb op 7.
Definition dq_okop (op : nat) : bool := dq_push_front op || dq_push_back op || dq_pop_front op || dq_pop_back op.

Definition dq_dec (op : nat) (arg : Z) : dop :=
  if dq_push_front op then PushFront arg
  else if dq_push_back op then PushBack arg
  else if dq_pop_front op then PopFront
  else PopBack.

Definition dq_apply (d : list Z) (op : nat) (arg : Z) : list Z * res :=
  if dq_push_front op then (arg :: d, RBool true)
  else if dq_push_back op then (d ++ [arg], RBool true)
  else if dq_pop_front op then
    match d with [] => ([], RVal None) | x :: d' => (d', RVal (Some x)) end
  else if dq_pop_back op then
    match rev d with [] => ([], RVal None) | x :: r => (rev r, RVal (Some x)) end
  else (d, RUnit).

(** collide( recPush, recPop ) *)
Definition collide (rpush : nat) (v : Z) (rpop : nat) : comps := [(rpush, RBool true); (rpop, RVal (Some v))].

Definition dq_visit (p : itprev) (d : list Z) (r op tid : nat) (arg : Z) : itprev * list Z * comps :=
  let keep := (Some (r, op, arg), d, []) in
  if dq_push_front op then
    match p with
    | Some (q, oq, _) => if dq_pop_front oq || (is_nil d && dq_pop_back oq) then (None, d, collide r arg q) else keep
    | None => keep
    end
  else if dq_push_back op then
    match p with
    | Some (q, oq, _) => if dq_pop_back oq || (is_nil d && dq_pop_front oq) then (None, d, collide r arg q) else keep
    | None => keep
    end
  else if dq_pop_front op then
    match p with
    | Some (q, oq, aq) =>
        if is_nil d then (if dq_push_back oq then (None, d, collide q aq r) else keep)
        else (if dq_push_front oq then (None, d, collide q aq r) else keep)
    | None => keep
    end
  else if dq_pop_back op then
    match p with
    | Some (q, oq, aq) =>
        if is_nil d then (if dq_push_front oq then (None, d, collide q aq r) else keep)
        else (if dq_push_back oq then (None, d, collide q aq r) else keep)
    | None => keep
    end
  else (p, d, []).

Definition dq_process := batch_run dq_visit.

(** the collided pairs of one fc_process call: (push record, push word, pop record, pop word) *)
Definition dq_visit_pair (p : itprev) (d : list Z) (r op : nat) : option (nat * nat * nat * nat) :=
  match p with
  | None => None
  | Some (q, oq, _) =>
      if dq_push_front op then (if dq_pop_front oq || (is_nil d && dq_pop_back oq) then Some (r, op, q, oq) else None)
      else if dq_push_back op then (if dq_pop_back oq || (is_nil d && dq_pop_front oq) then Some (r, op, q, oq) else None)
      else if dq_pop_front op then
        (if is_nil d then (if dq_push_back oq then Some (q, oq, r, op) else None)
         else (if dq_push_front oq then Some (q, oq, r, op) else None))
      else if dq_pop_back op then
        (if is_nil d then (if dq_push_front oq then Some (q, oq, r, op) else None)
         else (if dq_push_back oq then Some (q, oq, r, op) else None))
      else None
  end.

Fixpoint dq_pairs (p : itprev) (d : list Z) (reqs : list (nat * nat * nat * Z)) : list (nat * nat * nat * nat) :=
  match reqs with
  | [] => []
  | (r, op, tid, arg) :: rest =>
      let '(p1, d1, _) := dq_visit p d r op tid arg in
      match dq_visit_pair p d r op with
      | Some x => x :: dq_pairs p1 d1 rest
      | None => dq_pairs p1 d1 rest
      end
  end.

(** ** FCQueue *)
Definition q_enq (op : nat) : bool := Nat.eqb op 2 || Nat.eqb op 3.
Definition q_deq (op : nat) : bool := Nat.eqb op 4.
Definition q_okop (op : nat) : bool := q_enq op || q_deq op.
Definition q_dec (op : nat) (arg : Z) : qop := if q_enq op then Enq arg else Deq.

Definition q_apply (q : list Z) (op : nat) (arg : Z) : list Z * res :=
  if q_enq op then (q ++ [arg], RBool true)
  else if q_deq op then match q with [] => ([], RVal None) | x :: q' => (q', RVal (Some x)) end
  else (q, RUnit).

Definition q_visit (p : itprev) (q : list Z) (r op tid : nat) (arg : Z) : itprev * list Z * comps :=
  if q_okop op then
    if is_nil q then
      match p with
      | Some (r1, o1, a1) =>
          if q_enq o1 && q_deq op then (None, q, collide r1 a1 r)
          else if q_deq o1 && q_enq op then (None, q, collide r arg r1)
          else (Some (r, op, arg), q, [])
      | None => (Some (r, op, arg), q, [])
      end
    else (p, q, [])
  else (p, q, []).

Definition q_process := batch_run q_visit.

(** ** FCStack *)
Definition s_push (op : nat) : bool := Nat.eqb op 2 || Nat.eqb op 3.
Definition s_pop (op : nat) : bool := Nat.eqb op 4.
Definition s_okop (op : nat) : bool := s_push op || s_pop op.
Definition s_dec (op : nat) (arg : Z) : pop_op := if s_push op then Push arg else Pop.

Definition s_apply (s : list Z) (op : nat) (arg : Z) : list Z * res :=
  if s_push op then (arg :: s, RBool true)
  else if s_pop op then match s with [] => ([], RVal None) | x :: s' => (s', RVal (Some x)) end
  else (s, RUnit).

Definition s_visit (p : itprev) (s : list Z) (r op tid : nat) (arg : Z) : itprev * list Z * comps :=
  if s_okop op then
    match p with
    | Some (r1, o1, a1) =>
        if s_push o1 && s_pop op then (None, s, collide r1 a1 r)
        else if s_pop o1 && s_push op then (None, s, collide r arg r1)
        else (Some (r, op, arg), s, [])
    | None => (Some (r, op, arg), s, [])
    end
  else (p, s, []).

Definition s_process := batch_run s_visit.

(** ** FCPriorityQueue over std::priority_queue (modelled by its specification: the multiset of items) *)
Definition pq_apply (s : list Z) (op : nat) (arg : Z) : list Z * res :=
  if s_push op then (arg :: s, RBool true)
  else if s_pop op then pq_pop s
  else (s, RUnit).

Definition no_visit (p : itprev) (s : list Z) (r op tid : nat) (arg : Z) : itprev * list Z * comps := (p, s, []).

(** responses as integer lists (events of the kernel model) and back *)
Definition res_enc (r : res) : list Z :=
  match r with
  | RUnit => [3]
  | RBool b => [0; if b then 1 else 0]
  | RVal None => [1]
  | RVal (Some v) => [2; v]
  | RPair a b => [4; if a then 1 else 0; if b then 1 else 0]
  end%Z.

Definition res_dec (l : list Z) : res :=
  match l with
  | [0; b] => RBool (negb (Z.eqb b 0))
  | [1] => RVal None
  | [2; v] => RVal (Some v)
  | [4; a; b] => RPair (negb (Z.eqb a 0)) (negb (Z.eqb b 0))
  | _ => RUnit
  end%Z.
