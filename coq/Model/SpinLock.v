(** * Model of cds::sync::spin_lock<Backoff> (cds/sync/spinlock.h), one atomic access per [Act].

    C++ (current tree):
      try_lock():  bCurrent = m_spin.exchange(true);  return !bCurrent;
      lock():      while ( !try_lock()) { while ( m_spin.load()) backoff(); }
      unlock():    m_spin.store(false);

    Client operations (what harness/C22/main.cpp executes on the real lock):
      [1; l]  CS l     lock(l);  "enter l";  touch data[l];  "leave l";  unlock(l)
      [2; l]  TryCS l  if try_lock(l) { "enter l"; touch data[l]; "leave l"; unlock(l) }
    The touch of data[l] is an atomic load of a harness variable: a scheduling point inside the
    critical section, so that two threads inside together would be visible in the trace. *)
From Coq Require Import ZArith List String Bool Lia.
From LV Require Import Base.Conc Base.Events.
Import ListNotations.
Local Open Scope Z_scope.
Local Open Scope string_scope.

(** shared state: [spins l] = m_spin of lock l; data[l] carries no information *)
Record G := mkG { spins : nat -> bool }.
Definition V := bool.

Definition prog := Conc.prog G V ev.

Definition get_spin (g : G) (l : nat) : bool := spins g l.
Definition set_spin (g : G) (l : nat) (b : bool) : G :=
  mkG (fun x => if Nat.eqb x l then b else spins g x).

Definition obj_spin (l : nat) : list Z := [0; Z.of_nat l].
Definition obj_data (l : nat) : list Z := [1; Z.of_nat l].

Definition a_begin : G -> G * V * list ev := fun g => (g, false, [EvAcc KBegin [] true]).
Definition a_xchg (l : nat) : G -> G * V * list ev :=
  fun g => (set_spin g l true, get_spin g l, [EvAcc KXchg (obj_spin l) true]).
Definition a_load (l : nat) : G -> G * V * list ev :=
  fun g => (g, get_spin g l, [EvAcc KLd (obj_spin l) true]).
Definition a_unlock (l : nat) : G -> G * V * list ev :=
  fun g => (set_spin g l false, false, [EvAcc KSt (obj_spin l) true]).
Definition a_touch (l : nat) : G -> G * V * list ev :=
  fun g => (g, false, [EvAcc KLd (obj_data l) true]).

Definition try_lock (l : nat) : prog bool :=
  Act (a_xchg l) (fun old => Ret (negb old)).

(** TATAS loop; [false] = fuel exhausted (the thread never got the lock) *)
Fixpoint lock_outer (fuel : nat) (l : nat) : prog bool :=
  match fuel with
  | O => Ret false
  | S f => Act (a_xchg l) (fun old => if old then lock_inner f l else Ret true)
  end
with lock_inner (fuel : nat) (l : nat) : prog bool :=
  match fuel with
  | O => Ret false
  | S f => Act (a_load l) (fun v => if v then lock_inner f l else lock_outer f l)
  end.

Definition unlock (l : nat) : prog unit := Act (a_unlock l) (fun _ => Ret tt).

Definition zl (l : nat) : list Z := [Z.of_nat l].

(** the critical section itself, entered only by a thread that acquired lock [l] *)
Definition critical (l : nat) : prog unit :=
  Emit [EvCli "enter" (zl l)]
    (Act (a_touch l) (fun _ =>
       Emit [EvCli "leave" (zl l)] (unlock l))).

Inductive op := CS (l : nat) | TryCS (l : nat).

Definition run_op (fuel : nat) (o : op) : prog unit :=
  match o with
  | CS l =>
      Emit [EvCli "inv_cs" (zl l)]
        (bind (lock_outer fuel l) (fun ok =>
           if ok then bind (critical l) (fun _ => Emit [EvCli "ret" [1]] (Ret tt))
           else Emit [EvCli "outoffuel" []] (Ret tt)))
  | TryCS l =>
      Emit [EvCli "inv_trycs" (zl l)]
        (bind (try_lock l) (fun ok =>
           if ok then bind (critical l) (fun _ => Emit [EvCli "ret" [1]] (Ret tt))
           else Emit [EvCli "ret" [0]] (Ret tt)))
  end.

Fixpoint run_ops (fuel : nat) (os : list op) : prog unit :=
  match os with
  | [] => Ret tt
  | o :: r => bind (run_op fuel o) (fun _ => run_ops fuel r)
  end.

Definition thread_prog (fuel : nat) (os : list op) : Conc.thread G V ev :=
  Act a_begin (fun _ => run_ops fuel os).

Definition init (nlocks : nat) : G := mkG (fun _ => false).

Definition init_cfg (fuel nlocks : nat) (ths : list (list op)) : Conc.config G V ev :=
  Conc.Cfg (init nlocks) (map (thread_prog fuel) ths) [].

(** ** entry point for the extracted driver: operations arrive as integer lists *)
Definition decode_op (o : list Z) : option op :=
  match o with
  | [1; l] => Some (CS (Z.to_nat l))
  | [2; l] => Some (TryCS (Z.to_nat l))
  | _ => None
  end.

Fixpoint decode_ops (os : list (list Z)) : list op :=
  match os with
  | [] => []
  | o :: r => match decode_op o with Some x => x :: decode_ops r | None => decode_ops r end
  end.

(** cfg = [nlocks; spin fuel] *)
Definition run_case (cfg : list Z) (ths : list (list (list Z))) (sched : list nat) (fuel : nat)
  : list (nat * ev) * bool :=
  let nlocks := Z.to_nat (nth 0 cfg 1) in
  let sfuel := Z.to_nat (nth 1 cfg 1000) in
  let r := Conc.run fuel 0 sched (init_cfg sfuel nlocks (map decode_ops ths)) in
  (Conc.trace (fst r), snd r).
