(** * Model of cds::container::VyukovMPMCCycleQueue<T, Traits> (cds/container/vyukov_mpmc_cycle_queue.h);
      cds::intrusive::VyukovMPMCCycleQueue<T> is the same code instantiated at T* (it derives privately from
      container::VyukovMPMCCycleQueue<T*, Traits> and forwards enqueue(&data) / dequeue(p)).
    One [Act] per atomic access, in program order.  Non-atomic accesses to cell->data are part of the local
    computation that follows an access (the functor call f(cell->data) after the successful position CAS).

    C++ (current tree), with the atomics numbered as they appear in the model:

      constructor:  for i in [0,cap): m_buffer[i].sequence.store(i);  m_posEnqueue.store(0);  m_posDequeue.store(0);
                    m_nBufferMask( m_buffer.capacity() - 1 )

      enqueue_with(f):
          size_t pos = m_posEnqueue.load();                                              (E1)
          for (;;) {
              cell = &m_buffer[pos & m_nBufferMask];
              size_t seq = cell->sequence.load();                                        (E2)
              intptr_t dif = static_cast<intptr_t>(seq) - static_cast<intptr_t>(pos);
              if (dif == 0) {
                  if ( m_posEnqueue.compare_exchange_weak(pos, pos + 1) ) break;         (E3; failure stores the
              }                                                                               observed value in pos)
              else if (dif < 0) {
                  if ( pos - m_posDequeue.load() == capacity() ) return false;           (E4)
                  bkoff();                                                               (no atomic access)
                  pos = m_posEnqueue.load();                                             (E5)
              }
              else pos = m_posEnqueue.load();                                            (E5)
          }
          f( cell->data );                                                               (non-atomic, same step as E3)
          cell->sequence.store(pos + 1);                                                 (E6)
          ++m_ItemCounter;                                                               (E7, only item_counter)
          return true;

      dequeue_with(f):
          size_t pos = m_posDequeue.load();                                              (D1)
          for (;;) {
              cell = &m_buffer[pos & m_nBufferMask];
              size_t seq = cell->sequence.load();                                        (D2)
              intptr_t dif = static_cast<intptr_t>(seq) - static_cast<intptr_t>(pos + 1);
              if (dif == 0) { if ( m_posDequeue.compare_exchange_weak(pos, pos + 1) ) break; }   (D3)
              else if (dif < 0) {
                  if ( pos - m_posEnqueue.load() == 0 ) return false;                    (D4)
                  bkoff();
                  pos = m_posDequeue.load();                                             (D5)
              }
              else pos = m_posDequeue.load();                                            (D5)
          }
          f( cell->data );  value_cleaner()( cell->data );                               (non-atomic, same step as D3)
          cell->sequence.store( pos + m_nBufferMask + 1 );                               (D6)
          --m_ItemCounter;                                                               (D7, only item_counter)
          return true;

      front()  [single consumer]: as dequeue_with up to the test; dif == 0 -> return &cell->data (no CAS);
      pop_front(): dequeue_with( []( value_type& ) {} );
      empty():  pos = m_posDequeue.load(); for(;;){ seq = cell(pos)->sequence.load(); dif = seq - (pos+1);
                  if (dif == 0) return false;
                  else if (dif < 0) { if ( pos - m_posEnqueue.load() == 0 ) return true; }
                  bkoff(); pos = m_posDequeue.load(); }
      size():   m_ItemCounter.value()   (one relaxed load for item_counter; constant 0 and no access for
                                          empty_item_counter)

    Integer semantics (LV.Base.CInt): size_t arithmetic wraps modulo 2^64 ([uadd u64], [usub u64]); the cast
    to intptr_t is [cast i64] (reduction modulo 2^64 into the signed range) and the signed subtraction is
    [ssub i64], whose overflow is undefined behaviour: outcome [UB] of the model (proved unreachable under the
    stated bound in LV.Proofs.VyukovProofs).  [pos & m_nBufferMask] is [Z.land].

    Client operations (what harness/C07/main.cpp executes on the real queue):
      [1; v] enqueue(v)   [2] dequeue(dest)   [3] front() + read   [4] pop_front()   [5] empty()   [6] size() *)
From Coq Require Import ZArith List String Bool Lia.
From LV Require Import Base.Conc Base.Events Base.CInt.
Import ListNotations.
Local Open Scope Z_scope.
Local Open Scope string_scope.

(** queue configuration: capacity (a power of two >= 2, not checked by the code under NDEBUG) and whether
    traits::item_counter is cds::atomicity::item_counter (true) or empty_item_counter (false) *)
Record qcfg := mkQ { qcap : Z; qcount : bool }.
Definition qmask (q : qcfg) : Z := usub u64 (qcap q) 1.

(** shared state *)
Record G := mkG {
  posE : Z;            (* m_posEnqueue *)
  posD : Z;            (* m_posDequeue *)
  seqs : Z -> Z;       (* m_buffer[i].sequence *)
  datas : Z -> Z;      (* m_buffer[i].data (non-atomic) *)
  cnt : Z              (* m_ItemCounter (only touched when qcount) *)
}.

(** what one step hands back to the thread: the value read (or, for a CAS, the value observed in the
    location), the success flag of a CAS, and the content of the cell's data field read non-atomically in the
    local computation that follows the access (used after D3 and after the dif==0 load of front()). *)
Record V := mkV { vz : Z; vok : bool; vdata : Z }.

Definition prog := Conc.prog G V ev.

Definition upd (f : Z -> Z) (i x : Z) : Z -> Z := fun j => if Z.eqb j i then x else f j.

Definition set_posE (g : G) (x : Z) : G := mkG x (posD g) (seqs g) (datas g) (cnt g).
Definition set_posD (g : G) (x : Z) : G := mkG (posE g) x (seqs g) (datas g) (cnt g).
Definition set_seq (g : G) (i x : Z) : G := mkG (posE g) (posD g) (upd (seqs g) i x) (datas g) (cnt g).
Definition set_data (g : G) (i x : Z) : G := mkG (posE g) (posD g) (seqs g) (upd (datas g) i x) (cnt g).
Definition set_cnt (g : G) (x : Z) : G := mkG (posE g) (posD g) (seqs g) (datas g) x.

Definition obj_posE : list Z := [0].
Definition obj_posD : list Z := [1].
Definition obj_seq (i : Z) : list Z := [2; i].
Definition obj_cnt : list Z := [3].

(** every access logs its kind/object/ok flag and, as a separate pseudo client event, the value read and the
    value written exactly as the instrumented atomic logs them (ld: r r; st: d d; cas: observed desired;
    faa/fas: old new) *)
Definition acc (k : akind) (o : list Z) (ok : bool) (rd wr : Z) : list ev :=
  [EvAcc k o ok; EvCli "val" [rd; wr]].

Definition a_begin : G -> G * V * list ev := fun g => (g, mkV 0 true 0, [EvAcc KBegin [] true]).

Definition a_ld_posE : G -> G * V * list ev :=
  fun g => (g, mkV (posE g) true 0, acc KLd obj_posE true (posE g) (posE g)).
Definition a_ld_posD : G -> G * V * list ev :=
  fun g => (g, mkV (posD g) true 0, acc KLd obj_posD true (posD g) (posD g)).
Definition a_ld_seq (i : Z) : G -> G * V * list ev :=
  fun g => (g, mkV (seqs g i) true (datas g i), acc KLd (obj_seq i) true (seqs g i) (seqs g i)).
Definition a_st_seq (i x : Z) : G -> G * V * list ev :=
  fun g => (set_seq g i x, mkV x true 0, acc KSt (obj_seq i) true x x).

(** E3: CAS on m_posEnqueue; on success the caller's functor writes [v] into the claimed cell [i] *)
Definition a_cas_posE (expected desired i v : Z) : G -> G * V * list ev :=
  fun g =>
    if Z.eqb (posE g) expected
    then (set_data (set_posE g desired) i v, mkV (posE g) true 0, acc KCas obj_posE true (posE g) desired)
    else (g, mkV (posE g) false 0, acc KCas obj_posE false (posE g) desired).

(** D3: CAS on m_posDequeue; on success the caller's functor reads the data of cell [i] *)
Definition a_cas_posD (expected desired i : Z) : G -> G * V * list ev :=
  fun g =>
    if Z.eqb (posD g) expected
    then (set_posD g desired, mkV (posD g) true (datas g i), acc KCas obj_posD true (posD g) desired)
    else (g, mkV (posD g) false 0, acc KCas obj_posD false (posD g) desired).

Definition a_faa_cnt : G -> G * V * list ev :=
  fun g => (set_cnt g (uadd u64 (cnt g) 1), mkV (cnt g) true 0, acc KFaa obj_cnt true (cnt g) (uadd u64 (cnt g) 1)).
Definition a_fas_cnt : G -> G * V * list ev :=
  fun g => (set_cnt g (usub u64 (cnt g) 1), mkV (cnt g) true 0, acc KFas obj_cnt true (cnt g) (usub u64 (cnt g) 1)).
Definition a_ld_cnt : G -> G * V * list ev :=
  fun g => (g, mkV (cnt g) true 0, acc KLd obj_cnt true (cnt g) (cnt g)).

(** static_cast<intptr_t>(a) - static_cast<intptr_t>(b);  None = signed overflow *)
Definition sdif (a b : Z) : option Z := ssub i64 (cast i64 a) (cast i64 b).

Inductive outcome (A : Type) := Done (a : A) | OutOfFuel | UB.
Arguments Done {A} a.
Arguments OutOfFuel {A}.
Arguments UB {A}.

(** E6, E7 *)
Definition enq_finish (q : qcfg) (idx pos : Z) : prog (outcome bool) :=
  Act (a_st_seq idx (uadd u64 pos 1)) (fun _ =>
    if qcount q then Act a_faa_cnt (fun _ => Ret (Done true)) else Ret (Done true)).

(** the for(;;) of enqueue_with, entered with the current local [pos] *)
Fixpoint enq_loop (q : qcfg) (fuel : nat) (v pos : Z) : prog (outcome bool) :=
  match fuel with
  | O => Ret OutOfFuel
  | S f =>
      let idx := Z.land pos (qmask q) in
      Act (a_ld_seq idx) (fun r =>                                              (* E2 *)
        match sdif (vz r) pos with
        | None => Ret UB
        | Some dif =>
            if (dif =? 0)%Z then
              Act (a_cas_posE pos (uadd u64 pos 1) idx v) (fun c =>             (* E3 *)
                if vok c then enq_finish q idx pos
                else enq_loop q f v (vz c))
            else if (dif <? 0)%Z then
              Act a_ld_posD (fun d =>                                           (* E4 *)
                if (usub u64 pos (vz d) =? qcap q)%Z then Ret (Done false)
                else Act a_ld_posE (fun p => enq_loop q f v (vz p)))            (* E5 *)
            else
              Act a_ld_posE (fun p => enq_loop q f v (vz p))                    (* E5 *)
        end)
  end.

Definition enqueue (q : qcfg) (fuel : nat) (v : Z) : prog (outcome bool) :=
  Act a_ld_posE (fun p => enq_loop q fuel v (vz p)).                            (* E1 *)

(** D6, D7; [x] is the value the functor copied out of the cell *)
Definition deq_finish (q : qcfg) (idx pos x : Z) : prog (outcome (option Z)) :=
  Act (a_st_seq idx (uadd u64 (uadd u64 pos (qmask q)) 1)) (fun _ =>
    if qcount q then Act a_fas_cnt (fun _ => Ret (Done (Some x))) else Ret (Done (Some x))).

Fixpoint deq_loop (q : qcfg) (fuel : nat) (pos : Z) : prog (outcome (option Z)) :=
  match fuel with
  | O => Ret OutOfFuel
  | S f =>
      let idx := Z.land pos (qmask q) in
      Act (a_ld_seq idx) (fun r =>                                              (* D2 *)
        match sdif (vz r) (uadd u64 pos 1) with
        | None => Ret UB
        | Some dif =>
            if (dif =? 0)%Z then
              Act (a_cas_posD pos (uadd u64 pos 1) idx) (fun c =>               (* D3 *)
                if vok c then deq_finish q idx pos (vdata c)
                else deq_loop q f (vz c))
            else if (dif <? 0)%Z then
              Act a_ld_posE (fun e =>                                           (* D4 *)
                if (usub u64 pos (vz e) =? 0)%Z then Ret (Done None)
                else Act a_ld_posD (fun p => deq_loop q f (vz p)))              (* D5 *)
            else
              Act a_ld_posD (fun p => deq_loop q f (vz p))                      (* D5 *)
        end)
  end.

Definition dequeue (q : qcfg) (fuel : nat) : prog (outcome (option Z)) :=
  Act a_ld_posD (fun p => deq_loop q fuel (vz p)).                              (* D1 *)

(** front(): Some x = pointer to a cell whose data the caller reads at once (same local computation) *)
Fixpoint front_loop (q : qcfg) (fuel : nat) (pos : Z) : prog (outcome (option Z)) :=
  match fuel with
  | O => Ret OutOfFuel
  | S f =>
      let idx := Z.land pos (qmask q) in
      Act (a_ld_seq idx) (fun r =>
        match sdif (vz r) (uadd u64 pos 1) with
        | None => Ret UB
        | Some dif =>
            if (dif =? 0)%Z then Ret (Done (Some (vdata r)))
            else if (dif <? 0)%Z then
              Act a_ld_posE (fun e =>
                if (usub u64 pos (vz e) =? 0)%Z then Ret (Done None)
                else Act a_ld_posD (fun p => front_loop q f (vz p)))
            else
              Act a_ld_posD (fun p => front_loop q f (vz p))
        end)
  end.

Definition front (q : qcfg) (fuel : nat) : prog (outcome (option Z)) :=
  Act a_ld_posD (fun p => front_loop q fuel (vz p)).

Fixpoint empty_loop (q : qcfg) (fuel : nat) (pos : Z) : prog (outcome bool) :=
  match fuel with
  | O => Ret OutOfFuel
  | S f =>
      let idx := Z.land pos (qmask q) in
      Act (a_ld_seq idx) (fun r =>
        match sdif (vz r) (uadd u64 pos 1) with
        | None => Ret UB
        | Some dif =>
            if (dif =? 0)%Z then Ret (Done false)
            else if (dif <? 0)%Z then
              Act a_ld_posE (fun e =>
                if (usub u64 pos (vz e) =? 0)%Z then Ret (Done true)
                else Act a_ld_posD (fun p => empty_loop q f (vz p)))
            else
              Act a_ld_posD (fun p => empty_loop q f (vz p))
        end)
  end.

Definition empty (q : qcfg) (fuel : nat) : prog (outcome bool) :=
  Act a_ld_posD (fun p => empty_loop q fuel (vz p)).

Definition size (q : qcfg) : prog Z :=
  if qcount q then Act a_ld_cnt (fun r => Ret (vz r)) else Ret 0.

(** ** client operations and their events *)
Inductive op := OEnq (v : Z) | ODeq | OFront | OPop | OEmpty | OSize.

Definition b2z (b : bool) : Z := if b then 1 else 0.

(** a thread whose loop fuel is exhausted (or that hit undefined behaviour) stops: [false] *)
Definition finish {A} (o : outcome A) (k : A -> prog bool) : prog bool :=
  match o with
  | Done a => k a
  | OutOfFuel => Emit [EvCli "outoffuel" []] (Ret false)
  | UB => Emit [EvCli "ub" []] (Ret false)
  end.

Definition run_op (q : qcfg) (fuel : nat) (o : op) : prog bool :=
  match o with
  | OEnq v =>
      Emit [EvCli "inv_enq" [v]]
        (bind (enqueue q fuel v) (fun r => finish r (fun b => Emit [EvCli "ret_enq" [b2z b]] (Ret true))))
  | ODeq =>
      Emit [EvCli "inv_deq" []]
        (bind (dequeue q fuel) (fun r => finish r (fun x =>
           match x with
           | Some v => Emit [EvCli "ret_deq" [1; v]] (Ret true)
           | None => Emit [EvCli "ret_deq" [0; 0]] (Ret true)
           end)))
  | OFront =>
      Emit [EvCli "inv_front" []]
        (bind (front q fuel) (fun r => finish r (fun x =>
           match x with
           | Some v => Emit [EvCli "ret_front" [1; v]] (Ret true)
           | None => Emit [EvCli "ret_front" [0; 0]] (Ret true)
           end)))
  | OPop =>
      Emit [EvCli "inv_pop" []]
        (bind (dequeue q fuel) (fun r => finish r (fun x =>
           match x with
           | Some _ => Emit [EvCli "ret_pop" [1]] (Ret true)
           | None => Emit [EvCli "ret_pop" [0]] (Ret true)
           end)))
  | OEmpty =>
      Emit [EvCli "inv_empty" []]
        (bind (empty q fuel) (fun r => finish r (fun b => Emit [EvCli "ret_empty" [b2z b]] (Ret true))))
  | OSize =>
      Emit [EvCli "inv_size" []]
        (bind (size q) (fun n => Emit [EvCli "ret_size" [n]] (Ret true)))
  end.

Fixpoint run_ops (q : qcfg) (fuel : nat) (os : list op) : prog unit :=
  match os with
  | [] => Ret tt
  | o :: r => bind (run_op q fuel o) (fun ok => if ok then run_ops q fuel r else Ret tt)
  end.

Definition thread_prog (q : qcfg) (fuel : nat) (os : list op) : Conc.thread G V ev :=
  Act a_begin (fun _ => run_ops q fuel os).

(** the constructor's result *)
Definition init : G := mkG 0 0 (fun i => i) (fun _ => 0) 0.

Definition init_cfg (q : qcfg) (fuel : nat) (ths : list (list op)) : Conc.config G V ev :=
  Conc.Cfg init (map (thread_prog q fuel) ths) [].

(** ** entry point for the extracted driver *)
Definition decode_op (o : list Z) : option op :=
  match o with
  | [1; v] => Some (OEnq v)
  | [2] => Some ODeq
  | [3] => Some OFront
  | [4] => Some OPop
  | [5] => Some OEmpty
  | [6] => Some OSize
  | _ => None
  end.

Fixpoint decode_ops (os : list (list Z)) : list op :=
  match os with
  | [] => []
  | o :: r => match decode_op o with Some x => x :: decode_ops r | None => decode_ops r end
  end.

(** cfg = [capacity; variant (ignored by the model: 0 container/dynamic, 1 container/static, 2 intrusive);
           item counter on (1) / off (0); loop fuel] *)
Definition run_case (cfg : list Z) (ths : list (list (list Z))) (sched : list nat) (fuel : nat)
  : list (nat * ev) * bool :=
  let q := mkQ (nth 0 cfg 2) (Z.eqb (nth 2 cfg 0) 1) in
  let lfuel := Z.to_nat (nth 3 cfg 4000) in
  let r := Conc.run fuel 0 sched (init_cfg q lfuel (map decode_ops ths)) in
  (Conc.trace (fst r), snd r).
