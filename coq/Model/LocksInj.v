(** * Model of cds::sync::injecting_monitor< spin_lock > (cds/sync/injecting_monitor.h) with
      cds::sync::monitor_scoped_lock (cds/sync/monitor.h): LV.Model.Locks with one lock per node
      (cell = node index).  The monitor has only lock( node ) / unlock( node ): method 0 calls them
      directly, method 3 goes through monitor_scoped_lock; methods 1 and 2 are not generated (and are
      mapped to 0 by [norm]). *)
From Coq Require Import ZArith List PeanoNat.
From LV Require Import Base.Conc Base.Events Model.SpinLock Model.Locks.
Import ListNotations.

Definition sel (node : nat) : nat := node.

Definition norm (o : Locks.op) : Locks.op :=
  map (fun kh => (match fst kh with 1 | 2 => 0 | k => k end, snd kh)) o.

Definition init_cfg (nnodes fuel : nat) (ths : list (list Locks.op)) : Conc.config G V ev :=
  Locks.init_cfg sel nnodes fuel (map (map norm) ths).

(** cfg = [number of nodes; spin fuel] *)
Definition run_case (cfg : list Z) (ths : list (list (list Z))) (sched : list nat) (fuel : nat)
  : list (nat * ev) * bool :=
  let n := Z.to_nat (nth 0 cfg 1%Z) in
  let sfuel := Z.to_nat (nth 1 cfg 1000%Z) in
  let r := Conc.run fuel 0 sched (init_cfg n sfuel (map (map decode_op) ths)) in
  (Conc.trace (fst r), snd r).
