(** * Model of cds::sync::pool_monitor<LockPool, BackOff, false>::lock / unlock (cds/sync/pool_monitor.h)
      with monitor_scoped_lock (cds/sync/monitor.h).  One atomic access per [Act].

    C++ (current tree; c_nSpinBit = 1, c_nRefIncrement = 2; inj = p.m_SyncMonitorInjection):
      lock( p ):
          cur = inj.m_RefSpin.load() & ~c_nSpinBit;
          if ( !inj.m_RefSpin.compare_exchange_weak( cur, cur + c_nRefIncrement + c_nSpinBit ))
              do { bkoff(); cur &= ~c_nSpinBit; }
              while ( !inj.m_RefSpin.compare_exchange_weak( cur, cur + c_nRefIncrement + c_nSpinBit ));
          pLock = inj.m_pLock;                                         // plain field, protected by the spin bit
          if ( !pLock ) pLock = inj.m_pLock = m_Pool.allocate( 1 );
          inj.m_RefSpin.store( cur + c_nRefIncrement );
          pLock->lock();
      unlock( p ):
          pLock = nullptr;
          inj.m_pLock->unlock();
          cur = inj.m_RefSpin.load() & ~c_nSpinBit;
          if ( !inj.m_RefSpin.compare_exchange_weak( cur, cur | c_nSpinBit ))
              do { bkoff(); cur &= ~c_nSpinBit; } while ( !inj.m_RefSpin.compare_exchange_weak( cur, cur | c_nSpinBit ));
          if ( cur == c_nRefIncrement ) { pLock = inj.m_pLock; inj.m_pLock = nullptr; }
          inj.m_RefSpin.store( cur - c_nRefIncrement );
          if ( pLock ) m_Pool.deallocate( pLock, 1 );

    Instantiation in the harness (harness/C22/main.cpp, mode "pool"): lock_type = cds::sync::spin_lock
    <backoff::empty> (LV.Model.SpinLock: exchange / load loop / store), BackOff = cds::backoff::empty,
    Stat = false, and LockPool = a TRIVIAL CUSTOM POOL defined in the harness (not
    cds::memory::vyukov_queue_pool, whose own correctness is property C24): a LIFO free list of
    preallocated lock objects; allocate(1) and deallocate(p,1) each perform exactly one instrumented atomic
    access (fetch_add on a gate word) followed, within the same scheduled step, by the pop / push on a plain
    std::vector and by the client-visible event "pool_alloc x" / "pool_free x" (x = index of the lock object).
    So the number of scheduling points is exactly the real pool_monitor's plus one per pool call, and the pool
    is the abstract "bag of lock objects with atomic allocate / deallocate steps": [a_alloc] / [a_dealloc]
    below perform the access, the pop / push and emit both events.  When the free list is empty the pool
    creates a new lock object (never-used id [fresh]).

    Plain (non-atomic) accesses to m_pLock are not scheduling points: they belong to the step of the atomic
    access that precedes them.  Hence: the successful CAS of lock() also reads m_pLock; the pool step of
    lock() also writes m_pLock; the successful CAS of unlock() also reads and clears m_pLock when cur = 2;
    and the read of m_pLock at the beginning of unlock() belongs to the client's preceding access, which is
    the "touch data[n]" load that ends every critical section (it returns m_pLock in [vp]).

    Integers: m_RefSpin is uint32_t in C++ and [nat] here; [cur - 2] is truncated subtraction (the C++ would
    wrap) but is only reached with cur >= 2 (invariant RefInv of the proofs).

    Client operations: one operation is a nest [k1; n1; k2; n2; ...] (k = 0: monitor.lock/unlock, k = 3:
    monitor_scoped_lock; same accesses):
        lock( n1 ); "enter n1"; <rest of the nest>; touch data[n1]; "leave n1"; unlock( n1 )
    A program that runs out of spin fuel stops its thread (result [false]). *)
From Coq Require Import ZArith List String Bool Lia PeanoNat.
From LV Require Import Base.Conc Base.Events.
Import ListNotations.
Local Open Scope string_scope.

Record G := mkG {
  refspin : nat -> nat;          (* node -> m_RefSpin *)
  plock : nat -> option nat;     (* node -> m_pLock (index of a lock object) *)
  lspin : nat -> bool;           (* lock object -> m_spin *)
  pool : list nat;               (* free lock objects, head = next one handed out *)
  fresh : nat                    (* first never-created lock object *)
}.

Record val := mkV { vb : bool; vn : nat; vp : option nat }.
Definition V := val.
Definition v0 : val := mkV false 0 None.

Definition prog := Conc.prog G V ev.

Definition updn {A} (f : nat -> A) (i : nat) (v : A) : nat -> A := fun x => if Nat.eqb x i then v else f x.

Definition set_ref (g : G) (n v : nat) : G := mkG (updn (refspin g) n v) (plock g) (lspin g) (pool g) (fresh g).
Definition set_plock (g : G) (n : nat) (o : option nat) : G :=
  mkG (refspin g) (updn (plock g) n o) (lspin g) (pool g) (fresh g).
Definition set_lspin (g : G) (x : nat) (b : bool) : G :=
  mkG (refspin g) (plock g) (updn (lspin g) x b) (pool g) (fresh g).
Definition set_pool (g : G) (p : list nat) (f : nat) : G := mkG (refspin g) (plock g) (lspin g) p f.

Definition obj_ref (n : nat) : list Z := [0%Z; Z.of_nat n].
Definition obj_data (n : nat) : list Z := [1%Z; Z.of_nat n].
Definition obj_lspin (x : nat) : list Z := [2%Z; Z.of_nat x].
Definition obj_gate : list Z := [3%Z].

Definition zl (n : nat) : list Z := [Z.of_nat n].

Definition a_begin : G -> G * V * list ev := fun g => (g, v0, [EvAcc KBegin [] true]).
Definition a_ld_ref (n : nat) : G -> G * V * list ev :=
  fun g => (g, mkV false (refspin g n) None, [EvAcc KLd (obj_ref n) true]).
Definition a_st_ref (n v : nat) : G -> G * V * list ev :=
  fun g => (set_ref g n v, v0, [EvAcc KSt (obj_ref n) true]).
(** lock(): CAS( cur -> cur + 3 ); on success the step also reads m_pLock *)
Definition a_cas_lock (n c : nat) : G -> G * V * list ev :=
  fun g => if Nat.eqb (refspin g n) c
           then (set_ref g n (c + 3), mkV true c (plock g n), [EvAcc KCas (obj_ref n) true])
           else (g, mkV false (refspin g n) None, [EvAcc KCas (obj_ref n) false]).
(** unlock(): CAS( cur -> cur | 1 ) (cur is even); on success with cur = 2 the step also takes m_pLock away *)
Definition a_cas_unlock (n c : nat) : G -> G * V * list ev :=
  fun g => if Nat.eqb (refspin g n) c
           then (if Nat.eqb c 2
                 then (set_plock (set_ref g n (S c)) n None, mkV true c (plock g n), [EvAcc KCas (obj_ref n) true])
                 else (set_ref g n (S c), mkV true c None, [EvAcc KCas (obj_ref n) true]))
           else (g, mkV false (refspin g n) None, [EvAcc KCas (obj_ref n) false]).
(** the pool: allocate( 1 ) followed by the plain store m_pLock = pLock *)
Definition a_alloc (n : nat) : G -> G * V * list ev :=
  fun g => match pool g with
           | x :: r => (set_plock (set_pool g r (fresh g)) n (Some x), mkV true x (Some x),
                        [EvAcc KFaa obj_gate true; EvCli "pool_alloc" (zl x)])
           | [] => (set_plock (set_pool g [] (S (fresh g))) n (Some (fresh g)), mkV true (fresh g) (Some (fresh g)),
                    [EvAcc KFaa obj_gate true; EvCli "pool_alloc" (zl (fresh g))])
           end.
Definition a_dealloc (x : nat) : G -> G * V * list ev :=
  fun g => (set_pool g (x :: pool g) (fresh g), v0, [EvAcc KFaa obj_gate true; EvCli "pool_free" (zl x)]).
(** the node lock (cds::sync::spin_lock) *)
Definition a_xchg (x : nat) : G -> G * V * list ev :=
  fun g => (set_lspin g x true, mkV (lspin g x) 0 None, [EvAcc KXchg (obj_lspin x) true]).
Definition a_ld_l (x : nat) : G -> G * V * list ev :=
  fun g => (g, mkV (lspin g x) 0 None, [EvAcc KLd (obj_lspin x) true]).
Definition a_st_l (x : nat) : G -> G * V * list ev :=
  fun g => (set_lspin g x false, v0, [EvAcc KSt (obj_lspin x) true]).
(** the client's load of data[n]; the plain read of m_pLock that opens unlock( n ) belongs to this step *)
Definition a_touch (n : nat) : G -> G * V * list ev :=
  fun g => (g, mkV false 0 (plock g n), [EvAcc KLd (obj_data n) true]).

(** cur & ~c_nSpinBit *)
Definition clr (x : nat) : nat := 2 * Nat.div2 x.

(** spin_lock::lock() on lock object x; [false] = fuel exhausted *)
Fixpoint slock_outer (fuel x : nat) : prog bool :=
  match fuel with
  | O => Ret false
  | S f => Act (a_xchg x) (fun v => if vb v then slock_inner f x else Ret true)
  end
with slock_inner (fuel x : nat) : prog bool :=
  match fuel with
  | O => Ret false
  | S f => Act (a_ld_l x) (fun v => if vb v then slock_inner f x else slock_outer f x)
  end.

(** the CAS loop of lock(); result: the value of [cur] at the successful CAS and m_pLock, or None (fuel) *)
Fixpoint lock_cas (fuel n c : nat) : prog (option (nat * option nat)) :=
  match fuel with
  | O => Ret None
  | S f => Act (a_cas_lock n c) (fun v => if vb v then Ret (Some (c, vp v)) else lock_cas f n (clr (vn v)))
  end.

Definition mon_lock (fuel n : nat) : prog bool :=
  Act (a_ld_ref n) (fun v =>
    bind (lock_cas fuel n (clr (vn v))) (fun r =>
      match r with
      | None => Ret false
      | Some (c, Some x) => Act (a_st_ref n (c + 2)) (fun _ => slock_outer fuel x)
      | Some (c, None) =>
          Act (a_alloc n) (fun v' => Act (a_st_ref n (c + 2)) (fun _ => slock_outer fuel (vn v')))
      end)).

Fixpoint unlock_cas (fuel n c : nat) : prog (option (nat * option nat)) :=
  match fuel with
  | O => Ret None
  | S f => Act (a_cas_unlock n c) (fun v => if vb v then Ret (Some (c, vp v)) else unlock_cas f n (clr (vn v)))
  end.

(** unlock( n ); [pl] is the value of m_pLock read when the call starts *)
Definition mon_unlock (fuel n : nat) (pl : option nat) : prog bool :=
  match pl with
  | None => Emit [EvCli "nullderef" (zl n)] (Ret false)        (* C++: undefined behaviour *)
  | Some x =>
      Act (a_st_l x) (fun _ =>
        Act (a_ld_ref n) (fun v =>
          bind (unlock_cas fuel n (clr (vn v))) (fun r =>
            match r with
            | None => Emit [EvCli "outoffuel" (zl n)] (Ret false)
            | Some (c, o) =>
                Act (a_st_ref n (c - 2)) (fun _ =>
                  match o with
                  | Some y => Act (a_dealloc y) (fun _ => Ret true)
                  | None => Ret true
                  end)
            end)))
  end.

Definition op := list (nat * nat).

Fixpoint nest (fuel : nat) (o : op) : prog bool :=
  match o with
  | [] => Ret true
  | (k, n) :: r =>
      Emit [EvCli "inv" [Z.of_nat k; Z.of_nat n]]
        (bind (mon_lock fuel n) (fun ok =>
           if ok then
             Emit [EvCli "enter" (zl n)]
               (bind (nest fuel r) (fun ok2 =>
                  if ok2 then
                    Act (a_touch n) (fun v => Emit [EvCli "leave" (zl n)] (mon_unlock fuel n (vp v)))
                  else Ret false))
           else Emit [EvCli "outoffuel" (zl n)] (Ret false)))
  end.

Fixpoint run_ops (fuel : nat) (os : list op) : prog unit :=
  match os with
  | [] => Ret tt
  | o :: r => bind (nest fuel o) (fun ok => if ok then Emit [EvCli "ret" []] (run_ops fuel r) else Ret tt)
  end.

Definition thread_prog (fuel : nat) (os : list op) : Conc.thread G V ev :=
  Act a_begin (fun _ => run_ops fuel os).

(** the pool is created with [cap] lock objects 0 .. cap-1; object 0 is handed out first *)
Definition init (cap : nat) : G := mkG (fun _ => 0) (fun _ => None) (fun _ => false) (seq 0 cap) cap.

Definition init_cfg (cap fuel : nat) (ths : list (list op)) : Conc.config G V ev :=
  Conc.Cfg (init cap) (map (thread_prog fuel) ths) [].

Fixpoint decode_op (o : list Z) : op :=
  match o with
  | k :: n :: r => (Z.to_nat k, Z.to_nat n) :: decode_op r
  | _ => []
  end.

(** cfg = [number of nodes (unused: nodes are a total map); spin fuel; pool capacity] *)
Definition run_case (cfg : list Z) (ths : list (list (list Z))) (sched : list nat) (fuel : nat)
  : list (nat * ev) * bool :=
  let sfuel := Z.to_nat (nth 1 cfg 1000%Z) in
  let cap := Z.to_nat (nth 2 cfg 8%Z) in
  let r := Conc.run fuel 0 sched (init_cfg cap sfuel (map (map decode_op) ths)) in
  (Conc.trace (fst r), snd r).
