(** * Model of cds::container::WeakRingBuffer<void, Traits> (cds/container/weak_ringbuffer.h): the SPSC ring of
      variable-sized records, one atomic access per [Act].  Buffer bytes are modelled: record headers and
      the unused-tail marker live in the buffer.

    Thread 0 = producer (owns [pfront_]), thread 1 = consumer (owns [cback_]); atomics [front_], [back_]
    (byte counters, uint64_t).  Plain memory (the buffer) is read / written by the local code that follows
    an atomic access, in the same scheduler step.

    C++ (current tree, NDEBUG, so no asserts and no _DEBUG blocks; CDS_VERIFY( e ) evaluates e):

      void* back( size_t size ) {
          size_t real_size = calc_real_size( size );
          counter_type back = back_.load( relaxed );                                          // A
          if ( static_cast<size_t>( pfront_ + capacity() - back ) < real_size ) {
              pfront_ = front_.load( acquire );                                               // B
              if ( static_cast<size_t>( pfront_ + capacity() - back ) < real_size )
                  return nullptr;
          }
          uint8_t* reserved = buffer_.buffer() + buffer_.mod( back );
          size_t tail_size = capacity() - static_cast<size_t>( buffer_.mod( back ));
          if ( tail_size < real_size ) {
              *reinterpret_cast<size_t*>( reserved ) = make_tail( tail_size - sizeof(size_t));
              back += tail_size;
              if ( static_cast<size_t>( pfront_ + capacity() - back ) < real_size ) {
                  pfront_ = front_.load( acquire );                                           // C
                  if ( static_cast<size_t>( pfront_ + capacity() - back ) < real_size )
                      return nullptr;
              }
              back_.store( back, release );                                                   // D
              reserved = buffer_.buffer();
          }
          *reinterpret_cast<size_t*>( reserved ) = size;
          return reinterpret_cast<void*>( reserved + sizeof( size_t ));
      }
      void push_back() {
          counter_type back = back_.load( relaxed );                                          // E
          uint8_t* reserved = buffer_.buffer() + buffer_.mod( back );
          size_t real_size = calc_real_size( *reinterpret_cast<size_t*>( reserved ));
          back_.store( back + real_size, release );                                           // F
      }
      bool push_back( void const* data, size_t size ) { void* buf = back( size ); if ( buf ) { memcpy( buf, data, size ); push_back(); return true; } return false; }

      std::pair<void*, size_t> front() {
          counter_type front = front_.load( relaxed );                                        // A
          if ( cback_ - front < sizeof( size_t )) {
              cback_ = back_.load( acquire );                                                 // B
              if ( cback_ - front < sizeof( size_t )) return std::make_pair( nullptr, 0u );
          }
          uint8_t * buf = buffer_.buffer() + buffer_.mod( front );
          size_t size = *reinterpret_cast<size_t*>( buf );
          if ( is_tail( size )) {
              CDS_VERIFY( pop_front());                                                       // C (C') D
              front = front_.load( relaxed );                                                 // E
              if ( cback_ - front < sizeof( size_t )) {
                  cback_ = back_.load( acquire );                                             // F
                  if ( cback_ - front < sizeof( size_t )) return std::make_pair( nullptr, 0u );
              }
              buf = buffer_.buffer() + buffer_.mod( front );
              size = *reinterpret_cast<size_t*>( buf );
          }
          return std::make_pair( reinterpret_cast<void*>( buf + sizeof( size_t )), size );
      }
      bool pop_front() {
          counter_type front = front_.load( relaxed );                                        // C
          if ( cback_ - front < sizeof(size_t)) {
              cback_ = back_.load( acquire );                                                 // C'
              if ( cback_ - front < sizeof( size_t )) return false;
          }
          uint8_t * buf = buffer_.buffer() + buffer_.mod( front );
          size_t size = *reinterpret_cast<size_t*>( buf );
          size_t real_size = calc_real_size( untail( size ));
          front_.store( front + real_size, release );                                         // D
          return true;
      }
      static size_t calc_real_size( size_t size ) { return (( size + sizeof( uintptr_t ) - 1 ) & ~( sizeof( uintptr_t ) - 1 )) + sizeof( size_t ); }
      static bool   is_tail( size_t size )   { return ( size & ( size_t( 1 ) << ( sizeof( size_t ) * 8 - 1 ))) != 0; }
      static size_t make_tail( size_t size ) { return size | ( size_t( 1 ) << ( sizeof( size_t ) * 8 - 1 )); }
      static size_t untail( size_t size )    { return size & (( size_t( 1 ) << ( sizeof( size_t ) * 8 - 1 )) - 1); }

    (sizeof( size_t ) = sizeof( uintptr_t ) = 8, little endian.)

    Client operations (harness/C12/mainv.cpp), integer encoding; the record data are the bytes
    [data_byte seed i = (seed + 3 i) mod 256], i < size:
      producer (thread 0)
        [1; size; seed]  p = back( size ); if ( p ) { fill p[0..size); push_back(); }
                                           "inv_vpush size seed" -> "vpush_ok size seed" | "vpush_fail size"
        [2; size; seed]  push_back( data, size )          the same accesses, the same events
      consumer (thread 1)
        [4]              r = front(); if ( r.first ) read r.second bytes
                                           "inv_vfront" -> "vfront_ok size b0 .. b(size-1)" | "vfront_null"
        [6]              the same, then if ( r.first ) pop_front()      ... -> "vpop_ok" | "vpop_fail"
    A size returned by front() that exceeds the capacity is reported without reading any byte (both sides). *)
From Coq Require Import ZArith List String Bool Lia.
From LV Require Import Base.Conc Base.Events Model.Ring.
Import ListNotations.
Local Open Scope Z_scope.

(** shared state.  [v_fails] and [v_wbad] are GHOST fields: no operation reads them.
    [v_fails]: one entry (front_, back_, size) per failing back( size ), recorded by the very access that
    decided the failure (the true counters at that instant).
    [v_wbad]: set by a buffer write that lands outside the buffer or on a byte of [front_, back_) (published and
    not yet released by the consumer). *)
Record GV := mkGV { v_front : Z; v_back : Z; v_mem : Z -> Z; v_fails : list (Z * Z * Z); v_wbad : bool }.

Definition progv := Conc.prog GV V ev.

Definition setv_front (g : GV) (v : Z) : GV := mkGV v (v_back g) (v_mem g) (v_fails g) (v_wbad g).
Definition setv_back (g : GV) (v : Z) : GV := mkGV (v_front g) v (v_mem g) (v_fails g) (v_wbad g).
Definition log_fail (g : GV) (size : Z) : GV :=
  mkGV (v_front g) (v_back g) (v_mem g) ((v_front g, v_back g, size) :: v_fails g) (v_wbad g).

(** byte offset [i] holds a published, unreleased byte: some counter x in [f, b) has x mod cap = i *)
Definition occupied (cap f b i : Z) : bool := Z.ltb ((i - f) mod cap) (b - f).

Definition setv_byte (cap : Z) (g : GV) (i v : Z) : GV :=
  mkGV (v_front g) (v_back g) (fun j => if Z.eqb j i then v else v_mem g j) (v_fails g)
       (v_wbad g || negb (Z.leb 0 i && Z.ltb i cap) || occupied cap (v_front g) (v_back g) i).

(** ** size arithmetic, as in the header *)
Definition top_bit : Z := 2 ^ 63.
Definition calc_real_size (size : Z) : Z := u64 (Z.land (u64 (size + 8 - 1)) (two64 - 8) + 8).
Definition is_tail (size : Z) : bool := negb (Z.eqb (Z.land size top_bit) 0).
Definition make_tail (size : Z) : Z := Z.lor size top_bit.
Definition untail (size : Z) : Z := Z.land size (top_bit - 1).

(** ** plain memory accesses: size_t through a pointer = 8 bytes, little endian *)
Fixpoint write_bytes (cap : Z) (g : GV) (off : Z) (bs : list Z) : GV :=
  match bs with
  | [] => g
  | b :: r => write_bytes cap (setv_byte cap g off b) (off + 1) r
  end.

Fixpoint read_bytes (g : GV) (off : Z) (n : nat) : list Z :=
  match n with
  | O => []
  | S n' => v_mem g off :: read_bytes g (off + 1) n'
  end.

Fixpoint le_bytes (n : nat) (v : Z) : list Z :=
  match n with
  | O => []
  | S n' => v mod 256 :: le_bytes n' (v / 256)
  end.

Fixpoint le_val (bs : list Z) : Z :=
  match bs with
  | [] => 0
  | b :: r => b + 256 * le_val r
  end.

Definition write64 (cap : Z) (g : GV) (off v : Z) : GV := write_bytes cap g off (le_bytes 8 v).
Definition read64 (g : GV) (off : Z) : Z := le_val (read_bytes g off 8).

Definition data_byte (seed i : Z) : Z := (seed + 3 * i) mod 256.
Definition data_bytes (size seed : Z) : list Z :=
  map (fun i => data_byte seed (Z.of_nat i)) (seq 0 (Z.to_nat size)).

Definition vobj_front : list Z := [0].
Definition vobj_back : list Z := [1].

Definition av_begin : GV -> GV * V * list ev := fun g => (g, (0, []), [EvAcc KBegin [] true]).

(** *** producer *)

(** the code of back() between a successful first space test and the next atomic access (or the return,
    followed by the client's fill): tail marker, or header + data *)
Definition post_space (exp2 : bool) (cap : Z) (g : GV) (back size seed : Z) : GV :=
  let rs := calc_real_size size in
  let off := idx exp2 cap back in
  let tail := u64 (cap - off) in
  if Z.ltb tail rs then write64 cap g off (make_tail (u64 (tail - 8)))
  else write_bytes cap (write64 cap g off size) (off + 8) (data_bytes size seed).

Definition ev_vfail (size : Z) : ev := EvCli "vpush_fail" [size].

(** A *)
Definition av_back_ld_back (exp2 : bool) (cap pf size seed : Z) : GV -> GV * V * list ev :=
  fun g =>
    let back := v_back g in
    let g' := if space_lt cap pf back (calc_real_size size) then g else post_space exp2 cap g back size seed in
    (g', (back, []), [EvAcc KLd vobj_back true]).

(** B *)
Definition av_back_ld_front1 (exp2 : bool) (cap back size seed : Z) : GV -> GV * V * list ev :=
  fun g =>
    let pf := v_front g in
    if space_lt cap pf back (calc_real_size size) then
      (log_fail g size, (pf, []), [EvAcc KLd vobj_front true; ev_vfail size])
    else (post_space exp2 cap g back size seed, (pf, []), [EvAcc KLd vobj_front true]).

(** C *)
Definition av_back_ld_front2 (cap back' size : Z) : GV -> GV * V * list ev :=
  fun g =>
    let pf := v_front g in
    if space_lt cap pf back' (calc_real_size size) then
      (log_fail g size, (pf, []), [EvAcc KLd vobj_front true; ev_vfail size])
    else (g, (pf, []), [EvAcc KLd vobj_front true]).

(** D, then: reserved = buffer start; header; return; the client's fill *)
Definition av_back_st_back (cap back' size seed : Z) : GV -> GV * V * list ev :=
  fun g =>
    (write_bytes cap (write64 cap (setv_back g back') 0 size) 8 (data_bytes size seed), (0, []),
     [EvAcc KSt vobj_back true]).

(** E: push_back() reads the header of the reserved record *)
Definition av_pb_ld_back (exp2 : bool) (cap : Z) : GV -> GV * V * list ev :=
  fun g =>
    let back := v_back g in
    (g, (back, [read64 g (idx exp2 cap back)]), [EvAcc KLd vobj_back true]).

(** F *)
Definition av_pb_st_back (v size seed : Z) : GV -> GV * V * list ev :=
  fun g => (setv_back g v, (0, []), [EvAcc KSt vobj_back true; EvCli "vpush_ok" [size; seed]]).

Definition push_back_op (exp2 : bool) (cap size seed : Z) (ret : Z) : progv Z :=
  Act (av_pb_ld_back exp2 cap) (fun r =>
    let back := fst r in
    let rs := calc_real_size (hd 0 (snd r)) in
    Act (av_pb_st_back (u64 (back + rs)) size seed) (fun _ => Ret ret)).

(** back( size ) after the first space test succeeded with the value [pf] of pfront_, then push_back() *)
Definition after_space (exp2 : bool) (cap back pf size seed : Z) : progv Z :=
  let rs := calc_real_size size in
  let off := idx exp2 cap back in
  let tail := u64 (cap - off) in
  if Z.ltb tail rs then
    let back' := u64 (back + tail) in
    if space_lt cap pf back' rs then
      Act (av_back_ld_front2 cap back' size) (fun r =>
        let pf' := fst r in
        if space_lt cap pf' back' rs then Ret pf'
        else Act (av_back_st_back cap back' size seed) (fun _ => push_back_op exp2 cap size seed pf'))
    else Act (av_back_st_back cap back' size seed) (fun _ => push_back_op exp2 cap size seed pf)
  else push_back_op exp2 cap size seed pf.

(** back( size ); fill; push_back(): result = new pfront_ *)
Definition vpush (exp2 : bool) (cap pf size seed : Z) : progv Z :=
  let rs := calc_real_size size in
  Act (av_back_ld_back exp2 cap pf size seed) (fun r =>
    let back := fst r in
    if space_lt cap pf back rs then
      Act (av_back_ld_front1 exp2 cap back size seed) (fun r2 =>
        let pf' := fst r2 in
        if space_lt cap pf' back rs then Ret pf'
        else after_space exp2 cap back pf' size seed)
    else after_space exp2 cap back pf size seed).

(** *** consumer *)

(** the reads of front() once [cback_ - front >= 8] is known: header, and (client) the data bytes.
    [check_tail]: the first read tests is_tail, the read after the tail skip does not. *)
Definition vf_read (exp2 : bool) (cap : Z) (check_tail : bool) (g : GV) (front : Z) : list Z * list ev :=
  let off := idx exp2 cap front in
  let size := read64 g off in
  if check_tail && is_tail size then ([size], [])
  else
    let data := if Z.leb size cap then read_bytes g (off + 8) (Z.to_nat size) else [] in
    (size :: data, [EvCli "vfront_ok" (size :: data)]).

(** A / E *)
Definition av_front_ld_front (exp2 : bool) (cap cb : Z) (check_tail : bool) : GV -> GV * V * list ev :=
  fun g =>
    let front := v_front g in
    if avail_lt cb front 8 then (g, (front, []), [EvAcc KLd vobj_front true])
    else let (vals, es) := vf_read exp2 cap check_tail g front in
         (g, (front, vals), EvAcc KLd vobj_front true :: es).

(** B / F *)
Definition av_front_ld_back (exp2 : bool) (cap front : Z) (check_tail : bool) : GV -> GV * V * list ev :=
  fun g =>
    let cb := v_back g in
    if avail_lt cb front 8 then (g, (cb, []), [EvAcc KLd vobj_back true; EvCli "vfront_null" []])
    else let (vals, es) := vf_read exp2 cap check_tail g front in
         (g, (cb, vals), EvAcc KLd vobj_back true :: es).

(** C *)
Definition av_pop_ld_front (exp2 : bool) (cap cb : Z) : GV -> GV * V * list ev :=
  fun g =>
    let front := v_front g in
    if avail_lt cb front 8 then (g, (front, []), [EvAcc KLd vobj_front true])
    else (g, (front, [read64 g (idx exp2 cap front)]), [EvAcc KLd vobj_front true]).

(** C' *)
Definition av_pop_ld_back (exp2 : bool) (cap front : Z) (efail : list ev) : GV -> GV * V * list ev :=
  fun g =>
    let cb := v_back g in
    if avail_lt cb front 8 then (g, (cb, []), EvAcc KLd vobj_back true :: efail)
    else (g, (cb, [read64 g (idx exp2 cap front)]), [EvAcc KLd vobj_back true]).

(** D *)
Definition av_pop_st_front (v : Z) (eok : list ev) : GV -> GV * V * list ev :=
  fun g => (setv_front g v, (0, []), EvAcc KSt vobj_front true :: eok).

(** pop_front(): result = new cback_ *)
Definition vpop_front (exp2 : bool) (cap cb : Z) (eok efail : list ev) : progv Z :=
  Act (av_pop_ld_front exp2 cap cb) (fun r =>
    let front := fst r in
    if avail_lt cb front 8 then
      Act (av_pop_ld_back exp2 cap front efail) (fun r2 =>
        let cb' := fst r2 in
        if avail_lt cb' front 8 then Ret cb'
        else Act (av_pop_st_front (u64 (front + calc_real_size (untail (hd 0 (snd r2))))) eok) (fun _ => Ret cb'))
    else Act (av_pop_st_front (u64 (front + calc_real_size (untail (hd 0 (snd r))))) eok) (fun _ => Ret cb)).

(** the second half of front(): after the tail has been popped.  result = (cback_, found) *)
Definition vfront_after_tail (exp2 : bool) (cap cb : Z) : progv (Z * bool) :=
  Act (av_front_ld_front exp2 cap cb false) (fun r =>
    let front := fst r in
    if avail_lt cb front 8 then
      Act (av_front_ld_back exp2 cap front false) (fun r2 =>
        let cb' := fst r2 in
        if avail_lt cb' front 8 then Ret (cb', false) else Ret (cb', true))
    else Ret (cb, true)).

Definition vfront_tail_or_ret (exp2 : bool) (cap cb : Z) (vals : list Z) : progv (Z * bool) :=
  if is_tail (hd 0 vals) then
    bind (vpop_front exp2 cap cb [] []) (fun cb' => vfront_after_tail exp2 cap cb')
  else Ret (cb, true).

(** front() and the client's read of the record: result = (new cback_, found) *)
Definition vfront (exp2 : bool) (cap cb : Z) : progv (Z * bool) :=
  Act (av_front_ld_front exp2 cap cb true) (fun r =>
    let front := fst r in
    if avail_lt cb front 8 then
      Act (av_front_ld_back exp2 cap front true) (fun r2 =>
        let cb' := fst r2 in
        if avail_lt cb' front 8 then Ret (cb', false)
        else vfront_tail_or_ret exp2 cap cb' (snd r2))
    else vfront_tail_or_ret exp2 cap cb (snd r)).

(** *** client operations *)
Inductive vpop_ := VPush (size seed : Z).
Inductive vcop := VFront | VConsume.

Definition run_vpop (exp2 : bool) (cap pf : Z) (o : vpop_) : progv Z :=
  match o with
  | VPush size seed => Emit [EvCli "inv_vpush" [size; seed]] (vpush exp2 cap pf size seed)
  end.

Definition run_vcop (exp2 : bool) (cap cb : Z) (o : vcop) : progv Z :=
  match o with
  | VFront => Emit [EvCli "inv_vfront" []] (bind (vfront exp2 cap cb) (fun r => Ret (fst r)))
  | VConsume =>
      Emit [EvCli "inv_vfront" []]
        (bind (vfront exp2 cap cb) (fun r =>
           if snd r then vpop_front exp2 cap (fst r) [EvCli "vpop_ok" []] [EvCli "vpop_fail" []]
           else Ret (fst r)))
  end.

Fixpoint run_vpops (exp2 : bool) (cap pf : Z) (os : list vpop_) : progv unit :=
  match os with
  | [] => Ret tt
  | o :: r => bind (run_vpop exp2 cap pf o) (fun pf' => run_vpops exp2 cap pf' r)
  end.

Fixpoint run_vcops (exp2 : bool) (cap cb : Z) (os : list vcop) : progv unit :=
  match os with
  | [] => Ret tt
  | o :: r => bind (run_vcop exp2 cap cb o) (fun cb' => run_vcops exp2 cap cb' r)
  end.

Definition vproducer (exp2 : bool) (cap : Z) (os : list vpop_) : Conc.thread GV V ev :=
  Act av_begin (fun _ => run_vpops exp2 cap 0 os).
Definition vconsumer (exp2 : bool) (cap : Z) (os : list vcop) : Conc.thread GV V ev :=
  Act av_begin (fun _ => run_vcops exp2 cap 0 os).

Definition vinit : GV := mkGV 0 0 (fun _ => 0) [] false.

Definition vinit_cfg (exp2 : bool) (cap : Z) (pos : list vpop_) (cos : list vcop) : Conc.config GV V ev :=
  Conc.Cfg vinit [vproducer exp2 cap pos; vconsumer exp2 cap cos] [].

(** ** entry point for the extracted driver *)
Definition decode_vpop (o : list Z) : option vpop_ :=
  match o with
  | [1; size; seed] => Some (VPush size seed)
  | [2; size; seed] => Some (VPush size seed)
  | _ => None
  end.

Definition decode_vcop (o : list Z) : option vcop :=
  match o with
  | [4] => Some VFront
  | [6] => Some VConsume
  | _ => None
  end.

(** cfg = [requested capacity in bytes; exp2 (0/1); buffer kind (ignored)] *)
Definition run_case (cfg : list Z) (ths : list (list (list Z))) (sched : list nat) (fuel : nat)
  : list (nat * ev) * bool :=
  let exp2 := negb (Z.eqb (nth 1 cfg 0) 0) in
  let cap0 := nth 0 cfg 16 in
  let cap := if exp2 then ceil2 cap0 else cap0 in
  let pos := decode_list decode_vpop (nth 0 ths []) in
  let cos := decode_list decode_vcop (nth 1 ths []) in
  let r := Conc.run fuel 0 sched (vinit_cfg exp2 cap pos cos) in
  (Conc.trace (fst r), snd r).
