(** * Observables of the sequential FeldmanHashSet model (LV.Model.FeldmanSeq) for the C17 correspondence check.

    Nothing of FeldmanSeq is changed.  Added: the constructor arithmetic, a serialisation of the tree of array
    nodes, and the level statistics computed from the model tree.

    C++ (current tree), cds/intrusive/details/feldman_hashset_base.h:
      details::metrics::make( head_bits, array_bits, hash_size )
          hash_bits = hash_size * 8;
          if ( array_bits < 2 ) array_bits = 2;   if ( head_bits < 4 ) head_bits = 4;
          if ( head_bits > hash_bits ) head_bits = hash_bits;
          if (( hash_bits - head_bits ) % array_bits != 0 ) head_bits += ( hash_bits - head_bits ) % array_bits;   -> [make_metrics]
      gather_level_statistics( stat, nLevel, pArr, nSize )
          ++stat[nLevel].array_node_count; for every slot of pArr: bits != 0 -> ++array_cell_count (and recurse at
          nLevel + 1 if it is an array node); else pointer != null -> ++data_cell_count; else ++empty_cell_count  -> [level_stats]

    What the harness (harness/C17/others.cpp, feldman::probe) reads after every operation and what it is compared with:
      return value, size()                     [outcome], [fcnt]
      head_size(), array_node_size()           2 ^ hb, 2 ^ ab of [make_metrics]
      contains( hash of q ) for every key q    [f_find] (does not change the structure)
      walk from head() over nodes[0..size): empty slot, data slot (the hash of the item), array slot (recursively)
                                               [fdump_set]: tokens (0,_) empty, (1,hash) data, (2,_) array begin, (3,_) array end
      get_level_statistics()                   [level_stats]: per level (array nodes, data cells, array cells, empty cells)
      iteration begin()..end()                 [f_elems]
    No proofs in this file. *)
From Coq Require Import List NArith Arith Bool.
From LV Require Import Model.CuckooSeq Model.FeldmanSeq.
Import ListNotations.

Definition make_metrics (hash_bits head array : nat) : nat * nat :=
  let ab := if array <? 2 then 2 else array in
  let hb := if head <? 4 then 4 else head in
  let hb := if hash_bits <? hb then hash_bits else hb in
  let hb := hb + (hash_bits - hb) mod ab in
  (hb, ab).

(** serialisation of the tree below one slot *)
Fixpoint fdump (n : fnode) : list (nat * N) :=
  match n with
  | FEmpty => [(0, 0%N)]
  | FData x => [(1, x)]
  | FArr sl => (2, 0%N) :: flat_map fdump sl ++ [(3, 0%N)]
  end.
Definition fdump_set (t : fset) : list (nat * N) := flat_map fdump (fhead t).

(** cells of the tree with their level: kind 0 empty cell, 1 data cell, 2 array cell, 3 = one array node at that level *)
Fixpoint fcells (lvl : nat) (n : fnode) : list (nat * nat) :=
  match n with
  | FEmpty => [(lvl, 0)]
  | FData _ => [(lvl, 1)]
  | FArr sl => (lvl, 2) :: (S lvl, 3) :: flat_map (fcells (S lvl)) sl
  end.
Definition fcells_set (t : fset) : list (nat * nat) := (0, 3) :: flat_map (fcells 0) (fhead t).

Definition count_cells (cells : list (nat * nat)) (lvl kind : nat) : nat :=
  length (filter (fun c => Nat.eqb (fst c) lvl && Nat.eqb (snd c) kind) cells).

(** per level 0 .. deepest: (array_node_count, data_cell_count, array_cell_count, empty_cell_count) *)
Definition level_stats (t : fset) : list (nat * nat * nat * nat) :=
  let cells := fcells_set t in
  let depth := fold_left (fun m c => Nat.max m (fst c)) cells 0 in
  map (fun l => (count_cells cells l 3, count_cells cells l 1, count_cells cells l 2, count_cells cells l 0)) (seq 0 (S depth)).

Section Run.
  Variable W hb ab : nat.
  Variable ht : list N.

  Definition hash_of (q : key) : N := nth (N.to_nat q) ht 0%N.

  Fixpoint found_from (t : fset) (q : N) (n : nat) : list key :=
    match n with
    | O => []
    | S n' => let r := found_from t (q + 1)%N n' in if f_find hb ab t (hash_of q) then q :: r else r
    end.

  (** per operation: result (0 false, 1 true, 2 out of fuel), state after it, the keys whose hash is contained *)
  Fixpoint f_run (t : fset) (ops : list (N * key)) : list (nat * fset * list key) :=
    match ops with
    | [] => []
    | (c, q) :: ops' =>
      let x := hash_of q in
      let '(r, t') := if N.eqb c 1 then (let (o, t1) := f_insert W hb ab (2 * W + 8) t x in
                                         (match o with Ok true => 1 | Ok false => 0 | OutOfFuel => 2 end, t1))
                      else if N.eqb c 2 then (let (b, t1) := f_erase hb ab (2 * W + 8) t x in ((if b then 1 else 0), t1))
                      else ((if f_find hb ab t x then 1 else 0), t) in
      (r, t', found_from t' 0%N (length ht)) :: f_run t' ops'
    end.
End Run.

(** cfg = [hash width in bits; head bits (constructor argument); array bits (constructor argument)].
    Result: effective (head bits, array bits) and the outputs per operation. *)
Definition f_run_case (cfg : list N) (ht : list N) (ops : list (N * key)) : (nat * nat) * list (nat * fset * list key) :=
  match cfg with
  | w :: h :: a :: _ =>
    let W := N.to_nat w in
    let (hb, ab) := make_metrics W (N.to_nat h) (N.to_nat a) in
    ((hb, ab), f_run W hb ab ht (finit hb) ops)
  | _ => ((0, 0), [])
  end.
