(** * Sequential model of cds::intrusive::StripedSet (cds/intrusive/striped_set.h), one thread.

    C++ (current tree):
      bucket( nHash )        = m_Buckets + ( nHash & m_nBucketMask )
      insert( val )          pBucket = bucket( hashing( val )); bOk = pBucket->insert( val, f );
                             bResize = bOk && m_ResizingPolicy( ++m_ItemCounter, *this, *pBucket );
                             if ( bResize ) resize();   return bOk;
      resize()               internal_resize( bucket_count() * 2 )
      internal_resize( n )   pOldBuckets = m_Buckets; alloc_bucket_table( n );
                             for ( pCur = pOldBuckets; pCur != pOldBuckets + nOldCapacity; ++pCur ) {
                                 for ( it = pCur->begin(); it != pCur->end(); it = itNext ) {
                                     itNext = it; ++itNext;
                                     bucket( m_Hash( *it ))->move_item( *pCur, it );
                                 }
                                 pCur->clear();
                             }
                             free_bucket_table( pOldBuckets, nOldCapacity ); m_ResizingPolicy.reset();
      move_item( from, it )  val = *it; from.erase( it ); insert( val, nop );        (adapters of striped_set/)
      erase( key )           bucket( hashing( key ))->erase( key ) ; --m_ItemCounter on success
    The bucket container is a sequential set: the boost::intrusive::list / slist adapters keep the list sorted and
    refuse an equal key ([sb_insert]); the tree adapters (set, avl_set, ...) behave the same at this grain.
    The resizing policy is an arbitrary function of (item count, bucket count, size of the bucket just used).
    The hash functor is an arbitrary function [h : key -> N].  No proofs in this file. *)
From Coq Require Import List NArith Arith Bool.
From LV Require Import Model.CuckooSeq.   (* key, bucket, upd *)
Import ListNotations.

(** insert into the sorted bucket: find_key scans while *it < key; refuses an equal key *)
Fixpoint sb_insert (b : bucket) (x : key) : bool * bucket :=
  match b with
  | [] => (true, [x])
  | y :: b' => if N.ltb y x then let (r, b'') := sb_insert b' x in (r, y :: b'')
               else if N.eqb y x then (false, b) else (true, x :: b)
  end.

Fixpoint sb_erase (b : bucket) (x : key) : bool * bucket :=
  match b with
  | [] => (false, [])
  | y :: b' => if N.ltb y x then let (r, b'') := sb_erase b' x in (r, y :: b'')
               else if N.eqb y x then (true, b') else (false, b)
  end.

Fixpoint sb_find (b : bucket) (x : key) : bool :=
  match b with
  | [] => false
  | y :: b' => if N.ltb y x then sb_find b' x else N.eqb y x
  end.

Record stbl := mkS { slg : nat; sbkts : list bucket; scnt : nat }.

Section Striped.
  Variable h : key -> N.
  Variable pol : nat -> nat -> nat -> bool.   (* item count, bucket count, size of the bucket -> resize? *)

  Definition sidx (lgc : nat) (x : key) : nat := N.to_nat (N.land (h x) (N.ones (N.of_nat lgc))).

  Definition selems (t : stbl) : list key := concat (sbkts t).

  (** move_item into the new table *)
  Definition smove (lgc : nat) (nb : list bucket) (e : key) : list bucket :=
    upd (sidx lgc e) (fun b => snd (sb_insert b e)) nb.

  Definition internal_resize (t : stbl) : stbl :=
    let lg' := S (slg t) in
    mkS lg' (fold_left (smove lg') (concat (sbkts t)) (repeat [] (2 ^ lg'))) (scnt t).

  Definition sinit (lg0 : nat) : stbl := mkS lg0 (repeat [] (2 ^ lg0)) 0.

  Definition sinsert (t : stbl) (x : key) : bool * stbl :=
    let i := sidx (slg t) x in
    let (ok, b') := sb_insert (nth i (sbkts t) []) x in
    if ok then
      let t' := mkS (slg t) (upd i (fun _ => b') (sbkts t)) (S (scnt t)) in
      (true, if pol (scnt t') (2 ^ slg t) (length b') then internal_resize t' else t')
    else (false, t).

  Definition serase (t : stbl) (x : key) : bool * stbl :=
    let i := sidx (slg t) x in
    let (ok, b') := sb_erase (nth i (sbkts t) []) x in
    if ok then (true, mkS (slg t) (upd i (fun _ => b') (sbkts t)) (pred (scnt t))) else (false, t).

  Definition sfind (t : stbl) (x : key) : bool := sb_find (nth (sidx (slg t) x) (sbkts t) []) x.
End Striped.

(** ** Running.  policy = (kind, n): kind 0 load_factor_resizing<n> (size > buckets*n), 1 single_bucket_size_threshold<n>
    (bucket size > n), 2 no_resizing.  ops as in CuckooSeq.  Output per op: (result, size(), log2 bucket_count,
    keys found, elements in bucket order); the run stops when the table would exceed 2^lgcap buckets. *)
Definition policy (kind n : nat) (sz nb bs : nat) : bool :=
  match kind with
  | 0 => nb * n <? sz
  | 1 => n <? bs
  | _ => false
  end.

Definition s_step_out : Type := (nat * nat * nat * list key * list key)%type.

Fixpoint s_run_ops (h : key -> N) (pol : nat -> nat -> nat -> bool) (lgcap nkeys : nat) (t : stbl)
         (ops : list (nat * key)) : list s_step_out :=
  match ops with
  | [] => []
  | (c, x) :: ops' =>
    if lgcap <? slg t then []
    else
      let '(r, t') := match c with
                      | 1 => sinsert h pol t x
                      | 2 => serase h t x
                      | _ => (sfind h t x, t)
                      end in
      ((if r then 1 else 0), scnt t', slg t', filter (sfind h t') (universe nkeys), selems t')
        :: s_run_ops h pol lgcap nkeys t' ops'
  end.

(** cfg = [log2 initial capacity; policy kind; policy parameter; lgcap] *)
Definition s_run_case (cfg : list nat) (ht : list N) (ops : list (nat * key)) : list s_step_out :=
  match cfg with
  | [lg0; pk; pn; lgcap] =>
    s_run_ops (fun x => nth (N.to_nat x) ht 0%N) (policy pk pn) lgcap (length ht) (sinit lg0) ops
  | _ => []
  end.
