(** * Model of empty() and clear( Disposer ) of cds::intrusive::TaggedFreeList (cds/intrusive/free_list_tagged.h),
      on top of LV.Model.FreeListTagged, one atomic access per [Act].

    C++ (current tree):

      struct tagged_ptr { node* ptr; uintptr_t tag;  tagged_ptr(): ptr(nullptr), tag(0) {}  tagged_ptr( node* p ): ptr(p), tag(0) {} };

      bool empty() const {
          return m_Head.load( atomics::memory_order_relaxed ).ptr == nullptr;             // ld head
      }

      /// Clears the free list (not atomic)
      template <typename Disposer> void clear( Disposer disp ) {
          node * head = m_Head.load( atomics::memory_order_relaxed ).ptr;                 // ld head
          m_Head.store( { nullptr }, atomics::memory_order_relaxed );                     // st head := {nullptr, tag 0}
          while ( head ) {
              node * next = head->m_freeListNext.load( atomics::memory_order_relaxed );   // ld next
              disp( head );                                                               // "dispose <id>"
              head = next;
          }
      }

    NOTE: the store writes tagged_ptr( nullptr ), whose constructor sets tag = 0: clear() RESETS THE ABA TAG.
    From a quiescent state (the documented use: "(not atomic)", called before the destructor) this is harmless;
    were clear() run while a get() is stalled between its next load and its CAS, the tag could later come back
    to the value that get() expects.  clear() is modelled as a quiescent-only operation, executed alone
    ([tsolo_ev]).  empty() is one load; what it can observe is stated over every reachable state. *)
From Coq Require Import ZArith List String Bool Lia PeanoNat.
From LV Require Import Base.Conc Base.Events Model.FreeList Model.FreeListTagged Model.FreeListClear.
Import ListNotations.
Local Open Scope Z_scope.
Local Open Scope string_scope.

Definition tempty_prog : tprog bool := Act ta_ld_head (fun v => Ret (Nat.eqb (fst v) 0)).

Definition ta_st_head (h : nat) (tg : Z) : tact := fun g => (tset_head g h tg, (O, 0), [EvAcc KSt obj_head true]).

Fixpoint tclear_loop (fuel : nat) (h : nat) : tprog bool :=
  match fuel with
  | O => Ret false
  | S f =>
      if Nat.eqb h 0 then Ret true else
      Act (ta_ld_next h) (fun v => Emit [EvCli "dispose" (zn h)] (tclear_loop f (fst v)))
  end.

Definition tclear (fuel : nat) : tprog bool :=
  Act ta_ld_head (fun v => Act (ta_st_head 0 0) (fun _ => tclear_loop fuel (fst v))).

Fixpoint tsolo_ev {R} (p : tprog R) (g : TG) : TG * R * list ev :=
  match p with
  | Ret r => (g, r, [])
  | Emit es k => let '(g', r, es') := tsolo_ev k g in (g', r, (es ++ es')%list)
  | Act f k => let '(g', v, es) := f g in let '(g'', r, es') := tsolo_ev (k v) g' in (g'', r, (es ++ es')%list)
  end.
