(** * Model of cds::intrusive::StripedSet (cds/intrusive/striped_set.h) on top of [LV.Model.StripingPolicy],
      one atomic access per [Act].  (container::StripedSet runs the same code: it derives from the
      intrusive class and only adds node allocation, which is not atomic.)

    C++ (current tree), every operation:
      insert( val, f ):   nHash = hashing( val );
                          { scoped_cell_lock sl( m_MutexPolicy, nHash ); pBucket = bucket( nHash );     [ mask.load ]
                            bOk = pBucket->insert( val, f );
                            bResize = bOk && m_ResizingPolicy( ++m_ItemCounter, *this, *pBucket ); }     [ counter.fetch_add ]
                          if ( bResize ) resize();   return bOk;
      update( val, f, bAllowInsert ): the same with pBucket->update, resize policy evaluated when an item was inserted
      unlink( val ) / erase( key, f ):
                          { scoped_cell_lock sl( ... ); r = bucket( nHash )->unlink / erase( ... ); }
                          if ( r ) --m_ItemCounter;                                                      [ counter.fetch_sub ]
      find( key, f ) / contains( key ):
                          { scoped_cell_lock sl( ... ); return bucket( nHash )->find( key, f ); }
    resizing policies:    single_bucket_size_threshold<0>( th ):        bucket.size() > th
                          rational_load_factor_resizing<0>( th, 16 ):   nSize * 16 > bucket_count() * th   [ mask.load ]

    Client operations (integer lists, the same the harness reads): [c; k; a; b], see harness/C16/c16.h.
    Events: "inv" [c; k; a; b] at the call, "ret" [c; r1; r2] at the return. *)
From Coq Require Import ZArith List String Bool Lia PeanoNat.
From LV Require Import Base.Conc Base.Events Model.StripingPolicy.
Import ListNotations.
Local Open Scope nat_scope.
Local Open Scope string_scope.

(** static configuration of a run *)
Record conf := mkConf {
  c_pol : policy;       (* mutex policy                                       *)
  c_rp : nat;           (* 0 bucket-size threshold, 1 load factor th / 16     *)
  c_nl : nat;           (* initial capacity = size of the (first) lock array  *)
  c_th : nat;           (* threshold                                          *)
  c_hm : nat;           (* hash mode                                          *)
  c_fuel : nat          (* fuel of every spin / retry loop                    *)
}.

(** the sequential bucket operations *)
Inductive bop := BInsert | BUpdate (allow : bool) | BUnlink | BErase | BFind.

(** result of a bucket operation: new bucket, r1, r2 (meaning as in the C++: update = pair) *)
Definition bucket_apply (o : bop) (k me : nat) (b : list item) : list item * nat * nat :=
  match o with
  | BInsert => if bucket_has k b then (b, 0, 0) else ((k, me) :: b, 1, 0)
  | BUpdate allow =>
      if bucket_has k b then (b, 1, 0)
      else if allow then ((k, me) :: b, 1, 1) else (b, 0, 0)
  | BUnlink =>
      match bucket_get k b with
      | Some x => if Nat.eqb (snd x) me then (bucket_del k b, 1, 0) else (b, 0, 0)
      | None => (b, 0, 0)
      end
  | BErase => if bucket_has k b then (bucket_del k b, 1, 0) else (b, 0, 0)
  | BFind => (b, b2n (bucket_has k b), 0)
  end.

(** [bucket( nHash )-> op]: the load of the mask and, in the same step, the sequential bucket operation.
    Hands back r1, r2 and the bucket index. *)
Definition a_bucket_op (hm : nat) (o : bop) (k me : nat) : action := fun g =>
  let b := hfun hm k mod S (mask g) in
  let '(nb, r1, r2) := bucket_apply o k me (get_b (buckets g) b) in
  (set_buckets g (set_nth_b (buckets g) b nb), mkV r1 r2 b [], acc KLd o_mask).

(** [++m_ItemCounter]; the threshold policy then reads the size of the bucket it was handed *)
Definition a_count_faa_b (b : nat) : action := fun g =>
  (set_count g (S (count g)), mkV (count g) 0 (List.length (get_b (buckets g) b)) [], acc KFaa o_count).

Definition zl (l : list nat) : list Z := map Z.of_nat l.

Definition op_of_code (c b : nat) : option bop :=
  match c with
  | 1 | 2 | 9 | 14 => Some BInsert
  | 3 => Some (BUpdate (negb (Nat.eqb b 0)))
  | 4 => Some BUnlink
  | 5 | 6 | 10 | 13 => Some BErase
  | 7 | 8 | 11 | 12 => Some BFind
  | _ => None
  end.

(** what the harness prints as r2 *)
Definition r2_of_code (c k r1 r2 : nat) : nat :=
  match c with
  | 2 | 6 | 13 => r1
  | 3 => r2
  | 7 | 11 => if Nat.eqb r1 0 then 0 else k
  | _ => 0
  end.

Definition resize_wanted (cf : conf) (newcount bsize m : nat) : bool :=
  match c_rp cf with
  | 0 => Nat.ltb (c_th cf) bsize
  | _ => Nat.ltb (S m * c_th cf) (newcount * 16)
  end.

(** the response event *)
Definition op_finish (c k r1 r2 : nat) : prog (option unit) :=
  Emit [EvCli "ret" (zl [c; r1; r2_of_code c k r1 r2])] (oret tt).

(** after a successful insertion: count, evaluate the resizing policy, unlock, maybe resize *)
Definition after_insert (cf : conf) (me : nat) (cl : cell) (bi : nat) (fin : prog (option unit)) : prog (option unit) :=
  Act (a_count_faa_b bi) (fun vc =>
    let after (m : nat) : prog (option unit) :=
      thenu (cell_unlock cl)
        (if resize_wanted cf (S (vn vc)) (vs vc) m
         then bindo (resize (c_pol cf) (c_fuel cf) (c_nl cf) (c_hm cf) me) (fun _ => fin)
         else fin) in
    match c_rp cf with
    | 0 => after 0
    | _ => Act a_mask_ld (fun vm' => after (vn vm'))
    end).

(** what follows the bucket operation (whose results are in [v]) *)
Definition op_tail (cf : conf) (me : nat) (bo : bop) (cl : cell) (c k : nat) (v : V) : prog (option unit) :=
  let r1 := vn v in let r2 := vm v in let bi := vs v in
  let fin := op_finish c k r1 r2 in
  match bo with
  | BInsert | BUpdate _ =>
      let inserted := match bo with BInsert => Nat.eqb r1 1 | _ => Nat.eqb r1 1 && Nat.eqb r2 1 end in
      if inserted then after_insert cf me cl bi fin else thenu (cell_unlock cl) fin
  | BUnlink | BErase =>
      thenu (cell_unlock cl) (if Nat.eqb r1 1 then Act a_count_fas (fun _ => fin) else fin)
  | BFind => thenu (cell_unlock cl) fin
  end.

(** one client operation of thread [t]; [None] = a loop ran out of fuel (the thread stops) *)
Definition run_op (cf : conf) (t : nat) (o : list nat) : prog (option unit) :=
  let c := nth 0 o 0 in let k := nth 1 o 0 in let a := nth 2 o 0 in let b := nth 3 o 0 in
  let me := S t in
  let h := hfun (c_hm cf) k in
  match op_of_code c b with
  | None => oret tt
  | Some bo =>
      Emit [EvCli "inv" (zl [c; k; a; b])]
      (bindo (cell_lock (c_pol cf) (c_fuel cf) (c_nl cf) me h) (fun cl =>
         Act (a_bucket_op (c_hm cf) bo k t) (op_tail cf me bo cl c k)))
  end.

Fixpoint run_ops (cf : conf) (t : nat) (os : list (list nat)) : prog unit :=
  match os with
  | [] => Ret tt
  | o :: r => Conc.bind (run_op cf t o) (fun x => match x with Some _ => run_ops cf t r | None => Emit [EvCli "outoffuel" []] (Ret tt) end)
  end.

Definition thread_prog (cf : conf) (t : nat) (os : list (list nat)) : Conc.thread G V ev :=
  Act a_begin (fun _ => run_ops cf t os).

Definition init (cf : conf) : G :=
  mkG (fun _ => false) 0 (c_nl cf) false 0 1 (fun _ => c_nl cf) (fun _ _ => 0) (fun _ _ => 0)
      (c_nl cf - 1) 0 (repeat [] (c_nl cf)).

Fixpoint mapi {A B} (f : nat -> A -> B) (i : nat) (l : list A) : list B :=
  match l with [] => [] | x :: r => f i x :: mapi f (S i) r end.

Definition init_cfg (cf : conf) (ths : list (list (list nat))) : Conc.config G V ev :=
  Conc.Cfg (init cf) (mapi (thread_prog cf) 0 ths) [].

(** ** entry point for the extracted driver.
    cfg = [variant; capacity; -; th; hash mode; -; nkeys; loop fuel]; variant mod 4 = pol * 2 + rp *)
Definition conf_of (cfg : list Z) : conf :=
  let v := Z.to_nat (nth 0 cfg 0%Z) in
  let cap := Z.to_nat (nth 1 cfg 16%Z) in
  mkConf (if Nat.eqb ((v / 2) mod 2) 0 then Striping else Refinable) (v mod 2)
         (Nat.max 16 cap) (Z.to_nat (nth 3 cfg 1%Z)) (Z.to_nat (nth 4 cfg 0%Z)) (Z.to_nat (nth 7 cfg 1000%Z)).

Definition run_case (cfg : list Z) (ths : list (list (list Z))) (sched : list nat) (fuel : nat)
  : list (nat * ev) * bool :=
  let cf := conf_of cfg in
  let r := Conc.run fuel 0 sched (init_cfg cf (map (map (map Z.to_nat)) ths)) in
  (Conc.trace (fst r), snd r).
