(** * Sequential model of BronsonAVLTreeMap (cds/container/impl/bronson_avltree_map_rcu.h), one thread, every
      operation run to completion, rebalancing exactly as the C++ does it.

    The tree is "partially external": erasing a node with two children only clears its value (a routing node stays),
    routing nodes with fewer than two children are unlinked during rebalancing.  Every node stores its height.
    Pointers are modelled by a zipper: the path from the focused node up to the root (the root holder m_pRoot, whose
    right child is the real root, is the empty path).  Functions, statement by statement:

      estimate_node_condition      [estimate]           unlink_required / rebalance_required / new height / nothing
      fix_height_locked            [fix_height_locked]  returns the next damaged node: itself, its parent, or none
      fix_height_and_rebalance     [fix_loop]           the repair loop (fuelled)
      rebalance_locked             [rebalance_locked]
      rebalance_to_right_locked    [rebal_right]        `if ( hLL >= hLR ) rotate_right` (after /repo 9801f4a), the guard
      rebalance_to_left_locked     [rebal_left]         `!((hXX == 0 || hXYX == 0) && !is_valued)` before a double rotation
      rotate_right_locked, rotate_left_locked, rotate_right_over_left_locked, rotate_left_over_right_locked
                                   [rot_right] ...      heights set from the heights read before, then the "which node
                                                        is damaged now" cascade
      try_unlink_locked            inside [rebalance_locked] / [remove_node]
      try_insert_node / try_update_node / try_remove_node / try_extract_minmax
                                   [ins_leaf] / [update_node] / [remove_node] / [find_min], [find_max]
    Versions, locks, RCU and the disposer carry no sequential meaning and are omitted. *)
From Coq Require Import ZArith List Bool Lia.
From LV Require Import Model.SkipSeq.
Import ListNotations.
Local Open Scope Z_scope.

Inductive tree := E | N (l : tree) (k : Z) (v : option Z) (h : Z) (r : tree).
Inductive dir := DL | DR.
Record frame := F { fd : dir; fk : Z; fv : option Z; fh : Z; fs : tree }.

Definition plug (f : frame) (t : tree) : tree :=
  match fd f with
  | DL => N t (fk f) (fv f) (fh f) (fs f)
  | DR => N (fs f) (fk f) (fv f) (fh f) t
  end.
Fixpoint zip (p : list frame) (t : tree) : tree :=
  match p with [] => t | f :: p' => zip p' (plug f t) end.

Definition ht (t : tree) : Z := match t with E => 0 | N _ _ _ h _ => h end.
Definition isE (t : tree) : bool := match t with E => true | _ => false end.
Definition isNone (v : option Z) : bool := match v with None => true | _ => false end.
Definition out_of (b : Z) : bool := (b <? -1) || (1 <? b).

Inductive cond := CNothing | CUnlink | CRebalance | CFix (h : Z).

Definition estimate (t : tree) : cond :=
  match t with
  | E => CNothing
  | N l k v h r =>
      if (isE l || isE r) && isNone v then CUnlink
      else
        let hL := ht l in let hR := ht r in
        let hNew := 1 + Z.max hL hR in
        if out_of (hL - hR) then CRebalance
        else if h =? hNew then CNothing else CFix hNew
  end.

(** result of a repair step: [Done] = no damaged node left (nullptr), [Cont p t] = the node focused by (p, t) is the
    next damaged node *)
Inductive out := Done (p : list frame) (t : tree) | Cont (p : list frame) (t : tree).

Definition fix_height_locked (p : list frame) (t : tree) : out :=
  match t with
  | E => Done p t
  | N l k v h r =>
      match estimate t with
      | CRebalance | CUnlink => Cont p t
      | CNothing => Done p t
      | CFix h' =>
          match p with
          | [] => Done [] (N l k v h' r)                 (* parent = root holder: the repair loop stops there *)
          | f :: p' => Cont p' (plug f (N l k v h' r))
          end
      end
  end.

(** fix_height_locked( pParent ) where the focused subtree has just been replaced *)
Definition fixh_parent (p : list frame) (t : tree) : out :=
  match p with
  | [] => Done [] t
  | f :: p' => fix_height_locked p' (plug f t)
  end.

(** rotate_right_locked: n = N (N ll lk lv _ lr) k v _ r *)
Definition rot_right (p : list frame) (n : tree) : out :=
  match n with
  | N (N ll lk lv lh lr) k v h r =>
      let hR := ht r in let hLL := ht ll in let hLR := ht lr in
      let hNode := 1 + Z.max hLR hR in
      let hTop := 1 + Z.max hLL hNode in
      let node := N lr k v hNode r in
      let top := N ll lk lv hTop node in
      if out_of (hLR - hR) then Cont (F DR lk lv hTop ll :: p) node
      else if (isE lr || (hR =? 0)) && isNone v then Cont (F DR lk lv hTop ll :: p) node
      else if out_of (hLL - hNode) then Cont p top
      else if (hLL =? 0) && isNone lv then Cont p top
      else fixh_parent p top
  | _ => Cont p n
  end.

Definition rot_left (p : list frame) (n : tree) : out :=
  match n with
  | N l k v h (N rl rk rv rh rr) =>
      let hL := ht l in let hRL := ht rl in let hRR := ht rr in
      let hNode := 1 + Z.max hL hRL in
      let hTop := 1 + Z.max hNode hRR in
      let node := N l k v hNode rl in
      let top := N node rk rv hTop rr in
      if out_of (hRL - hL) then Cont (F DL rk rv hTop rr :: p) node
      else if (isE rl || (hL =? 0)) && isNone v then Cont (F DL rk rv hTop rr :: p) node
      else if out_of (hRR - hNode) then Cont p top
      else if (hRR =? 0) && isNone rv then Cont p top
      else fixh_parent p top
  | _ => Cont p n
  end.

(** rotate_right_over_left_locked: n = N (N ll lk lv _ (N lrl lrk lrv _ lrr)) k v _ r *)
Definition rot_right_over_left (p : list frame) (n : tree) : out :=
  match n with
  | N (N ll lk lv lh (N lrl lrk lrv lrh lrr)) k v h r =>
      let hR := ht r in let hLL := ht ll in let hLRL := ht lrl in let hLRR := ht lrr in
      let hNode := 1 + Z.max hLRR hR in
      let hLeft := 1 + Z.max hLL hLRL in
      let hTop := 1 + Z.max hLeft hNode in
      let node := N lrr k v hNode r in
      let left := N ll lk lv hLeft lrl in
      let top := N left lrk lrv hTop node in
      if out_of (hLRR - hR) then Cont (F DR lrk lrv hTop left :: p) node
      else if (isE lrr || (hR =? 0)) && isNone v then Cont (F DR lrk lrv hTop left :: p) node
      else if out_of (hLeft - hNode) then Cont p top
      else fixh_parent p top
  | _ => Cont p n
  end.

Definition rot_left_over_right (p : list frame) (n : tree) : out :=
  match n with
  | N l k v h (N (N rll rlk rlv rlh rlr) rk rv rh rr) =>
      let hL := ht l in let hRR := ht rr in let hRLL := ht rll in let hRLR := ht rlr in
      let hNode := 1 + Z.max hL hRLL in
      let hRight := 1 + Z.max hRLR hRR in
      let hTop := 1 + Z.max hNode hRight in
      let node := N l k v hNode rll in
      let right := N rlr rk rv hRight rr in
      let top := N node rlk rlv hTop right in
      if out_of (hRLL - hL) then Cont (F DL rlk rlv hTop right :: p) node
      else if (isE rll || (hL =? 0)) && isNone v then Cont (F DL rlk rlv hTop right :: p) node
      else if out_of (hRight - hNode) then Cont p top
      else fixh_parent p top
  | _ => Cont p n
  end.

(** rebalance_to_right_locked( pParent, pNode, pLeft, hR ) / rebalance_to_left_locked: mutually recursive, each
    call moves to a child *)
Fixpoint rebal_right (p : list frame) (n : tree) {struct n} : out :=
  match n with
  | N l k v h r =>
      match l with
      | E => Cont p n
      | N ll lk lv lh lr =>
          let hR := ht r in
          if lh - hR <=? 1 then Cont p n
          else
            let hLR := ht lr in let hLL := ht ll in
            match lr with
            | N lrl _ _ _ _ =>
                if hLR <=? hLL then rot_right p n
                else
                  let hLRL := ht lrl in let b := hLL - hLRL in
                  if negb (out_of b) && negb (((hLL =? 0) || (hLRL =? 0)) && isNone lv) then rot_right_over_left p n
                  else rebal_left (F DL k v h r :: p) l
            | E => if hLR <? hLL then rot_right p n else Cont p n
            end
      end
  | E => Done p n
  end
with rebal_left (p : list frame) (n : tree) {struct n} : out :=
  match n with
  | N l k v h r =>
      match r with
      | E => Cont p n
      | N rl rk rv rh rr =>
          let hL := ht l in
          if -1 <=? hL - rh then Cont p n
          else
            let hRL := ht rl in let hRR := ht rr in
            match rl with
            | N _ _ _ _ rlr =>
                if hRL <=? hRR then rot_left p n
                else
                  let hRLR := ht rlr in let b := hRR - hRLR in
                  if negb (out_of b) && negb (((hRR =? 0) || (hRLR =? 0)) && isNone rv) then rot_left_over_right p n
                  else rebal_right (F DR k v h l :: p) r
            | E => if hRL <? hRR then rot_left p n else Cont p n
            end
      end
  | E => Done p n
  end.

(** rebalance_locked( pParent, pNode ) *)
Definition rebalance_locked (p : list frame) (n : tree) : out :=
  match n with
  | E => Done p n
  | N l k v h r =>
      if (isE l || isE r) && isNone v then fixh_parent p (if isE l then r else l)        (* try_unlink_locked *)
      else
        let hL := ht l in let hR := ht r in
        let hNew := 1 + Z.max hL hR in
        let b := hL - hR in
        if 1 <? b then rebal_right p n
        else if b <? -1 then rebal_left p n
        else if negb (h =? hNew) then fixh_parent p (N l k v hNew r)
        else Done p n
  end.

(** fix_height_and_rebalance( pNode ): None = out of fuel *)
Fixpoint fix_loop (fuel : nat) (p : list frame) (t : tree) : option tree :=
  match fuel with
  | O => None
  | S f =>
      let continue (o : out) := match o with Done p' t' => Some (zip p' t') | Cont p' t' => fix_loop f p' t' end in
      match estimate t with
      | CNothing => Some (zip p t)
      | CFix _ => continue (fix_height_locked p t)
      | CUnlink | CRebalance => continue (rebalance_locked p t)
      end
  end.

Definition run_out (fuel : nat) (o : out) : option tree :=
  match o with Done p t => Some (zip p t) | Cont p t => fix_loop fuel p t end.

(** *** operations *)
(** flags of do_update: insert = allow_insert; update(.., true) = both; update(.., false) = allow_update *)
Definition update_node (ai au : bool) (v : Z) (p : list frame) (n : tree) : tree :=
  match n with
  | N l k (Some _) h r => if au then zip p (N l k (Some v) h r) else zip p n
  | N l k None h r => if ai then zip p (N l k (Some v) h r) else zip p n
  | E => zip p n
  end.

Fixpoint upd (fuel : nat) (ai au : bool) (k v : Z) (p : list frame) (t : tree) {struct t} : option tree :=
  match t with
  | E => (* empty tree: try_update_root *) if ai then Some (zip p (N E k (Some v) 1 E)) else Some (zip p E)
  | N l k' v' h r =>
      if k =? k' then Some (update_node ai au v p t)
      else if k <? k' then
        match l with
        | E => if ai then run_out fuel (fix_height_locked p (N (N E k (Some v) 1 E) k' v' h r)) else Some (zip p t)
        | _ => upd fuel ai au k v (F DL k' v' h r :: p) l
        end
      else
        match r with
        | E => if ai then run_out fuel (fix_height_locked p (N l k' v' h (N E k (Some v) 1 E))) else Some (zip p t)
        | _ => upd fuel ai au k v (F DR k' v' h l :: p) r
        end
  end.

(** try_remove_node on the focused node *)
Definition remove_node (fuel : nat) (p : list frame) (n : tree) : option tree :=
  match n with
  | N l k (Some _) h r =>
      if isE l || isE r then run_out fuel (fixh_parent p (if isE l then r else l))
      else Some (zip p (N l k None h r))
  | _ => Some (zip p n)
  end.

Fixpoint rem (fuel : nat) (k : Z) (p : list frame) (t : tree) {struct t} : option tree :=
  match t with
  | E => Some (zip p E)
  | N l k' v' h r =>
      if k =? k' then remove_node fuel p t
      else if k <? k' then rem fuel k (F DL k' v' h r :: p) l
      else rem fuel k (F DR k' v' h l :: p) r
  end.

(** try_extract_minmax: the node reached by going left (right) as far as possible; a routing node there hands over
    to its other child; a routing leaf makes the real code spin for ever (liveness observation of C15/C18): that
    outcome is [None] in [a_step], like running out of fuel *)
Fixpoint find_min (t : tree) : option Z :=
  match t with
  | E => None
  | N l k v _ r => match l with E => (match v with Some _ => Some k | None => find_min r end) | _ => find_min l end
  end.
Fixpoint find_max (t : tree) : option Z :=
  match t with
  | E => None
  | N l k v _ r => match r with E => (match v with Some _ => Some k | None => find_max l end) | _ => find_max r end
  end.

Definition FUEL : nat := 400.

Definition a_step (t : tree) (o : sop) : option tree :=
  match o with
  | Ins k v => upd FUEL true false k v [] t
  | Ups k v => upd FUEL true true k v [] t
  | Upd k v => upd FUEL false true k v [] t
  | Del k => rem FUEL k [] t
  | ExtMin => match find_min t with Some k => rem FUEL k [] t | None => (match t with E => Some E | _ => None end) end
  | ExtMax => match find_max t with Some k => rem FUEL k [] t | None => (match t with E => Some E | _ => None end) end
  end.

Fixpoint a_run (os : list sop) (t : tree) : option tree :=
  match os with
  | [] => Some t
  | o :: r => match a_step t o with Some t' => a_run r t' | None => None end
  end.

(** in-order traversal: all nodes / the valued ones (what a client sees) *)
Fixpoint ia (t : tree) : list (Z * option Z) :=
  match t with E => [] | N l k v _ r => ia l ++ (k, v) :: ia r end.
Fixpoint valued (l : list (Z * option Z)) : list (Z * Z) :=
  match l with
  | [] => []
  | (k, Some v) :: r => (k, v) :: valued r
  | (_, None) :: r => valued r
  end.
Definition a_traverse (t : tree) : list (Z * Z) := valued (ia t).
Definition a_size (t : tree) : nat := length (a_traverse t).

Fixpoint real_height (t : tree) : Z :=
  match t with E => 0 | N l _ _ _ r => 1 + Z.max (real_height l) (real_height r) end.

(** the checks of harness/C15/probe_bronson.h as boolean functions *)
Fixpoint heights_exact (t : tree) : bool :=
  match t with E => true | N l _ _ h r => (h =? 1 + Z.max (real_height l) (real_height r)) && heights_exact l && heights_exact r end.
Fixpoint balanced (t : tree) : bool :=
  match t with E => true | N l _ _ _ r => negb (out_of (real_height l - real_height r)) && balanced l && balanced r end.
Fixpoint no_removable_routing (t : tree) : bool :=
  match t with E => true | N l _ v _ r => negb ((isE l || isE r) && isNone v) && no_removable_routing l && no_removable_routing r end.

Definition a_decode (o : list Z) : option sop :=
  match SkipSeq.decode o with Some (x, _) => Some x | None => None end.
