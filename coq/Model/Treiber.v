(** * Model of cds::container::TreiberStack<cds::gc::HP, int> without elimination back-off,
      one atomic access of the C++ code per [Act].

    C++ (current tree), cds/intrusive/treiber_stack.h, class TreiberStack, enable_elimination = false,
    back_off = cds::backoff::empty, item_counter = empty_item_counter, stat = empty_stat (no atomics):

      bool push( value_type& val ) {
          node_type * pNew = node_traits::to_node_ptr( val );
          node_type * t = m_Top.load( relaxed );                                        // [a_ld_top]
          while ( true ) {
              pNew->m_pNext.store( t, relaxed );                                        // [a_st_next]  (atomic!)
              if ( m_Top.compare_exchange_weak( t, pNew, release, acquire ))            // [a_cas_top]
                  { ++m_ItemCounter; m_stat.onPush(); return true; }
              m_stat.onPushRace();
              if ( bkoff.backoff( op, m_stat )) return true;      // elimination_backoff<false>: m_bkoff(); return false
          }                                                       // (a failed CAS left the current top in t)
      }
      value_type * pop() {
          typename gc::Guard guard;                               // thread-local hazard slot allocation, no atomic
          while ( true ) {
              node_type * t = guard.protect( m_Top, ... );        // see protect below
              if ( t == nullptr ) return nullptr;                 // ~Guard: slot->clear()           [a_st_hp None]
              node_type * pNext = t->m_pNext.load( relaxed );                           // [a_ld_next]
              if ( m_Top.compare_exchange_weak( t, pNext, acquire, relaxed )) {         // [a_cas_top]
                  clear_links( t );                               // t->m_pNext.store( nullptr )     [a_st_next None]
                  --m_ItemCounter; m_stat.onPop();
                  return node_traits::to_value_ptr( *t );         // ~Guard: slot->clear()           [a_st_hp_rd]
              }
              m_stat.onPopRace();
              if ( bkoff.backoff( op, m_stat )) return op.pVal;
          }
      }
    cds/gc/hp.h, Guard:
      T protect( atomics::atomic<T> const& toGuard, Func f ) {
          T pCur = toGuard.load( relaxed );                                             // [a_ld_top]
          T pRet;
          do {
              pRet = pCur;
              assign( f( pCur ));        // guard_->set( p ) : hazard slot store                [a_st_hp]
                                         // hp_implementation::tls()->sync() : sync_.fetch_add(1) [a_faa_sync]
              pCur = toGuard.load( acquire );                                           // [a_ld_top]
          } while ( pRet != pCur );
          return pCur;
      }
    cds/container/treiber_stack.h:
      bool push( value_type const& val ) {
          scoped_node_ptr p( alloc_node( val ));    // new node_type(val): single_link::node() { m_pNext.store( nullptr, release ); }
                                                    //                                          [a_node_init]  then m_value = val (local)
          if ( base_class::push( *p )) { p.release(); return true; }
          return false;
      }
      bool pop_with( Func f ) {
          node_type * p = base_class::pop();
          if ( !p ) return false;
          f( p->m_value );                          // plain read of the popped node's value (after the guard was cleared)
          retire_node( p );                         // gc::retire<disposer>( p ):
          return true;                              //   retired_.push(): cur = current_.load();  [a_ld_ret]   *cur = p;
      }                                             //                    current_.store( cur+1 ); [a_st_ret]   return cur+1 < last_
                                                    //   (the harness gives cds::gc::HP a retired capacity that is never
                                                    //    reached during a case, so scan() does not run and nothing is freed)

    Memory: nodes are identified by (allocating thread, index of the push among that thread's
    operations) and are NEVER REUSED: this builds in the memory-safety hypothesis [smr_safe] of DESIGN 4
    (no node is recycled while a validated guard can still reach it); see Proofs/TreiberProofs.v.

    Client operations (what harness/C09/main.cpp executes on the real stack):
      [1; v]  push v    "inv_push v";  push(v);  "ret_push 1"
      [2]     pop       "inv_pop";     b = pop(x);  "ret_pop b x"   (x = 0 when b = 0)                     *)
From Coq Require Import ZArith List String Bool Lia PeanoNat.
From LV Require Import Base.Conc Base.Events.
Import ListNotations.
Local Open Scope Z_scope.
Local Open Scope string_scope.

Definition node := (nat * nat)%type.
Definition ptr := option node.

Definition node_eqb (a b : node) : bool := Nat.eqb (fst a) (fst b) && Nat.eqb (snd a) (snd b).
Definition ptr_eqb (a b : ptr) : bool :=
  match a, b with
  | None, None => true
  | Some x, Some y => node_eqb x y
  | _, _ => false
  end.

(** shared state *)
Record G := mkG {
  top : ptr;                    (* m_Top *)
  next : node -> ptr;           (* m_pNext of each node *)
  val : node -> Z;              (* m_value of each node (written once, before publication) *)
  hp : nat -> ptr;              (* the hazard slot of each thread (one guard per thread) *)
  retired : nat -> list node    (* the thread-local retired array of each thread *)
}.

Inductive V := VU | VP (p : ptr) | VB (ok : bool) (p : ptr) | VZ (z : Z).

Definition prog := Conc.prog G V ev.

Definition set_top (g : G) (p : ptr) : G := mkG p (next g) (val g) (hp g) (retired g).
Definition set_next (g : G) (n : node) (p : ptr) : G :=
  mkG (top g) (fun x => if node_eqb x n then p else next g x) (val g) (hp g) (retired g).
Definition set_val (g : G) (n : node) (v : Z) : G :=
  mkG (top g) (next g) (fun x => if node_eqb x n then v else val g x) (hp g) (retired g).
Definition set_hp (g : G) (t : nat) (p : ptr) : G :=
  mkG (top g) (next g) (val g) (fun x => if Nat.eqb x t then p else hp g x) (retired g).
Definition add_retired (g : G) (t : nat) (n : node) : G :=
  mkG (top g) (next g) (val g) (hp g) (fun x => if Nat.eqb x t then n :: retired g x else retired g x).

Definition zn (n : nat) : Z := Z.of_nat n.
Definition obj_top : list Z := [0].
Definition obj_next (n : node) : list Z := [1; zn (fst n); zn (snd n)].
Definition obj_hp (t : nat) : list Z := [2; zn t].
Definition obj_sync (t : nat) : list Z := [3; zn t].
Definition obj_ret (t : nat) : list Z := [4; zn t].

Definition act := G -> G * V * list ev.

Definition a_begin : act := fun g => (g, VU, [EvAcc KBegin [] true]).
(** node constructor: m_pNext.store(nullptr), then the (local) initialisation of m_value *)
Definition a_node_init (n : node) (v : Z) : act :=
  fun g => (set_val (set_next g n None) n v, VU, [EvAcc KSt (obj_next n) true]).
Definition a_ld_top : act := fun g => (g, VP (top g), [EvAcc KLd obj_top true]).
Definition a_st_next (n : node) (p : ptr) : act :=
  fun g => (set_next g n p, VU, [EvAcc KSt (obj_next n) true]).
Definition a_ld_next (n : node) : act := fun g => (g, VP (next g n), [EvAcc KLd (obj_next n) true]).
(** compare_exchange: on failure the value found is returned (it is written to the expected argument) *)
Definition a_cas_top (exp new : ptr) : act :=
  fun g => if ptr_eqb (top g) exp
           then (set_top g new, VB true exp, [EvAcc KCas obj_top true])
           else (g, VB false (top g), [EvAcc KCas obj_top false]).
Definition a_st_hp (t : nat) (p : ptr) : act :=
  fun g => (set_hp g t p, VU, [EvAcc KSt (obj_hp t) true]).
(** ~Guard after a successful pop, followed by the plain read of the node's value by pop_with's functor *)
Definition a_st_hp_rd (t : nat) (n : node) : act :=
  fun g => (set_hp g t None, VZ (val g n), [EvAcc KSt (obj_hp t) true]).
Definition a_faa_sync (t : nat) : act := fun g => (g, VU, [EvAcc KFaa (obj_sync t) true]).
(** retired_.push: load of current_, then *cur = p (local), ... *)
Definition a_ld_ret (t : nat) (n : node) : act :=
  fun g => (add_retired g t n, VU, [EvAcc KLd (obj_ret t) true]).
(** ... store of current_ + 1 *)
Definition a_st_ret (t : nat) : act := fun g => (g, VU, [EvAcc KSt (obj_ret t) true]).

Definition ptr_of (v : V) : ptr := match v with VP p => p | VB _ p => p | _ => None end.

(** ** push *)
Fixpoint push_loop (fuel : nat) (n : node) (t : ptr) : prog bool :=
  match fuel with
  | O => Ret false
  | S f =>
      Act (a_st_next n t) (fun _ =>
      Act (a_cas_top t (Some n)) (fun r =>
        match r with
        | VB true _ => Ret true
        | other => push_loop f n (ptr_of other)
        end))
  end.

Definition push (fuel : nat) (n : node) (v : Z) : prog bool :=
  Act (a_node_init n v) (fun _ =>
  Act a_ld_top (fun r => push_loop fuel n (ptr_of r))).

(** ** Guard::protect( m_Top ): [None] = out of fuel, [Some p] = the validated value *)
Fixpoint protect_loop (fuel : nat) (t : nat) (pCur : ptr) : prog (option ptr) :=
  match fuel with
  | O => Ret None
  | S f =>
      Act (a_st_hp t pCur) (fun _ =>
      Act (a_faa_sync t) (fun _ =>
      Act a_ld_top (fun r =>
        if ptr_eqb pCur (ptr_of r) then Ret (Some (ptr_of r)) else protect_loop f t (ptr_of r))))
  end.

Definition protect (fuel : nat) (t : nat) : prog (option ptr) :=
  Act a_ld_top (fun r => protect_loop fuel t (ptr_of r)).

(** ** pop *)
Inductive pop_res := PopFuel | PopEmpty | Popped (v : Z).

Definition z_of (v : V) : Z := match v with VZ z => z | _ => 0 end.

Fixpoint pop_loop (fuel : nat) (t : nat) : prog pop_res :=
  match fuel with
  | O => Ret PopFuel
  | S f =>
      bind (protect f t) (fun r =>
        match r with
        | None => Ret PopFuel
        | Some None => Act (a_st_hp t None) (fun _ => Ret PopEmpty)
        | Some (Some n) =>
            Act (a_ld_next n) (fun nx =>
            Act (a_cas_top (Some n) (ptr_of nx)) (fun r =>
              match r with
              | VB true _ =>
                  Act (a_st_next n None) (fun _ =>
                  Act (a_st_hp_rd t n) (fun x =>
                  Act (a_ld_ret t n) (fun _ =>
                  Act (a_st_ret t) (fun _ => Ret (Popped (z_of x))))))
              | _ => pop_loop f t
              end))
        end)
  end.

Inductive op := OPush (v : Z) | OPop.

(** one client operation; [k] = its index among the thread's operations (names the node of a push);
    the result says whether the thread may go on (false: out of fuel, the operation stays pending) *)
Definition run_op (fuel : nat) (t k : nat) (o : op) : prog bool :=
  match o with
  | OPush v =>
      Emit [EvCli "inv_push" [v]]
        (bind (push fuel (t, k) v) (fun ok =>
           if ok then Emit [EvCli "ret_push" [1]] (Ret true)
           else Emit [EvCli "outoffuel" []] (Ret false)))
  | OPop =>
      Emit [EvCli "inv_pop" []]
        (bind (pop_loop fuel t) (fun r =>
           match r with
           | Popped v => Emit [EvCli "ret_pop" [1; v]] (Ret true)
           | PopEmpty => Emit [EvCli "ret_pop" [0; 0]] (Ret true)
           | PopFuel => Emit [EvCli "outoffuel" []] (Ret false)
           end))
  end.

Fixpoint run_ops (fuel : nat) (t k : nat) (os : list op) : prog unit :=
  match os with
  | [] => Ret tt
  | o :: r => bind (run_op fuel t k o) (fun ok => if ok then run_ops fuel t (S k) r else Ret tt)
  end.

Definition thread_prog (fuel : nat) (t : nat) (os : list op) : Conc.thread G V ev :=
  Act a_begin (fun _ => run_ops fuel t 0 os).

Fixpoint thread_progs (fuel : nat) (t : nat) (ths : list (list op)) : list (Conc.thread G V ev) :=
  match ths with
  | [] => []
  | os :: r => thread_prog fuel t os :: thread_progs fuel (S t) r
  end.

Definition init : G := mkG None (fun _ => None) (fun _ => 0) (fun _ => None) (fun _ => []).

Definition init_cfg (fuel : nat) (ths : list (list op)) : Conc.config G V ev :=
  Conc.Cfg init (thread_progs fuel 0 ths) [].

(** ** entry point for the extracted driver *)
Definition decode_op (o : list Z) : option op :=
  match o with
  | [1; v] => Some (OPush v)
  | [2] => Some OPop
  | _ => None
  end.

Fixpoint decode_ops (os : list (list Z)) : list op :=
  match os with
  | [] => []
  | o :: r => match decode_op o with Some x => x :: decode_ops r | None => decode_ops r end
  end.

(** cfg = [variant (ignored by the model); loop fuel] *)
Definition run_case (cfg : list Z) (ths : list (list (list Z))) (sched : list nat) (fuel : nat)
  : list (nat * ev) * bool :=
  let lfuel := Z.to_nat (nth 1 cfg 1000) in
  let r := Conc.run fuel 0 sched (init_cfg lfuel (map decode_ops ths)) in
  (Conc.trace (fst r), snd r).
