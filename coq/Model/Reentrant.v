(** * Model of cds::sync::reentrant_spin_lock<Integral, Backoff> (cds/sync/spinlock.h),
      one atomic access per [Act].

    C++ (current tree; [tid] = OS::get_current_thread_id(), OS::c_NullThreadId = 0):
      take(tid):            m_OwnerId.store( tid );
      free():               m_OwnerId.store( c_NullThreadId );
      is_taken(tid):        return m_OwnerId.load() == tid;
      try_taken_lock(tid):  if ( is_taken(tid)) { m_spin.fetch_add(1); return true; }  return false;
      try_acquire():        nCurrent = 0;  return m_spin.compare_exchange_weak( nCurrent, 1 );
      try_acquire(n):       while ( n-- ) { if ( try_acquire()) return true; bkoff(); }  return false;
      acquire():            while ( !try_acquire()) { while ( m_spin.load()) bkoff(); }
      try_lock():           if ( try_taken_lock(tid)) return true;
                            if ( try_acquire()) { take(tid); return true; }  return false;
      try_lock(n):          the same with try_acquire(n)
      lock():               if ( !try_taken_lock(tid)) { acquire(); take(tid); }
      unlock():             n = m_spin.load();
                            if ( n > 1 ) m_spin.store( n - 1 );
                            else { free(); m_spin.store( 0 ); }
    (the assert in unlock() contains an atomic load but is compiled out: harnesses use -DNDEBUG;
     the harness instantiates Backoff = cds::backoff::empty, which performs no access.)

    Thread ids: model thread t has id t+1; 0 is the null id.  The real ids are pthread_t values: the
    correspondence compares the access events only (kind, object, success flag), never the values.

    Client operations (harness/C22/main.cpp, mode "re"): one operation is a nest
        [k1; l1; k2; l2; ...]
    meaning   acquire l1 by method k1; if acquired { "enter l1"; touch data[l1];
                 acquire l2 by method k2; if acquired { ... } ;
              "leave l1"; unlock(l1); "rel l1" }
    with method 0 = lock(), 1 = try_lock(), k>=2 = try_lock(k).  The same lock may occur several times in
    one nest (re-entrance).  The touch of data[l] is an atomic load of a harness variable: a scheduling
    point inside the critical section. *)
From Coq Require Import ZArith List String Bool Lia PeanoNat.
From LV Require Import Base.Conc Base.Events.
Import ListNotations.
Local Open Scope string_scope.

(** shared state: [spin l] = m_spin, [owner l] = m_OwnerId of lock l *)
Record G := mkG { spin : nat -> nat; owner : nat -> nat }.
Definition V := nat.

Definition prog := Conc.prog G V ev.

Definition updf (f : nat -> nat) (l v : nat) : nat -> nat := fun x => if Nat.eqb x l then v else f x.
Definition set_spin (g : G) (l v : nat) : G := mkG (updf (spin g) l v) (owner g).
Definition set_owner (g : G) (l v : nat) : G := mkG (spin g) (updf (owner g) l v).

Definition obj_spin (l : nat) : list Z := [0%Z; Z.of_nat l].
Definition obj_owner (l : nat) : list Z := [1%Z; Z.of_nat l].
Definition obj_data (l : nat) : list Z := [2%Z; Z.of_nat l].

Definition a_begin : G -> G * V * list ev := fun g => (g, 0, [EvAcc KBegin [] true]).
Definition a_ld_owner (l : nat) : G -> G * V * list ev :=
  fun g => (g, owner g l, [EvAcc KLd (obj_owner l) true]).
Definition a_st_owner (l v : nat) : G -> G * V * list ev :=
  fun g => (set_owner g l v, 0, [EvAcc KSt (obj_owner l) true]).
Definition a_faa (l : nat) : G -> G * V * list ev :=
  fun g => (set_spin g l (S (spin g l)), spin g l, [EvAcc KFaa (obj_spin l) true]).
(** compare_exchange( 0 -> 1 ): value 1 = success *)
Definition a_cas (l : nat) : G -> G * V * list ev :=
  fun g => if Nat.eqb (spin g l) 0
           then (set_spin g l 1, 1, [EvAcc KCas (obj_spin l) true])
           else (g, 0, [EvAcc KCas (obj_spin l) false]).
Definition a_ld_spin (l : nat) : G -> G * V * list ev :=
  fun g => (g, spin g l, [EvAcc KLd (obj_spin l) true]).
Definition a_st_spin (l v : nat) : G -> G * V * list ev :=
  fun g => (set_spin g l v, 0, [EvAcc KSt (obj_spin l) true]).
Definition a_touch (l : nat) : G -> G * V * list ev :=
  fun g => (g, 0, [EvAcc KLd (obj_data l) true]).

(** try_taken_lock *)
Definition try_taken (tid l : nat) : prog bool :=
  Act (a_ld_owner l) (fun o => if Nat.eqb o tid then Act (a_faa l) (fun _ => Ret true) else Ret false).

(** acquire(): TATAS; [false] = fuel exhausted *)
Fixpoint acq_outer (fuel l : nat) : prog bool :=
  match fuel with
  | O => Ret false
  | S f => Act (a_cas l) (fun ok => if Nat.eqb ok 1 then Ret true else acq_inner f l)
  end
with acq_inner (fuel l : nat) : prog bool :=
  match fuel with
  | O => Ret false
  | S f => Act (a_ld_spin l) (fun v => if Nat.eqb v 0 then acq_outer f l else acq_inner f l)
  end.

(** try_acquire( n ) *)
Fixpoint acq_n (n l : nat) : prog bool :=
  match n with
  | O => Ret false
  | S n' => Act (a_cas l) (fun ok => if Nat.eqb ok 1 then Ret true else acq_n n' l)
  end.

Definition take (tid l : nat) : prog bool := Act (a_st_owner l tid) (fun _ => Ret true).

(** lock(); the result [false] only means "spin fuel exhausted" *)
Definition lock (fuel tid l : nat) : prog bool :=
  bind (try_taken tid l) (fun b =>
    if b then Ret true
    else bind (acq_outer fuel l) (fun ok => if ok then take tid l else Ret false)).

(** try_lock() = try_lock_n 1 (try_acquire() is one CAS); try_lock( n ) = try_lock_n n *)
Definition try_lock_n (n tid l : nat) : prog bool :=
  bind (try_taken tid l) (fun b =>
    if b then Ret true
    else bind (acq_n n l) (fun ok => if ok then take tid l else Ret false)).

Definition unlock (l : nat) : prog unit :=
  Act (a_ld_spin l) (fun n =>
    if Nat.ltb 1 n then Act (a_st_spin l (n - 1)) (fun _ => Ret tt)
    else Act (a_st_owner l 0) (fun _ => Act (a_st_spin l 0) (fun _ => Ret tt))).

Definition zl (l : nat) : list Z := [Z.of_nat l].

(** method 0 = lock(), 1 = try_lock(), k >= 2 = try_lock(k) *)
Definition acquire_by (fuel tid k l : nat) : prog bool :=
  match k with
  | O => lock fuel tid l
  | _ => try_lock_n k tid l
  end.

Definition op := list (nat * nat).

Fixpoint nest (fuel tid : nat) (o : op) : prog unit :=
  match o with
  | [] => Ret tt
  | (k, l) :: r =>
      Emit [EvCli "inv" [Z.of_nat k; Z.of_nat l]]
        (bind (acquire_by fuel tid k l) (fun ok =>
           if ok then
             Emit [EvCli "enter" (zl l)]
               (Act (a_touch l) (fun _ =>
                  bind (nest fuel tid r) (fun _ =>
                    Emit [EvCli "leave" (zl l)]
                      (bind (unlock l) (fun _ => Emit [EvCli "rel" (zl l)] (Ret tt))))))
           else Emit [EvCli (match k with O => "outoffuel" | _ => "fail" end) (zl l)] (Ret tt)))
  end.

Definition run_op (fuel tid : nat) (o : op) : prog unit :=
  bind (nest fuel tid o) (fun _ => Emit [EvCli "ret" []] (Ret tt)).

Fixpoint run_ops (fuel tid : nat) (os : list op) : prog unit :=
  match os with
  | [] => Ret tt
  | o :: r => bind (run_op fuel tid o) (fun _ => run_ops fuel tid r)
  end.

(** model thread [t] runs with thread id [t+1] *)
Definition thread_prog (fuel t : nat) (os : list op) : Conc.thread G V ev :=
  Act a_begin (fun _ => run_ops fuel (S t) os).

Fixpoint mk_threads (fuel t : nat) (ths : list (list op)) : list (Conc.thread G V ev) :=
  match ths with
  | [] => []
  | os :: r => thread_prog fuel t os :: mk_threads fuel (S t) r
  end.

Definition init : G := mkG (fun _ => 0) (fun _ => 0).

Definition init_cfg (fuel : nat) (ths : list (list op)) : Conc.config G V ev :=
  Conc.Cfg init (mk_threads fuel 0 ths) [].

(** ** entry point for the extracted driver *)
Fixpoint decode_op (o : list Z) : op :=
  match o with
  | k :: l :: r => (Z.to_nat k, Z.to_nat l) :: decode_op r
  | _ => []
  end.

(** cfg = [nlocks (unused by the model: locks are a total map); spin fuel] *)
Definition run_case (cfg : list Z) (ths : list (list (list Z))) (sched : list nat) (fuel : nat)
  : list (nat * ev) * bool :=
  let sfuel := Z.to_nat (nth 1 cfg 1000%Z) in
  let r := Conc.run fuel 0 sched (init_cfg sfuel (map (map decode_op) ths)) in
  (Conc.trace (fst r), snd r).
