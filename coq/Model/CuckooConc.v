(** * Model of cds::intrusive::CuckooSet (cds/intrusive/cuckoo_set.h), arity 2, with its two mutex policies
      [cuckoo::striping] and [cuckoo::refinable], one atomic access per [Act].
      (container::CuckooSet / CuckooMap run the same code: they derive from the intrusive class.)

    Every [atomics::atomic] of the C++ is a field of [G]; every access to it is exactly one [Act], in program
    order.  Non-atomic work (probe-set search and update, copies of the [m_arrLocks] shared pointers,
    allocation) is attached to the atomic access that precedes it, as the deterministic scheduler runs it.
    Probe sets are lists of items in their real order (the first item is the relocation victim): unordered
    sets append, ordered sets keep the keys sorted; list and vector probe sets behave identically
    (probe-set size = constructor argument, or the vector capacity); stored hashes only avoid recomputation.

    Locks: RecursiveLock = cds::sync::reentrant_spin_lock<uint32_t, backoff::empty> (see StripingPolicy.v for
    the C++), m_access = cds::sync::spin.

    cuckoo::striping<Lock, 2>     m_Locks[2] : lock_array<Lock, pow2_select_policy>, never resized
      scoped_cell_lock( arrHash )     for i in 0,1: m_Locks[i].lock( arrHash[i] );    ~: for i in 0,1: unlock
      scoped_cell_trylock( arrHash )  m_Locks[0].try_lock( arrHash[0] ) and, if that succeeded, m_Locks[1].lock( arrHash[1] )
      scoped_resize_lock              m_Locks[0].lock_all();   ~: unlock_all();          resize( n ) {}

    cuckoo::refinable<Lock, 2, BackOff>   m_Owner, m_nCapacity : atomic;  m_arrLocks[2] : shared_ptr;  m_access : spin
      acquire( arrHash, pLockArr, parrLock ):
        while ( true ) {
            { scoped_spinlock sl( m_access ); pLockArr[i] = m_arrLocks[i]; cur_capacity = m_nCapacity.load(); }
            while ( true ) { who = m_Owner.load(); if ( !(who & 1) || (who >> 1) == me ) break; bkoff(); }
            if ( cur_capacity == m_nCapacity.load()) {
                nMask = pLockArr[0]->size() - 1;
                for i in 0,1: { parrLock[i] = &pLockArr[i]->at( arrHash[i] & nMask ); parrLock[i]->lock(); }
                who = m_Owner.load();
                if (( !(who & 1) || (who >> 1) == me ) && cur_capacity == m_nCapacity.load()) return;
                for i in 0,1: parrLock[i]->unlock();
            }
        }
      try_second_acquire( arrHash, parrLock ):
        nMask = m_nCapacity.load() - 1;
        if ( !m_arrLocks[0]->at( arrHash[0] & nMask ).try_lock()) return false;
        m_arrLocks[1]->at( arrHash[1] & nMask ).lock();  return true;
      acquire_resize( pOldLocks ):
        while ( true ) {
            { scoped_spinlock sl( m_access ); pOldLocks[i] = m_arrLocks[i]; cur_capacity = m_nCapacity.load(); }
            if ( m_Owner.compare_exchange_strong( 0 -> (me << 1) | 1 )) {
                if ( cur_capacity == m_nCapacity.load()) { pOldLocks[0]->lock_all(); return; }
                m_Owner.store( 0 );
            }
        }
      release_resize( pOldLocks ):  m_Owner.store( 0 ); pOldLocks[0]->unlock_all();
      resize( n ):  pNew[i] = create_lock_array( n ); { scoped_spinlock sl( m_access ); m_nCapacity.store( n ); m_arrLocks[i] = pNew[i]; }

    CuckooSet:  bucket( nTable, nHash ) = m_BucketTable[nTable][ nHash & m_nBucketMask.load() ]      (one load per call)
      contains( arrPos, arrHash, val ):  for i in 0,1: if ( find in bucket( i, arrHash[i] )) return i;  return undef;
      insert( val, f ):
        while ( true ) {
            { scoped_cell_lock guard( arrHash );
              if ( contains( ... ) != undef ) return false;
              for i in 0,1: { b = bucket( i, arrHash[i] ); if ( b.size() < m_nProbesetThreshold ) { b.insert_after( pos, pNode ); f( val ); ++m_ItemCounter; return true; } }
              for i in 0,1: { b = bucket( i, arrHash[i] ); if ( b.size() < m_nProbesetSize ) { b.insert_after( pos, pNode ); f( val ); ++m_ItemCounter;
                                nGoalTable = i; copy_hash( arrHash, first of b ); goto do_relocate; } } }
            resize();
        }
        do_relocate: if ( !relocate( nGoalTable, arrHash )) resize();  return true;
      update( val, func, bAllowInsert ): as insert; a found item gives (true, false); absent and !bAllowInsert gives (false, false)
      erase_( val, f ):  { guard; nTable = contains(); if found { f( item ); bucket( nTable, arrHash[nTable] ).remove( pos ); --m_ItemCounter; return item; } } return nullptr;
      unlink( val ):     the same, but only if the item found is &val
      find_( val, f ):   { guard; return contains() != undef; }
      relocate( nTable, arrGoalHash ):
        for ( nRound = 0; nRound < 3; ++nRound ) {
            while ( true ) {
                scoped_cell_lock guard( arrGoalHash );
                refBucket = bucket( nTable, arrGoalHash[nTable] );
                if ( refBucket.size() < m_nProbesetThreshold ) return true;
                pVal = first of refBucket; copy_hash( arrHash, *pVal );
                scoped_cell_trylock guard2( arrHash );  if ( !guard2.locked()) continue;
                refBucket.remove( first );
                i = other table;
                { bkt = bucket( i, arrHash[i] ); if ( bkt.size() < m_nProbesetThreshold ) { bkt.insert( pVal ); return true; } }
                { bkt = bucket( i, arrHash[i] ); if ( bkt.size() < m_nProbesetSize ) { bkt.insert( pVal ); nTable = i; arrGoalHash = arrHash; goto next_iteration; } }
                refBucket.insert_after( head, pVal ); return false;
            }
            next_iteration:;
        }
        return false;
      resize():
        nOldCapacity = bucket_count();
        { scoped_resize_lock guard;
          if ( nOldCapacity != bucket_count()) return;
          m_MutexPolicy.resize( 2 * nOldCapacity ); pOldTable = m_BucketTable; allocate_bucket_tables( 2 * nOldCapacity );   [ m_nBucketMask.store ]
          for every item of every bucket of pOldTable[0], then pOldTable[1]:
              copy_hash( arrHash, item ); contains( arrPos, arrHash, item );       (result only asserted)
              for i in 0,1: { b = bucket( i, arrHash[i] ); if ( b.size() < m_nProbesetThreshold ) { b.insert_after( pos, item ); goto do_next; } }
              for i in 0,1: { b = bucket( i, arrHash[i] ); if ( b.size() < m_nProbesetSize ) { b.insert_after( pos, item ); copy_hash( arrHash, first of b ); relocate( i, arrHash ); break; } }
              do_next:;          (an item for which neither loop finds room is not re-inserted: property C17) }

    [a & (2^e - 1)] is written [a mod 2^e]: capacities are powers of two. *)
From Coq Require Import ZArith List String Bool Lia PeanoNat.
From LV Require Import Base.Conc Base.Events.
From LV Require Model.StripingPolicy.
Import ListNotations.
Local Open Scope nat_scope.
Local Open Scope string_scope.

Definition hfun := StripingPolicy.hfun.

Notation item := StripingPolicy.item.          (* key, owner thread of the node object *)
Definition key_of (x : item) : nat := fst x.
Definition lk := (nat * nat * nat)%type.       (* a reentrant lock: lock-array generation, table, cell *)

Record G := mkG {
  rspin : lk -> nat;               (* m_spin of a reentrant lock                                     *)
  rown : lk -> nat;                (* m_OwnerId, 0 = nobody                                          *)
  owner : nat;                     (* refinable: m_Owner, 0 or 2 * me + 1                            *)
  pcap : nat;                      (* refinable: m_nCapacity                                         *)
  access : bool;                   (* refinable: m_access.m_spin                                     *)
  cur : nat;                       (* generation of the current lock arrays (striping: always 0)     *)
  ngen : nat;                      (* next generation                                                *)
  gsize : nat -> nat;              (* size of the lock arrays of a generation                        *)
  mask : nat;                      (* m_nBucketMask                                                  *)
  count : nat;                     (* m_ItemCounter                                                  *)
  tabs : list (list (list item))   (* m_BucketTable[0..1]: probe sets                                *)
}.

Record V := mkV { vn : nat; vm : nat; vs : nat; vl : list item }.
Definition vnat (n : nat) : V := mkV n 0 0 [].
Definition prog := Conc.prog G V ev.
Definition action := G -> G * V * list ev.

Definition lk_eqb (a b : lk) : bool :=
  let '(g1, t1, i1) := a in let '(g2, t2, i2) := b in Nat.eqb g1 g2 && Nat.eqb t1 t2 && Nat.eqb i1 i2.
Definition updl {A} (f : lk -> A) (l : lk) (x : A) : lk -> A := fun l' => if lk_eqb l' l then x else f l'.
Definition upd1 {A} (f : nat -> A) (i : nat) (x : A) : nat -> A := fun j => if Nat.eqb j i then x else f j.

Definition set_rspin g f := mkG f (rown g) (owner g) (pcap g) (access g) (cur g) (ngen g) (gsize g) (mask g) (count g) (tabs g).
Definition set_rown g f := mkG (rspin g) f (owner g) (pcap g) (access g) (cur g) (ngen g) (gsize g) (mask g) (count g) (tabs g).
Definition set_owner g x := mkG (rspin g) (rown g) x (pcap g) (access g) (cur g) (ngen g) (gsize g) (mask g) (count g) (tabs g).
Definition set_access g x := mkG (rspin g) (rown g) (owner g) (pcap g) x (cur g) (ngen g) (gsize g) (mask g) (count g) (tabs g).
Definition set_install g n := mkG (rspin g) (rown g) (owner g) n (access g) (ngen g) (S (ngen g)) (upd1 (gsize g) (ngen g) n) (mask g) (count g) (tabs g).
Definition set_mask g x := mkG (rspin g) (rown g) (owner g) (pcap g) (access g) (cur g) (ngen g) (gsize g) x (count g) (tabs g).
Definition set_count g x := mkG (rspin g) (rown g) (owner g) (pcap g) (access g) (cur g) (ngen g) (gsize g) (mask g) x (tabs g).
Definition set_tabs g x := mkG (rspin g) (rown g) (owner g) (pcap g) (access g) (cur g) (ngen g) (gsize g) (mask g) (count g) x.

Definition zn (n : nat) : Z := Z.of_nat n.
Definition o_rspin (l : lk) : list Z := let '(g, t, i) := l in [4; zn g; zn t; zn i]%Z.
Definition o_rown (l : lk) : list Z := let '(g, t, i) := l in [5; zn g; zn t; zn i]%Z.
Definition o_owner : list Z := [1]%Z.
Definition o_access : list Z := [2]%Z.
Definition o_pcap : list Z := [3]%Z.
Definition o_mask : list Z := [6]%Z.
Definition o_count : list Z := [7]%Z.

Definition acc (k : akind) (o : list Z) : list ev := [EvAcc k o true].
Definition accb (k : akind) (o : list Z) (ok : bool) : list ev := [EvAcc k o ok].
Definition b2n (b : bool) : nat := if b then 1 else 0.

Definition bindo {A B} (p : prog (option A)) (q : A -> prog (option B)) : prog (option B) :=
  Conc.bind p (fun r => match r with Some a => q a | None => Ret None end).
Definition thenu {B} (p : prog unit) (q : prog B) : prog B := Conc.bind p (fun _ => q).
Definition oret {A} (a : A) : prog (option A) := Ret (Some a).

Definition a_begin : action := fun g => (g, vnat 0, [EvAcc KBegin [] true]).

(** ** reentrant spin lock.  [post] is the non-atomic work the caller performs right after the lock is
       taken (it runs in the step of the last access of the acquisition). *)
Definition post_t := G -> G.
Definition nopost : post_t := fun g => g.

Definition a_rown_ld (l : lk) : action := fun g => (g, vnat (rown g l), acc KLd (o_rown l)).
Definition a_rown_st (l : lk) (x : nat) (post : post_t) : action := fun g =>
  (post (set_rown g (updl (rown g) l x)), vnat 0, acc KSt (o_rown l)).
Definition a_rspin_ld (l : lk) : action := fun g => (g, vnat (rspin g l), acc KLd (o_rspin l)).
Definition a_rspin_st (l : lk) (x : nat) : action := fun g => (set_rspin g (updl (rspin g) l x), vnat 0, acc KSt (o_rspin l)).
Definition a_rspin_faa (l : lk) (post : post_t) : action := fun g =>
  (post (set_rspin g (updl (rspin g) l (S (rspin g l)))), vnat (rspin g l), acc KFaa (o_rspin l)).
Definition a_rspin_cas (l : lk) : action := fun g =>
  if Nat.eqb (rspin g l) 0 then (set_rspin g (updl (rspin g) l 1), vnat 1, accb KCas (o_rspin l) true)
  else (g, vnat 0, accb KCas (o_rspin l) false).

Fixpoint r_acq_outer (fuel : nat) (l : lk) : prog (option unit) :=
  match fuel with
  | O => Ret None
  | S f => Act (a_rspin_cas l) (fun v => if Nat.eqb (vn v) 1 then oret tt else r_acq_inner f l)
  end
with r_acq_inner (fuel : nat) (l : lk) : prog (option unit) :=
  match fuel with
  | O => Ret None
  | S f => Act (a_rspin_ld l) (fun v => if Nat.eqb (vn v) 0 then r_acq_outer f l else r_acq_inner f l)
  end.

Definition r_lock (fuel me : nat) (l : lk) (post : post_t) : prog (option unit) :=
  Act (a_rown_ld l) (fun v =>
    if Nat.eqb (vn v) me then Act (a_rspin_faa l post) (fun _ => oret tt)
    else bindo (r_acq_outer fuel l) (fun _ => Act (a_rown_st l me post) (fun _ => oret tt))).

Definition r_try_lock (me : nat) (l : lk) : prog bool :=
  Act (a_rown_ld l) (fun v =>
    if Nat.eqb (vn v) me then Act (a_rspin_faa l nopost) (fun _ => Ret true)
    else Act (a_rspin_cas l) (fun c =>
           if Nat.eqb (vn c) 1 then Act (a_rown_st l me nopost) (fun _ => Ret true) else Ret false)).

Definition r_unlock (l : lk) : prog unit :=
  Act (a_rspin_ld l) (fun v =>
    if Nat.ltb 1 (vn v) then Act (a_rspin_st l (vn v - 1)) (fun _ => Ret tt)
    else Act (a_rown_st l 0 nopost) (fun _ => Act (a_rspin_st l 0) (fun _ => Ret tt))).

Fixpoint lock_all (fuel me g0 n i : nat) : prog (option unit) :=
  match n with
  | O => oret tt
  | S n' => bindo (r_lock fuel me (g0, 0, i) nopost) (fun _ => lock_all fuel me g0 n' (S i))
  end.
Fixpoint unlock_all (g0 n i : nat) : prog unit :=
  match n with
  | O => Ret tt
  | S n' => thenu (r_unlock (g0, 0, i)) (unlock_all g0 n' (S i))
  end.

(** ** m_access (plain spin lock); the copy of the lock-array pointers happens in the step that takes it *)
Definition a_access_xchg : action := fun g =>
  (set_access g true, mkV (b2n (access g)) (cur g) (gsize g (cur g)) [], acc KXchg o_access).
Definition a_access_ld : action := fun g => (g, vnat (b2n (access g)), acc KLd o_access).
Definition a_access_st : action := fun g => (set_access g false, vnat 0, acc KSt o_access).

Fixpoint acc_lock_outer (fuel : nat) : prog (option (nat * nat)) :=
  match fuel with
  | O => Ret None
  | S f => Act a_access_xchg (fun v => if Nat.eqb (vn v) 0 then Ret (Some (vm v, vs v)) else acc_lock_inner f)
  end
with acc_lock_inner (fuel : nat) : prog (option (nat * nat)) :=
  match fuel with
  | O => Ret None
  | S f => Act a_access_ld (fun v => if Nat.eqb (vn v) 0 then acc_lock_outer f else acc_lock_inner f)
  end.

Definition a_pcap_ld : action := fun g => (g, mkV (pcap g) (cur g) 0 [], acc KLd o_pcap).
Definition a_pcap_st_install (n : nat) : action := fun g => (set_install g n, vnat 0, acc KSt o_pcap).
Definition a_owner_ld : action := fun g => (g, vnat (owner g), acc KLd o_owner).
Definition a_owner_st0 : action := fun g => (set_owner g 0, vnat 0, acc KSt o_owner).
Definition a_owner_cas (me : nat) : action := fun g =>
  if Nat.eqb (owner g) 0 then (set_owner g (2 * me + 1), vnat 1, accb KCas o_owner true)
  else (g, vnat 0, accb KCas o_owner false).
Definition free_or_mine (who me : nat) : bool := Nat.even who || Nat.eqb (Nat.div2 who) me.

Fixpoint wait_owner (fuel me : nat) : prog (option unit) :=
  match fuel with
  | O => Ret None
  | S f => Act a_owner_ld (fun v => if free_or_mine (vn v) me then oret tt else wait_owner f me)
  end.

(** ** the policies *)
Inductive policy := Striping | Refinable.
Definition cells := (lk * lk)%type.

Definition unlock2 (c : cells) : prog unit := thenu (r_unlock (fst c)) (r_unlock (snd c)).

Fixpoint rf_acquire (fuel me h0 h1 : nat) : prog (option cells) :=
  match fuel with
  | O => Ret None
  | S f =>
      bindo (acc_lock_outer fuel) (fun gs =>
      Act a_pcap_ld (fun vc =>
      Act a_access_st (fun _ =>
      bindo (wait_owner fuel me) (fun _ =>
      Act a_pcap_ld (fun vc2 =>
        if Nat.eqb (vn vc) (vn vc2) then
          let l0 := (fst gs, 0, h0 mod snd gs) in
          let l1 := (fst gs, 1, h1 mod snd gs) in
          bindo (r_lock fuel me l0 nopost) (fun _ =>
          bindo (r_lock fuel me l1 nopost) (fun _ =>
          Act a_owner_ld (fun vo =>
            if free_or_mine (vn vo) me then
              Act a_pcap_ld (fun vc3 =>
                if Nat.eqb (vn vc) (vn vc3) then oret (l0, l1)
                else thenu (unlock2 (l0, l1)) (rf_acquire f me h0 h1))
            else thenu (unlock2 (l0, l1)) (rf_acquire f me h0 h1))))
        else rf_acquire f me h0 h1)))))
  end.

Definition cell_lock (p : policy) (fuel nl me h0 h1 : nat) : prog (option cells) :=
  match p with
  | Striping =>
      let l0 := (0, 0, h0 mod nl) in let l1 := (0, 1, h1 mod nl) in
      bindo (r_lock fuel me l0 nopost) (fun _ => bindo (r_lock fuel me l1 nopost) (fun _ => oret (l0, l1)))
  | Refinable => rf_acquire fuel me h0 h1
  end.

(** scoped_cell_trylock; [post] runs right after the second lock was obtained *)
Definition cell_trylock (p : policy) (fuel nl me h0 h1 : nat) (post : post_t) : prog (option (option cells)) :=
  match p with
  | Striping =>
      let l0 := (0, 0, h0 mod nl) in let l1 := (0, 1, h1 mod nl) in
      Conc.bind (r_try_lock me l0) (fun ok =>
        if ok then bindo (r_lock fuel me l1 post) (fun _ => oret (Some (l0, l1))) else oret None)
  | Refinable =>
      Act a_pcap_ld (fun vc =>
        let l0 := (vm vc, 0, h0 mod (vn vc)) in let l1 := (vm vc, 1, h1 mod (vn vc)) in
        Conc.bind (r_try_lock me l0) (fun ok =>
          if ok then bindo (r_lock fuel me l1 post) (fun _ => oret (Some (l0, l1))) else oret None))
  end.

(** scoped_resize_lock: the generation and size of the array whose table-0 locks are all held *)
Fixpoint rf_acquire_resize (fuel me : nat) : prog (option (nat * nat)) :=
  match fuel with
  | O => Ret None
  | S f =>
      bindo (acc_lock_outer fuel) (fun gs =>
      Act a_pcap_ld (fun vc =>
      Act a_access_st (fun _ =>
      Act (a_owner_cas me) (fun v =>
        if Nat.eqb (vn v) 1 then
          Act a_pcap_ld (fun vc2 =>
            if Nat.eqb (vn vc) (vn vc2) then bindo (lock_all fuel me (fst gs) (snd gs) 0) (fun _ => oret gs)
            else Act a_owner_st0 (fun _ => rf_acquire_resize f me))
        else rf_acquire_resize f me))))
  end.

Definition resize_lock (p : policy) (fuel nl me : nat) : prog (option (nat * nat)) :=
  match p with
  | Striping => bindo (lock_all fuel me 0 nl 0) (fun _ => oret (0, nl))
  | Refinable => rf_acquire_resize fuel me
  end.
Definition resize_unlock (p : policy) (gs : nat * nat) : prog unit :=
  match p with
  | Striping => unlock_all (fst gs) (snd gs) 0
  | Refinable => Act a_owner_st0 (fun _ => unlock_all (fst gs) (snd gs) 0)
  end.
Definition policy_resize (p : policy) (fuel n : nat) : prog (option unit) :=
  match p with
  | Striping => oret tt
  | Refinable => bindo (acc_lock_outer fuel) (fun _ => Act (a_pcap_st_install n) (fun _ => Act a_access_st (fun _ => oret tt)))
  end.

(** ** the tables *)
Fixpoint set_nth {A} (l : list A) (n : nat) (x : A) : list A :=
  match l, n with
  | [], _ => []
  | _ :: r, O => x :: r
  | y :: r, S n' => y :: set_nth r n' x
  end.
Definition get_bkt (ts : list (list (list item))) (tb b : nat) : list item := nth b (nth tb ts []) [].
Definition set_bkt (ts : list (list (list item))) (tb b : nat) (nb : list item) : list (list (list item)) :=
  set_nth ts tb (set_nth (nth tb ts []) b nb).

Definition bkt_has (k : nat) (b : list item) : bool := existsb (fun x => Nat.eqb (key_of x) k) b.
Definition bkt_get (k : nat) (b : list item) : option item := find (fun x => Nat.eqb (key_of x) k) b.
Definition bkt_del (k : nat) (b : list item) : list item := filter (fun x => negb (Nat.eqb (key_of x) k)) b.
(** insert_after( position found by contains_action::find ): ordered probe sets keep the keys sorted,
    unordered ones append *)
Fixpoint ins_sorted (x : item) (b : list item) : list item :=
  match b with
  | [] => [x]
  | y :: r => if Nat.ltb (key_of y) (key_of x) then y :: ins_sorted x r else x :: b
  end.
Definition ins_item (ord : bool) (x : item) (b : list item) : list item := if ord then ins_sorted x b else b ++ [x].

(** static configuration *)
Record conf := mkConf {
  c_pol : policy; c_ord : bool; c_nl : nat; c_ps : nat; c_th : nat; c_h1 : nat; c_h2 : nat; c_fuel : nat
}.
Definition hashes (cf : conf) (k : nat) : nat * nat := (hfun (c_h1 cf) k, hfun (c_h2 cf) k).
Definition hsel (hh : nat * nat) (tb : nat) : nat := match tb with 0 => fst hh | _ => snd hh end.

(** every action below is one [m_nBucketMask.load()] (inside [bucket( tb, h )]) plus the probe-set work that
    follows it *)
Definition bidx (g : G) (h : nat) : nat := h mod S (mask g).

(** contains_action::find in table [tb]: vn = found, vm = owner of the item found *)
Definition a_probe (tb h k : nat) : action := fun g =>
  match bkt_get k (get_bkt (tabs g) tb (bidx g h)) with
  | Some x => (g, mkV 1 (snd x) 0 [], acc KLd o_mask)
  | None => (g, vnat 0, acc KLd o_mask)
  end.

(** placement: if the probe set of [x] in table [tb] holds fewer than [limit] items, insert there.
    vn = inserted, vl = [first item of the probe set] (for copy_hash) *)
Definition a_place (ord : bool) (tb h : nat) (x : item) (limit : nat) : action := fun g =>
  let b := bidx g h in
  let old := get_bkt (tabs g) tb b in
  if Nat.ltb (List.length old) limit then
    let nb := ins_item ord x old in
    (set_tabs g (set_bkt (tabs g) tb b nb), mkV 1 0 0 (firstn 1 nb), acc KLd o_mask)
  else (g, vnat 0, acc KLd o_mask).

(** bucket( nTable, arrHash[nTable] ).remove( position of key k ) *)
Definition a_remove (tb h k : nat) : action := fun g =>
  let b := bidx g h in
  (set_tabs g (set_bkt (tabs g) tb b (bkt_del k (get_bkt (tabs g) tb b))), vnat 0, acc KLd o_mask).

Definition a_count_faa : action := fun g => (set_count g (S (count g)), vnat (count g), acc KFaa o_count).
Definition a_count_fas : action := fun g => (set_count g (count g - 1), vnat (count g), acc KFas o_count).
Definition a_mask_ld : action := fun g => (g, vnat (mask g), acc KLd o_mask).
Definition a_mask_st_alloc (n : nat) : action := fun g =>
  (set_tabs (set_mask g (n - 1)) [repeat [] n; repeat [] n], mkV 0 0 0 (List.concat (List.concat (tabs g))), acc KSt o_mask).

(** relocate: look at the goal probe set. vn = 1: below the threshold; else vl = [victim], vm = bucket index *)
Definition a_reloc_look (tb h th : nat) : action := fun g =>
  let b := bidx g h in
  let old := get_bkt (tabs g) tb b in
  if Nat.ltb (List.length old) th then (g, mkV 1 b 0 [], acc KLd o_mask)
  else (g, mkV 0 b 0 (firstn 1 old), acc KLd o_mask).
(** refBucket.remove( first ) — refBucket is the reference computed by [a_reloc_look] *)
Definition rm_first (tb b : nat) : post_t := fun g =>
  set_tabs g (set_bkt (tabs g) tb b (tl (get_bkt (tabs g) tb b))).
(** last attempt of a round: insert into the partial probe set, or put the victim back at the head of refBucket *)
Definition a_reloc_partial (ord : bool) (tb h : nat) (x : item) (ps rtb rb : nat) : action := fun g =>
  let b := bidx g h in
  let old := get_bkt (tabs g) tb b in
  if Nat.ltb (List.length old) ps then
    (set_tabs g (set_bkt (tabs g) tb b (ins_item ord x old)), vnat 1, acc KLd o_mask)
  else (set_tabs g (set_bkt (tabs g) rtb rb (x :: get_bkt (tabs g) rtb rb)), vnat 0, acc KLd o_mask).

Definition other (tb : nat) : nat := match tb with 0 => 1 | _ => 0 end.

(** one attempt of the inner [while ( true )] of relocate; result: 0 = return true, 1 = next round with
    the new goal, 2 = return false, 3 = try-lock failed (same round again) *)
Definition reloc_attempt (cf : conf) (me tb : nat) (goal : nat * nat) : prog (option (nat * (nat * (nat * nat)))) :=
  bindo (cell_lock (c_pol cf) (c_fuel cf) (c_nl cf) me (fst goal) (snd goal)) (fun cl =>
    Act (a_reloc_look tb (hsel goal tb) (c_th cf)) (fun v =>
      if Nat.eqb (vn v) 1 then thenu (unlock2 cl) (oret (0, (tb, goal)))
      else
        match vl v with
        | [] => thenu (unlock2 cl) (oret (0, (tb, goal)))       (* threshold 0: cannot happen, th >= 1 *)
        | x :: _ =>
            let vh := hashes cf (key_of x) in
            bindo (cell_trylock (c_pol cf) (c_fuel cf) (c_nl cf) me (fst vh) (snd vh) (rm_first tb (vm v))) (fun cl2 =>
              match cl2 with
              | None => thenu (unlock2 cl) (oret (3, (tb, goal)))
              | Some c2 =>
                  let o := other tb in
                  Act (a_place (c_ord cf) o (hsel vh o) x (c_th cf)) (fun v1 =>
                    if Nat.eqb (vn v1) 1 then thenu (unlock2 c2) (thenu (unlock2 cl) (oret (0, (tb, goal))))
                    else
                      Act (a_reloc_partial (c_ord cf) o (hsel vh o) x (c_ps cf) tb (vm v)) (fun v2 =>
                        thenu (unlock2 c2) (thenu (unlock2 cl)
                          (if Nat.eqb (vn v2) 1 then oret (1, (o, vh)) else oret (2, (tb, goal))))))
              end)
        end)).

Fixpoint reloc_round (cf : conf) (fuel me tb : nat) (goal : nat * nat) : prog (option (nat * (nat * (nat * nat)))) :=
  match fuel with
  | O => Ret None
  | S f => bindo (reloc_attempt cf me tb goal) (fun r => if Nat.eqb (fst r) 3 then reloc_round cf f me tb goal else oret r)
  end.

Fixpoint relocate (cf : conf) (rounds me tb : nat) (goal : nat * nat) : prog (option bool) :=
  match rounds with
  | O => oret false
  | S r =>
      bindo (reloc_round cf (c_fuel cf) me tb goal) (fun res =>
        match fst res with
        | 0 => oret true
        | 1 => relocate cf r me (fst (snd res)) (snd (snd res))
        | _ => oret false
        end)
  end.
Definition relocate_limit : nat := 3.        (* c_nRelocateLimit = c_nArity * 2 - 1 *)

(** re-insertion of one item of the old tables *)
Definition reinsert (cf : conf) (me : nat) (x : item) : prog (option unit) :=
  let hh := hashes cf (key_of x) in
  let place2 : prog (option unit) :=
    Act (a_place (c_ord cf) 0 (fst hh) x (c_ps cf)) (fun w0 =>
      if Nat.eqb (vn w0) 1 then
        bindo (relocate cf relocate_limit me 0 (hashes cf (match vl w0 with y :: _ => key_of y | [] => key_of x end))) (fun _ => oret tt)
      else
        Act (a_place (c_ord cf) 1 (snd hh) x (c_ps cf)) (fun w1 =>
          if Nat.eqb (vn w1) 1 then
            bindo (relocate cf relocate_limit me 1 (hashes cf (match vl w1 with y :: _ => key_of y | [] => key_of x end))) (fun _ => oret tt)
          else
            (* neither loop found room: the item is not re-inserted (the sequential defect of property C17).
               The marker is a ghost event of the model only (the harness cannot emit it): the check removes it
               before comparing the logs, the theorems are stated for traces without it. *)
            Emit [EvCli "dropped" [Z.of_nat (key_of x)]] (oret tt))) in
  let place1 : prog (option unit) :=
    Act (a_place (c_ord cf) 0 (fst hh) x (c_th cf)) (fun v0 =>
      if Nat.eqb (vn v0) 1 then oret tt
      else Act (a_place (c_ord cf) 1 (snd hh) x (c_th cf)) (fun v1 => if Nat.eqb (vn v1) 1 then oret tt else place2)) in
  Act (a_probe 0 (fst hh) (key_of x)) (fun p0 =>
    if Nat.eqb (vn p0) 1 then place1 else Act (a_probe 1 (snd hh) (key_of x)) (fun _ => place1)).

Fixpoint reinsert_all (cf : conf) (me : nat) (xs : list item) : prog (option unit) :=
  match xs with
  | [] => oret tt
  | x :: r => bindo (reinsert cf me x) (fun _ => reinsert_all cf me r)
  end.

Definition resize (cf : conf) (me : nat) : prog (option unit) :=
  Act a_mask_ld (fun v0 =>
    let nold := S (vn v0) in
    bindo (resize_lock (c_pol cf) (c_fuel cf) (c_nl cf) me) (fun gs =>
      Act a_mask_ld (fun v1 =>
        if Nat.eqb (S (vn v1)) nold then
          bindo (policy_resize (c_pol cf) (c_fuel cf) (2 * nold)) (fun _ =>
            Act (a_mask_st_alloc (2 * nold)) (fun v =>
              bindo (reinsert_all cf me (vl v)) (fun _ => thenu (resize_unlock (c_pol cf) gs) (oret tt))))
        else thenu (resize_unlock (c_pol cf) gs) (oret tt)))).

(** ** client operations *)
Definition zl (l : list nat) : list Z := map Z.of_nat l.

Inductive cop := CInsert | CUpdate (allow : bool) | CUnlink | CErase | CFind.
Definition op_of_code (c b : nat) : option cop :=
  match c with
  | 1 | 2 | 9 | 14 => Some CInsert
  | 3 => Some (CUpdate (negb (Nat.eqb b 0)))
  | 4 => Some CUnlink
  | 5 | 6 | 10 | 13 => Some CErase
  | 7 | 8 | 11 | 12 => Some CFind
  | _ => None
  end.
Definition r2_of_code (c k r1 r2 : nat) : nat :=
  match c with
  | 2 | 6 | 13 => r1
  | 3 => r2
  | 7 | 11 => if Nat.eqb r1 0 then 0 else k
  | _ => 0
  end.

(** contains(): vn = 2 not found, else the table; vm = owner of the item found *)
Definition contains (hh : nat * nat) (k : nat) (cont : nat -> nat -> prog (option (nat * nat))) : prog (option (nat * nat)) :=
  Act (a_probe 0 (fst hh) k) (fun p0 =>
    if Nat.eqb (vn p0) 1 then cont 0 (vm p0)
    else Act (a_probe 1 (snd hh) k) (fun p1 => if Nat.eqb (vn p1) 1 then cont 1 (vm p1) else cont 2 0)).

(** insert / update(.., allow = true) after the key was not found, inside the critical section [cl].
    Result: (r1, r2) *)
Fixpoint do_insert (cf : conf) (fuel me : nat) (upd : option bool) (x : item) : prog (option (nat * nat)) :=
  match fuel with
  | O => Ret None
  | S f =>
      let hh := hashes cf (key_of x) in
      bindo (cell_lock (c_pol cf) (c_fuel cf) (c_nl cf) me (fst hh) (snd hh)) (fun cl =>
        contains hh (key_of x) (fun tb _ =>
          if Nat.ltb tb 2 then
            thenu (unlock2 cl) (oret (match upd with None => (0, 0) | Some _ => (1, 0) end))
          else
            match upd with
            | Some false => thenu (unlock2 cl) (oret (0, 0))
            | _ =>
                let done : prog (option (nat * nat)) :=
                  Act a_count_faa (fun _ => thenu (unlock2 cl) (oret (1, match upd with None => 0 | Some _ => 1 end))) in
                let reloc (tb : nat) (first : list item) : prog (option (nat * nat)) :=
                  Act a_count_faa (fun _ => thenu (unlock2 cl)
                    (bindo (relocate cf relocate_limit me tb (hashes cf (match first with y :: _ => key_of y | [] => key_of x end))) (fun ok =>
                       if ok then oret (1, match upd with None => 0 | Some _ => 1 end)
                       else bindo (resize cf me) (fun _ => oret (1, match upd with None => 0 | Some _ => 1 end))))) in
                Act (a_place (c_ord cf) 0 (fst hh) x (c_th cf)) (fun v0 =>
                  if Nat.eqb (vn v0) 1 then done else
                  Act (a_place (c_ord cf) 1 (snd hh) x (c_th cf)) (fun v1 =>
                    if Nat.eqb (vn v1) 1 then done else
                    Act (a_place (c_ord cf) 0 (fst hh) x (c_ps cf)) (fun w0 =>
                      if Nat.eqb (vn w0) 1 then reloc 0 (vl w0) else
                      Act (a_place (c_ord cf) 1 (snd hh) x (c_ps cf)) (fun w1 =>
                        if Nat.eqb (vn w1) 1 then reloc 1 (vl w1) else
                        thenu (unlock2 cl) (bindo (resize cf me) (fun _ => do_insert cf f me upd x))))))
            end))
  end.

Definition run_op (cf : conf) (t : nat) (o : list nat) : prog (option unit) :=
  let c := nth 0 o 0 in let k := nth 1 o 0 in let a := nth 2 o 0 in let b := nth 3 o 0 in
  let me := S t in
  let hh := hashes cf k in
  let fin (r : nat * nat) : prog (option unit) := Emit [EvCli "ret" (zl [c; fst r; r2_of_code c k (fst r) (snd r)])] (oret tt) in
  match op_of_code c b with
  | None => oret tt
  | Some co =>
      Emit [EvCli "inv" (zl [c; k; a; b])]
      (match co with
       | CInsert => bindo (do_insert cf (c_fuel cf) me None (k, t)) fin
       | CUpdate allow => bindo (do_insert cf (c_fuel cf) me (Some allow) (k, t)) fin
       | CUnlink | CErase =>
           bindo (cell_lock (c_pol cf) (c_fuel cf) (c_nl cf) me (fst hh) (snd hh)) (fun cl =>
             bindo (contains hh k (fun tb own =>
               let mine := match co with CUnlink => Nat.eqb own t | _ => true end in
               if Nat.ltb tb 2 && mine then
                 Act (a_remove tb (hsel hh tb) k) (fun _ => Act a_count_fas (fun _ => thenu (unlock2 cl) (oret (1, 0))))
               else thenu (unlock2 cl) (oret (0, 0)))) fin)
       | CFind =>
           bindo (cell_lock (c_pol cf) (c_fuel cf) (c_nl cf) me (fst hh) (snd hh)) (fun cl =>
             bindo (contains hh k (fun tb _ => thenu (unlock2 cl) (oret (b2n (Nat.ltb tb 2), 0)))) fin)
       end)
  end.

Fixpoint run_ops (cf : conf) (t : nat) (os : list (list nat)) : prog unit :=
  match os with
  | [] => Ret tt
  | o :: r => Conc.bind (run_op cf t o) (fun x => match x with Some _ => run_ops cf t r | None => Emit [EvCli "outoffuel" []] (Ret tt) end)
  end.

Definition thread_prog (cf : conf) (t : nat) (os : list (list nat)) : Conc.thread G V ev :=
  Act a_begin (fun _ => run_ops cf t os).

Definition init (cf : conf) : G :=
  mkG (fun _ => 0) (fun _ => 0) 0 (c_nl cf) false 0 1 (fun _ => c_nl cf) (c_nl cf - 1) 0 [repeat [] (c_nl cf); repeat [] (c_nl cf)].

Fixpoint mapi {A B} (f : nat -> A -> B) (i : nat) (l : list A) : list B :=
  match l with [] => [] | x :: r => f i x :: mapi f (S i) r end.

Definition init_cfg (cf : conf) (ths : list (list (list nat))) : Conc.config G V ev :=
  Conc.Cfg (init cf) (mapi (thread_prog cf) 0 ths) [].

(** cfg = [variant; initial capacity (2 or 4); probe-set size; threshold (0 = size - 1); h1 mode; h2 mode; nkeys; loop fuel]
    variant (intrusive numbering): bit 0 ordered, bit 1 refinable, >= 64 ordered through opt::compare *)
Definition conf_of (cfg : list Z) : conf :=
  let v := Z.to_nat (nth 0 cfg 0%Z) in
  let cap := Z.to_nat (nth 1 cfg 2%Z) in
  let ps := Z.to_nat (nth 2 cfg 2%Z) in
  let th := Z.to_nat (nth 3 cfg 0%Z) in
  mkConf (if Nat.eqb ((v / 2) mod 2) 0 then Striping else Refinable)
         (Nat.eqb (v mod 2) 1 || Nat.leb 64 v)
         (if Nat.leb cap 2 then 2 else 4) ps (if Nat.eqb th 0 then ps - 1 else th)
         (Z.to_nat (nth 4 cfg 0%Z)) (Z.to_nat (nth 5 cfg 1%Z)) (Z.to_nat (nth 7 cfg 1000%Z)).

Definition run_case (cfg : list Z) (ths : list (list (list Z))) (sched : list nat) (fuel : nat)
  : list (nat * ev) * bool :=
  let cf := conf_of cfg in
  let r := Conc.run fuel 0 sched (init_cfg cf (map (map (map Z.to_nat)) ths)) in
  (Conc.trace (fst r), snd r).
