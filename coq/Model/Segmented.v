(** * Model of cds::intrusive::SegmentedQueue<cds::gc::HP, T, traits>, one atomic access of the C++ code per [Act].

    Traits used by harness/C08/main.cpp (variant 0): lock_type = cds::sync::spin (spin_lock<backoff::LockDefault>;
    under the hook every back-off is a no-op), item_counter = atomicity::item_counter (an atomic: modelled),
    stat = empty_stat (no atomics), padding = none, permutation_generator = random2_permutation<int> whose
    reset() takes the start value from the case instead of std::rand().

    C++ (current tree), cds/intrusive/segmented_queue.h:

      SegmentedQueue( size_t nQuasiFactor ) : m_SegmentList( cds::beans::ceil2(nQuasiFactor), m_Stat ) {}
                                               // cds/algo/int_algo.h: ceil2(n) = size_t(1) << log2ceil(n)   [ceil2]

      segment( size_t nCellCount ) : cells(...), version( 0 ) { init( nCellCount ); }
      void init( size_t n ) { for ( pCell = cells; pCell < cells + n; ++pCell )
                                  pCell->data.store( regular_cell(), relaxed );           // [a_init_cell] x k
                              atomic_thread_fence( release ); }                           // (no scheduling point)
         (version is never modified: get_version(p) != m_List.back().version is always false; these are plain reads)

      segment * head( Guard& guard ) { return guard.protect( m_pHead ); }                  // [protect a_ld_head]
      segment * tail( Guard& guard ) { return guard.protect( m_pTail ); }                  // [protect a_ld_tail]

      segment * create_tail( segment * pTail, Guard& guard ) {
          scoped_lock l( m_Lock );                                   // spin_lock::lock()   [lock_outer/lock_inner]
          if ( !m_List.empty() && ( pTail != &m_List.back() || get_version(pTail) != m_List.back().version )) {
              m_pTail.store( &m_List.back(), relaxed );                                    // [a_st_tail]
              return guard.assign( &m_List.back());                  // slot store + sync   [a_st_hp; a_faa_sync]
          }                                                          // ~scoped_lock        [a_unlock]
          segment * pNew = allocate_segment();                       // new segment: k cell stores (above)
          if ( m_List.empty())
              m_pHead.store( pNew, release );                                              // [a_st_head]
          m_List.push_back( *pNew );                                 // plain, under the lock: done by the next Act
          m_pTail.store( pNew, release );                                                  // [a_push_st_tail]
          return guard.assign( pNew );                               //                     [a_st_hp; a_faa_sync]
      }                                                              // ~scoped_lock        [a_unlock]

      segment * remove_head( segment * pHead, Guard& guard ) {
          segment * pRet;
          {   scoped_lock l( m_Lock );
              if ( m_List.empty()) {
                  m_pTail.store( nullptr, relaxed );                                       // [a_st_tail None]
                  m_pHead.store( nullptr, relaxed );                                       // [a_st_head None]
                  return guard.assign( nullptr );                    // assign(nullptr_t): clear(), no sync  [a_st_hp]
              }
              if ( pHead != &m_List.front() || get_version(pHead) != m_List.front().version ) {
                  m_pHead.store( &m_List.front(), relaxed );                               // [a_st_head]
                  return guard.assign( &m_List.front());                                   // [a_st_hp; a_faa_sync]
              }
              m_List.pop_front();                                    // plain, under the lock: done by the next Act
              if ( m_List.empty()) {
                  pRet = guard.assign( nullptr );                                          // [a_pop_st_hp HNull]
                  m_pTail.store( nullptr, relaxed );                                       // [a_st_tail None]
              }
              else
                  pRet = guard.assign( &m_List.front());                                   // [a_pop_st_hp; a_faa_sync]
              m_pHead.store( pRet, release );                                              // [a_st_head]
          }                                                                                // [a_unlock]
          retire_segment( pHead );      // gc::retire: retired_.push(): current_.load(); *cur = p; current_.store(cur+1)
          return pRet;                  //                                                   [a_ld_ret; a_st_ret]
      }                                 // (the harness gives cds::gc::HP a retired capacity never reached in a case:
                                        //  scan() does not run, no segment is freed while a case runs)

      bool enqueue( value_type& val ) {
          typename gc::Guard segmentGuard;                           // thread-local slot allocation: slot 0, no atomic
          segment * pTailSegment = m_SegmentList.tail( segmentGuard );
          if ( !pTailSegment )
              pTailSegment = m_SegmentList.create_tail( pTailSegment, segmentGuard );
          permutation_generator gen( quasi_factor());                // round 0 of the probing order
          ++m_ItemCounter;                                                                 // [a_faa_cnt]
          while ( true ) {
              do {
                  i = gen;
                  if ( pTailSegment->cells[i].data.load( relaxed ).all()) {}               // [a_ld_cell]
                  else {
                      regular_cell nullCell;
                      if ( pTailSegment->cells[i].data.compare_exchange_strong( nullCell, regular_cell( &val ), release, relaxed ))
                          return true;                                                     // [a_cas_cell]; ~Guard [a_st_hp HNull]
                  }
              } while ( gen.next());
              pTailSegment = m_SegmentList.create_tail( pTailSegment, segmentGuard );
              gen.reset();                                           // next round of the probing order
          }
      }

      value_type * dequeue() {
          typename gc::Guard itemGuard;                              // slot 0
          if ( do_dequeue( itemGuard ))
              return itemGuard.template get<value_type>();           // slot load           [a_ld_hp]; ~Guard [a_st_hp HNull]
          return nullptr;                                            //                     ~Guard [a_st_hp HNull]
      }
      bool do_dequeue( Guard& itemGuard ) {
          typename gc::Guard segmentGuard;                           // slot 1
          segment * pHeadSegment = m_SegmentList.head( segmentGuard );
          permutation_generator gen( quasi_factor());
          while ( true ) {
              if ( !pHeadSegment ) return false;                     // ~segmentGuard       [a_st_hp HNull]
              bool bHadNullValue = false;
              regular_cell item;
              do {
                  i = gen;
                  item = pHeadSegment->cells[i].data.load( relaxed );                      // [a_ld_cell]
                  itemGuard.assign( item.ptr());                                           // [a_st_hp; a_faa_sync]
                  if ( !item.ptr()) bHadNullValue = true;
                  else if ( !item.bits()) {
                      if ( pHeadSegment->cells[i].data.compare_exchange_strong( item, item | 1, acquire, relaxed )) {   // [a_cas_cell]
                          --m_ItemCounter;                                                 // [a_fas_cnt]
                          return true;                               // ~segmentGuard       [a_st_hp HNull]
                      }
                  }
              } while ( gen.next());
              if ( bHadNullValue ) return false;                     // ~segmentGuard
              pHeadSegment = m_SegmentList.remove_head( pHeadSegment, segmentGuard );
              gen.reset();
          }
      }

    cds/gc/hp.h, Guard::protect( toGuard ):  pCur = toGuard.load(); do { pRet = pCur; assign( pCur ); pCur = toGuard.load(); }
    while ( pRet != pCur );  assign( T* p ) = slot store + tls()->sync() (a fetch_add on the thread's sync_ word).
    cds/sync/spinlock.h: lock(): while ( !try_lock()) { while ( m_spin.load()) backoff(); }   try_lock(): !m_spin.exchange(true)

    Memory.  Segments are numbered by creation (a never-reusing allocator, [nalloc] = number of segments created so
    far); cells of a segment not yet created are null.  This builds in the memory-safety hypothesis [smr_safe] of
    DESIGN 4: no segment is recycled while a thread that validated a guard on it can still reach it (with the real
    allocator an address could come back as the new front of the list while a stalled dequeuer still holds the old
    pointer and, the version tag being constant, pass the test in remove_head; the HP guard is what excludes it).
    Items are identified by (enqueuing thread, index of the enqueue among that thread's operations) and carry their
    value; the harness allocates one item per enqueue and frees none during a case.

    [m_List] is a plain (non-atomic) object only touched under [m_Lock]; the thread that acquires the lock gets a
    snapshot of it (and of the allocator state) with the successful exchange, and its own push_back / pop_front
    are performed by the atomic access that follows them in program order.

    Probing order.  Each operation carries [ord : nat -> list nat]: [ord r] is the list of cell indices produced by
    the permutation generator in round [r] (r-th construction/reset of the generator inside the operation).  The
    harness' generator yields [rot k s_r] for start values s_0 s_1 ... taken from the case; the theorems hold for
    every generator whose rounds enumerate exactly the indices below k ([perm_ok]).

    Client operations (what harness/C08/main.cpp executes on the real queue), thread t, k-th operation of the thread:
      [1; v; s0; s1; ...]  enq v   "inv_enq v t k";  enqueue(item{v,t,k});  "ret_enq v t k"
      [2; s0; s1; ...]     deq     "inv_deq t k";    p = dequeue();  "ret_deq t k 1 v t' k'" (p = item{v,t',k'})
                                                                     "ret_deq t k 0"        (p = nullptr)            *)
From Coq Require Import ZArith List String Bool Lia PeanoNat.
From LV Require Import Base.Conc Base.Events.
Import ListNotations.
Local Open Scope Z_scope.
Local Open Scope string_scope.

(** quasi factor actually used: cds::beans::ceil2 = 1 << log2ceil(n)   (ceil2 0 = ceil2 1 = 1) *)
Definition ceil2 (n : nat) : nat := Nat.pow 2 (Nat.log2_up n).

Definition item := (nat * nat * Z)%type.          (* enqueuing thread, operation index, value *)
Definition item_eqb (a b : item) : bool :=
  let '(t1, k1, v1) := a in let '(t2, k2, v2) := b in Nat.eqb t1 t2 && Nat.eqb k1 k2 && Z.eqb v1 v2.
Definition cell := (option item * bool)%type.     (* marked_ptr<value_type,1>: pointer, deleted mark *)
Definition optitem_eqb (a b : option item) : bool :=
  match a, b with None, None => true | Some x, Some y => item_eqb x y | _, _ => false end.
Definition cell_eqb (a b : cell) : bool := optitem_eqb (fst a) (fst b) && Bool.eqb (snd a) (snd b).
Definition null_cell : cell := (None, false).
Definition optnat_eqb (a b : option nat) : bool :=
  match a, b with None, None => true | Some x, Some y => Nat.eqb x y | _, _ => false end.

(** what a hazard slot holds *)
Inductive hptr := HNull | HSeg (s : nat) | HItem (x : item).
Definition hseg (p : option nat) : hptr := match p with None => HNull | Some s => HSeg s end.
Definition hitem (p : option item) : hptr := match p with None => HNull | Some x => HItem x end.

(** shared state *)
Record G := mkG {
  tailp : option nat;             (* m_pTail *)
  headp : option nat;             (* m_pHead *)
  slist : list nat;               (* m_List (plain, under m_Lock) *)
  nalloc : nat;                   (* number of segments created so far *)
  lockw : bool;                   (* m_Lock.m_spin *)
  cells : nat -> nat -> cell;     (* cells of each segment *)
  counter : Z;                    (* m_ItemCounter *)
  hp : nat -> nat -> hptr;        (* hazard slots: thread, slot *)
  retired : nat -> list nat       (* per-thread retired array (segments) *)
}.

Inductive V :=
| VU
| VS (p : option nat)                              (* a segment pointer *)
| VC (c : cell)                                    (* a cell value *)
| VB (ok : bool) (c : cell)                        (* CAS on a cell: success, value found *)
| VH (h : hptr)
| VL (old : bool) (l : list nat) (n : nat).        (* lock word read; on acquisition: snapshot of m_List, allocator *)

Definition prog := Conc.prog G V ev.
Definition act := G -> G * V * list ev.

Definition set_tail (g : G) (p : option nat) : G :=
  mkG p (headp g) (slist g) (nalloc g) (lockw g) (cells g) (counter g) (hp g) (retired g).
Definition set_head (g : G) (p : option nat) : G :=
  mkG (tailp g) p (slist g) (nalloc g) (lockw g) (cells g) (counter g) (hp g) (retired g).
Definition set_list (g : G) (l : list nat) (n : nat) : G :=
  mkG (tailp g) (headp g) l n (lockw g) (cells g) (counter g) (hp g) (retired g).
Definition set_lock (g : G) (b : bool) : G :=
  mkG (tailp g) (headp g) (slist g) (nalloc g) b (cells g) (counter g) (hp g) (retired g).
Definition set_cell (g : G) (s i : nat) (c : cell) : G :=
  mkG (tailp g) (headp g) (slist g) (nalloc g) (lockw g)
      (fun s' i' => if Nat.eqb s' s && Nat.eqb i' i then c else cells g s' i') (counter g) (hp g) (retired g).
Definition set_counter (g : G) (z : Z) : G :=
  mkG (tailp g) (headp g) (slist g) (nalloc g) (lockw g) (cells g) z (hp g) (retired g).
Definition set_hp (g : G) (t j : nat) (h : hptr) : G :=
  mkG (tailp g) (headp g) (slist g) (nalloc g) (lockw g) (cells g) (counter g)
      (fun t' j' => if Nat.eqb t' t && Nat.eqb j' j then h else hp g t' j') (retired g).
Definition add_retired (g : G) (t s : nat) : G :=
  mkG (tailp g) (headp g) (slist g) (nalloc g) (lockw g) (cells g) (counter g) (hp g)
      (fun t' => if Nat.eqb t' t then s :: retired g t' else retired g t').

Definition zn (n : nat) : Z := Z.of_nat n.
Definition obj_tail : list Z := [0].
Definition obj_head : list Z := [1].
Definition obj_lock : list Z := [2].
Definition obj_cnt : list Z := [3].
Definition obj_cell (s i : nat) : list Z := [4; zn s; zn i].
Definition obj_hp (t j : nat) : list Z := [5; zn t; zn j].
Definition obj_sync (t : nat) : list Z := [6; zn t].
Definition obj_ret (t : nat) : list Z := [7; zn t].

Definition a_begin : act := fun g => (g, VU, [EvAcc KBegin [] true]).
Definition a_ld_tail : act := fun g => (g, VS (tailp g), [EvAcc KLd obj_tail true]).
Definition a_ld_head : act := fun g => (g, VS (headp g), [EvAcc KLd obj_head true]).
Definition a_st_tail (p : option nat) : act := fun g => (set_tail g p, VU, [EvAcc KSt obj_tail true]).
Definition a_st_head (p : option nat) : act := fun g => (set_head g p, VU, [EvAcc KSt obj_head true]).
(** m_List.push_back( *pNew ) (the segment becomes part of the structure: allocator counter), then m_pTail.store( pNew ) *)
Definition a_push_st_tail (s : nat) : act :=
  fun g => (set_tail (set_list g (slist g ++ [s]) (S s)) (Some s), VU, [EvAcc KSt obj_tail true]).
Definition a_st_hp (t j : nat) (h : hptr) : act := fun g => (set_hp g t j h, VU, [EvAcc KSt (obj_hp t j) true]).
(** m_List.pop_front(), then the slot store of guard.assign *)
Definition a_pop_st_hp (t j : nat) (h : hptr) : act :=
  fun g => (set_hp (set_list g (tl (slist g)) (nalloc g)) t j h, VU, [EvAcc KSt (obj_hp t j) true]).
Definition a_ld_hp (t j : nat) : act := fun g => (g, VH (hp g t j), [EvAcc KLd (obj_hp t j) true]).
Definition a_faa_sync (t : nat) : act := fun g => (g, VU, [EvAcc KFaa (obj_sync t) true]).
Definition a_lock_xchg : act :=
  fun g => (set_lock g true, VL (lockw g) (slist g) (nalloc g), [EvAcc KXchg obj_lock true]).
Definition a_lock_ld : act := fun g => (g, VL (lockw g) [] 0, [EvAcc KLd obj_lock true]).
Definition a_unlock : act := fun g => (set_lock g false, VU, [EvAcc KSt obj_lock true]).
Definition a_init_cell (s i : nat) : act :=
  fun g => (set_cell g s i null_cell, VU, [EvAcc KSt (obj_cell s i) true]).
Definition a_faa_cnt : act := fun g => (set_counter g (counter g + 1), VU, [EvAcc KFaa obj_cnt true]).
Definition a_fas_cnt : act := fun g => (set_counter g (counter g - 1), VU, [EvAcc KFas obj_cnt true]).
Definition a_ld_cell (s i : nat) : act := fun g => (g, VC (cells g s i), [EvAcc KLd (obj_cell s i) true]).
Definition a_cas_cell (s i : nat) (exp new : cell) : act :=
  fun g => if cell_eqb (cells g s i) exp
           then (set_cell g s i new, VB true exp, [EvAcc KCas (obj_cell s i) true])
           else (g, VB false (cells g s i), [EvAcc KCas (obj_cell s i) false]).
(** retired_.push: load of current_, then *cur = p (plain) ... *)
Definition a_ld_ret (t s : nat) : act := fun g => (add_retired g t s, VU, [EvAcc KLd (obj_ret t) true]).
(** ... store of current_ + 1 *)
Definition a_st_ret (t : nat) : act := fun g => (g, VU, [EvAcc KSt (obj_ret t) true]).

Definition seg_of (v : V) : option nat := match v with VS p => p | _ => None end.
Definition cell_of (v : V) : cell := match v with VC c => c | VB _ c => c | _ => null_cell end.
Definition ok_of (v : V) : bool := match v with VB ok _ => ok | _ => false end.

(** ** Guard::protect on slot (t, j); [None] = out of fuel, [Some p] = the validated pointer *)
Fixpoint protect_loop (fuel : nat) (ld : act) (t j : nat) (pCur : option nat) : prog (option (option nat)) :=
  match fuel with
  | O => Ret None
  | S f =>
      Act (a_st_hp t j (hseg pCur)) (fun _ =>
      Act (a_faa_sync t) (fun _ =>
      Act ld (fun r =>
        if optnat_eqb pCur (seg_of r) then Ret (Some (seg_of r)) else protect_loop f ld t j (seg_of r))))
  end.

Definition protect (fuel : nat) (ld : act) (t j : nat) : prog (option (option nat)) :=
  Act ld (fun r => protect_loop fuel ld t j (seg_of r)).

(** ** spin_lock::lock(); [Some (l, n)] = acquired, with the snapshot of m_List and of the allocator *)
Fixpoint lock_outer (fuel : nat) : prog (option (list nat * nat)) :=
  match fuel with
  | O => Ret None
  | S f => Act a_lock_xchg (fun r =>
             match r with
             | VL false l n => Ret (Some (l, n))
             | _ => lock_inner f
             end)
  end
with lock_inner (fuel : nat) : prog (option (list nat * nat)) :=
  match fuel with
  | O => Ret None
  | S f => Act a_lock_ld (fun r =>
             match r with
             | VL true _ _ => lock_inner f
             | _ => lock_outer f
             end)
  end.

Fixpoint init_cells {R} (s : nat) (idx : list nat) (k : prog R) : prog R :=
  match idx with
  | [] => k
  | i :: r => Act (a_init_cell s i) (fun _ => init_cells s r k)
  end.

Definition last_opt (l : list nat) : option nat :=
  match l with [] => None | _ => Some (last l 0%nat) end.

(** guard.assign( p ) on slot (t, j) for a non-null p, then the rest *)
Definition assign_seg {R} (t j s : nat) (k : prog R) : prog R :=
  Act (a_st_hp t j (HSeg s)) (fun _ => Act (a_faa_sync t) (fun _ => k)).

(** ** create_tail( pTail, guard(t, j) ) with quasi factor qf; result: the new tail segment (never null) *)
Definition create_tail (fuel qf t j : nat) (pTail : option nat) : prog (option nat) :=
  bind (lock_outer fuel) (fun r =>
    match r with
    | None => Ret None
    | Some (l, n) =>
        let fresh :=
          init_cells n (seq 0 qf)
            ((fun k => match l with [] => Act (a_st_head (Some n)) (fun _ => k) | _ => k end)
               (Act (a_push_st_tail n) (fun _ =>
                assign_seg t j n (Act a_unlock (fun _ => Ret (Some n)))))) in
        match last_opt l with
        | Some b =>
            if negb (optnat_eqb pTail (Some b))
            then Act (a_st_tail (Some b)) (fun _ => assign_seg t j b (Act a_unlock (fun _ => Ret (Some b))))
            else fresh
        | None => fresh
        end
    end).

(** ** remove_head( pHead, guard(t, j) ); result: [None] out of fuel, [Some p] the new head (may be null) *)
Definition remove_head (fuel t j : nat) (pHead : nat) : prog (option (option nat)) :=
  bind (lock_outer fuel) (fun r =>
    match r with
    | None => Ret None
    | Some (l, n) =>
        match l with
        | [] =>
            Act (a_st_tail None) (fun _ =>
            Act (a_st_head None) (fun _ =>
            Act (a_st_hp t j HNull) (fun _ =>
            Act a_unlock (fun _ => Ret (Some None)))))
        | f :: rest =>
            if negb (Nat.eqb pHead f)
            then Act (a_st_head (Some f)) (fun _ => assign_seg t j f (Act a_unlock (fun _ => Ret (Some (Some f)))))
            else
              let retire (res : option nat) : prog (option (option nat)) :=
                Act a_unlock (fun _ => Act (a_ld_ret t pHead) (fun _ => Act (a_st_ret t) (fun _ => Ret (Some res)))) in
              match rest with
              | [] =>
                  Act (a_pop_st_hp t j HNull) (fun _ =>
                  Act (a_st_tail None) (fun _ =>
                  Act (a_st_head None) (fun _ => retire None)))
              | f2 :: _ =>
                  Act (a_pop_st_hp t j (HSeg f2)) (fun _ =>
                  Act (a_faa_sync t) (fun _ =>
                  Act (a_st_head (Some f2)) (fun _ => retire (Some f2))))
              end
        end
    end).

(** ** enqueue *)
(** one round of probing segment [s] in the order [ord]; [true] = the item was stored *)
Fixpoint enq_probe (s : nat) (x : item) (ord : list nat) : prog bool :=
  match ord with
  | [] => Ret false
  | i :: r =>
      Act (a_ld_cell s i) (fun c =>
        match cell_of c with
        | (None, false) =>
            Act (a_cas_cell s i null_cell (Some x, false)) (fun b =>
              if ok_of b then Ret true else enq_probe s x r)
        | _ => enq_probe s x r
        end)
  end.

Fixpoint enq_rounds (fuel lfuel qf t : nat) (x : item) (ord : nat -> list nat) (r s : nat) : prog bool :=
  match fuel with
  | O => Ret false
  | S f =>
      bind (enq_probe s x (ord r)) (fun done =>
        if done then Ret true
        else bind (create_tail lfuel qf t 0 (Some s)) (fun ns =>
               match ns with
               | None => Ret false
               | Some s' => enq_rounds f lfuel qf t x ord (S r) s'
               end))
  end.

(** [true] = enqueued, [false] = out of fuel *)
Definition enqueue (fuel qf t : nat) (x : item) (ord : nat -> list nat) : prog bool :=
  bind (protect fuel a_ld_tail t 0) (fun p =>
    match p with
    | None => Ret false
    | Some p0 =>
        bind (match p0 with None => create_tail fuel qf t 0 None | Some s => Ret (Some s) end) (fun s0 =>
          match s0 with
          | None => Ret false
          | Some s =>
              Act a_faa_cnt (fun _ =>
                bind (enq_rounds fuel fuel qf t x ord 0 s) (fun done =>
                  if done then Act (a_st_hp t 0 HNull) (fun _ => Ret true) else Ret false))
          end)
    end).

(** ** dequeue *)
Inductive scan_res := SGot (x : item) | SNone (hadNull : bool).

(** one round of scanning segment [s]; itemGuard = slot (t, 0) *)
Fixpoint deq_scan (t s : nat) (ord : list nat) (hadNull : bool) : prog scan_res :=
  match ord with
  | [] => Ret (SNone hadNull)
  | i :: r =>
      Act (a_ld_cell s i) (fun c =>
        let '(p, m) := cell_of c in
        Act (a_st_hp t 0 (hitem p)) (fun _ =>
        Act (a_faa_sync t) (fun _ =>
          match p with
          | None => deq_scan t s r true
          | Some x =>
              if m then deq_scan t s r hadNull
              else Act (a_cas_cell s i (Some x, false) (Some x, true)) (fun b =>
                     if ok_of b then Ret (SGot x) else deq_scan t s r hadNull)
          end)))
  end.

Inductive rounds_res := RFuel | REmpty | RGot (x : item).

Fixpoint deq_rounds (fuel lfuel t : nat) (ord : nat -> list nat) (r : nat) (ph : option nat) : prog rounds_res :=
  match fuel with
  | O => Ret RFuel
  | S f =>
      match ph with
      | None => Ret REmpty
      | Some s =>
          bind (deq_scan t s (ord r) false) (fun res =>
            match res with
            | SGot x => Act a_fas_cnt (fun _ => Ret (RGot x))
            | SNone true => Ret REmpty
            | SNone false =>
                bind (remove_head lfuel t 1 s) (fun nh =>
                  match nh with
                  | None => Ret RFuel
                  | Some ph' => deq_rounds f lfuel t ord (S r) ph'
                  end)
            end)
      end
  end.

Inductive deq_res := DFuel | DEmpty | DGot (h : hptr).

(** segmentGuard = slot (t, 1), itemGuard = slot (t, 0); the value returned is what the item guard holds *)
Definition dequeue (fuel t : nat) (ord : nat -> list nat) : prog deq_res :=
  bind (protect fuel a_ld_head t 1) (fun p =>
    match p with
    | None => Ret DFuel
    | Some ph =>
        bind (deq_rounds fuel fuel t ord 0 ph) (fun res =>
          match res with
          | RFuel => Ret DFuel
          | REmpty => Act (a_st_hp t 1 HNull) (fun _ => Act (a_st_hp t 0 HNull) (fun _ => Ret DEmpty))
          | RGot _ =>
              Act (a_st_hp t 1 HNull) (fun _ =>
              Act (a_ld_hp t 0) (fun h =>
              Act (a_st_hp t 0 HNull) (fun _ =>
                Ret (DGot (match h with VH x => x | _ => HNull end)))))
          end)
    end).

(** ** client operations *)
Inductive op := OEnq (v : Z) (ord : nat -> list nat) | ODeq (ord : nat -> list nat).

Definition ev_inv_enq (x : item) : ev := let '(t, k, v) := x in EvCli "inv_enq" [v; zn t; zn k].
Definition ev_ret_enq (x : item) : ev := let '(t, k, v) := x in EvCli "ret_enq" [v; zn t; zn k].
Definition ev_inv_deq (t k : nat) : ev := EvCli "inv_deq" [zn t; zn k].
Definition ev_ret_deq_got (t k : nat) (x : item) : ev :=
  let '(t', k', v) := x in EvCli "ret_deq" [zn t; zn k; 1; v; zn t'; zn k'].
Definition ev_ret_deq_empty (t k : nat) : ev := EvCli "ret_deq" [zn t; zn k; 0].

(** one client operation of thread [t], the [k]-th of the thread; the result says whether the thread may go on *)
Definition run_op (fuel qf t k : nat) (o : op) : prog bool :=
  match o with
  | OEnq v ord =>
      Emit [ev_inv_enq (t, k, v)]
        (bind (enqueue fuel qf t (t, k, v) ord) (fun ok =>
           if ok then Emit [ev_ret_enq (t, k, v)] (Ret true)
           else Emit [EvCli "outoffuel" []] (Ret false)))
  | ODeq ord =>
      Emit [ev_inv_deq t k]
        (bind (dequeue fuel t ord) (fun r =>
           match r with
           | DGot (HItem x) => Emit [ev_ret_deq_got t k x] (Ret true)
           | DGot _ => Emit [EvCli "ret_deq_bad" [zn t; zn k]] (Ret false)   (* dequeue() returned a non-item: unreachable *)
           | DEmpty => Emit [ev_ret_deq_empty t k] (Ret true)
           | DFuel => Emit [EvCli "outoffuel" []] (Ret false)
           end))
  end.

Fixpoint run_ops (fuel qf t k : nat) (os : list op) : prog unit :=
  match os with
  | [] => Ret tt
  | o :: r => bind (run_op fuel qf t k o) (fun ok => if ok then run_ops fuel qf t (S k) r else Ret tt)
  end.

Definition thread_prog (fuel qf t : nat) (os : list op) : Conc.thread G V ev :=
  Act a_begin (fun _ => run_ops fuel qf t 0 os).

Fixpoint thread_progs (fuel qf t : nat) (ths : list (list op)) : list (Conc.thread G V ev) :=
  match ths with
  | [] => []
  | os :: r => thread_prog fuel qf t os :: thread_progs fuel qf (S t) r
  end.

Definition init : G :=
  mkG None None [] 0 false (fun _ _ => null_cell) 0 (fun _ _ => HNull) (fun _ => []).

(** [arg] = the constructor argument; the queue works with [ceil2 arg] cells per segment *)
Definition init_cfg (fuel arg : nat) (ths : list (list op)) : Conc.config G V ev :=
  Conc.Cfg init (thread_progs fuel (ceil2 arg) 0 ths) [].

(** ** entry point for the extracted driver *)
(** random2_permutation of length k started at s: (s + j) & (k - 1), j = 0 .. k-1 (k a power of two) *)
Definition rot (k s : nat) : list nat := map (fun j => Nat.modulo (s + j) k) (seq 0 k).
Definition ord_of (k : nat) (starts : list Z) : nat -> list nat :=
  fun r => rot k (Z.to_nat (nth r starts 0)).

Definition decode_op (k : nat) (o : list Z) : option op :=
  match o with
  | 1 :: v :: starts => Some (OEnq v (ord_of k starts))
  | 2 :: starts => Some (ODeq (ord_of k starts))
  | _ => None
  end.

Fixpoint decode_ops (k : nat) (os : list (list Z)) : list op :=
  match os with
  | [] => []
  | o :: r => match decode_op k o with Some x => x :: decode_ops k r | None => decode_ops k r end
  end.

(** cfg = [constructor argument; variant (ignored by the model); loop fuel] *)
Definition run_case (cfg : list Z) (ths : list (list (list Z))) (sched : list nat) (fuel : nat)
  : list (nat * ev) * bool :=
  let arg := Z.to_nat (nth 0 cfg 2) in
  let lfuel := Z.to_nat (nth 2 cfg 1000) in
  let r := Conc.run fuel 0 sched (init_cfg lfuel arg (map (decode_ops (ceil2 arg)) ths)) in
  (Conc.trace (fst r), snd r).
